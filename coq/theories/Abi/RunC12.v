(* Evaluator for the correspondence check of C12.  Runs Abi/EntryModel.v -- with the executable
   Keccak-256 of Base/Keccak.v as the hash and the encoder / decoder models of Abi/EncModel.v and
   Abi/DecModel.v as the data codec -- on the cases written by harness/cmd/c12, compares with what
   pkg/abi did, and evaluates the property oracles of Abi/EntrySpec.v (signature, selector, topic0
   from the canonical spelling; Abi/Spec.v [enc] for call data) on the implementation's outputs. *)
From Coq Require Import String.
From Coq Require Import List NArith ZArith Bool Arith.
From Coq Require Import Init.Byte.
From FFS Require Import Base.Res Base.Bytes Base.Lit Base.Keccak.
From FFS Require Import Abi.Types Abi.Spec Abi.ModelTypes Abi.EntryModel Abi.EntrySpec.
From FFS Require AbiType.Spec Abi.EncModel Abi.DecModel.
Import ListNotations.

(* ---------- compact input language of the case files ---------- *)

Definition S' (s : string) : bytes := ascii_bytes s.

(* a type tree; names are the keyName of top-level parameters / tuple members *)
Inductive dty :=
| DE (e : ekind) (m n : N)
| DFA (len : N) (t : dty)
| DDA (t : dty)
| DTup (l : list (string * dty)).

(* elementarySuffix after default expansion *)
Definition suffix_of (e : ekind) (m n : N) : bytes :=
  match e with
  | EInt | EUInt => AbiType.Spec.dec m
  | EFixed | EUFixed => AbiType.Spec.dec m ++ S' "x" ++ AbiType.Spec.dec n
  | EBytes => if (m =? 0)%N then [] else AbiType.Spec.dec m
  | _ => []
  end.

Fixpoint tc_of (key : bytes) (d : dty) : tcomp :=
  match d with
  | DE e m n => TCElem e (suffix_of e m n) m n key
  | DFA len t => TCFixedArr (Z.of_N len) (tc_of key t) key
  | DDA t => TCDynArr (tc_of key t) key
  | DTup l => TCTuple (map (fun kt : string * dty => tc_of (S' (fst kt)) (snd kt)) l) key
  end.

(* parameter: name, type (None = a type string that does not validate), indexed *)
Inductive dparam := DP (name : string) (t : option dty) (indexed : bool).
Inductive dentry := DEnt (ty : etype) (name : string) (anonymous : bool) (inputs : list dparam).

Definition param_of (p : dparam) : param :=
  match p with DP name t ix => mkParam (option_map (tc_of (S' name)) t) ix end.
Definition entry_of (e : dentry) : entry :=
  match e with DEnt ty name anon inputs => mkEntry ty (S' name) anon (map param_of inputs) end.

(* values; also the projection of value trees coming back from the implementation *)
Inductive dval :=
| DNum (z : Z)
| DBytes (b : bdsl)
| DStr (b : bdsl)
| DFloat (mant exp : Z)
| DList (l : list dval)
| DNilP                      (* nil *ComponentValue *)
| DOther.

(* the value tree walkInput / the decoder build for component [t] from [v] *)
Fixpoint attach (t : tcomp) (v : dval) {struct v} : cval :=
  match v with
  | DNum z => CV (Some t) [] (GBigInt z)
  | DBytes b => CV (Some t) [] (GBytes (bexpand b))
  | DStr b => CV (Some t) [] (GString (bexpand b))
  | DFloat m e => CV (Some t) [] (GBigFloat (BFin m e 64))
  | DList l =>
      match t with
      | TCFixedArr _ c _ | TCDynArr c _ => CV (Some t) (map (attach c) l) GNil
      | TCTuple cs _ =>
          CV (Some t) ((fix go (cs : list tcomp) (l : list dval) {struct l} : list cval :=
                          match cs, l with
                          | c :: cs', x :: l' => attach c x :: go cs' l'
                          | _, _ => []
                          end) cs l) GNil
      | _ => CV (Some t) [] GNil
      end
  | DNilP => CVNil
  | DOther => CV (Some t) [] GOther
  end.

(* does the model's value tree project to [v]?  (components are compared separately, where the
   property is about them) *)
Fixpoint matches (v : dval) (x : cval) {struct v} : bool :=
  match v, x with
  | DNilP, CVNil => true
  | DNum z, CV _ [] (GBigInt z') => (z =? z')%Z
  | DBytes b, CV _ [] (GBytes b') => bytes_eqb (bexpand b) b'
  | DStr b, CV _ [] (GString b') => bytes_eqb (bexpand b) b'
  | DFloat m e, CV _ [] (GBigFloat f) => bfloat_same_value (BFin m e 64) f
  | DList l, CV _ l' GNil =>
      (fix go (l : list dval) (l' : list cval) {struct l} : bool :=
         match l, l' with
         | [], [] => true
         | a :: r, b :: r' => matches a b && go r r'
         | _, _ => false
         end) l l'
  | _, _ => false
  end.

(* spec-side value of a dval (numbers, byte strings, lists) *)
Fixpoint val_of_dval (v : dval) : val :=
  match v with
  | DNum z => VNum z
  | DBytes b | DStr b => VBytes (bexpand b)
  | DList l => VList (map val_of_dval l)
  | _ => VList []
  end.

(* ---------- the model, instantiated ---------- *)

Definition dec_elem (block : bytes) (c : tcomp) (hs hp : Z) : res cval := DecModel.decode_elementary block c hs hp.

Section WithHash.
  Variable H : bytes -> bytes.
  Variable fa : cval -> option (list bytes).
  Definition mSignature := Signature.
  Definition mSelectorBytes := FunctionSelectorBytes H.
  Definition mHashBytes := SignatureHashBytes H.
  Definition mEncodeCallData := EncodeCallData H EncModel.EncodeABIData.
  Definition mDecodeCallData := DecodeCallData H DecModel.DecodeABIData.
  Definition mDecodeEventData := DecodeEventData H DecModel.DecodeABIData dec_elem.
  Definition mParseError := ParseError H DecModel.DecodeABIData.
  Definition mErrorString := ErrorString H DecModel.DecodeABIData fa.
End WithHash.

(* ---------- cases ---------- *)

(* one child of a decoded event: Component.String(), Component.KeyName(), value *)
Inductive dchild := DCh (comp : string) (key : string) (v : dval).

Inductive case :=
(* Signature(): class, text; FunctionSelectorBytes(); SignatureHashBytes() *)
| CSig (e : dentry) (cls : nat) (sig : bdsl) (sel : bdsl) (topic0 : bdsl)
(* EncodeCallData(value tree of v): class, bytes; DecodeCallData(those bytes): class, value;
   [exact]: v is a well-typed value without fixed-point members, so the spec oracles apply *)
| CCall (e : dentry) (v : dval) (exact : bool) (ecls : nat) (enc : bdsl) (dcls : nat) (dec : dval)
(* DecodeCallData(data): class, value *)
| CDec (e : dentry) (data : bdsl) (cls : nat) (dec : dval)
(* DecodeEventData(topics, data): class, children;
   expectation computed by the harness from how it built the log: None = none, Some None = must be
   refused, Some (Some l) = must decode to exactly these argument values;
   [strict = false]: the log cannot come from the EVM for this event (a topic that is not 32 bytes wide,
   surplus topics, trailing data bytes): an implementation may refuse it, only a decoded result is compared *)
| CEvent (e : dentry) (topics : list bdsl) (data : bdsl) (cls : nat) (out : list dchild)
         (expect : option (option (list dval))) (strict : bool)
(* ParseError(data): class (2 = panic), found entry as (name, signature) and value;
   ErrorString(data): text, ok; [fmt]: what the serializer pipeline gives for the returned value;
   expectation: index into (Error(string) :: abi) of the entry that must be found, with its arguments *)
| CErr (abi : list dentry) (data : bdsl) (cls : nat) (found : option (string * string * dval))
       (str : bdsl) (ok : bool) (fmt : option (list bdsl))
       (expect : option (option (N * list dval))).

Definition all_tys (e : entry) : option (list ty) :=
  (fix go (l : list param) : option (list ty) :=
     match l with
     | [] => Some []
     | p :: r => match p_tc p, go r with
                 | Some tc, Some ts => Some (ty_of tc :: ts)
                 | _, _ => None
                 end
     end) (e_inputs e).

Definition res_bytes_match (cls : nat) (b : bytes) (r : res bytes) : bool :=
  match r, cls with
  | Ok b', 0%nat => bytes_eqb b b'
  | Err _, 1%nat => true
  | Panic, 2%nat => true
  | _, _ => false
  end.

Definition res_val_match (cls : nat) (v : dval) (r : res cval) : bool :=
  match r, cls with
  | Ok x, 0%nat => matches v x
  | Err _, 1%nat => true
  | Panic, 2%nat => true
  | _, _ => false
  end.

Definition child_matches (d : dchild) (x : cval) : bool :=
  match d, x with
  | DCh comp key v, CV (Some c) _ _ =>
      bytes_eqb (S' comp) (tc_string c) && bytes_eqb (S' key) (tc_key c) && matches v x
  | DCh _ _ DNilP, CVNil => true
  | _, _ => false
  end.

Fixpoint children_match (ds : list dchild) (xs : list cval) : bool :=
  match ds, xs with
  | [], [] => true
  | d :: ds', x :: xs' => child_matches d x && children_match ds' xs'
  | _, _ => false
  end.

Fixpoint dval_eqb (a b : dval) {struct a} : bool :=
  match a, b with
  | DNum x, DNum y => (x =? y)%Z
  | DBytes x, DBytes y | DStr x, DStr y => bytes_eqb (bexpand x) (bexpand y)
  | DFloat m e, DFloat m' e' => bfloat_same_value (BFin m e 64) (BFin m' e' 64)
  | DList l, DList l' =>
      (fix go (l l' : list dval) {struct l} : bool :=
         match l, l' with
         | [], [] => true
         | x :: r, y :: r' => dval_eqb x y && go r r'
         | _, _ => false
         end) l l'
  | DNilP, DNilP => true
  | _, _ => false
  end.
Fixpoint dvals_eqb (a b : list dval) : bool :=
  match a, b with
  | [], [] => true
  | x :: a', y :: b' => dval_eqb x y && dvals_eqb a' b'
  | _, _ => false
  end.

(* result codes: 0 = agree; 1..9 = the model differs from the implementation; >= 10 = the
   implementation fails a property oracle *)
Section Check.
  Variable H : bytes -> bytes.

Definition check_case (c : case) : N :=
  match c with
  | CSig de cls sig sel topic0 =>
      let e := entry_of de in
      let isig := bexpand sig in let isel := bexpand sel in let itop := bexpand topic0 in
      match all_tys e with
      | Some tys =>
          let spec_sig := signature_spec (e_name e) tys in
          if negb ((cls =? 0)%nat && bytes_eqb isig spec_sig) then 10
          else if negb (bytes_eqb isel (selector_spec H (e_name e) tys)) then 11
          else if negb (bytes_eqb itop (topic0_spec H (e_name e) tys)) then 12
          else if negb (res_bytes_match cls isig (mSignature e)) then 1
          else if negb (res_bytes_match 0 isel (mSelectorBytes H e)) then 2
          else if negb (bytes_eqb itop (mHashBytes H e)) then 3
          else 0
      | None =>
          if negb (res_bytes_match cls isig (mSignature e)) then 1
          else if negb (res_bytes_match 0 isel (mSelectorBytes H e)) then 2
          else if negb (bytes_eqb itop (mHashBytes H e)) then 3
          else 0
      end
  | CCall de v exact ecls enc dcls dec =>
      let e := entry_of de in
      let ienc := bexpand enc in
      match TypeComponentTree (e_inputs e), all_tys e with
      | Ok tree, Some tys =>
          let x := attach tree v in
          (* oracle: selector ++ enc((T1..Tn), v) of the specification; decodes back to v *)
          if exact && negb ((ecls =? 0)%nat &&
                            bytes_eqb ienc (selector_spec H (e_name e) tys ++ Abi.Spec.enc (TTuple tys) (val_of_dval v)))
          then 13
          else if exact && negb ((dcls =? 0)%nat && dvals_eqb [v] [dec]) then 14
          else if negb (res_bytes_match ecls ienc (mEncodeCallData H e x)) then 4
          else if (ecls =? 0)%nat && negb (res_val_match dcls dec (mDecodeCallData H e ienc)) then 5
          else 0
      | _, _ =>
          if (ecls =? 1)%nat && is_err (mEncodeCallData H e CVNil) then 0 else 9
      end
  | CDec de data cls dec =>
      let e := entry_of de in
      let d := bexpand data in
      (* oracle: decoded only when the data starts with the entry's own selector *)
      if (cls =? 2)%nat then 19
      else if (cls =? 0)%nat &&
         match all_tys e with
         | Some tys => negb (bytes_eqb (firstn 4 d) (selector_spec H (e_name e) tys) && (4 <=? length d)%nat)
         | None => true
         end then 15
      else if negb (res_val_match cls dec (mDecodeCallData H e d)) then 5
      else 0
  | CEvent de topics data cls out expect strict =>
      let e := entry_of de in
      let tps := map bexpand topics in
      let outv := map (fun d => match d with DCh _ _ v => v end) out in
      if (cls =? 2)%nat then 19
      else if negb strict && (cls =? 1)%nat then 0
      else match expect with
      | Some None => if (cls =? 1)%nat then
                       match mDecodeEventData H e tps (bexpand data) with Err _ => 0 | _ => 6 end
                     else 17
      | Some (Some l) =>
          if negb ((cls =? 0)%nat && dvals_eqb l outv) then 16
          else match mDecodeEventData H e tps (bexpand data) with
               | Ok (CV _ xs GNil) => if children_match out xs then 0 else 6
               | _ => 6
               end
      | None =>
          match mDecodeEventData H e tps (bexpand data), cls with
          | Ok (CV _ xs GNil), 0%nat => if children_match out xs then 0 else 6
          | Err _, 1%nat => 0
          | _, _ => 6
          end
      end
  | CErr dabi data cls found str ok fmt expect =>
      let a := map entry_of dabi in
      let d := bexpand data in
      let fa := fun _ : cval => option_map (map bexpand) fmt in
      if (cls =? 2)%nat then 19
      else
      (* oracle: attributed to the expected definition, with the expected arguments *)
      if match expect with
         | Some None => match found with None => false | Some _ => true end
         | Some (Some (i, args)) =>
             match found, nth_error (default_error :: a) (N.to_nat i) with
             | Some (nm, sg, v), Some ex =>
                 negb (bytes_eqb (S' nm) (e_name ex) && dvals_eqb [DList args] [v] &&
                       match all_tys ex with
                       | Some tys => bytes_eqb (S' sg) (signature_spec (e_name ex) tys)
                       | None => false
                       end)
             | _, _ => true
             end
         | None => false
         end then 18
      else
      match mParseError H a d, found with
      | Ok None, None =>
          match mErrorString H fa a d with
          | Ok (s, k) => if bytes_eqb s (bexpand str) && Bool.eqb k ok then 0 else 8
          | _ => 8
          end
      | Ok (Some (ex, x)), Some (nm, sg, v) =>
          if negb (bytes_eqb (S' nm) (e_name ex) && res_bytes_match 0 (S' sg) (mSignature ex) && matches v x) then 7
          else match mErrorString H fa a d with
               | Ok (s, k) => if bytes_eqb s (bexpand str) && Bool.eqb k ok then 0 else 8
               | _ => 8
               end
      | _, _ => 7
      end
  end.

End Check.

(* The hash enters a case as a finite table filled by the harness from golang.org/x/crypto/sha3
   directly: (message, digest) for the signature of every entry of the case.  A message missing from
   the table hashes to the empty string, which no comparison accepts.  For the signature cases every
   table entry is re-computed with the Keccak-256 of Base/Keccak.v. *)
Definition tabH (t : list (bytes * bytes)) (m : bytes) : bytes :=
  match find (fun p => bytes_eqb (fst p) m) t with
  | Some p => snd p
  | None => []
  end.

(* [HSeq tab steps]: observations made one after the other on ONE set of parsed objects of the
   implementation (the same abi.Entry / abi.ABI for all steps, harness/cmd/c12/seq.go).  The model is a
   function of the entry definition, so every step is checked exactly like a stand-alone case: an
   implementation whose answer depends on what was asked before fails the step where it deviates.
   The result is the code of the first failing step. *)
Inductive hcase :=
| HC (tab : list (bdsl * bdsl)) (c : case)
| HSeq (tab : list (bdsl * bdsl)) (steps : list case).

Fixpoint first_code (H : bytes -> bytes) (l : list case) : N :=
  match l with
  | [] => 0
  | c :: t => let r := check_case H c in if (r =? 0)%N then first_code H t else r
  end.

Definition check_hcase (hc : hcase) : N :=
  match hc with
  | HC tab c =>
      let t := map (fun p : bdsl * bdsl => (bexpand (fst p), bexpand (snd p))) tab in
      if match c with CSig _ _ _ _ _ => negb (forallb (fun p => bytes_eqb (keccak256 (fst p)) (snd p)) t) | _ => false end
      then 20
      else check_case (tabH t) c
  | HSeq tab steps =>
      let t := map (fun p : bdsl * bdsl => (bexpand (fst p), bexpand (snd p))) tab in
      first_code (tabH t) steps
  end.

Fixpoint mismatches_go (i : N) (l : list hcase) : list (N * N) :=
  match l with
  | [] => []
  | c :: t => let r := check_hcase c in
              if (r =? 0)%N then mismatches_go (i + 1) t else (i, r) :: mismatches_go (i + 1) t
  end.
Definition mismatches (l : list hcase) : list (N * N) := firstn 20 (mismatches_go 0 l).

(* ---------- self-checks of the evaluator ---------- *)
Example run_transfer_selector :
  mSelectorBytes keccak256 (entry_of (DEnt TyFunction "transfer" false
     [DP "recipient" (Some (DE EAddress 160 0)) false; DP "amount" (Some (DE EUInt 256 0)) false]))
  = Ok (unhex "a9059cbb").
Proof. vm_compute. reflexivity. Qed.

Example run_transfer_event_topic0 :
  mHashBytes keccak256 (entry_of (DEnt TyEvent "Transfer" false
     [DP "from" (Some (DE EAddress 160 0)) true; DP "to" (Some (DE EAddress 160 0)) true;
      DP "value" (Some (DE EUInt 256 0)) false]))
  = unhex "ddf252ad1be2c89b69c2b068fc378daa952ba7f163c4a11628f55a4df523b3ef".
Proof. vm_compute. reflexivity. Qed.
