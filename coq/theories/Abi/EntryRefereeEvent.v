(* C12, answers to the referee report, part 2 (issue 2): "the emitted log decodes to the emitted
   values", with the Solidity encoding of the specification (Abi/Spec.v: enc) and the decoder model of
   C03 (Abi/DecModel.v, theorem DecProofs4.DecodeABIData_enc imported read-only) plugged into the
   general acceptance theorem EntryReferee.event_accept.

   The log of an event with inputs (T1 [indexed] a1, ..., Tn [indexed] an) emitted with values x1..xn:
     topics = [hash of the signature, unless anonymous]
              ++ for every indexed input in order: enc(Ti, xi) when Ti is a value type (one word),
                 otherwise a 32-byte hash -- any bytes [hi] here, the decoder cannot look inside
     data   = enc((Tj...), (xj...)) over the non-indexed inputs, in order. *)
From Coq Require Import List NArith ZArith Lia Bool Arith.
From Coq Require Import Init.Byte.
From FFS Require Import Base.Res Base.Bytes Abi.Types Abi.ModelTypes Abi.EntryModel Abi.EntrySpec.
From FFS Require Import Abi.EntryProofs Abi.EntryProofsEvent Abi.EntryInst Abi.EntryReferee.
From FFS Require Abi.Spec Abi.DecModel Abi.DecSpec Abi.DecProofs2 Abi.DecProofs3 Abi.DecProofs4.
Import ListNotations.

(* one emitted argument: its value and -- used only for an indexed argument of a non-value type --
   the content of its topic *)
Definition emitted := (Spec.val * bytes)%type.

Definition arg_topic (tc : tcomp) (a : emitted) : bytes :=
  if topic_is_value (ty_of tc) then Spec.enc (ty_of tc) (fst a) else snd a.
(* what the decoder is expected to return for an indexed argument *)
Definition arg_topic_value (tc : tcomp) (a : emitted) : cval :=
  if topic_is_value (ty_of tc) then DecSpec.cv_of tc (fst a) else raw_topic_value (snd a) tc.

Fixpoint log_topics (l : ins) (args : list emitted) : list bytes :=
  match l, args with
  | (tc, true) :: r, a :: ar => arg_topic tc a :: log_topics r ar
  | (_, false) :: r, _ :: ar => log_topics r ar
  | _, _ => []
  end.
Fixpoint log_data_vals (l : ins) (args : list emitted) : list Spec.val :=
  match l, args with
  | (_, true) :: r, _ :: ar => log_data_vals r ar
  | (_, false) :: r, a :: ar => fst a :: log_data_vals r ar
  | _, _ => []
  end.
Definition log_data (l : ins) (args : list emitted) : bytes :=
  Spec.enc (TTuple (map ty_of (data_args l))) (Spec.VList (log_data_vals l args)).
(* the expected children of the decoded tree, in declaration order *)
Fixpoint log_children (l : ins) (args : list emitted) : list cval :=
  match l, args with
  | (tc, true) :: r, a :: ar => arg_topic_value tc a :: log_children r ar
  | (tc, false) :: r, a :: ar => DecSpec.cv_of tc (fst a) :: log_children r ar
  | _, _ => []
  end.

(* C03's quantifier for one indexed value-type argument *)
Definition topic_guard (tc : tcomp) (x : Spec.val) : bool :=
  tc_wf tc && tc_no_fixed_point tc && Spec.well_typed (ty_of tc) x.
Fixpoint topics_guard (l : ins) (args : list emitted) : bool :=
  match l, args with
  | (tc, true) :: r, a :: ar =>
      (if topic_is_value (ty_of tc) then topic_guard tc (fst a) else true) && topics_guard r ar
  | (_, false) :: r, _ :: ar => topics_guard r ar
  | _, _ => true
  end.

(* a value type is elementary *)
Lemma topic_is_value_elem tc : topic_is_value (ty_of tc) = true ->
  match tc with TCElem _ _ _ _ _ => True | _ => False end.
Proof. destruct tc; cbn [ty_of topic_is_value]; try discriminate; intros _; exact I. Qed.

(* its encoding is one word *)
Lemma value_enc_length t x :
  topic_is_value t = true -> Spec.well_typed t x = true -> length (Spec.enc t x) = 32%nat.
Proof.
  destruct t; cbn [topic_is_value]; try discriminate; intros _;
    destruct x as [z|b|l]; cbn [Spec.well_typed Spec.enc]; try discriminate; intros Hw;
    try apply DecProofs2.word_length.
  apply Nat.eqb_eq in Hw. unfold Spec.pad_right. rewrite app_length, repeat_length, Hw. reflexivity.
Qed.

Lemma value_static t : topic_is_value t = true -> dynamic t = false.
Proof. destruct t; cbn [topic_is_value dynamic]; try discriminate; reflexivity. Qed.

(* the one-member tuple of a static type is encoded as the member *)
Lemma enc_singleton t x : dynamic t = false -> Spec.enc (TTuple [t]) (Spec.VList [x]) = Spec.enc t x.
Proof.
  intros Hd. rewrite DecProofs3.enc_tuple. cbn [DecProofs3.tuple_items]. rewrite Hd.
  unfold Spec.head_tail, Spec.tails. cbn [Spec.heads flat_map fst snd app]. rewrite !app_nil_r. reflexivity.
Qed.

(* an indexed value: the topic enc(T, x) decodes to the tree of x (C03's theorem on a one-word block) *)
Lemma topic_value_decodes tc x :
  topic_is_value (ty_of tc) = true -> topic_guard tc x = true ->
  DecModel.decode_elementary (Spec.enc (ty_of tc) x) tc 0%Z 0%Z = Ok (DecSpec.cv_of tc x).
Proof.
  intros Hv Hg. unfold topic_guard in Hg. apply andb_prop in Hg as [Hg Hwt]. apply andb_prop in Hg as [Hwf Hnf].
  unfold tc_wf in Hwf. apply andb_prop in Hwf as [Hcons Hwfty].
  pose proof (topic_is_value_elem tc Hv) as Helem.
  assert (Hnz : tc_no_zero_len tc = true) by (destruct tc; try contradiction; reflexivity).
  assert (Hcnt : DecProofs3.counts_ok x = true).
  { destruct tc as [e s m n k| | |]; try contradiction. destruct x as [z|b|l]; try reflexivity.
    exfalso. cbn [ty_of] in Hwt. destruct e; try destruct (m =? 0)%N; cbn [Spec.well_typed] in Hwt; discriminate. }
  pose proof (DecProofs4.DecodeABIData_enc [tc] [] (Spec.VList [x]) [] []) as Hdec. cbv zeta in Hdec.
  cbn [ty_of map] in Hdec. rewrite (enc_singleton _ x (value_static _ Hv)) in Hdec.
  cbn [app] in Hdec. rewrite app_nil_r in Hdec.
  assert (Hdec' : DecModel.DecodeABIData (TCTuple [tc] []) (Spec.enc (ty_of tc) x) 0%Z =
                  Ok (DecSpec.cv_of (TCTuple [tc] []) (Spec.VList [x]))).
  { apply Hdec.
    - cbn [tc_consistent forallb]. rewrite Hcons. reflexivity.
    - cbn [wf_ty forallb]. rewrite Hwfty. reflexivity.
    - cbn [tc_no_fixed_point forallb]. rewrite Hnf. reflexivity.
    - cbn [tc_no_zero_len forallb]. rewrite Hnz. reflexivity.
    - rewrite DecProofs3.well_typed_tuple. cbn [DecProofs3.tuple_wt]. rewrite Hwt. reflexivity.
    - unfold DecModel.zlen. rewrite (value_enc_length _ _ Hv Hwt). reflexivity.
    - cbn [DecProofs3.counts_ok forallb length]. rewrite Hcnt. reflexivity. }
  rewrite (topic_decode_is_tuple_decode _ tc Helem) in Hdec'.
  rewrite DecProofs3.cv_of_tuple in Hdec'. cbn [DecProofs3.tuple_cvs] in Hdec'.
  destruct (DecModel.decode_elementary (Spec.enc (ty_of tc) x) tc 0%Z 0%Z) as [v| |]; cbn [bind] in Hdec'; try discriminate.
  injection Hdec' as ->. reflexivity.
Qed.

Fixpoint topic_values (l : ins) (args : list emitted) : list cval :=
  match l, args with
  | (tc, true) :: r, a :: ar => arg_topic_value tc a :: topic_values r ar
  | (_, false) :: r, _ :: ar => topic_values r ar
  | _, _ => []
  end.

Lemma log_topics_values_length l : forall args, length (log_topics l args) = length (topic_values l args).
Proof.
  induction l as [|[tc [|]] r IH]; intros [|a ar]; cbn [log_topics topic_values length]; try reflexivity.
  - rewrite IH. reflexivity.
  - apply IH.
Qed.

Lemma log_topics_yield l : forall args, length args = length l -> topics_guard l args = true ->
  Forall2 (fun tc tv => topic_yields DecModel.decode_elementary tc (fst tv) (snd tv))
          (indexed_args l) (combine (log_topics l args) (topic_values l args)).
Proof.
  induction l as [|[tc [|]] r IH]; intros [|a ar] Hl Hg; try discriminate;
    unfold indexed_args; cbn [filter snd map fst log_topics topic_values combine].
  - constructor.
  - cbn [topics_guard] in Hg. apply andb_prop in Hg as [Hg1 Hg2]. constructor.
    + cbn [fst snd]. unfold topic_yields, arg_topic, arg_topic_value.
      destruct (topic_is_value (ty_of tc)) eqn:Ev; [|reflexivity].
      apply topic_value_decodes; assumption.
    + apply IH; [cbn in Hl; lia|exact Hg2].
  - apply IH; [cbn in Hl; lia|exact Hg].
Qed.

Lemma weave_children l : forall args, length args = length l ->
  weave (map snd l) (topic_values l args) (DecProofs3.tuple_cvs (data_args l) (log_data_vals l args)) = log_children l args.
Proof.
  induction l as [|[tc [|]] r IH]; intros [|a ar] Hl; try discriminate; [reflexivity| |].
  - cbn [map snd topic_values weave log_children]. f_equal.
    unfold data_args. cbn [filter snd negb log_data_vals]. apply IH. cbn in Hl; lia.
  - unfold data_args. cbn [map snd fst filter negb topic_values log_data_vals DecProofs3.tuple_cvs weave log_children].
    f_equal. apply IH. cbn in Hl; lia.
Qed.

Lemma data_vals_length l : forall args, length args = length l -> length (log_data_vals l args) = length (data_args l).
Proof.
  induction l as [|[tc [|]] r IH]; intros [|a ar] Hl; try discriminate; [reflexivity| |];
    unfold data_args; cbn [filter snd negb map log_data_vals length].
  - apply IH. cbn in Hl; lia.
  - f_equal. apply IH. cbn in Hl; lia.
Qed.

Lemma tuple_cvs_length cs : forall vs, length vs = length cs -> length (DecProofs3.tuple_cvs cs vs) = length cs.
Proof.
  induction cs as [|c r IH]; intros [|v vs] Hl; try discriminate; [reflexivity|].
  cbn [DecProofs3.tuple_cvs length]. f_equal. apply IH. cbn in Hl; lia.
Qed.

(* C12_event_roundtrip_codec *)
Theorem event_roundtrip_codec (H : bytes -> bytes) :
  forall (e : entry) (cs : list tcomp) (args : list emitted) (extra : list bytes),
    tree_children (e_inputs e) = Ok cs ->
    let l := zip_inputs cs (e_inputs e) in
    length args = length cs ->
    topics_guard l args = true ->
    let dt := TCTuple (data_args l) [] in
    let dv := Spec.VList (log_data_vals l args) in
    tc_wf dt = true -> tc_no_fixed_point dt = true -> tc_no_zero_len dt = true ->
    Spec.well_typed (ty_of dt) dv = true ->
    (DecModel.zlen (Spec.enc (ty_of dt) dv) < 2 ^ 32)%Z -> DecProofs3.counts_ok dv = true ->
    DecodeEventData H DecModel.DecodeABIData DecModel.decode_elementary e
      ((if e_anonymous e then [] else [SignatureHashBytes H e]) ++ log_topics l args ++ extra) (log_data l args)
    = Ok (CV (Some (TCTuple cs [])) (log_children l args) GNil).
Proof.
  intros e cs args extra Hc l Hl Hg dt dv Hwf Hnf Hnz Hwt Hsz Hcnt.
  assert (Hll : length args = length l) by (unfold l; rewrite (zip_inputs_length cs (e_inputs e) Hc); exact Hl).
  rewrite <- (weave_children l args Hll).
  unfold tc_wf in Hwf. apply andb_prop in Hwf as [Hcons Hwfty].
  pose proof (DecProofs4.DecodeABIData_enc (data_args l) [] dv [] [] Hcons Hwfty Hnf Hnz Hwt Hsz Hcnt) as Hdec.
  cbn [app] in Hdec. rewrite app_nil_r in Hdec. unfold dv in Hdec. rewrite DecProofs3.cv_of_tuple in Hdec.
  pose proof (event_accept H DecModel.DecodeABIData DecModel.decode_elementary e cs
                (log_topics l args) (topic_values l args) extra (log_data l args)
                (Some (TCTuple (data_args l) [])) (DecProofs3.tuple_cvs (data_args l) (log_data_vals l args)) GNil Hc) as Ha.
  cbv zeta in Ha. rewrite <- (zip_inputs_snd cs (e_inputs e) Hc) in Ha. fold l in Ha. apply Ha.
  - apply log_topics_values_length.
  - apply log_topics_yield; assumption.
  - right. split; [exact Hdec|]. apply tuple_cvs_length. apply data_vals_length. exact Hll.
Qed.

(* the same with Keccak-256 of Base/Keccak.v as the hash and the signature topic written out:
   topics[0] = keccak256("Name(canonical types)") *)
From FFS Require Import Base.Keccak.

Theorem event_roundtrip_keccak :
  forall (e : entry) (cs : list tcomp) (args : list emitted) (extra : list bytes),
    tree_children (e_inputs e) = Ok cs -> all_suffix_canonical cs ->
    let l := zip_inputs cs (e_inputs e) in
    length args = length cs ->
    topics_guard l args = true ->
    let dt := TCTuple (data_args l) [] in
    let dv := Spec.VList (log_data_vals l args) in
    tc_wf dt = true -> tc_no_fixed_point dt = true -> tc_no_zero_len dt = true ->
    Spec.well_typed (ty_of dt) dv = true ->
    (DecModel.zlen (Spec.enc (ty_of dt) dv) < 2 ^ 32)%Z -> DecProofs3.counts_ok dv = true ->
    DecodeEventData keccak256 DecModel.DecodeABIData DecModel.decode_elementary e
      ((if e_anonymous e then [] else [keccak256 (signature_spec (e_name e) (map ty_of cs))])
       ++ log_topics l args ++ extra) (log_data l args)
    = Ok (CV (Some (TCTuple cs [])) (log_children l args) GNil).
Proof.
  intros e cs args extra Hc Hs l Hl Hg dt dv Hwf Hnf Hnz Hwt Hsz Hcnt.
  destruct (topic0_is_spec keccak256 e cs Hc Hs) as [_ Ht0]. unfold topic0_spec in Ht0. rewrite <- Ht0.
  exact (event_roundtrip_codec keccak256 e cs args extra Hc Hl Hg Hwf Hnf Hnz Hwt Hsz Hcnt).
Qed.

(* call data with Keccak-256: selector = first four bytes of keccak256("name(canonical types)") *)
From FFS Require Abi.EncModel Abi.EncProofs3 Abi.EntryInstC03.

Theorem calldata_roundtrip_keccak :
  forall (e : entry) (cs : list tcomp) (x : cval),
    tree_children (e_inputs e) = Ok cs -> all_suffix_canonical cs ->
    let tc := TCTuple cs [] in
    tc_wf tc = true -> tc_no_fixed_point tc = true -> tc_no_zero_len tc = true ->
    typed_as tc x = true -> EncProofs3.values_ok x = true ->
    Spec.well_typed (ty_of tc) (val_of x) = true -> EncProofs3.weight_ok (val_of x) ->
    (DecModel.zlen (Spec.enc (ty_of tc) (val_of x)) < 2 ^ 32)%Z -> DecProofs3.counts_ok (val_of x) = true ->
    let b := firstn 4 (keccak256 (signature_spec (e_name e) (map ty_of cs))) ++
             Spec.enc (TTuple (map ty_of cs)) (val_of x) in
    EncodeCallData keccak256 EncModel.EncodeABIData e x = Ok b /\
    DecodeCallData keccak256 DecModel.DecodeABIData e b = Ok (DecSpec.cv_of tc (val_of x)).
Proof.
  intros e cs x Ht Hs tc Hwf Hnf Hnz Hty Hv Hwt Hw Hsz Hc b.
  destruct (EntryInstC03.calldata_roundtrip_codec keccak256 keccak256_length e cs x Ht Hs Hwf Hnf Hnz Hty Hv Hwt Hw Hsz Hc)
    as (b' & He & -> & Hd).
  split; [exact He|exact Hd].
Qed.
