(* C03: answers to the referee's review of the statements (design/reviews/C03.md), proofs.
   Issue 1: the theorems restated with the faithful json.Marshal view (SerializeJSON_go) under the
            explicit guard [cval_utf8]; refutation for a string that is not valid UTF-8.
   Issue 2: refutation of the object-mode clause when effective member names collide.
   Issue 3: base64 read back by the independent RFC 4648 decoder (Base64Dec.v); EIP-55 test vectors
            with the concrete Keccak-256.
   Issue 4: what JSONNumberIntSerializer emits.
   Issue 5: decode -> serialize -> parse -> encode as one statement. *)
From Coq Require Import List NArith ZArith Bool Lia String.
From Coq Require Import Init.Byte.
From FFS Require Import Base.Res Base.Bytes Base.Keccak Abi.Types Abi.Spec Abi.ModelTypes Abi.Render.
From FFS Require Import Abi.DecModel Abi.DecSpec Abi.SerModel Abi.SerSpec.
From FFS Require Import Abi.DecProofs2 Abi.DecProofs3 Abi.DecProofs4 Abi.SerProofs Abi.SerProofs2 Abi.SerProofs3.
From FFS Require Import Abi.InputModel Abi.EncProofs3 Abi.SerRoundTrip Abi.SerRoundTripC19.
From FFS Require Import Abi.SerWire Abi.SerWireProofs Abi.Base64Dec.
From FFS Require EthTypes.Model.
Import ListNotations.
Local Open Scope Z_scope.

Notation dn := NumericDefaultNameGenerator.

(* ---------- issue 1: the statements with the faithful json.Marshal view ---------- *)
Theorem serialize_go_denotes :
  forall (H : bytes -> bytes), (forall x, List.length (H x) = 32%nat) ->
  forall (fs : bfloat -> jv) (s : serializer), ts s <> FormatOther ->
  forall (c : tcomp) (v : val), ser_ok s c = true -> well_typed (ty_of c) v = true ->
    cval_utf8 (cv_of c v) = true ->
    exists j, SerializeJSON_go H fs dn s (cv_of c v) = Ok j /\ denotes H s c v j = true.
Proof.
  intros H HL fs s Hm c v Hok Hwt Hu. rewrite SerializeJSON_go_same by exact Hu.
  exact (serialize_denotes H HL fs s Hm c v Hok Hwt).
Qed.

Theorem json_roundtrip_go_c19 :
  forall (H : bytes -> bytes), (forall x, List.length (H x) = 32%nat) ->
  forall (fs : bfloat -> jv) (s : serializer),
    ts s = FormatAsFlatArrays \/ ts s = FormatAsObjects ->
    bs s <> Base64ByteSerializer ->
  forall (children : list tcomp) (v : val),
    let c := root_of children in
    ser_ok s c = true -> widths_ok c = true -> tc_wf c = true -> tc_no_zero_len c = true ->
    well_typed (ty_of c) v = true -> weight_ok v -> cval_utf8 (cv_of c v) = true ->
    exists j, SerializeJSON_go H fs dn s (cv_of c v) = Ok j /\
              EncodeABIDataValues EthTypes.Model.BigIntegerFromString children (ext_of j) = Ok (enc (ty_of c) v).
Proof.
  intros H HL fs s Hm Hb children v c Hok Hw Hwf Hz Hwt Hwe Hu. rewrite SerializeJSON_go_same by exact Hu.
  exact (json_roundtrip_c19 H HL fs s Hm Hb children v Hok Hw Hwf Hz Hwt Hwe).
Qed.

(* ---------- issue 5: clause E literally: from the bytes, through the decoder's output ---------- *)
Theorem decode_serialize_parse_encode :
  forall (H : bytes -> bytes), (forall x, List.length (H x) = 32%nat) ->
  forall (fs : bfloat -> jv) (s : serializer),
    ts s = FormatAsFlatArrays \/ ts s = FormatAsObjects ->
    bs s <> Base64ByteSerializer ->
  forall (children : list tcomp) (v : val) (pre post : bytes),
    let c := root_of children in
    ser_ok s c = true -> widths_ok c = true -> tc_wf c = true -> tc_no_zero_len c = true ->
    well_typed (ty_of c) v = true -> weight_ok v -> cval_utf8 (cv_of c v) = true ->
    zlen (enc (ty_of c) v) < 2 ^ 32 -> counts_ok v = true ->
    exists x j, DecodeABIData c (pre ++ enc (ty_of c) v ++ post) (zlen pre) = Ok x /\
                SerializeJSON_go H fs dn s x = Ok j /\
                EncodeABIDataValues EthTypes.Model.BigIntegerFromString children (ext_of j) = Ok (enc (ty_of c) v).
Proof.
  intros H HL fs s Hm Hb children v pre post c Hok Hw Hwf Hz Hwt Hwe Hu Hsz Hcnt.
  destruct (json_roundtrip_go_c19 H HL fs s Hm Hb children v Hok Hw Hwf Hz Hwt Hwe Hu) as [j [Hj He]].
  exists (cv_of c v), j. split; [|split; assumption].
  pose proof Hok as Hok'. unfold ser_ok in Hok'. rewrite !andb_true_iff in Hok'.
  destruct Hok' as [[[[H1 H2] H3] _] _].
  apply DecodeABIData_enc; assumption.
Qed.

(* the implication form the referee asked for: whatever the decoder returned and the serializer wrote *)
Theorem decode_serialize_parse_encode_any :
  forall (H : bytes -> bytes), (forall x, List.length (H x) = 32%nat) ->
  forall (fs : bfloat -> jv) (s : serializer),
    ts s = FormatAsFlatArrays \/ ts s = FormatAsObjects ->
    bs s <> Base64ByteSerializer ->
  forall (children : list tcomp) (v : val) (pre post : bytes),
    let c := root_of children in
    ser_ok s c = true -> widths_ok c = true -> tc_wf c = true -> tc_no_zero_len c = true ->
    well_typed (ty_of c) v = true -> weight_ok v -> cval_utf8 (cv_of c v) = true ->
    zlen (enc (ty_of c) v) < 2 ^ 32 -> counts_ok v = true ->
    forall x j, DecodeABIData c (pre ++ enc (ty_of c) v ++ post) (zlen pre) = Ok x ->
                SerializeJSON_go H fs dn s x = Ok j ->
                EncodeABIDataValues EthTypes.Model.BigIntegerFromString children (ext_of j) = Ok (enc (ty_of c) v).
Proof.
  intros H HL fs s Hm Hb children v pre post c Hok Hw Hwf Hz Hwt Hwe Hu Hsz Hcnt x j Hx Hj.
  destruct (decode_serialize_parse_encode H HL fs s Hm Hb children v pre post Hok Hw Hwf Hz Hwt Hwe Hu Hsz Hcnt)
    as [x' [j' [Hx' [Hj' He]]]].
  fold c in Hx'. rewrite Hx in Hx'. injection Hx' as <-. rewrite Hj in Hj'. injection Hj' as <-. exact He.
Qed.

(* the same with the concrete Keccak-256 of Base/Keccak.v: no hypothesis about the hash left *)
Theorem decode_serialize_parse_encode_keccak :
  forall (fs : bfloat -> jv) (s : serializer),
    ts s = FormatAsFlatArrays \/ ts s = FormatAsObjects ->
    bs s <> Base64ByteSerializer ->
  forall (children : list tcomp) (v : val) (pre post : bytes),
    let c := root_of children in
    ser_ok s c = true -> widths_ok c = true -> tc_wf c = true -> tc_no_zero_len c = true ->
    well_typed (ty_of c) v = true -> weight_ok v -> cval_utf8 (cv_of c v) = true ->
    zlen (enc (ty_of c) v) < 2 ^ 32 -> counts_ok v = true ->
    exists x j, DecodeABIData c (pre ++ enc (ty_of c) v ++ post) (zlen pre) = Ok x /\
                SerializeJSON_go keccak256 fs dn s x = Ok j /\
                EncodeABIDataValues EthTypes.Model.BigIntegerFromString children (ext_of j) = Ok (enc (ty_of c) v).
Proof. exact (decode_serialize_parse_encode keccak256 keccak256_length). Qed.

Theorem serialize_go_denotes_keccak :
  forall (fs : bfloat -> jv) (s : serializer), ts s <> FormatOther ->
  forall (c : tcomp) (v : val), ser_ok s c = true -> well_typed (ty_of c) v = true ->
    cval_utf8 (cv_of c v) = true ->
    exists j, SerializeJSON_go keccak256 fs dn s (cv_of c v) = Ok j /\ denotes keccak256 s c v j = true.
Proof. exact (serialize_go_denotes keccak256 keccak256_length). Qed.

(* ---------- issue 1: refutation without the guard ---------- *)
(* type (string), value the single byte ff: every guard of C03_serialize_denotes / C03_json_roundtrip_c19
   holds, json.Marshal writes U+FFFD, the document does not denote the value, and reading it back
   encodes the three bytes ef bf bd instead of ff *)
Definition bad_children : list tcomp := [TCElem EString [] 0 0 []].
Definition bad_value : val := VList [VBytes [xff]].

Theorem invalid_utf8_refuted :
  forall (H : bytes -> bytes) (fs : bfloat -> jv) (s : serializer), ts s <> FormatOther ->
    let c := root_of bad_children in
    ser_ok s c = true /\ widths_ok c = true /\ tc_wf c = true /\ tc_no_zero_len c = true /\
    well_typed (ty_of c) bad_value = true /\ cval_utf8 (cv_of c bad_value) = false /\
    exists j, SerializeJSON_go H fs dn s (cv_of c bad_value) = Ok j /\ denotes H s c bad_value j = false /\
              EncodeABIDataValues EthTypes.Model.BigIntegerFromString bad_children (ext_of j) <> Ok (enc (ty_of c) bad_value).
Proof.
  intros H fs [t i b a] Hm. cbn [ts] in Hm.
  destruct t; try (exfalso; apply Hm; reflexivity);
    (do 5 (split; [vm_compute; reflexivity|])); (split; [vm_compute; reflexivity|]);
    eexists; (split; [vm_compute; reflexivity|]); (split; [vm_compute; reflexivity|]);
    vm_compute; discriminate.
Qed.

(* ---------- issue 2: object mode with colliding effective names ---------- *)
(* (uint256 a, uint256 a) and (uint8, uint8 "0"): every part of [ser_ok] but [names_distinct] holds; the Go
   map assignment overwrites, one value is lost and the document does not denote the value *)
Definition obj_ser : serializer :=
  {| ts := FormatAsObjects; is_ := Base10StringIntSerializer; bs := HexByteSerializer; ad := None |}.
Definition dup_tuple : tcomp :=
  TCTuple [TCElem EUInt [x32; x35; x36] 256 0 [x61]; TCElem EUInt [x32; x35; x36] 256 0 [x61]] [].
Definition idx_tuple : tcomp :=
  TCTuple [TCElem EUInt [x38] 8 0 [x31]; TCElem EUInt [x38] 8 0 []] [].

Definition collision_facts (H : bytes -> bytes) (fs : bfloat -> jv) (c : tcomp) (v : val) (j : jv) : Prop :=
  tc_consistent c = true /\ wf_ty (ty_of c) = true /\ tc_no_fixed_point c = true /\ tc_canonical c = true /\
  names_distinct c = false /\ ser_ok obj_ser c = false /\ well_typed (ty_of c) v = true /\
  cval_utf8 (cv_of c v) = true /\
  SerializeJSON H fs dn obj_ser (cv_of c v) = Ok j /\ SerializeJSON_go H fs dn obj_ser (cv_of c v) = Ok j /\
  denotes H obj_ser c v j = false.

Theorem object_collision_refuted :
  forall (H : bytes -> bytes) (fs : bfloat -> jv),
    collision_facts H fs dup_tuple (VList [VNum 1; VNum 2]) (JObj [([x61], JStr [x32])]) /\
    collision_facts H fs idx_tuple (VList [VNum 1; VNum 2]) (JObj [([x31], JStr [x32])]).
Proof.
  intros H fs. split; unfold collision_facts; repeat split; vm_compute; reflexivity.
Qed.

(* ---------- issue 4: the always-number serializer ---------- *)
Lemma json_number_serialized H fs d s l e su m n k i :
  is_ s = JSONNumberIntSerializer -> (e = EInt \/ e = EUInt) ->
  SerializeJSON H fs d s (CV (Some (TCElem e su m n k)) l (GBigInt i)) = Ok (JNumber (Z_dec i)) /\
  SerializeJSON_go H fs d s (CV (Some (TCElem e su m n k)) l (GBigInt i)) = Ok (JNumber (Z_dec i)).
Proof.
  intros Hs He. unfold SerializeJSON, SerializeJSON_go. cbn [walkOutput].
  destruct He as [-> | ->]; cbn [serializeElementaryType bind]; rewrite Hs; split; reflexivity.
Qed.

(* ---------- issue 3: base64 leaves are read back by the independent decoder ---------- *)
Lemma denotes_bytes_base64_decodes b j :
  denotes_bytes Base64ByteSerializer b j = true -> exists t, j = JStr t /\ base64_decode t = Some b.
Proof.
  destruct j as [| |t| | | |]; cbn [denotes_bytes]; try discriminate. intros E.
  destruct (bytes_eqb_spec t (base64 b)) as [Et|]; [|discriminate]. rewrite Et.
  eexists; split; [reflexivity|apply base64_decode_encode].
Qed.

Lemma run_byte_ser_base64_decodes b :
  exists t, wire_go (run_byte_ser Base64ByteSerializer b) = JStr t /\ base64_decode t = Some b.
Proof.
  exists (base64 b). split; [|apply base64_decode_encode].
  cbn [run_byte_ser wire_go]. rewrite json_text_valid; [reflexivity|]. apply ascii_utf8, base64_ascii.
Qed.

Lemma denotes_addr_base64_decodes H s z j :
  ad s = None -> bs s = Base64ByteSerializer -> denotes_addr H s z j = true ->
  exists t a, j = JStr t /\ base64_decode t = Some a /\ is_addr_of z a = true.
Proof.
  intros Ha Hb. unfold denotes_addr. rewrite Ha, Hb. destruct j as [| |s0| | | |]; try discriminate. intros E.
  apply andb_true_iff in E as [E1 E3]. apply andb_true_iff in E1 as [E1 E2].
  destruct (bytes_eqb_spec s0 (base64 (be_bytes 20 (Z.to_N z)))) as [Et|]; [|discriminate]. rewrite Et.
  eexists; eexists. split; [reflexivity|]. split; [apply base64_decode_encode|].
  replace (Z.to_N z) with (Z.abs_N z) by lia. apply is_addr_of_be. lia.
Qed.

(* ---------- non-vacuity material ---------- *)
(* EIP-55 test vectors of the EIP text with the concrete Keccak-256: pins [eip55] (both model and spec
   side of the checksum case pattern) to the standard *)
Definition addr_of_hex (h : string) : bytes :=
  match bytes_of_hex (ascii_bytes h) with Some a => a | None => [] end.
Example eip55_vectors :
  eip55 keccak256 (addr_of_hex "5aaeb6053f3e94c9b9a09f33669435e7ef1beaed") = ascii_bytes "0x5aAeb6053F3E94C9b9A09f33669435E7Ef1BeAed" /\
  eip55 keccak256 (addr_of_hex "fb6916095ca1df60bb79ce92ce3ea74c37c5d359") = ascii_bytes "0xfB6916095ca1df60bB79Ce92cE3Ea74c37c5d359" /\
  eip55 keccak256 (addr_of_hex "52908400098527886e0f7030069857d2e4169ee7") = ascii_bytes "0x52908400098527886E0F7030069857D2E4169EE7" /\
  eip55 keccak256 (addr_of_hex "de709f2102306220921060314715629080e2fb77") = ascii_bytes "0xde709f2102306220921060314715629080e2fb77".
Proof. repeat split; vm_compute; reflexivity. Qed.

(* ---------- issue 1, in the referee's form: guard on the specification value ---------- *)
Theorem serialize_go_denotes_strings :
  forall (H : bytes -> bytes), (forall x, List.length (H x) = 32%nat) ->
  forall (fs : bfloat -> jv) (s : serializer), ts s <> FormatOther ->
  forall (c : tcomp) (v : val), ser_ok s c = true -> well_typed (ty_of c) v = true ->
    names_utf8 c = true -> strings_utf8 (ty_of c) v = true ->
    exists j, SerializeJSON_go H fs dn s (cv_of c v) = Ok j /\ denotes H s c v j = true.
Proof.
  intros H HL fs s Hm c v Hok Hwt Hn Hs.
  exact (serialize_go_denotes H HL fs s Hm c v Hok Hwt (cval_utf8_cv_of c v Hn Hs)).
Qed.

Theorem decode_serialize_parse_encode_strings :
  forall (H : bytes -> bytes), (forall x, List.length (H x) = 32%nat) ->
  forall (fs : bfloat -> jv) (s : serializer),
    ts s = FormatAsFlatArrays \/ ts s = FormatAsObjects ->
    bs s <> Base64ByteSerializer ->
  forall (children : list tcomp) (v : val) (pre post : bytes),
    let c := root_of children in
    ser_ok s c = true -> widths_ok c = true -> tc_wf c = true -> tc_no_zero_len c = true ->
    well_typed (ty_of c) v = true -> weight_ok v ->
    names_utf8 c = true -> strings_utf8 (ty_of c) v = true ->
    zlen (enc (ty_of c) v) < 2 ^ 32 -> counts_ok v = true ->
    exists x j, DecodeABIData c (pre ++ enc (ty_of c) v ++ post) (zlen pre) = Ok x /\
                SerializeJSON_go H fs dn s x = Ok j /\
                EncodeABIDataValues EthTypes.Model.BigIntegerFromString children (ext_of j) = Ok (enc (ty_of c) v).
Proof.
  intros H HL fs s Hm Hb children v pre post c Hok Hw Hwf Hz Hwt Hwe Hn Hs.
  exact (decode_serialize_parse_encode H HL fs s Hm Hb children v pre post Hok Hw Hwf Hz Hwt Hwe
           (cval_utf8_cv_of c v Hn Hs)).
Qed.

(* ---------- issue 3, closed for bytes / function leaves: the base64 case of [denotes_bytes] is
   EQUIVALENT to "the independent strict RFC 4648 decoder reads the leaf as the value's bytes" ---------- *)
From FFS Require Import Abi.Base64DecInj.
Lemma denotes_bytes_base64_iff b j :
  denotes_bytes Base64ByteSerializer b j = true <-> exists t, j = JStr t /\ base64_decode t = Some b.
Proof.
  split; [apply denotes_bytes_base64_decodes|]. intros [t [Hj Ht]]. rewrite Hj. cbn [denotes_bytes].
  apply base64_decode_canonical in Ht. rewrite Ht. apply bytes_eqb_refl.
Qed.

(* ... and for an address leaf under the nil address serializer *)
From FFS Require Rlp.Model Rlp.Proofs.
Lemma be_bytes_of_be a : be_bytes (List.length a) (Rlp.Model.of_be a) = a.
Proof.
  induction a as [|x l IH] using rev_ind; [reflexivity|].
  rewrite app_length, Nat.add_comm. cbn [List.length plus be_bytes].
  rewrite Rlp.Proofs.of_be_app. cbn [List.length]. change (N.of_nat 1) with 1%N. rewrite N.pow_1_r.
  assert (Hx : Rlp.Model.of_be [x] = b2n x) by (rewrite Rlp.Proofs.of_be_cons; cbn [List.length]; unfold Rlp.Model.of_be; cbn; lia).
  rewrite Hx. pose proof (b2n_lt x) as Hlt.
  rewrite (N.add_comm _ (b2n x)), N.div_add, N.mod_add by lia.
  rewrite N.div_small, N.mod_small by exact Hlt. cbn [N.add]. rewrite IH, n2b_b2n. reflexivity.
Qed.

Lemma denotes_addr_base64_iff H s z j :
  ad s = None -> bs s = Base64ByteSerializer ->
  (denotes_addr H s z j = true <-> exists t a, j = JStr t /\ base64_decode t = Some a /\ is_addr_of z a = true).
Proof.
  intros Ha Hb. split; [apply denotes_addr_base64_decodes; assumption|].
  intros [t [a [Hj [Ht Hz]]]]. rewrite Hj. unfold denotes_addr. rewrite Ha, Hb.
  apply base64_decode_canonical in Ht. unfold is_addr_of in Hz. apply andb_true_iff in Hz as [Hl Hv].
  apply Nat.eqb_eq in Hl. apply Z.eqb_eq in Hv.
  pose proof (Rlp.Proofs.of_be_lt a) as Hlt. rewrite Hl in Hlt. change (256 ^ N.of_nat 20)%N with (2 ^ 160)%N in Hlt.
  assert (Hz0 : (0 <= z < 2 ^ 160)%Z) by (change (2 ^ 160)%Z with (Z.of_N (2 ^ 160)%N); lia).
  replace (0 <=? z)%Z with true by (symmetry; apply Z.leb_le; lia).
  replace (z <? 2 ^ 160)%Z with true by (symmetry; apply Z.ltb_lt; lia). cbn [andb].
  replace (Z.to_N z) with (Rlp.Model.of_be a) by lia.
  rewrite <- Hl, be_bytes_of_be, Ht. apply bytes_eqb_refl.
Qed.
