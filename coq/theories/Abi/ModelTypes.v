(* Model-side mirror of the data structures of pkg/abi that the encoder (C02), the decoder and the
   JSON serializer (C03), the total-decoding property (C11) and the selector property (C12) share:

     Go [typeComponent]   (typecomponents.go)  ->  [tcomp]
     Go [ComponentValue]  (inputparsing.go)    ->  [cval]   with [Value interface{}] -> [gval]

   plus the translation to the spec-side types of Abi/Types.v and Abi/Spec.v ([ty_of], [val_of]) and
   boolean equality tests.  No proofs here (the two nested induction principles are plain Fixpoint
   terms like the ones in Types.v / Spec.v).  Owned by the C02 builder; keep stable. *)
From Coq Require Import List NArith ZArith Bool.
From Coq Require Import Init.Byte.
From FFS Require Import Base.Bytes Abi.Types Abi.Spec.
Import ListNotations.

(* ------------------------------------------------------------------------------------------------
   Elementary type table: one constructor per [registerElementaryType] entry; the three functions a
   table entry is bound to are enums, so that "which reader / encoder / decoder runs for this entry"
   is data of the model.
   ------------------------------------------------------------------------------------------------ *)
Inductive ekind := EInt | EUInt | EAddress | EBool | EFixed | EUFixed | EBytes | EFunction | EString.

Inductive reader_fn :=                (* readExternalData *)
| RdInteger        (* getIntegerFromInterface *)
| RdUintBytes      (* getUintBytesFromInterface *)
| RdBool           (* getBoolAsUnsignedIntegerFromInterface *)
| RdFloat          (* getFloatFromInterface *)
| RdBytes          (* getBytesFromInterface *)
| RdString.        (* getStringFromInterface *)

Inductive encoder_fn :=               (* encodeABIData *)
| EncSignedInteger | EncUnsignedInteger | EncSignedFloat | EncUnsignedFloat | EncBytes | EncString.

Inductive decoder_fn :=               (* decodeABIData *)
| DecSignedInt | DecUnsignedInt | DecSignedFloat | DecUnsignedFloat | DecBytes | DecString.

Definition reader_of (e : ekind) : reader_fn :=
  match e with
  | EInt | EUInt => RdInteger | EAddress => RdUintBytes | EBool => RdBool
  | EFixed | EUFixed => RdFloat | EBytes | EFunction => RdBytes | EString => RdString
  end.

Definition encoder_of (e : ekind) : encoder_fn :=
  match e with
  | EInt => EncSignedInteger
  | EUInt | EAddress | EBool => EncUnsignedInteger
  | EFixed => EncSignedFloat | EUFixed => EncUnsignedFloat
  | EBytes | EFunction => EncBytes | EString => EncString
  end.

Definition decoder_of (e : ekind) : decoder_fn :=
  match e with
  | EInt => DecSignedInt
  | EUInt | EAddress | EBool => DecUnsignedInt
  | EFixed => DecSignedFloat | EUFixed => DecUnsignedFloat
  | EBytes | EFunction => DecBytes | EString => DecString
  end.

(* [defaultM] of the table entry (the M of types that have no suffix) *)
Definition default_m (e : ekind) : N :=
  match e with EAddress => 160 | EBool => 8 | EFunction => 24 | _ => 0 end.

(* ------------------------------------------------------------------------------------------------
   typeComponent.  [suffix] is [elementarySuffix] (after default-suffix expansion; the decoder's
   [dynamic] rule for "bytes" tests it for emptiness while the encoder tests [m = 0]); [m], [n] are
   the uint16 fields; [len] is [arrayLength] (a Go int); [key] is [keyName].
   ------------------------------------------------------------------------------------------------ *)
Inductive tcomp :=
| TCElem (e : ekind) (suffix : bytes) (m n : N) (key : bytes)
| TCFixedArr (len : Z) (child : tcomp) (key : bytes)
| TCDynArr (child : tcomp) (key : bytes)
| TCTuple (children : list tcomp) (key : bytes).

Section tcomp_ind'.
  Variable P : tcomp -> Prop.
  Hypothesis HElem : forall e s m n k, P (TCElem e s m n k).
  Hypothesis HFixedArr : forall len c k, P c -> P (TCFixedArr len c k).
  Hypothesis HDynArr : forall c k, P c -> P (TCDynArr c k).
  Hypothesis HTuple : forall l k, Forall P l -> P (TCTuple l k).
  Fixpoint tcomp_ind' (t : tcomp) : P t :=
    match t with
    | TCElem e s m n k => HElem e s m n k
    | TCFixedArr len c k => HFixedArr len c k (tcomp_ind' c)
    | TCDynArr c k => HDynArr c k (tcomp_ind' c)
    | TCTuple l k => HTuple l k ((fix go (l : list tcomp) : Forall P l :=
                                    match l with [] => Forall_nil P | x :: r => Forall_cons x (tcomp_ind' x) (go r) end) l)
    end.
End tcomp_ind'.

Definition tc_key (t : tcomp) : bytes :=
  match t with TCElem _ _ _ _ k | TCFixedArr _ _ k | TCDynArr _ k | TCTuple _ k => k end.

(* translation to the spec type *)
Fixpoint ty_of (t : tcomp) : ty :=
  match t with
  | TCElem e _ m n _ =>
      match e with
      | EInt => TInt m | EUInt => TUInt m | EAddress => TAddress | EBool => TBool
      | EFixed => TFixed m n | EUFixed => TUFixed m n
      | EBytes => if (m =? 0)%N then TBytes else TBytesN m
      | EFunction => TFunction | EString => TString
      end
  | TCFixedArr len c _ => TFixedArr (ty_of c) (Z.to_N len)
  | TCDynArr c _ => TDynArr (ty_of c)
  | TCTuple l _ => TTuple (map ty_of l)
  end.

(* what parseABIParameterComponents establishes about a component tree (beyond [wf_ty (ty_of t)]):
   the implicit M of suffix-less types, "bytes" has suffix "" exactly when M = 0, array length is a
   non-negative 32-bit number *)
Fixpoint tc_consistent (t : tcomp) : bool :=
  match t with
  | TCElem e s m n _ =>
      match e with
      | EAddress | EBool | EFunction => (m =? default_m e)%N
      | EBytes => Bool.eqb (match s with [] => true | _ => false end) (m =? 0)%N
      | EString => (m =? 0)%N
      | _ => true
      end
  | TCFixedArr len c _ => (0 <=? len)%Z && (len <? 2 ^ 32)%Z && tc_consistent c
  | TCDynArr c _ => tc_consistent c
  | TCTuple l _ => forallb tc_consistent l
  end.

Definition tc_wf (t : tcomp) : bool := tc_consistent t && wf_ty (ty_of t).

(* no fixed<M>x<N> / ufixed<M>x<N> anywhere *)
Fixpoint tc_no_fixed_point (t : tcomp) : bool :=
  match t with
  | TCElem e _ _ _ _ => match e with EFixed | EUFixed => false | _ => true end
  | TCFixedArr _ c _ | TCDynArr c _ => tc_no_fixed_point c
  | TCTuple l _ => forallb tc_no_fixed_point l
  end.

(* no T[0] anywhere *)
Fixpoint tc_no_zero_len (t : tcomp) : bool :=
  match t with
  | TCElem _ _ _ _ _ => true
  | TCFixedArr len c _ => negb (len =? 0)%Z && tc_no_zero_len c
  | TCDynArr c _ => tc_no_zero_len c
  | TCTuple l _ => forallb tc_no_zero_len l
  end.

(* the same two predicates on the spec type *)
Fixpoint no_fixed_point (t : ty) : bool :=
  match t with
  | TFixed _ _ | TUFixed _ _ => false
  | TFixedArr t _ | TDynArr t => no_fixed_point t
  | TTuple l => forallb no_fixed_point l
  | _ => true
  end.
Fixpoint no_zero_len (t : ty) : bool :=
  match t with
  | TFixedArr t k => negb (k =? 0)%N && no_zero_len t
  | TDynArr t => no_zero_len t
  | TTuple l => forallb no_zero_len l
  | _ => true
  end.

(* ------------------------------------------------------------------------------------------------
   ComponentValue.  [Value interface{}] holds, for trees built by this package, a *big.Int, []byte,
   string or *big.Float; anything else (including a nil interface) makes the encoders' type
   assertions fail.  A *big.Float is a dyadic number mant * 2^exp with a precision, or an infinity.
   ------------------------------------------------------------------------------------------------ *)
Inductive bfloat :=
| BFin (mant exp : Z) (prec : N)      (* mant * 2^exp, mantissa precision [prec] bits *)
| BInf (neg : bool).

Inductive gval :=
| GNil                  (* nil interface *)
| GBigInt (z : Z)       (* non-nil *big.Int *)
| GBigIntNil            (* a typed-nil big.Int pointer: what Float.Int returns for an infinity *)
| GBytes (b : bytes)    (* []byte *)
| GString (s : bytes)   (* string *)
| GBigFloat (f : bfloat)
| GOther.               (* any other dynamic type *)

(* [CVNil] is a nil *ComponentValue (possible as an entry of Children); [comp = None] a nil Component *)
Inductive cval :=
| CVNil
| CV (comp : option tcomp) (children : list cval) (value : gval).

Section cval_ind'.
  Variable P : cval -> Prop.
  Hypothesis HNil : P CVNil.
  Hypothesis HCV : forall c l v, Forall P l -> P (CV c l v).
  Fixpoint cval_ind' (x : cval) : P x :=
    match x with
    | CVNil => HNil
    | CV c l v => HCV c l v ((fix go (l : list cval) : Forall P l :=
                                match l with [] => Forall_nil P | y :: r => Forall_cons y (cval_ind' y) (go r) end) l)
    end.
End cval_ind'.

(* Float.Int: truncation toward zero of mant * 2^exp *)
Definition bf_trunc (mant exp : Z) : Z :=
  if (0 <=? exp)%Z then (mant * 2 ^ exp)%Z else Z.quot mant (2 ^ (- exp)).
Definition bf_is_int (mant exp : Z) : bool :=
  (0 <=? exp)%Z || (Z.rem mant (2 ^ (- exp)) =? 0)%Z.

(* translation to the spec value.  Elementary: the number / the bytes held; a *big.Float held for
   fixed<M>x<N> denotes value * 10^N (truncated toward zero when that is not integral); arrays and
   tuples: the children.  Ill-formed trees map to [VList []] under an elementary component. *)
Definition gval_to_val (n : N) (v : gval) : val :=
  match v with
  | GBigInt z => VNum z
  | GBytes b | GString b => VBytes b
  | GBigFloat (BFin mant e _) => VNum (bf_trunc (mant * 10 ^ Z.of_N n) e)
  | _ => VList []
  end.

Fixpoint val_of (x : cval) : val :=
  match x with
  | CVNil => VList []
  | CV (Some (TCElem _ _ _ n _)) _ v => gval_to_val n v
  | CV _ l _ => VList (map val_of l)
  end.

(* the component tree a value tree claims to be of: every node carries a component, array children
   carry the array's child component, tuple children the tuple's children in order; elementary
   nodes have no children.  This is what walkInput and the decoder construct. *)
Fixpoint tcomp_eqb (a b : tcomp) : bool :=
  match a, b with
  | TCElem e s m n k, TCElem e' s' m' n' k' =>
      match e, e' with
      | EInt, EInt | EUInt, EUInt | EAddress, EAddress | EBool, EBool | EFixed, EFixed
      | EUFixed, EUFixed | EBytes, EBytes | EFunction, EFunction | EString, EString => true
      | _, _ => false
      end && bytes_eqb s s' && (m =? m')%N && (n =? n')%N && bytes_eqb k k'
  | TCFixedArr l c k, TCFixedArr l' c' k' => (l =? l')%Z && tcomp_eqb c c' && bytes_eqb k k'
  | TCDynArr c k, TCDynArr c' k' => tcomp_eqb c c' && bytes_eqb k k'
  | TCTuple l k, TCTuple l' k' =>
      (fix go (x y : list tcomp) : bool :=
         match x, y with
         | [], [] => true
         | a :: x', b :: y' => tcomp_eqb a b && go x' y'
         | _, _ => false
         end) l l' && bytes_eqb k k'
  | _, _ => false
  end.

Definition ekind_eqb (a b : ekind) : bool :=
  match a, b with
  | EInt, EInt | EUInt, EUInt | EAddress, EAddress | EBool, EBool | EFixed, EFixed
  | EUFixed, EUFixed | EBytes, EBytes | EFunction, EFunction | EString, EString => true
  | _, _ => false
  end.

Definition bfloat_eqb (a b : bfloat) : bool :=
  match a, b with
  | BFin m e p, BFin m' e' p' => (m =? m')%Z && (e =? e')%Z && (p =? p')%N
  | BInf s, BInf s' => Bool.eqb s s'
  | _, _ => false
  end.

(* same number (ignoring representation and precision) *)
Definition bfloat_same_value (a b : bfloat) : bool :=
  match a, b with
  | BFin m e _, BFin m' e' _ =>
      let k := Z.min e e' in (m * 2 ^ (e - k) =? m' * 2 ^ (e' - k))%Z
  | BInf s, BInf s' => Bool.eqb s s'
  | _, _ => false
  end.

Definition gval_eqb (a b : gval) : bool :=
  match a, b with
  | GNil, GNil | GBigIntNil, GBigIntNil | GOther, GOther => true
  | GBigInt x, GBigInt y => (x =? y)%Z
  | GBytes x, GBytes y | GString x, GString y => bytes_eqb x y
  | GBigFloat x, GBigFloat y => bfloat_eqb x y
  | _, _ => false
  end.

Definition opt_tcomp_eqb (a b : option tcomp) : bool :=
  match a, b with
  | None, None => true
  | Some x, Some y => tcomp_eqb x y
  | _, _ => false
  end.

Fixpoint cval_eqb (a b : cval) : bool :=
  match a, b with
  | CVNil, CVNil => true
  | CV c l v, CV c' l' v' =>
      opt_tcomp_eqb c c' && gval_eqb v v' &&
      (fix go (x y : list cval) : bool :=
         match x, y with
         | [], [] => true
         | a :: x', b :: y' => cval_eqb a b && go x' y'
         | _, _ => false
         end) l l'
  | _, _ => false
  end.

(* equality tests on the spec-side types (Types.v / Spec.v carry none) *)
Fixpoint ty_eqb (a b : ty) : bool :=
  match a, b with
  | TUInt m, TUInt m' | TInt m, TInt m' | TBytesN m, TBytesN m' => (m =? m')%N
  | TAddress, TAddress | TBool, TBool | TBytes, TBytes | TString, TString | TFunction, TFunction => true
  | TFixed m n, TFixed m' n' | TUFixed m n, TUFixed m' n' => (m =? m')%N && (n =? n')%N
  | TFixedArr t k, TFixedArr t' k' => ty_eqb t t' && (k =? k')%N
  | TDynArr t, TDynArr t' => ty_eqb t t'
  | TTuple l, TTuple l' =>
      (fix go (x y : list ty) : bool :=
         match x, y with
         | [], [] => true
         | a :: x', b :: y' => ty_eqb a b && go x' y'
         | _, _ => false
         end) l l'
  | _, _ => false
  end.

Fixpoint val_eqb (a b : val) : bool :=
  match a, b with
  | VNum x, VNum y => (x =? y)%Z
  | VBytes x, VBytes y => bytes_eqb x y
  | VList l, VList l' =>
      (fix go (x y : list val) : bool :=
         match x, y with
         | [], [] => true
         | a :: x', b :: y' => val_eqb a b && go x' y'
         | _, _ => false
         end) l l'
  | _, _ => false
  end.

(* [typed_as t x]: the value tree [x] is shaped like component tree [t] (same component at every
   node, children matching the component's children / array child), which is the invariant of every
   tree produced by walkInput or by the decoder *)
Fixpoint typed_as (t : tcomp) (x : cval) {struct x} : bool :=
  match x with
  | CVNil => false
  | CV c l v =>
      opt_tcomp_eqb c (Some t) &&
      match t with
      | TCElem _ _ _ _ _ => match l with [] => true | _ => false end
      | TCFixedArr _ c' _ | TCDynArr c' _ => forallb (typed_as c') l
      | TCTuple ts _ =>
          (fix go (ts : list tcomp) (l : list cval) {struct l} : bool :=
             match ts, l with
             | [], [] => true
             | t' :: ts', y :: l' => typed_as t' y && go ts' l'
             | _, _ => false
             end) ts l
      end
  end.
