(* Evaluator for the correspondence check of C03: runs the decoder model, the serializer model, the
   Solidity spec encoder and the denotation oracle on the cases written by harness/cmd/c03 and
   reports where they differ from what the implementation did. *)
From Coq Require Import String List NArith ZArith Bool.
From Coq Require Import Init.Byte.
From FFS Require Import Base.Res Base.Bytes Base.Lit Base.Keccak.
From FFS Require Import Abi.Types Abi.Spec Abi.ModelTypes Abi.Render Abi.DecModel Abi.DecSpec Abi.SerModel Abi.SerSpec Abi.SerWire.
Import ListNotations.

(* the implementation's decoded tree as projected by the harness (by the dynamic type of each Value) *)
Inductive dcv :=
| DNum (z : Z)                 (* *big.Int *)
| DBytes (b : bytes)           (* []byte *)
| DStr (b : bytes)             (* string *)
| DFloat (mant exp : Z)        (* finite *big.Float = mant * 2^exp *)
| DList (l : list dcv)         (* no Value, children *)
| DOther.

Fixpoint cval_matches (x : cval) (d : dcv) {struct x} : bool :=
  match x, d with
  | CV (Some (TCElem _ _ _ _ _)) [] (GBigInt z), DNum z' => (z =? z')%Z
  | CV (Some (TCElem _ _ _ _ _)) [] (GBytes b), DBytes b' => bytes_eqb b b'
  | CV (Some (TCElem _ _ _ _ _)) [] (GString b), DStr b' => bytes_eqb b b'
  | CV (Some (TCElem _ _ _ _ _)) [] (GBigFloat f), DFloat m e => bfloat_same_value f (BFin m e 0)
  | CV (Some (TCElem _ _ _ _ _)) _ _, _ => false
  | CV (Some _) l GNil, DList ds =>
      (fix go (l : list cval) (ds : list dcv) {struct l} : bool :=
         match l, ds with
         | [], [] => true
         | y :: l', d' :: ds' => cval_matches y d' && go l' ds'
         | _, _ => false
         end) l ds
  | _, _ => false
  end.

(* does the implementation's tree equal the spec value (leaf representation per component kind)? *)
Definition impl_is_value (c : tcomp) (v : val) (d : dcv) : bool := cval_matches (cv_of c v) d.

(* JSON trees compared with objects as finite maps *)
Fixpoint jv_eqb (a b : jv) {struct a} : bool :=
  match a, b with
  | JNull, JNull => true
  | JBool x, JBool y => Bool.eqb x y
  | JStr x, JStr y | JNumber x, JNumber y => bytes_eqb x y
  | JFloatInt x, JFloatInt y => (x =? y)%Z
  | JArr x, JArr y =>
      (fix go (x y : list jv) {struct x} : bool :=
         match x, y with
         | [], [] => true
         | a' :: x', b' :: y' => jv_eqb a' b' && go x' y'
         | _, _ => false
         end) x y
  | JObj x, JObj y =>
      (length x =? length y)%nat &&
      (fix go (x : list (bytes * jv)) {struct x} : bool :=
         match x with
         | [] => true
         | (k, a') :: x' =>
             match map_get k y with Some b' => jv_eqb a' b' | None => false end && go x'
         end) x
  | _, _ => false
  end.

Definition no_float (_ : bfloat) : jv := JNull.

Inductive case :=
(* component tree (a tuple), spec value, bytes before / after, the harness's transcription of enc;
   implementation: class of DecodeABIData(pre ++ enc ++ post, |pre|) and its tree *)
| CDec (c : tcomp) (v : val) (pre post enc : bdsl) (icls : nat) (itree : dcv)
(* arbitrary block and offset (mutated encodings): class and tree *)
| CRaw (c : tcomp) (blk : bdsl) (off : Z) (icls : nat) (itree : dcv)
(* serializer configuration, component tree, value (as decoded); implementation: class, the JSON it
   wrote (parsed), and the outcome of ParseJSON -> EncodeABIData on that JSON
   (0 = not attempted, 1 = reproduced the original bytes, 2 = anything else) *)
| CSer (s : serializer) (c : tcomp) (v : val) (icls : nat) (ijson : jv) (rt : nat)
(* isDynamicType of the implementation observed through the head size of a one-member tuple: not used *)
| CSkip.

Definition tree_agrees {A} (r : res A) (m : A -> bool) (icls : nat) : bool :=
  match r, icls with
  | Ok x, 0%nat => m x
  | Err _, 1%nat => true
  | Panic, 2%nat => true
  | _, _ => false
  end.

(* the serializer clauses that need pairwise distinct member names *)
Definition roundtrip_claimed (s : serializer) (c : tcomp) : bool :=
  match ts s with FormatAsObjects => names_distinct c | FormatAsFlatArrays => true | _ => false end &&
  match bs s with Base64ByteSerializer => false | _ => true end &&
  no_zero_len (ty_of c) && no_fixed_point (ty_of c).     (* the identity claim's exclusions *)

Definition denote_claimed (s : serializer) (c : tcomp) : bool :=
  match ts s with FormatAsObjects => names_distinct c | FormatOther => false | _ => true end.

(* result codes: 0 agree; 1..9 model differs from implementation; >= 10 implementation fails an oracle *)
Definition check_case (k : case) : N :=
  match k with
  | CDec c v pre post enc icls itree =>
      let t := ty_of c in
      let e := bexpand enc in
      let pre' := bexpand pre in
      let blk := pre' ++ e ++ bexpand post in
      if negb (bytes_eqb e (Spec.enc t v)) then 9        (* the harness's enc is not the spec's *)
      else
        let claimed := well_typed t v && wf_ty t && no_zero_len t && no_fixed_point t in
        if claimed && negb ((icls =? 0)%nat && impl_is_value c v itree) then 10
        else if tree_agrees (DecodeABIData c blk (zlen pre')) (fun x => cval_matches x itree) icls then 0 else 1
  | CRaw c blk off icls itree =>
      if tree_agrees (DecodeABIData c (bexpand blk) off) (fun x => cval_matches x itree) icls then 0 else 2
  | CSer s c v icls ijson rt =>
      let x := cv_of c v in
      (* the model side is the faithful json.Marshal view (SerWire.v): invalid UTF-8 in a string leaf is
         written as U+FFFD.  When a string leaf of the value is not valid UTF-8 the two serializer clauses
         cannot hold (known finding C03/string-invalid-utf8): code 15 if the model predicted the
         implementation's document exactly, code 4 (correspondence broken) otherwise *)
      let agrees := tree_agrees (SerializeJSON_go keccak256 no_float NumericDefaultNameGenerator s x)
                                (fun j => jv_eqb j ijson) icls in
      let clean := strings_utf8 (ty_of c) v in
      if denote_claimed s c && negb ((icls =? 0)%nat && denotes keccak256 s c v ijson)
      then (if clean then 13 else if agrees then 15 else 4)
      else if roundtrip_claimed s c && (rt =? 2)%nat
      then (if clean then 14 else if agrees then 15 else 4)
      else if agrees then 0 else 4
  | CSkip => 0
  end.

Fixpoint mismatches_go (i : N) (l : list case) : list (N * N) :=
  match l with
  | [] => []
  | c :: t => let r := check_case c in
              if (r =? 0)%N then mismatches_go (i + 1) t else (i, r) :: mismatches_go (i + 1) t
  end.
Definition mismatches (l : list case) : list (N * N) := firstn 20 (mismatches_go 0 l).

(* short constructors for the case files *)
Definition mkser (m i b a : nat) : serializer :=
  {| ts := match m with 0 => FormatAsObjects | 1 => FormatAsFlatArrays | 2 => FormatAsSelfDescribingArrays | _ => FormatOther end%nat;
     is_ := match i with 0 => Base10StringIntSerializer | 1 => HexIntSerializer0xPrefix | 2 => JSONNumberIntSerializer
                       | _ => NumberIfFitsOrBase10StringIntSerializer end%nat;
     bs := match b with 0 => HexByteSerializer | 1 => HexByteSerializer0xPrefix | _ => Base64ByteSerializer end%nat;
     ad := match a with 0 => None | 1 => Some HexAddrSerializer0xPrefix | 2 => Some HexAddrSerializerPlain
                      | _ => Some ChecksumAddrSerializer end%nat |}.
Definition B (d : bdsl) : bytes := bexpand d.
