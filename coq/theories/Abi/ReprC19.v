(* C02, referee issues 1 and 2: the representation theorems of Abi/ReprWalk.v, ReprTyped.v,
   ReprUnique.v and the integer theorems of Abi/InputProofs.v with property C19's model of
   ethtypes.BigIntegerFromString in the place of the parser parameter, and C19's COMPLETE
   characterisation of the accepted texts ([accepts t q], EthTypes/ProofsBigAll.v: t is a text math/big
   documents - sign, 0b/0o/0x prefixes, leading-zero octal, '_' separators, or a decimal floating-point
   text within the library limits - whose value is the integer q) as the denotation of number texts.
   Unlike [D19] (SerRoundTripC19.v), [accepts] says something about EVERY text: a text that denotes
   nothing is refused, and "010" denotes 8 (Go's base-prefix syntax: a leading 0 means octal). *)
From Coq Require Import String.
From Coq Require Import List NArith ZArith Bool Arith Lia.
From Coq Require Import Init.Byte.
From FFS Require Import Base.Res Base.Bytes Abi.Types Abi.Spec Abi.ModelTypes Abi.EncModel Abi.InputModel.
From FFS Require Import Abi.EncProofs3 Abi.InputProofs Abi.InputC19 Abi.ReprSpec Abi.ReprProofs Abi.ReprWalk Abi.ReprTyped Abi.ReprUnique.
From FFS Require EthTypes.Model EthTypes.ProofsBigAll.
Import ListNotations.

Definition accepts19 : bytes -> Z -> Prop := EthTypes.ProofsBigAll.accepts.

(* what an external value given for uint<M> / int<M> denotes: a text per math/big's documented
   syntax, Go integers and big.Int themselves, floats their integer part *)
Definition I19 : ext -> Z -> Prop := int_denotes accepts19.

Lemma bifs19_sound s z : bifs19 s = Ok z -> accepts19 s z.
Proof. intros H. apply EthTypes.ProofsBigAll.big_iff. exact H. Qed.

Lemma I19_read x z : I19 x z -> int_read bifs19 x z.
Proof.
  unfold I19. destruct x as [| t | t | b | [z'|] | [m0 e0 p|sg] | [m0 e0|sg|] | [m0 e0|sg|] | kk z' | b | l | m0 |];
    cbn [int_denotes int_read]; try tauto; intros H; apply EthTypes.ProofsBigAll.big_iff; exact H.
Qed.

Lemma I19_fun x z z' : I19 x z -> I19 x z' -> z = z'.
Proof.
  unfold I19. destruct x as [| t | t | b | [y|] | [m0 e0 p|sg] | [m0 e0|sg|] | [m0 e0|sg|] | kk y | b | l | m0 |];
    cbn [int_denotes]; try tauto; try congruence; apply EthTypes.ProofsBigAll.accepts_unique.
Qed.

(* ---------- issue 2: integers, every external value, every text ---------- *)

Theorem integers_every_value_c19 e s m k x :
  (e = EInt \/ e = EUInt) -> tc_wf (int_tc e s m k) = true ->
  let run := EncodeABIDataValues bifs19 [int_tc e s m k] (XList [x]) in
  match run with
  | Ok b => exists z, I19 x z /\ in_range e m z /\ b = word z
  | Err _ => True
  | Panic => x = XBigInt None \/ exists sg, x = XBigFloat (BInf sg)
  end /\
  (forall z, I19 x z ->
     (in_range e m z -> run = Ok (word z)) /\ (~ in_range e m z -> exists err, run = Err err)) /\
  ((forall z, ~ I19 x z) -> x <> XBigInt None -> (forall sg, x <> XBigFloat (BInf sg)) -> exists err, run = Err err).
Proof.
  intros He W run.
  pose proof (integers_exact_or_rejected bifs19 accepts19 bifs19_sound bifs19_no_panic e s m k x He W) as S.
  fold run in S. split; [exact S|]. split.
  - intros z Hz. exact (integers_in_range_accepted_out_of_range_rejected bifs19 e s m k x z He W (I19_read x z Hz)).
  - intros N1 N2 N3. destruct run as [b|err|].
    + destruct S as (z & Hz & _). exfalso. exact (N1 z Hz).
    + exists err. reflexivity.
    + exfalso. destruct S as [S|[sg S]]; [exact (N2 S)|exact (N3 sg S)].
Qed.

(* ---------- issue 1 with C19's model: no hypothesis about the parser ---------- *)

Theorem denoted_value_encoded_c19 params input v :
  let root := root_of params in
  tc_wf root = true -> tc_no_fixed_point root = true -> tc_no_zero_len root = true ->
  repr I19 root input v -> well_typed (ty_of root) v = true -> weight_ok v ->
  EncodeABIDataValues bifs19 params input = Ok (enc (ty_of root) v).
Proof. exact (denoted_value_encoded bifs19 I19 I19_read params input v). Qed.

Theorem accepted_is_denoted_c19 params input b :
  let root := root_of params in
  tc_wf root = true -> tc_no_fixed_point root = true -> tc_no_zero_len root = true ->
  ext_clean input = true ->
  EncodeABIDataValues bifs19 params input = Ok b ->
  exists v, repr I19 root input v /\
            (not_longer (ty_of root) v = true -> weight_ok v ->
               well_typed (ty_of root) v = true /\ b = enc (ty_of root) v).
Proof. exact (accepted_is_denoted_typed bifs19 accepts19 bifs19_sound params input b). Qed.

Theorem repr_unique_c19 tc x v v' : repr I19 tc x v -> repr I19 tc x v' -> v = v'.
Proof. exact (repr_unique I19 I19_fun tc x v v'). Qed.

(* ---------- examples ---------- *)

(* a hand-built derivation of the independent relation (not obtained from the walk):
   (bytes2, bool) given as the object {"1": "TRUE", "0": "0xaB01"} denotes ([0xab, 0x01], 1) *)
Definition ex_r_params : list tcomp :=
  [TCElem EBytes (ascii_bytes "2") 2 0 []; TCElem EBool [] 8 0 []].
Definition ex_r_input : ext :=
  XMap [(ascii_bytes "1", XStr (ascii_bytes "TRUE")); (ascii_bytes "0", XStr (ascii_bytes "0xaB01"))].
Definition ex_r_val : val := VList [VBytes [xab; x01]; VNum 1].

Lemma ex_r_repr : forall I, repr I (root_of ex_r_params) ex_r_input ex_r_val.
Proof.
  intros I. unfold root_of, ex_r_params, ex_r_input, ex_r_val.
  eapply (R_tuple_obj I _ _ _ [XStr (ascii_bytes "0xaB01"); XStr (ascii_bytes "TRUE")]).
  - eapply (M_cons _ _ _ _ (ascii_bytes "0")).
    + cbn [member_key tc_key]. exact (DT_digit 0 eq_refl).
    + exists [(ascii_bytes "1", XStr (ascii_bytes "TRUE"))], []. split; [reflexivity|].
      cbn [map fst In]. intros [E|[]]. discriminate E.
    + eapply (M_cons _ _ _ _ (ascii_bytes "1")).
      * cbn [member_key tc_key]. exact (DT_digit 1 eq_refl).
      * exists [], [(ascii_bytes "0", XStr (ascii_bytes "0xaB01"))]. split; [reflexivity|intros []].
      * constructor.
  - constructor.
    + apply R_bytes; [left; reflexivity|]. right. exists (ascii_bytes "0xaB01"). split; [left; reflexivity|].
      right. exists (ascii_bytes "aB01"). split; [reflexivity|].
      change [xab; x01] with [n2b (16 * 10 + 11); n2b (16 * 0 + 1)].
      apply HP_cons; [right; split; [split; [discriminate|reflexivity]|left; reflexivity]
                     |right; split; [split; [discriminate|reflexivity]|right; reflexivity]|].
      apply HP_cons; [left; split; reflexivity|left; split; reflexivity|constructor].
    + constructor; [|constructor].
      eapply R_bool_true; [left; reflexivity|].
      repeat (constructor; [first [left; reflexivity|right; reflexivity]|]). constructor.
Qed.
