(* The Solidity contract ABI encoding ("Formal Specification of the Encoding"), written directly from
   the specification text; shares no code with any model of pkg/abi.  Values are untyped trees; the
   typing relation [well_typed] says which tree is a value of which type. *)
From Coq Require Import List NArith ZArith Bool Lia.
From Coq Require Import Init.Byte.
From FFS Require Import Base.Bytes Abi.Types.
Import ListNotations.

(* a value: an integer (uint/int/address/bool/fixed-point scaled mantissa), a byte string
   (bytes<M>, bytes, string as UTF-8 bytes, function = 24 bytes) or a sequence (arrays, tuples) *)
Inductive val :=
| VNum (z : Z)
| VBytes (b : bytes)
| VList (l : list val).

Section val_ind'.
  Variable P : val -> Prop.
  Hypothesis HNum : forall z, P (VNum z).
  Hypothesis HBytes : forall b, P (VBytes b).
  Hypothesis HList : forall l, Forall P l -> P (VList l).
  Fixpoint val_ind' (v : val) : P v :=
    match v with
    | VNum z => HNum z | VBytes b => HBytes b
    | VList l => HList l ((fix go (l : list val) : Forall P l :=
                             match l with [] => Forall_nil P | x :: r => Forall_cons x (val_ind' x) (go r) end) l)
    end.
End val_ind'.

Definition two (k : N) : Z := Z.pow 2 (Z.of_N k).

(* typing *)
Fixpoint well_typed (t : ty) (v : val) {struct v} : bool :=
  match t, v with
  | TUInt m, VNum z => (0 <=? z)%Z && (z <? two m)%Z
  | TInt m, VNum z => (- two (m - 1) <=? z)%Z && (z <? two (m - 1))%Z
  | TAddress, VNum z => (0 <=? z)%Z && (z <? two 160)%Z
  | TBool, VNum z => (z =? 0)%Z || (z =? 1)%Z
  | TFixed m _, VNum z => (- two (m - 1) <=? z)%Z && (z <? two (m - 1))%Z     (* z = value * 10^n *)
  | TUFixed m _, VNum z => (0 <=? z)%Z && (z <? two m)%Z
  | TBytesN m, VBytes b => (N.of_nat (length b) =? m)%N
  | TFunction, VBytes b => (length b =? 24)%nat
  | TBytes, VBytes _ | TString, VBytes _ => true
  | TFixedArr t' k, VList vs => (N.of_nat (length vs) =? k)%N && forallb (well_typed t') vs
  | TDynArr t', VList vs => forallb (well_typed t') vs
  | TTuple ts, VList vs =>
      (fix go (ts : list ty) (vs : list val) {struct vs} : bool :=
         match ts, vs with
         | [], [] => true
         | t :: ts', v :: vs' => well_typed t v && go ts' vs'
         | _, _ => false
         end) ts vs
  | _, _ => false
  end.

(* 32-byte big-endian word of z mod 2^256 (two's complement for negatives) *)
Fixpoint be_fixedZ (k : nat) (z : Z) : bytes :=
  match k with O => [] | S k' => be_fixedZ k' (z / 256)%Z ++ [n2b (Z.to_N (z mod 256)%Z)] end.
Definition word (z : Z) : bytes := be_fixedZ 32 (z mod two 256)%Z.

Definition pad_right (b : bytes) : bytes :=
  b ++ repeat x00 ((32 - (length b mod 32)) mod 32).

Definition blen (b : bytes) : Z := Z.of_nat (length b).

(* head/tail layout of a sequence X = (X1..Xk): items are (is_dynamic, enc Xi) *)
Definition head_len (items : list (bool * bytes)) : Z :=
  fold_left (fun (a : Z) (it : bool * bytes) => (a + (if fst it then 32 else blen (snd it)))%Z) items 0%Z.

Fixpoint heads (off : Z) (items : list (bool * bytes)) : bytes :=
  match items with
  | [] => []
  | (true, e) :: r => word off ++ heads (off + blen e)%Z r
  | (false, e) :: r => e ++ heads off r
  end.
Definition tails (items : list (bool * bytes)) : bytes :=
  flat_map (fun it : bool * bytes => if fst it then snd it else []) items.
Definition head_tail (items : list (bool * bytes)) : bytes :=
  heads (head_len items) items ++ tails items.

(* enc(X) *)
Fixpoint enc (t : ty) (v : val) {struct v} : bytes :=
  match t, v with
  | TUInt _, VNum z | TInt _, VNum z | TAddress, VNum z | TBool, VNum z
  | TFixed _ _, VNum z | TUFixed _ _, VNum z => word z
  | TBytesN _, VBytes b | TFunction, VBytes b => pad_right b
  | TBytes, VBytes b | TString, VBytes b => word (blen b) ++ pad_right b
  | TFixedArr t' _, VList vs => head_tail (map (fun v => (dynamic t', enc t' v)) vs)
  | TDynArr t', VList vs => word (Z.of_nat (length vs)) ++ head_tail (map (fun v => (dynamic t', enc t' v)) vs)
  | TTuple ts, VList vs =>
      head_tail ((fix go (ts : list ty) (vs : list val) {struct vs} : list (bool * bytes) :=
                    match ts, vs with
                    | t :: ts', v :: vs' => (dynamic t, enc t v) :: go ts' vs'
                    | _, _ => []
                    end) ts vs)
  | _, _ => []
  end.

