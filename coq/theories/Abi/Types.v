(* The Solidity ABI type grammar as an inductive, shared by every ABI-related model and spec
   (C02, C03, C11, C12, C13, C20).  Nothing in this file mirrors Go code; it is the spec-side type. *)
From Coq Require Import List NArith Bool.
Import ListNotations.

Inductive ty :=
| TUInt (m : N)               (* uint<M> *)
| TInt (m : N)                (* int<M> *)
| TAddress
| TBool
| TFixed (m n : N)            (* fixed<M>x<N> *)
| TUFixed (m n : N)           (* ufixed<M>x<N> *)
| TBytesN (m : N)             (* bytes<M>, 1 <= M <= 32 *)
| TBytes
| TString
| TFunction
| TFixedArr (t : ty) (k : N)  (* T[k] *)
| TDynArr (t : ty)            (* T[] *)
| TTuple (l : list ty).

(* induction principle that descends into tuple members *)
Section ty_ind'.
  Variable P : ty -> Prop.
  Hypothesis HUInt : forall m, P (TUInt m).
  Hypothesis HInt : forall m, P (TInt m).
  Hypothesis HAddress : P TAddress.
  Hypothesis HBool : P TBool.
  Hypothesis HFixed : forall m n, P (TFixed m n).
  Hypothesis HUFixed : forall m n, P (TUFixed m n).
  Hypothesis HBytesN : forall m, P (TBytesN m).
  Hypothesis HBytes : P TBytes.
  Hypothesis HString : P TString.
  Hypothesis HFunction : P TFunction.
  Hypothesis HFixedArr : forall t k, P t -> P (TFixedArr t k).
  Hypothesis HDynArr : forall t, P t -> P (TDynArr t).
  Hypothesis HTuple : forall l, Forall P l -> P (TTuple l).

  Fixpoint ty_ind' (t : ty) : P t :=
    match t with
    | TUInt m => HUInt m | TInt m => HInt m | TAddress => HAddress | TBool => HBool
    | TFixed m n => HFixed m n | TUFixed m n => HUFixed m n | TBytesN m => HBytesN m
    | TBytes => HBytes | TString => HString | TFunction => HFunction
    | TFixedArr t k => HFixedArr t k (ty_ind' t)
    | TDynArr t => HDynArr t (ty_ind' t)
    | TTuple l => HTuple l ((fix go (l : list ty) : Forall P l :=
                               match l with [] => Forall_nil P | x :: r => Forall_cons x (ty_ind' x) (go r) end) l)
    end.
End ty_ind'.

(* well-formedness per the Solidity ABI specification *)
Fixpoint wf_ty (t : ty) : bool :=
  match t with
  | TUInt m | TInt m => (8 <=? m)%N && (m <=? 256)%N && (m mod 8 =? 0)%N
  | TFixed m n | TUFixed m n => (8 <=? m)%N && (m <=? 256)%N && (m mod 8 =? 0)%N && (1 <=? n)%N && (n <=? 80)%N
  | TBytesN m => (1 <=? m)%N && (m <=? 32)%N
  | TAddress | TBool | TBytes | TString | TFunction => true
  | TFixedArr t k => wf_ty t
  | TDynArr t => wf_ty t
  | TTuple l => forallb wf_ty l
  end.

(* dynamic types (spec): bytes, string, T[], T[k] with dynamic T, tuples with a dynamic member *)
Fixpoint dynamic (t : ty) : bool :=
  match t with
  | TBytes | TString | TDynArr _ => true
  | TFixedArr t _ => dynamic t
  | TTuple l => existsb dynamic l
  | _ => false
  end.
