(* Evaluator for the correspondence check of C11: runs the decoder model with its cost counter
   (Abi/DecCost.v, proved equal to Abi/DecModel.v on the result) on the cases written by the Go
   harness and reports where model and implementation differ, or where the implementation breaks a
   property oracle. *)
From Coq Require Import String.
From Coq Require Import List NArith ZArith Bool.
From Coq Require Import Init.Byte.
From FFS Require Import Base.Res Base.Bytes Base.Lit Base.Keccak Abi.Types Abi.Spec Abi.ModelTypes Abi.DecModel Abi.DecCost.
From FFS Require Rlp.Model Abi.EntryModel.
Import ListNotations.

(* the component tree parseABIParameterComponents builds for a type (names do not matter to the
   decoder; the suffix is the decimal text of the dimensions, as in the signature) *)
Definition dec_suffix (m : N) : bytes := EntryModel.fmt_N m.
Fixpoint tc_of_ty (t : ty) : tcomp :=
  match t with
  | TUInt m => TCElem EUInt (dec_suffix m) m 0 []
  | TInt m => TCElem EInt (dec_suffix m) m 0 []
  | TAddress => TCElem EAddress [] 160 0 []
  | TBool => TCElem EBool [] 8 0 []
  | TFixed m n => TCElem EFixed (dec_suffix m ++ [x78] ++ dec_suffix n) m n []
  | TUFixed m n => TCElem EUFixed (dec_suffix m ++ [x78] ++ dec_suffix n) m n []
  | TBytesN m => TCElem EBytes (dec_suffix m) m 0 []
  | TBytes => TCElem EBytes [] 0 0 []
  | TString => TCElem EString [] 0 0 []
  | TFunction => TCElem EFunction [] 24 0 []
  | TFixedArr t k => TCFixedArr (Z.of_N k) (tc_of_ty t) []
  | TDynArr t => TCDynArr (tc_of_ty t) []
  | TTuple l => TCTuple (map tc_of_ty l) []
  end.

(* ---------- canonical serialisation of a decoded tree (mirrors serTree of the harness) ---------- *)
Definition sgnb (z : Z) : byte := if (z <? 0)%Z then x01 else x00.

Fixpoint strip_pos (p : positive) (e : Z) : positive * Z :=
  match p with xO p' => strip_pos p' (e + 1)%Z | _ => (p, e) end.

(* mant * 2^exp with an odd mantissa (0,0 for zero) *)
Definition norm_float (mant exp : Z) : Z * Z :=
  match mant with
  | Z0 => (0, 0)%Z
  | Zpos p => let '(q, e) := strip_pos p exp in (Zpos q, e)
  | Zneg p => let '(q, e) := strip_pos p exp in (Zneg q, e)
  end.

Definition be4 (n : N) : bytes := Rlp.Model.be_fixed 4 n.

Fixpoint ser_cval (x : cval) : bytes :=
  match x with
  | CVNil => [x58]
  | CV _ l v =>
      match v with
      | GBigInt z => x4e :: sgnb z :: Rlp.Model.be_fixed 32 (Z.abs_N z)
      | GBytes b => x42 :: be4 (N.of_nat (length b)) ++ b
      | GString b => x53 :: be4 (N.of_nat (length b)) ++ b
      | GBigFloat (BFin m e _) =>
          let '(m', e') := norm_float m e in
          x46 :: sgnb m' :: Rlp.Model.be_fixed 40 (Z.abs_N m') ++ sgnb e' :: be4 (Z.abs_N e')
      | GBigFloat (BInf _) => [x49]
      | _ => x4c :: be4 (N.of_nat (length l)) ++ flat_map ser_cval l
      end
  end.

Definition digest_matches (x : cval) (dl da db : N) : bool :=
  let '(l, a, b) := cks (ser_cval x) in (l =? dl)%N && (a =? da)%N && (b =? db)%N.

(* ---------- the memory oracle ----------
   bytes allocated by the implementation for one decode call, against the model's allocation units:
   a unit is a slice cell (8 bytes), a byte of a byte buffer or a value node (ComponentValue 48 bytes
   + the big.Int / big.Float / string it holds + the breadcrumb string, which grows with nesting). *)
Definition alloc_per_unit : N := 768.
Definition alloc_slack : N := 32768.

Definition alloc_ok (alloc units : N) : bool := (alloc <=? alloc_per_unit * units + alloc_slack)%N.

Inductive case :=
(* ParameterArray.DecodeABIData(data, off): class, digest of the decoded tree, bytes allocated;
   [memchk] = the type is inside the memory clause (no element type of zero encoded size) *)
| CDec (t : ty) (data : bdsl) (off : Z) (cls : nat) (dl da db : N) (alloc : N) (memchk : bool)
(* Entry.DecodeCallData(data) with the entry's selector *)
| CCall (sel : bdsl) (t : ty) (data : bdsl) (cls : nat) (dl da db : N) (alloc : N) (memchk : bool)
(* Entry.DecodeEventData(topics, data) of the event name(inputs) - (type, indexed) per input *)
| CEvent (name : bdsl) (anon : bool) (inputs : list (ty * bool)) (topics : list bdsl) (data : bdsl)
         (cls : nat) (dl da db : N)
(* ABI.ParseError(data) against the error definitions (name, input types); [matched] = index of the
   matched definition + 1, 0 for the built-in Error(string) *)
| CError (errs : list (bdsl * list ty)) (data : bdsl) (cls : nat) (matched : bdsl) (dl da db : N).

(* result codes: 0 agree; 1..9 the model differs from the implementation; >= 10 the implementation
   breaks the property on this input *)
Definition judge (r : cres cval) (cls : nat) (dl da db alloc : N) (memchk : bool) : N :=
  if (cls =? 2)%nat then 12                                         (* the implementation panicked *)
  else if memchk && negb (alloc_ok alloc (snd r)) then 13            (* memory not bounded by the data *)
  else match fst r, cls with
       | Ok x, 0%nat => if digest_matches x dl da db then 0 else 2   (* decoded trees differ *)
       | Err _, 1%nat => 0
       | Panic, _ => 3                                               (* the model panics, the code did not *)
       | _, _ => 1                                                   (* Ok / Err class differs *)
       end.

Definition check_case (c : case) : N :=
  match c with
  | CDec t data off cls dl da db alloc memchk =>
      judge (DecodeABIData_c (tc_of_ty t) (bexpand data) off) cls dl da db alloc memchk
  | CCall sel t data cls dl da db alloc memchk =>
      judge (DecodeCallData_c (bexpand sel) (tc_of_ty t) (bexpand data)) cls dl da db alloc memchk
  | CEvent name anon inputs topics data cls dl da db =>
      let e := EntryModel.mkEntry EntryModel.TyEvent (bexpand name) anon
                 (map (fun ti : ty * bool => EntryModel.mkParam (Some (tc_of_ty (fst ti))) (snd ti)) inputs) in
      judge (EntryModel.DecodeEventData keccak256 DecodeABIData decode_elementary e (map bexpand topics) (bexpand data), 0%N)
            cls dl da db 0 false
  | CError errs data cls matched dl da db =>
      let a := map (fun nt : bdsl * list ty =>
                      EntryModel.mkEntry EntryModel.TyError (bexpand (fst nt)) false
                        (map (fun t => EntryModel.mkParam (Some (tc_of_ty t)) false) (snd nt))) errs in
      if (cls =? 2)%nat then 12 else
      match EntryModel.ParseError keccak256 DecodeABIData a (bexpand data), cls with
      | Ok (Some (e, x)), 0%nat =>
          if negb (bytes_eqb (EntryModel.e_name e) (bexpand matched)) then 4     (* another definition matched *)
          else if digest_matches x dl da db then 0 else 2
      | Ok None, 1%nat => 0
      | Panic, _ => 3
      | _, _ => 1
      end
  end.

Fixpoint mismatches_go (i : N) (l : list case) : list (N * N) :=
  match l with
  | [] => []
  | c :: t => let r := check_case c in
              if (r =? 0)%N then mismatches_go (i + 1) t else (i, r) :: mismatches_go (i + 1) t
  end.
Definition mismatches (l : list case) : list (N * N) := firstn 20 (mismatches_go 0 l).

(* calibration helper (not used by ./check): the model's allocation units per case *)
Definition units_of (c : case) : N :=
  match c with
  | CDec t data off _ _ _ _ _ _ => snd (DecodeABIData_c (tc_of_ty t) (bexpand data) off)
  | CCall sel t data _ _ _ _ _ _ => snd (DecodeCallData_c (bexpand sel) (tc_of_ty t) (bexpand data))
  | _ => 0
  end.
