(* C11, seventh part: the memory clause at the event entry point.  Entry.DecodeEventDataCtx builds the
   value tree from two sources: the topics (one value per indexed input, through topicToValue) and
   the data (the decoder, on the tuple of the non-indexed inputs).  [DecodeEventData_c] is the
   entry-level model (Abi/EntryModel.v, owned by C12) observed more closely: the same result,
   together with the allocation units requested up to the point where it returns:

     dataArgs := &typeComponent{ tupleChildren: make([]*typeComponent, 0, len(inputTypes)) }   1 + len(inputTypes)
     valueTree := &ComponentValue{ Children: make([]*ComponentValue, len(inputTypes)) }         1 + len(inputTypes)
     dataArgIndexMap[..] = idx            1 per non-indexed input (the append stays inside the capacity)
     topicToValue, value topic            the elementary reader on the topic: 1 node (+ 24 bytes for `function`)
     topicToValue, hashed topic           &ComponentValue{} + &typeComponent{} = 2 ([]byte(topic) is a conversion, no copy)
     dataArgs.DecodeABIDataCtx(data, 0)   the decoder's units (DecCost.v)

   The units are bounded by [event_bound e |data|]: a function of the definition and the length of
   the data.  Neither the number of topics, nor their widths, nor any word inside topics or data
   enters.  (As in DecCost.v the signature string, its hash and the type tree depend on the
   definition only and are not counted; errors raised before the first allocation cost nothing.) *)
From Coq Require Import List NArith ZArith Bool Lia Arith.
From Coq Require Import Init.Byte.
From FFS Require Import Base.Res Base.Bytes Abi.Types Abi.Spec Abi.ModelTypes Abi.DecModel Abi.DecCost.
From FFS Require Import Abi.DecTotalProofs Abi.EntryModel Abi.EntryProofsEvent Abi.DecTotalProofs3 Abi.DecTotalProofs6.
Import ListNotations.

Notation dec := DecModel.DecodeABIData.
Notation dece := DecModel.decode_elementary.

(* Entry.topicToValue with its cost *)
Definition topicToValue_c (topic : bytes) (input : tcomp) : cres cval :=
  match input with
  | TCElem e _ _ _ _ =>
      if fixed32 e then decode_elementary_c topic input 0 0
      else (Ok (raw_topic_value topic input), 2%N)
  | _ => (Ok (raw_topic_value topic input), 2%N)
  end.

(* the loop over inputTypes with its cost *)
Fixpoint event_walk_c (topics : list bytes) (inputs : list (tcomp * bool)) (idx topicIdx : nat)
         (children : list cval) (dataArgs : list tcomp) (dmap : list (nat * nat))
  : cres (list cval * list tcomp * list (nat * nat)) :=
  match inputs with
  | [] => (Ok (children, dataArgs, dmap), 0%N)
  | (input, indexed) :: r =>
      if indexed then
        match nth_error topics topicIdx with
        | None => (Err EInsufficientTopics, 0%N)
        | Some topic =>
            cdo v <- topicToValue_c topic input;
            cdo children' <- lift (set_nth children idx v);
            event_walk_c topics r (S idx) (S topicIdx) children' dataArgs dmap
        end
      else
        charge 1 (event_walk_c topics r (S idx) topicIdx children
                               (dataArgs ++ [input]) ((length dataArgs, idx) :: dmap))
  end.

Section EventCost.
  Variable H : bytes -> bytes.

  Definition DecodeEventData_c (e : entry) (topics : list bytes) (data : bytes) : cres cval :=
    cdo inputTypes <- lift (tree_children (e_inputs e));
    let typeTree := TCTuple inputTypes [] in
    cdo topicIdx <-
       lift (if negb (e_anonymous e) then
               match topics with
               | [] => Err EInsufficientTopics
               | t0 :: _ => if negb (bytes_eqb t0 (SignatureHashBytes H e)) then Err ESigMismatch else Ok 1%nat
               end
             else Ok O);
    charge (2 + 2 * N.of_nat (length inputTypes))
      (cdo st <- event_walk_c topics (zip_inputs inputTypes (e_inputs e)) O topicIdx
                              (repeat CVNil (length inputTypes)) [] [];
       let '(children, dataArgs, dmap) := st in
       cdo children' <-
          (if (0 <? length dataArgs)%nat then
             cdo dataValueTree <- DecodeABIData_c (TCTuple dataArgs []) data 0;
             lift (match dataValueTree with
                   | CVNil => Panic
                   | CV _ vs _ => event_fill vs O dmap children
                   end)
           else (Ok children, 0%N));
       (Ok (CV (Some typeTree) children' GNil), 0%N)).

  (* ---------- the twin is the model ---------- *)
  Lemma twin_topicToValue topic input : fst (topicToValue_c topic input) = topicToValue dece topic input.
  Proof.
    destruct input as [e s m n k| | |]; cbn [topicToValue_c topicToValue]; try reflexivity.
    destruct (fixed32 e); reflexivity.
  Qed.

  Lemma twin_event_walk topics l : forall idx tix ch da dm,
    fst (event_walk_c topics l idx tix ch da dm) = event_walk dece topics l idx tix ch da dm.
  Proof.
    induction l as [|[input [|]] r IH]; intros idx tix ch da dm; cbn [event_walk_c event_walk]; [reflexivity| |].
    - destruct (nth_error topics tix) as [t|]; [|reflexivity].
      rewrite cbind_fst. apply bind_ext; [apply twin_topicToValue|]. intros v.
      rewrite cbind_fst. apply bind_ext; [reflexivity|]. intros ch'. apply IH.
    - rewrite charge_fst. apply IH.
  Qed.

  Theorem twin_DecodeEventData e topics data :
    fst (DecodeEventData_c e topics data) = DecodeEventData H dec dece e topics data.
  Proof.
    unfold DecodeEventData_c, DecodeEventData.
    rewrite cbind_fst. apply bind_ext; [reflexivity|]. intros cs.
    rewrite cbind_fst. apply bind_ext; [reflexivity|]. intros tix.
    rewrite charge_fst, cbind_fst. apply bind_ext; [apply twin_event_walk|]. intros [[ch da] dm].
    rewrite cbind_fst. apply bind_ext; [|reflexivity].
    destruct (0 <? length da)%nat; [|reflexivity].
    rewrite cbind_fst. apply bind_ext; [apply twin_DecodeABIData|]. intros dv. reflexivity.
  Qed.

  (* ---------- the bound ---------- *)

  (* what one indexed input may request: the bound of a value type does not depend on the amount of
     data ([bound input 0]); a hashed topic is two nodes *)
  Definition topic_bound (input : tcomp) : N :=
    match input with
    | TCElem e _ _ _ _ => if fixed32 e then bound input 0 else 2%N
    | _ => 2%N
    end.

  Fixpoint walk_bound (l : ins) : N :=
    match l with
    | [] => 0%N
    | (input, true) :: r => (topic_bound input + walk_bound r)%N
    | (_, false) :: r => (1 + walk_bound r)%N
    end.

  Definition event_bound (e : entry) (n : N) : N :=
    match tree_children (e_inputs e) with
    | Ok cs =>
        let l := zip_inputs cs (e_inputs e) in
        (2 + 2 * N.of_nat (length cs) + walk_bound l + bound (TCTuple (data_args l) []) n)%N
    | _ => 0%N
    end.

  (* a value type (at most 32 bytes, directly in the topic) is bounded independently of the data *)
  Lemma fixed32_bound_const e s m n k nn :
    fixed32 e = true -> tc_wf (TCElem e s m n k) = true ->
    bound (TCElem e s m n k) nn = bound (TCElem e s m n k) 0.
  Proof.
    intros Hf Hw. unfold tc_wf in Hw. apply andb_true_iff in Hw as [Hc _].
    destruct e; try discriminate Hf; cbn [bound decoder_of]; try reflexivity.
    cbn [tc_consistent default_m] in Hc. apply N.eqb_eq in Hc. subst m. reflexivity.
  Qed.

  Lemma topicToValue_c_bound topic input :
    tc_wf input = true -> (snd (topicToValue_c topic input) <= topic_bound input)%N.
  Proof.
    intros Hw. destruct input as [e s m n k| | |]; cbn [topicToValue_c topic_bound snd]; try lia.
    destruct (fixed32 e) eqn:Ef; cbn [snd]; [|lia].
    unfold decode_elementary_c. cbn [snd].
    destruct (decode_elementary_spec topic e s m n k 0 0 (tc_wf_dec_valid _ Hw)) as [_ Hb]; try lia.
    rewrite (fixed32_bound_const e s m n k _ Ef Hw) in Hb. exact Hb.
  Qed.

  Lemma event_walk_c_good topics (l : ins) :
    Forall (fun c => tc_wf c = true) (map fst l) ->
    forall idx tix ch da dm,
      (snd (event_walk_c topics l idx tix ch da dm) <= walk_bound l)%N /\
      (forall ch' da' dm', fst (event_walk_c topics l idx tix ch da dm) = Ok (ch', da', dm') ->
                           da' = da ++ data_args l).
  Proof.
    induction l as [|[input [|]] r IH]; intros Hf idx tix ch da dm; cbn [event_walk_c walk_bound].
    - cbn [fst snd]. split; [lia|]. intros ch' da' dm' E. injection E as _ <- _.
      unfold data_args. cbn. rewrite app_nil_r. reflexivity.
    - cbn [map fst] in Hf. inversion Hf as [|? ? H1 H2]; subst.
      destruct (nth_error topics tix) as [t|]; [|cbn [fst snd]; split; [lia|discriminate]].
      pose proof (topicToValue_c_bound t input H1) as Ht.
      destruct (topicToValue_c t input) as [[v|x|] kt]; cbn [cbind fst snd] in *; try (split; [lia|discriminate]).
      unfold lift. destruct (set_nth ch idx v) as [ch1|x|]; cbn [cbind fst snd];
        try (split; [lia|discriminate]).
      destruct (IH H2 (S idx) (S tix) ch1 da dm) as [Hk Hd].
      destruct (event_walk_c topics r (S idx) (S tix) ch1 da dm) as [rr kr]; cbn [fst snd] in *.
      split; [lia|]. intros ch' da' dm' E. rewrite (Hd _ _ _ E). reflexivity.
    - cbn [map fst] in Hf. inversion Hf as [|? ? H1 H2]; subst.
      destruct (IH H2 (S idx) tix ch (da ++ [input]) ((length da, idx) :: dm)) as [Hk Hd].
      unfold charge. cbn [fst snd]. split; [lia|].
      intros ch' da' dm' E. rewrite (Hd _ _ _ E). rewrite <- app_assoc. reflexivity.
  Qed.

  Lemma zip_fst_wf cs pa :
    Forall (fun c => tc_wf c = true) cs -> Forall (fun c => tc_wf c = true) (map fst (zip_inputs cs pa)).
  Proof.
    intros Hcs. apply Forall_forall. intros x Hx. rewrite Forall_forall in Hcs.
    apply Hcs. eapply zip_inputs_fst_in; eauto.
  Qed.

  Theorem DecodeEventData_alloc_bound e topics data :
    params_wf (e_inputs e) -> params_nz (e_inputs e) ->
    (alloc (DecodeEventData_c e topics data) <= event_bound e (N.of_nat (length data)))%N.
  Proof.
    intros Hw Hnz. unfold DecodeEventData_c, event_bound, alloc, lift.
    destruct (tree_children (e_inputs e)) as [cs| |] eqn:Ec; cbn [cbind snd]; try lia.
    pose proof (tree_children_wf _ _ Hw Ec) as Hcs.
    pose proof (tree_children_nz _ _ Hnz Ec) as Hcn.
    set (l := zip_inputs cs (e_inputs e)).
    set (g := if negb (e_anonymous e) then _ else _).
    destruct g as [tix|x|]; cbn [cbind snd]; try lia.
    match goal with |- context [charge ?k ?r] => set (body := r) end.
    assert (Hb : (snd body <= walk_bound l + bound (TCTuple (data_args l) []) (N.of_nat (length data)))%N).
    { subst body.
      destruct (event_walk_c_good topics l (zip_fst_wf cs (e_inputs e) Hcs) O tix (repeat CVNil (length cs)) [] []) as [Hk Hd].
      destruct (event_walk_c topics l 0 tix (repeat CVNil (length cs)) [] []) as [[[[ch da] dm]|x|] kw];
        cbn [cbind fst snd] in *; try lia.
      specialize (Hd ch da dm eq_refl). cbn [app] in Hd. subst da.
      assert (Hin : forall x, In x (data_args l) -> In x cs).
      { intros x Hx. eapply zip_inputs_fst_in. apply data_args_in. exact Hx. }
      destruct (0 <? length (data_args l))%nat.
      - assert (Hd1 : tc_wf (TCTuple (data_args l) []) = true).
        { apply tc_wf_tuple. apply Forall_forall. intros x Hx. rewrite Forall_forall in Hcs. apply Hcs, Hin, Hx. }
        assert (Hd2 : no_zero_size_elem (TCTuple (data_args l) []) = true).
        { cbn [no_zero_size_elem]. apply forallb_forall. intros x Hx.
          rewrite forallb_forall in Hcn. apply Hcn, Hin, Hx. }
        pose proof (DecodeABIData_alloc_bound _ data 0%Z Hd1 Hd2 ltac:(lia)) as Hdb. unfold alloc in Hdb.
        destruct (DecodeABIData_c (TCTuple (data_args l) []) data 0) as [[dv|x|] kd]; cbn [cbind fst snd] in *; try lia.
        destruct (match dv with CVNil => Panic | CV _ vs _ => event_fill vs 0 dm ch end) as [c1|x|];
          cbn [cbind fst snd]; lia.
      - cbn [cbind fst snd]. lia. }
    unfold charge. cbn [snd]. lia.
  Qed.
End EventCost.

(* the bound is monotone in the data length, like [bound] *)
Lemma event_bound_mono e n n' : (n <= n')%N -> (event_bound e n <= event_bound e n')%N.
Proof.
  intros Hn. unfold event_bound. destruct (tree_children (e_inputs e)) as [cs| |]; try lia.
  pose proof (bound_mono (TCTuple (data_args (zip_inputs cs (e_inputs e))) []) n n' Hn). lia.
Qed.

Lemma event_bound_shape e cs n :
  tree_children (e_inputs e) = Ok cs ->
  event_bound e n =
  (2 + 2 * N.of_nat (length cs) + walk_bound (zip_inputs cs (e_inputs e))
   + bound (TCTuple (data_args (zip_inputs cs (e_inputs e))) []) n)%N.
Proof. intros E. unfold event_bound. rewrite E. reflexivity. Qed.
