(* C11, fifth part: stability, unconditionally - C03's round-trip theorem (DecProofs4.DecodeABIData_enc)
   discharges the hypothesis of DecTotalProofs4.stable_given_roundtrip. *)
From Coq Require Import List NArith ZArith Bool Lia.
From Coq Require Import Init.Byte.
From FFS Require Import Base.Res Base.Bytes Abi.Types Abi.Spec Abi.ModelTypes Abi.DecModel Abi.DecSpec Abi.EncModel.
From FFS Require Import Abi.EncProofs3 Abi.DecTotalProofs4.
From FFS Require Abi.DecProofs3 Abi.DecProofs4.
Import ListNotations.
Local Open Scope Z_scope.

Lemma counts_ok_eq v : DecProofs3.counts_ok v = list_counts_ok v.
Proof. reflexivity. Qed.   (* the two definitions are the same fixpoint *)

Theorem decode_inverts_enc_holds : decode_inverts_enc.
Proof.
  intros children k v pre post c H1 H2 H3 H4 Hwt Hsz Hcnt.
  apply DecProofs4.DecodeABIData_enc; auto.
Qed.

Theorem stable :
  forall c bs off x e,
    tc_wf c = true -> tc_no_fixed_point c = true -> tc_no_zero_len c = true ->
    DecodeABIData c bs off = Ok x -> EncodeABIData x = Ok e ->
    bools_ok x = true -> weight_ok (val_of x) ->
    zlen e < 2 ^ 32 -> list_counts_ok (val_of x) = true ->
    DecodeABIData c e 0 = Ok x.
Proof. exact (stable_given_roundtrip decode_inverts_enc_holds). Qed.
