(* C02, referee issue 1: the input walk against the independent relation [repr] of Abi/ReprSpec.v.
     walk_complete : every input that denotes v (per [repr]) is walked successfully into a tree holding v
     walk_sound    : whatever tree the walk returns holds a value the input denotes (per [repr])
   and their compositions with the encoder theorem. *)
From Coq Require Import List NArith ZArith Bool Arith Lia.
From Coq Require Import Init.Byte.
From FFS Require Import Base.Res Base.Bytes Abi.Types Abi.Spec Abi.ModelTypes Abi.EncModel Abi.InputModel.
From FFS Require Import Abi.EncProofs Abi.EncProofs2 Abi.EncProofs3 Abi.EncProofs4 Abi.InputProofs Abi.ReprSpec Abi.ReprProofs.
Import ListNotations.

Lemma bind_eq {A B} (r : res A) a (k : A -> res B) y : r = Ok a -> k a = y -> bind r k = y.
Proof. intros -> <-. reflexivity. Qed.

(* ================= completeness ================= *)
Section Complete.
Variable bifs : bytes -> res Z.
(* the denotation of integer inputs: anything the reader reads as that integer *)
Variable I : ext -> Z -> Prop.
Hypothesis I_read : forall x z, I x z -> int_read bifs x z.

Definition walk_reads (tc : tcomp) : Prop :=
  forall input v, repr I tc input v ->
    exists x, walkInput bifs tc input = Ok x /\ val_of x = v /\ values_ok x = true.

Lemma int_read_get x z : int_read bifs x z -> getIntegerFromInterface bifs x = Ok (GBigInt z).
Proof.
  intros R. unfold getIntegerFromInterface.
  destruct x as [| t | t | b | [z'|] | [m0 e0 p|sg] | [m0 e0|sg|] | [m0 e0|sg|] | kk z' | b | l | m0 |]; cbn [int_read] in R; try contradiction;
    try (rewrite R; reflexivity); subst; reflexivity.
Qed.

Lemma complete_array child (IH : walk_reads child) l vs : Forall2 (repr I child) l vs ->
  exists cs,
    (fix go (l : list ext) : res (list cval) :=
       match l with
       | [] => Ok []
       | v :: r => do c <- walkInput bifs child v; do cs <- go r; Ok (c :: cs)
       end) l = Ok cs /\ map val_of cs = vs /\ forallb values_ok cs = true.
Proof.
  induction 1 as [|x v l vs R _ IHl].
  - exists []. repeat split; reflexivity.
  - destruct (IH x v R) as (c & W & V & K). destruct IHl as (cs & G & Vs & Ks).
    exists (c :: cs). split; [|cbn [map forallb]; rewrite V, Vs, K, Ks; split; reflexivity].
    eapply bind_eq; [exact W|]. eapply bind_eq; [exact G|reflexivity].
Qed.

Lemma all3_lengths {A B C} (R : A -> B -> C -> Prop) la lb lc : all3 R la lb lc -> length lb = length la /\ length lc = length la.
Proof. induction 1 as [|a b c la lb lc _ _ [IH1 IH2]]; cbn [length]; [split; reflexivity|rewrite IH1, IH2; split; reflexivity]. Qed.

Lemma complete_tuple_seq ts (IH : Forall walk_reads ts) l vs : all3 (repr I) ts l vs ->
  exists cs,
    (fix go (ts : list tcomp) (l : list ext) {struct ts} : res (list cval) :=
       match ts, l with
       | t :: ts', v :: r => do c <- walkInput bifs t v; do cs <- go ts' r; Ok (c :: cs)
       | _, _ => Ok []
       end) ts l = Ok cs /\ map val_of cs = vs /\ forallb values_ok cs = true.
Proof.
  intros A. induction A as [|t x v ts l vs R _ IHl].
  - exists []. repeat split; reflexivity.
  - inversion IH as [|t' ts' Ht Hts]; subst. destruct (Ht x v R) as (c & W & V & K). destruct (IHl Hts) as (cs & G & Vs & Ks).
    exists (c :: cs). split; [|cbn [map forallb]; rewrite V, Vs, K, Ks; split; reflexivity].
    eapply bind_eq; [exact W|]. eapply bind_eq; [exact G|reflexivity].
Qed.

Lemma complete_tuple_obj m ts (IH : Forall walk_reads ts) : forall i l vs, members m i ts l -> all3 (repr I) ts l vs ->
  exists cs,
    (fix go (ts : list tcomp) (i : nat) {struct ts} : res (list cval) :=
       match ts with
       | [] => Ok []
       | t :: ts' =>
           let keyName := match tc_key t with [] => itoa i | k :: l => k :: l end in
           match lookup keyName m with
           | None => Err EMissingKey
           | Some v => do c <- walkInput bifs t v; do cs <- go ts' (S i); Ok (c :: cs)
           end
       end) ts i = Ok cs /\ map val_of cs = vs /\ forallb values_ok cs = true.
Proof.
  induction IH as [|t ts Ht _ IHts]; intros i l vs M A.
  - inversion A; subst. exists []. repeat split; reflexivity.
  - inversion M as [|i' t' ts' key x l' MK FB M']; subst. inversion A as [|a b v la lb vs' R A']; subst.
    apply member_key_effective in MK. subst key. apply lookup_first in FB. unfold effective_key in FB.
    destruct (Ht x v R) as (c & W & V & K). destruct (IHts (S i) l' vs' M' A') as (cs & G & Vs & Ks).
    exists (c :: cs). split; [|cbn [map forallb]; rewrite V, Vs, K, Ks; split; reflexivity].
    cbv zeta. rewrite FB. eapply bind_eq; [exact W|]. eapply bind_eq; [exact G|reflexivity].
Qed.

Theorem walk_complete tc : walk_reads tc.
Proof.
  induction tc as [e s m n k|len c k IH|c k IH|ts k IH] using tcomp_ind'; intros input v R.
  - inversion R as [e' s' m' n' k' x z He Hz|s' m' n' k' b|s' m' n' k' x t Ht Htt|s' m' n' k' x t Ht Htt
                    |s' m' n' k' x b Hb|e' s' m' n' k' x b He Hb|s' m' n' k' x b Hb| | | |]; subst.
    + destruct He as [-> | ->]; cbn [walkInput reader_of read_external]; rewrite (int_read_get _ _ (I_read _ _ Hz)); cbn [bind];
        eexists; split; [reflexivity|split; reflexivity| reflexivity|split; reflexivity].
    + cbn [walkInput reader_of read_external getBoolAsUnsignedIntegerFromInterface bind].
      eexists; split; [reflexivity|]. split; [destruct b; reflexivity|reflexivity].
    + apply true_text_iff in Htt.
      destruct Ht as [-> | ->]; cbn [walkInput reader_of read_external getBoolAsUnsignedIntegerFromInterface bind]; rewrite Htt;
        eexists; split; [reflexivity|split; reflexivity|reflexivity|split; reflexivity].
    + assert (F : equal_fold_true t = false).
      { destruct (equal_fold_true t) eqn:E; [|reflexivity]. exfalso. apply Htt. apply true_text_iff. exact E. }
      destruct Ht as [-> | ->]; cbn [walkInput reader_of read_external getBoolAsUnsignedIntegerFromInterface bind]; rewrite F;
        eexists; split; [reflexivity|split; reflexivity|reflexivity|split; reflexivity].
    + apply bytes_of_read in Hb. cbn [walkInput reader_of read_external]. unfold getUintBytesFromInterface. rewrite Hb. cbn [bind].
      eexists; split; [reflexivity|]. split; [cbn [val_of gval_to_val]; rewrite of_be_value; reflexivity|reflexivity].
    + apply bytes_of_read in Hb.
      destruct He as [-> | ->]; cbn [walkInput reader_of read_external]; unfold getBytesFromInterface; rewrite Hb; cbn [bind];
        eexists; split; [reflexivity|split; reflexivity|reflexivity|split; reflexivity].
    + destruct Hb as [[-> | ->] | ->]; cbn [walkInput reader_of read_external getStringFromInterface bind];
        eexists; (split; [reflexivity|split; reflexivity]).
  - inversion R as [| | | | | | |len' c' k' x l vs S L F| | |]; subst.
    apply seq_of_slice in S. cbn [walkInput]. rewrite S. rewrite Z.eqb_refl. cbn [negb].
    destruct (complete_array c IH l vs F) as (cs & G & Vs & Ks).
    eexists; split; [eapply bind_eq; [exact G|reflexivity]|]. cbn [val_of values_ok]. rewrite Vs, Ks. split; reflexivity.
  - inversion R as [| | | | | | | |c' k' x l vs S F| |]; subst.
    apply seq_of_slice in S. cbn [walkInput]. rewrite S.
    destruct (complete_array c IH l vs F) as (cs & G & Vs & Ks).
    eexists; split; [eapply bind_eq; [exact G|reflexivity]|]. cbn [val_of values_ok]. rewrite Vs, Ks. split; reflexivity.
  - inversion R as [| | | | | | | | |ts' k' x l vs S A|ts' k' m l vs M A]; subst.
    + apply seq_of_slice in S. cbn [walkInput]. rewrite S.
      destruct (all3_lengths _ _ _ _ A) as [L _]. rewrite L, Nat.eqb_refl. cbn [negb].
      destruct (complete_tuple_seq ts IH l vs A) as (cs & G & Vs & Ks).
      eexists; split; [eapply bind_eq; [exact G|reflexivity]|]. cbn [val_of values_ok]. rewrite Vs, Ks. split; reflexivity.
    + cbn [walkInput as_slice].
      destruct (complete_tuple_obj m ts IH 0%nat l vs M A) as (cs & G & Vs & Ks).
      eexists; split; [eapply bind_eq; [exact G|reflexivity]|]. cbn [val_of values_ok]. rewrite Vs, Ks. split; reflexivity.
Qed.

(* every input that denotes a well-typed value is accepted and encoded as enc of that value *)
Theorem denoted_value_encoded params input v :
  let root := root_of params in
  tc_wf root = true -> tc_no_fixed_point root = true -> tc_no_zero_len root = true ->
  repr I root input v -> well_typed (ty_of root) v = true -> weight_ok v ->
  EncodeABIDataValues bifs params input = Ok (enc (ty_of root) v).
Proof.
  intros root W NF NZ R WT WO. destruct (walk_complete root input v R) as (x & H & V & K).
  unfold EncodeABIDataValues. fold root. rewrite H. cbn [bind].
  destruct (walkInput_shape bifs root input x H) as [T _]. unfold EncodeABIData. subst v.
  rewrite (encode_is_spec x root W NF NZ T K WT WO). reflexivity.
Qed.

(* the same through Entry.EncodeCallDataValues: the selector followed by enc of the denoted value *)
Theorem denoted_value_call_encoded sel params input v :
  let root := root_of params in
  tc_wf root = true -> tc_no_fixed_point root = true -> tc_no_zero_len root = true ->
  repr I root input v -> well_typed (ty_of root) v = true -> weight_ok v ->
  EncodeCallDataValues bifs sel params input = Ok (sel ++ enc (ty_of root) v).
Proof.
  intros root W NF NZ R WT WO. pose proof (denoted_value_encoded params input v W NF NZ R WT WO) as H.
  unfold EncodeABIDataValues in H. unfold EncodeCallDataValues. fold root in H |- *.
  destruct (walkInput bifs root input) as [x| |]; cbn [bind] in *; try discriminate. rewrite H. reflexivity.
Qed.
End Complete.

(* ================= soundness ================= *)
Section Sound.
Variable bifs : bytes -> res Z.
Variable D : bytes -> Z -> Prop.
Hypothesis bifs_sound : forall s z, bifs s = Ok z -> D s z.
Let I := int_denotes D.

Definition walk_denotes (tc : tcomp) : Prop :=
  tc_no_fixed_point tc = true -> forall input x, ext_clean input = true ->
    walkInput bifs tc input = Ok x -> repr I tc input (val_of x).

Lemma get_int_denotes v g : ext_clean v = true -> getIntegerFromInterface bifs v = Ok g ->
  exists z, g = GBigInt z /\ int_denotes D v z.
Proof.
  intros C H. unfold getIntegerFromInterface in H.
  destruct v as [| t | t | b | [z|] | [m0 e0 p|s] | [m0 e0|s|] | [m0 e0|s|] | k z | b | l | m0 |]; try discriminate; cbn [ext_clean] in C; try discriminate.
  - destruct (bifs t) as [z| |] eqn:E; cbn [wrap_err bind] in H; try discriminate. injection H as <-. exists z. split; [reflexivity|]. apply bifs_sound. exact E.
  - destruct (bifs t) as [z| |] eqn:E; cbn [wrap_err bind] in H; try discriminate. injection H as <-. exists z. split; [reflexivity|]. apply bifs_sound. exact E.
  - injection H as <-. eexists. split; reflexivity.
  - injection H as <-. eexists. split; reflexivity.
  - cbn [getIntegerFromFloat64] in H. injection H as <-. eexists. split; reflexivity.
  - cbn [getIntegerFromFloat64] in H. injection H as <-. eexists. split; reflexivity.
  - injection H as <-. eexists. split; reflexivity.
Qed.

Lemma sound_array child (IH : forall input x, ext_clean input = true -> walkInput bifs child input = Ok x -> repr I child input (val_of x)) l :
  forall cs,
  (fix go (l : list ext) : res (list cval) :=
     match l with
     | [] => Ok []
     | v :: r => do c <- walkInput bifs child v; do cs <- go r; Ok (c :: cs)
     end) l = Ok cs ->
  forallb ext_clean l = true -> Forall2 (repr I child) l (map val_of cs).
Proof.
  induction l as [|v r IHr]; intros cs H C.
  - injection H as <-. constructor.
  - destruct (walkInput bifs child v) as [a| |] eqn:E; cbn [bind] in H; try discriminate.
    match type of H with (do cs0 <- ?G; _) = _ => destruct G as [l'| |] eqn:E2 end; cbn [bind] in H; try discriminate.
    injection H as <-. cbn [forallb] in C. apply andb_prop in C as [C1 C2]. cbn [map].
    constructor; [apply IH; assumption|apply IHr; [reflexivity|assumption]].
Qed.

Lemma sound_tuple_seq ts
  (IH : Forall (fun t => forall input x, ext_clean input = true -> walkInput bifs t input = Ok x -> repr I t input (val_of x)) ts) :
  forall l cs, length l = length ts ->
  (fix go (ts : list tcomp) (l : list ext) {struct ts} : res (list cval) :=
     match ts, l with
     | t :: ts', v :: r => do c <- walkInput bifs t v; do cs <- go ts' r; Ok (c :: cs)
     | _, _ => Ok []
     end) ts l = Ok cs ->
  forallb ext_clean l = true -> all3 (repr I) ts l (map val_of cs).
Proof.
  induction IH as [|t r Ht _ IHr]; intros [|v l] cs LE H C; try discriminate.
  - injection H as <-. constructor.
  - destruct (walkInput bifs t v) as [a| |] eqn:E; cbn [bind] in H; try discriminate.
    match type of H with (do cs0 <- ?G; _) = _ => destruct G as [l'| |] eqn:E2 end; cbn [bind] in H; try discriminate.
    injection H as <-. cbn [forallb] in C. apply andb_prop in C as [C1 C2]. cbn [map]. cbn [length] in LE.
    constructor; [apply Ht; assumption|apply (IHr l l'); [lia|exact E2|assumption]].
Qed.

Lemma sound_tuple_obj m ts
  (IH : Forall (fun t => forall input x, ext_clean input = true -> walkInput bifs t input = Ok x -> repr I t input (val_of x)) ts) :
  forallb (fun kv => ext_clean (snd kv)) m = true ->
  forall i cs,
  (fix go (ts : list tcomp) (i : nat) {struct ts} : res (list cval) :=
     match ts with
     | [] => Ok []
     | t :: ts' =>
         let keyName := match tc_key t with [] => itoa i | k :: l => k :: l end in
         match lookup keyName m with
         | None => Err EMissingKey
         | Some v => do c <- walkInput bifs t v; do cs <- go ts' (S i); Ok (c :: cs)
         end
     end) ts i = Ok cs ->
  exists l, members m i ts l /\ all3 (repr I) ts l (map val_of cs).
Proof.
  intros C. induction IH as [|t r Ht _ IHr]; intros i cs H.
  - injection H as <-. exists []. split; constructor.
  - cbv zeta in H. destruct (lookup _ m) as [v|] eqn:LK; [|discriminate].
    destruct (walkInput bifs t v) as [a| |] eqn:E; cbn [bind] in H; try discriminate.
    match type of H with (do cs0 <- ?G; _) = _ => destruct G as [l'| |] eqn:E2 end; cbn [bind] in H; try discriminate.
    injection H as <-. destruct (IHr (S i) l' E2) as (l & M & A).
    exists (v :: l). split.
    + econstructor; [apply member_key_effective; reflexivity|apply lookup_first; exact LK|exact M].
    + cbn [map]. constructor; [apply Ht; [eapply lookup_clean; eassumption|exact E]|exact A].
Qed.

Theorem walk_sound tc : walk_denotes tc.
Proof.
  induction tc as [e s m n k|len c k IH|c k IH|ts k IH] using tcomp_ind'; intros NF input x C H; cbn [walkInput] in H.
  - destruct (read_external bifs (reader_of e) input) as [g| |] eqn:E; cbn [bind] in H; try discriminate. injection H as <-.
    cbn [val_of]. destruct e; cbn [tc_no_fixed_point] in NF; try discriminate; cbn [reader_of read_external] in E.
    + destruct (get_int_denotes input g C E) as (z & -> & Dz). cbn [gval_to_val]. apply R_int; [left; reflexivity|exact Dz].
    + destruct (get_int_denotes input g C E) as (z & -> & Dz). cbn [gval_to_val]. apply R_int; [right; reflexivity|exact Dz].
    + unfold getUintBytesFromInterface in E. destruct (getBytesFromInterface_b input) as [b| |] eqn:B; cbn [bind] in E; try discriminate.
      injection E as <-. cbn [gval_to_val]. rewrite of_be_value. apply R_address. apply bytes_of_read. exact B.
    + unfold getBoolAsUnsignedIntegerFromInterface in E. destruct input; try discriminate; injection E as <-; unfold big_of_bool; cbn [gval_to_val].
      * destruct (equal_fold_true t) eqn:T.
        -- eapply R_bool_true; [right; reflexivity|apply true_text_iff; exact T].
        -- eapply R_bool_false; [right; reflexivity|]. intros X. apply true_text_iff in X. congruence.
      * destruct (equal_fold_true s0) eqn:T.
        -- eapply R_bool_true; [left; reflexivity|apply true_text_iff; exact T].
        -- eapply R_bool_false; [left; reflexivity|]. intros X. apply true_text_iff in X. congruence.
      * apply R_bool.
    + unfold getBytesFromInterface in E. destruct (getBytesFromInterface_b input) as [b| |] eqn:B; cbn [bind] in E; try discriminate.
      injection E as <-. cbn [gval_to_val]. apply R_bytes; [left; reflexivity|apply bytes_of_read; exact B].
    + unfold getBytesFromInterface in E. destruct (getBytesFromInterface_b input) as [b| |] eqn:B; cbn [bind] in E; try discriminate.
      injection E as <-. cbn [gval_to_val]. apply R_bytes; [right; reflexivity|apply bytes_of_read; exact B].
    + unfold getStringFromInterface in E. destruct input; try discriminate; injection E as <-; cbn [gval_to_val]; apply R_string;
        [left; right; reflexivity|left; left; reflexivity|right; reflexivity].
  - cbn [tc_no_fixed_point] in NF. destruct (as_slice input) as [iArray|] eqn:SL; [|discriminate].
    destruct (negb (Z.of_nat (length iArray) =? len)%Z) eqn:LE; [discriminate|]. apply negb_false_iff in LE. apply Z.eqb_eq in LE.
    match type of H with (do cs0 <- ?G; _) = _ => destruct G as [a| |] eqn:E2 end; cbn [bind] in H; try discriminate.
    injection H as <-. cbn [val_of]. econstructor; [apply seq_of_slice; exact SL|exact LE|].
    apply (sound_array c (IH NF) iArray a E2). eapply as_slice_clean; eassumption.
  - cbn [tc_no_fixed_point] in NF. destruct (as_slice input) as [iArray|] eqn:SL; [|discriminate].
    match type of H with (do cs0 <- ?G; _) = _ => destruct G as [a| |] eqn:E2 end; cbn [bind] in H; try discriminate.
    injection H as <-. cbn [val_of]. econstructor; [apply seq_of_slice; exact SL|].
    apply (sound_array c (IH NF) iArray a E2). eapply as_slice_clean; eassumption.
  - cbn [tc_no_fixed_point] in NF.
    assert (IH' : Forall (fun t => forall input x, ext_clean input = true -> walkInput bifs t input = Ok x -> repr I t input (val_of x)) ts).
    { clear H. induction IH as [|t r Ht _ IHr]; [constructor|]. cbn [forallb] in NF. apply andb_prop in NF as [N1 N2].
      constructor; [exact (Ht N1)|exact (IHr N2)]. }
    destruct (as_slice input) as [iArray|] eqn:SL.
    + destruct (negb (length iArray =? length ts)%nat) eqn:LE; [discriminate|].
      apply negb_false_iff in LE. apply Nat.eqb_eq in LE.
      match type of H with (do cs0 <- ?G; _) = _ => destruct G as [a| |] eqn:E2 end; cbn [bind] in H; try discriminate.
      injection H as <-. cbn [val_of]. eapply R_tuple_seq; [apply seq_of_slice; exact SL|].
      apply (sound_tuple_seq ts IH' iArray a LE E2). eapply as_slice_clean; eassumption.
    + destruct input; try discriminate. cbn [ext_clean] in C.
      match type of H with (do cs0 <- ?G; _) = _ => destruct G as [a| |] eqn:E2 end; cbn [bind] in H; try discriminate.
      injection H as <-. cbn [val_of]. destruct (sound_tuple_obj m ts IH' C 0%nat a E2) as (l & M & A).
      eapply R_tuple_obj; eassumption.
Qed.

(* whatever is accepted is the encoding of a value the input denotes (when that value is well typed:
   see the notes for bytes<M> / function inputs longer than M) *)
Theorem accepted_is_denoted params input b :
  let root := root_of params in
  tc_wf root = true -> tc_no_fixed_point root = true -> tc_no_zero_len root = true ->
  ext_clean input = true ->
  EncodeABIDataValues bifs params input = Ok b ->
  exists v, repr I root input v /\
            (well_typed (ty_of root) v = true -> weight_ok v -> b = enc (ty_of root) v).
Proof.
  intros root W NF NZ C H. unfold EncodeABIDataValues in H. fold root in H.
  destruct (walkInput bifs root input) as [x| |] eqn:E; cbn [bind] in H; try discriminate.
  exists (val_of x). split; [exact (walk_sound root NF input x C E)|].
  intros WT WO. pose proof (values_encode_is_spec bifs params input x W NF NZ C E WT WO) as V.
  unfold EncodeABIDataValues in V. fold root in V. rewrite E in V. cbn [bind] in V. congruence.
Qed.
End Sound.
