(* C11, answers to the referee report (design/reviews/C11.md):
   I1  a decoded tree is *accepted* by the serializer model (Ok, not merely "not Panic"), for every
       formatting mode the serializer knows; for an unknown mode the result is the error
       EUnknownTupleSerializer (so the guard [ts s <> FormatOther] is necessary);
   I6  the serializer call inside FormatErrorStringCtx returns a []interface{} on the tree returned by
       ParseError; the fixed-point refutation with a Prop inequality instead of cval_eqb. *)
From Coq Require Import List NArith ZArith Bool Lia ZifyBool ZifyN ZifyNat.
From Coq Require Import Init.Byte.
From FFS Require Import Base.Res Base.Bytes Abi.Types Abi.Spec Abi.ModelTypes Abi.DecModel Abi.SerModel.
From FFS Require Import Abi.DecTotalProofs Abi.DecTotalProofs2 Abi.EntryModel Abi.DecTotalProofs3 Abi.EncModel.
Import ListNotations.
Local Open Scope Z_scope.

Section SerOk.
  Variable H : bytes -> bytes.
  Variable fs : bfloat -> jv.
  Variable dn : nat -> bytes.
  Variable s : serializer.
  Hypothesis Hmode : ts s <> FormatOther.

  Lemma serializeElementaryType_ok e v :
    elem_val_ok e v = true -> exists j, serializeElementaryType H fs s e v = Ok j.
  Proof.
    destruct e, v; cbn [elem_val_ok serializeElementaryType]; try discriminate; intros Hv; eauto.
    replace (2 ^ 160 <=? Z.abs z) with false by lia. destruct (ad s); eauto.
  Qed.

  Lemma walkOutput_ok x : ser_ok x = true -> exists j, walkOutput H fs dn s x = Ok j.
  Proof.
    induction x as [|c l v IH] using cval_ind'; [discriminate|].
    destruct c as [c|]; [|discriminate]. cbn [ser_ok].
    assert (Harr : forallb ser_ok l = true ->
              exists js,
              (fix go (l : list cval) : res (list jv) :=
                 match l with
                 | [] => Ok []
                 | y :: r => do v <- walkOutput H fs dn s y; do vs <- go r; Ok (v :: vs)
                 end) l = Ok js).
    { clear c v. induction IH as [|y r Hy Hr IHr]; [eauto|].
      cbn [forallb]. intros Hf. apply andb_true_iff in Hf as [H1 H2].
      destruct (Hy H1) as [j Hj]. destruct (IHr H2) as [js Hjs].
      rewrite Hj. cbn [bind]. rewrite Hjs. cbn [bind]. eauto. }
    destruct c as [e sf m n k|len ch k|ch k|cs k]; cbn [walkOutput].
    - apply serializeElementaryType_ok.
    - intros Hf. destruct (Harr Hf) as [js ->]. cbn [bind]. eauto.
    - intros Hf. destruct (Harr Hf) as [js ->]. cbn [bind]. eauto.
    - intros Hf. destruct (ts s) eqn:Ets.
      + (* objects *)
        assert (G : forall i out, exists m,
                 (fix go (i : nat) (l : list cval) (out : list (bytes * jv)) : res (list (bytes * jv)) :=
                    match l with
                    | [] => Ok out
                    | CVNil :: _ => Panic
                    | CV None _ _ :: r => go (S i) r out
                    | (CV (Some cc) _ _ as y) :: r =>
                        let name := match tc_key cc with [] => dn i | k => k end in
                        do v <- walkOutput H fs dn s y;
                        go (S i) r (map_set name v out)
                    end) i l out = Ok m).
        { clear Harr. induction IH as [|y r Hy Hr IHr]; intros i out; [eauto|].
          cbn [forallb] in Hf. apply andb_true_iff in Hf as [H1 H2].
          destruct y as [|[cc|] yl yv]; try discriminate.
          destruct (Hy H1) as [j Hj]. rewrite Hj. cbn [bind]. apply IHr; auto. }
        destruct (G O []) as [m0 Hm0].
        match goal with |- exists j, (do m <- ?G0; _) = _ => replace G0 with (Ok m0 : res (list (bytes * jv))) by (symmetry; exact Hm0) end.
        cbn [bind]. eauto.
      + destruct (Harr Hf) as [js ->]. cbn [bind]. eauto.
      + assert (G : forall i, exists js,
                 (fix go (i : nat) (l : list cval) : res (list jv) :=
                    match l with
                    | [] => Ok []
                    | CVNil :: _ => Panic
                    | CV None _ _ :: _ => Err EBadABITypeComponent
                    | (CV (Some cc) _ _ as y) :: r =>
                        let name := match tc_key cc with [] => dn i | k => k end in
                        do v <- walkOutput H fs dn s y;
                        do vs <- go (S i) r;
                        Ok (JObj [(s_name, JStr name); (s_type, JStr (SerModel.tc_string cc)); (s_value, v)] :: vs)
                    end) i l = Ok js).
        { clear Harr. induction IH as [|y r Hy Hr IHr]; intros i; [eauto|].
          cbn [forallb] in Hf. apply andb_true_iff in Hf as [H1 H2].
          destruct y as [|[cc|] yl yv]; try discriminate.
          destruct (Hy H1) as [j Hj]. rewrite Hj. cbn [bind].
          destruct (IHr H2 (S i)) as [js Hjs].
          match goal with |- exists _, (do vs <- ?G0; _) = _ => replace G0 with (Ok js : res (list jv)) by (symmetry; exact Hjs) end.
          cbn [bind]. eauto. }
        destruct (G O) as [js Hjs].
        match goal with |- exists j, (do m <- ?G0; _) = _ => replace G0 with (Ok js : res (list jv)) by (symmetry; exact Hjs) end.
        cbn [bind]. eauto.
      + contradiction.
  Qed.

  (* both entry points of the serializer, with the relation between their results named *)
  Lemma ser_ok_serializes x : ser_ok x = true ->
    exists j, SerializeInterface H fs dn s x = Ok j /\ SerializeJSON H fs dn s x = Ok (wire j).
  Proof.
    intros Hx. destruct (walkOutput_ok x Hx) as [j Hj]. exists j.
    unfold SerializeInterface, SerializeJSON. rewrite Hj. split; reflexivity.
  Qed.
End SerOk.

(* the statements used by Properties/C11.v *)
Theorem decoded_serializes c b off x :
  tc_wf c = true -> DecodeABIData c b off = Ok x ->
  forall H fs dn s, ts s <> FormatOther ->
    exists j, SerializeInterface H fs dn s x = Ok j /\ SerializeJSON H fs dn s x = Ok (wire j).
Proof. intros Hw Hd H fs dn s Hm. apply ser_ok_serializes; [exact Hm|]. eapply DecodeABIData_ser_ok; eauto. Qed.

Theorem decoded_calldata_serializes id c b x :
  tc_wf c = true -> DecModel.DecodeCallData id c b = Ok x ->
  forall H fs dn s, ts s <> FormatOther ->
    exists j, SerializeInterface H fs dn s x = Ok j /\ SerializeJSON H fs dn s x = Ok (wire j).
Proof. intros Hw Hd H fs dn s Hm. apply ser_ok_serializes; [exact Hm|]. eapply DecodeCallData_ser_ok; eauto. Qed.

Theorem event_tree_serializes :
  forall (H : bytes -> bytes) (e : entry) (topics : list bytes) (data : bytes) (x : cval),
    params_wf (e_inputs e) ->
    DecodeEventData H DecModel.DecodeABIData DecModel.decode_elementary e topics data = Ok x ->
    forall (H' : bytes -> bytes) (fs : bfloat -> jv) (dn : nat -> bytes) (s : serializer), ts s <> FormatOther ->
      exists j, SerializeInterface H' fs dn s x = Ok j /\ SerializeJSON H' fs dn s x = Ok (wire j).
Proof.
  intros H e topics data x Hw Hd H' fs dn s Hm. apply ser_ok_serializes; [exact Hm|].
  eapply DecodeEventData_ser_ok; eauto.
Qed.

Theorem revert_tree_serializes :
  forall (H : bytes -> bytes) (a : list entry) (revertData : bytes) (e : entry) (x : cval),
    (forall e, In e a -> params_wf (e_inputs e)) ->
    ParseError H DecModel.DecodeABIData a revertData = Ok (Some (e, x)) ->
    forall (H' : bytes -> bytes) (fs : bfloat -> jv) (dn : nat -> bytes) (s : serializer), ts s <> FormatOther ->
      exists j, SerializeInterface H' fs dn s x = Ok j /\ SerializeJSON H' fs dn s x = Ok (wire j).
Proof.
  intros H a rd e x Hw Hd H' fs dn s Hm. apply ser_ok_serializes; [exact Hm|].
  eapply ParseError_ser_ok; eauto.
Qed.

(* the entry-level call-data decoder (selector computed from the signature): total and serialisable *)
Theorem entry_calldata_total_serializes :
  forall (H : bytes -> bytes), (forall x, length (H x) = 32%nat) ->
  forall (e : entry) (b : bytes), params_wf (e_inputs e) ->
    EntryModel.DecodeCallData H DecModel.DecodeABIData e b <> Panic /\
    (forall x, EntryModel.DecodeCallData H DecModel.DecodeABIData e b = Ok x ->
       forall (H' : bytes -> bytes) (fs : bfloat -> jv) (dn : nat -> bytes) (s : serializer), ts s <> FormatOther ->
         exists j, SerializeInterface H' fs dn s x = Ok j /\ SerializeJSON H' fs dn s x = Ok (wire j)).
Proof.
  intros H HH e b Hw. split; [apply Entry_DecodeCallData_total; assumption|].
  intros x Hd H' fs dn s Hm. apply ser_ok_serializes; [exact Hm|]. eapply Entry_DecodeCallData_ser_ok; eauto.
Qed.

(* ------------------------------------------------------------------------------------------------
   an unknown formatting mode is an error on every decoded tree (its root is a tuple node): the guard
   [ts s <> FormatOther] above cannot be dropped
   ------------------------------------------------------------------------------------------------ *)
Lemma DecodeABIData_root c b off x : DecodeABIData c b off = Ok x ->
  exists cs k l, x = CV (Some (TCTuple cs k)) l GNil.
Proof.
  destruct c as [| | |cs k]; try discriminate.
  unfold DecodeABIData, walkTupleABIBytes.
  destruct (walkDynamicChildArrayABIBytes b cs off off) as [[rd xs]| |]; cbn [bind]; try discriminate.
  intros E; injection E as <-. eauto.
Qed.

Theorem decoded_unknown_mode_is_error c b off x :
  DecodeABIData c b off = Ok x ->
  forall H fs dn s, ts s = FormatOther ->
    SerializeInterface H fs dn s x = Err EUnknownTupleSerializer /\
    SerializeJSON H fs dn s x = Err EUnknownTupleSerializer.
Proof.
  intros Hd H fs dn s Hm. destruct (DecodeABIData_root _ _ _ _ Hd) as (cs & k & l & ->).
  unfold SerializeInterface, SerializeJSON. cbn [walkOutput]. rewrite Hm. split; reflexivity.
Qed.

(* ------------------------------------------------------------------------------------------------
   I6: FormatErrorStringCtx serialises the tree returned by ParseError with a fixed configuration
   (flat arrays, base-10 integers, 0x-prefixed bytes and addresses) and asserts the result to be a
   []interface{}: on a tree returned by ParseError that call returns Ok (JArr _) - no panic, no error,
   the type assertion holds - with one entry per child.
   ------------------------------------------------------------------------------------------------ *)
Definition error_string_serializer : serializer :=
  {| ts := FormatAsFlatArrays; is_ := Base10StringIntSerializer; bs := HexByteSerializer0xPrefix;
     ad := Some HexAddrSerializer0xPrefix |}.

Lemma flat_root_is_array H fs dn cs k l j :
  walkOutput H fs dn error_string_serializer (CV (Some (TCTuple cs k)) l GNil) = Ok j ->
  exists js, j = JArr js.
Proof.
  cbn [walkOutput error_string_serializer ts].
  match goal with |- (do l0 <- ?G; _) = _ -> _ => destruct G as [js| |] end; cbn [bind]; try discriminate.
  intros E; injection E as <-. eauto.
Qed.

Lemma Entry_DecodeCallData_root H e b x :
  EntryModel.DecodeCallData H DecModel.DecodeABIData e b = Ok x -> exists cs k l, x = CV (Some (TCTuple cs k)) l GNil.
Proof.
  unfold EntryModel.DecodeCallData.
  destruct (GenerateFunctionSelector H e) as [id| |]; cbn [bind]; try discriminate.
  destruct (length b <? 4)%nat; [discriminate|].
  destruct (slice b 0 4) as [b4| |]; cbn [bind]; try discriminate.
  destruct (negb (bytes_eqb id b4)); [discriminate|].
  unfold DecodeABIData_params, TypeComponentTree.
  destruct (tree_children (e_inputs e)) as [cs| |]; cbn [bind]; try discriminate.
  apply DecodeABIData_root.
Qed.

Lemma ParseError_root H (a : list entry) rd e x :
  ParseError H DecModel.DecodeABIData a rd = Ok (Some (e, x)) -> exists cs k l, x = CV (Some (TCTuple cs k)) l GNil.
Proof.
  unfold ParseError. induction (default_error :: a) as [|e0 r IH]; cbn [parse_error_loop]; [discriminate|].
  destruct (etype_eqb (e_type e0) TyError); auto.
  destruct (EntryModel.DecodeCallData H DecModel.DecodeABIData e0 rd) as [cv| |] eqn:Ed; auto; try discriminate.
  intros E; injection E as <- <-. eapply Entry_DecodeCallData_root; eauto.
Qed.

Theorem revert_format_args_ok :
  forall (H : bytes -> bytes) (a : list entry) (revertData : bytes) (e : entry) (x : cval),
    (forall e, In e a -> params_wf (e_inputs e)) ->
    ParseError H DecModel.DecodeABIData a revertData = Ok (Some (e, x)) ->
    forall (H' : bytes -> bytes) (fs : bfloat -> jv) (dn : nat -> bytes),
      exists js, SerializeInterface H' fs dn error_string_serializer x = Ok (JArr js).
Proof.
  intros H a rd e x Hw Hd H' fs dn.
  assert (Hm : ts error_string_serializer <> FormatOther) by discriminate.
  destruct (walkOutput_ok H' fs dn error_string_serializer Hm x (ParseError_ser_ok H a rd e x Hw Hd)) as [j Hj].
  destruct (ParseError_root _ _ _ _ _ Hd) as (cs & k & l & ->).
  destruct (flat_root_is_array _ _ _ _ _ _ _ Hj) as [js ->]. exists js. exact Hj.
Qed.

(* ------------------------------------------------------------------------------------------------
   I6: the refutation of stability for fixed-point leaves with a Prop inequality (no appeal to the
   boolean comparison cval_eqb): the re-encoding decodes to a tree x' with x' <> x
   ------------------------------------------------------------------------------------------------ *)
Theorem stable_fixed_refuted_prop :
  exists (c : tcomp) (bs : bytes) (x : cval) (e : bytes) (x' : cval),
    tc_wf c = true /\ DecodeABIData c bs 0 = Ok x /\ EncodeABIData x = Ok e /\
    DecodeABIData c e 0 = Ok x' /\ x' <> x.
Proof.
  pose (leaf := TCElem EFixed [x38; x78; x31] 8 1 []).
  exists (TCTuple [leaf] []), (repeat xff 32).
  exists (CV (Some (TCTuple [leaf] [])) [CV (Some leaf) [] (GBigFloat (BFin (-14757395258967641293) (-67) 64))] GNil).
  exists (repeat x00 31 ++ [x01]).
  exists (CV (Some (TCTuple [leaf] [])) [CV (Some leaf) [] (GBigFloat (BFin 14757395258967641293 (-67) 64))] GNil).
  split; [vm_compute; reflexivity|]. split; [vm_compute; reflexivity|]. split; [vm_compute; reflexivity|].
  split; [vm_compute; reflexivity|]. intros E. discriminate E.
Qed.
