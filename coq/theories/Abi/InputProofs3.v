(* Round 3: arity errors at ANY depth.  `C02_arity` says that a node given a sequence of the wrong
   length (or an object lacking a member's key) is refused by the walk of THAT node; here the walk of an
   enclosing input is shown to succeed only if the walk of every nested (component, input) pair reached
   through array elements, tuple positions and object keys succeeds.  Together: a wrong arity anywhere in
   the input tree makes ParseExternalData / EncodeABIDataValues / EncodeCallDataValues fail. *)
From Coq Require Import List NArith ZArith Bool Arith Lia.
From FFS Require Import Base.Res Base.Bytes Abi.Types Abi.Spec Abi.ModelTypes Abi.EncModel Abi.InputModel Abi.InputProofs.
Import ListNotations.

(* one step from a (component, input) pair to a pair the walk visits below it *)
Inductive step_in : tcomp -> ext -> tcomp -> ext -> Prop :=
| SI_fixed len c k x l i x' : as_slice x = Some l -> nth_error l i = Some x' -> step_in (TCFixedArr len c k) x c x'
| SI_dyn c k x l i x' : as_slice x = Some l -> nth_error l i = Some x' -> step_in (TCDynArr c k) x c x'
| SI_tuple_pos ts k x l i t x' : as_slice x = Some l -> nth_error ts i = Some t -> nth_error l i = Some x' ->
    step_in (TCTuple ts k) x t x'
| SI_tuple_key ts k m i t x' : nth_error ts i = Some t -> lookup (effective_key t i) m = Some x' ->
    step_in (TCTuple ts k) (XMap m) t x'.

(* any number of steps *)
Inductive below : tcomp -> ext -> tcomp -> ext -> Prop :=
| B_here tc x : below tc x tc x
| B_step tc x tc1 x1 tc2 x2 : step_in tc x tc1 x1 -> below tc1 x1 tc2 x2 -> below tc x tc2 x2.

Section Nested.
Variable bifs : bytes -> res Z.

Lemma go_array_ok child l cs :
  (fix go (l : list ext) : res (list cval) :=
     match l with
     | [] => Ok []
     | v :: r => do c <- walkInput bifs child v; do cs <- go r; Ok (c :: cs)
     end) l = Ok cs ->
  forall i x', nth_error l i = Some x' -> exists c, walkInput bifs child x' = Ok c.
Proof.
  revert cs. induction l as [|v r IH]; intros cs H i x' N; [destruct i; discriminate|].
  destruct (walkInput bifs child v) as [c0| |] eqn:W; cbn [bind] in H; try discriminate.
  match type of H with (do cs <- ?G; _) = _ => destruct G as [l0| |] eqn:E end; cbn [bind] in H; try discriminate.
  destruct i as [|i]; cbn [nth_error] in N.
  - injection N as <-. exists c0. exact W.
  - exact (IH l0 eq_refl i x' N).
Qed.

Lemma go_tuple_pos_ok ts : forall l cs,
  (fix go (ts : list tcomp) (l : list ext) {struct ts} : res (list cval) :=
     match ts, l with
     | t :: ts', v :: r => do c <- walkInput bifs t v; do cs <- go ts' r; Ok (c :: cs)
     | _, _ => Ok []
     end) ts l = Ok cs ->
  forall i t x', nth_error ts i = Some t -> nth_error l i = Some x' -> exists c, walkInput bifs t x' = Ok c.
Proof.
  induction ts as [|t0 r IH]; intros l cs H i t x' Nt Nl; [destruct i; discriminate|].
  destruct l as [|v l]; [destruct i; discriminate|].
  destruct (walkInput bifs t0 v) as [c0| |] eqn:W; cbn [bind] in H; try discriminate.
  match type of H with (do cs <- ?G; _) = _ => destruct G as [l0| |] eqn:E end; cbn [bind] in H; try discriminate.
  destruct i as [|i]; cbn [nth_error] in Nt, Nl.
  - injection Nt as <-. injection Nl as <-. exists c0. exact W.
  - exact (IH l l0 E i t x' Nt Nl).
Qed.

Lemma go_tuple_key_ok m ts : forall j cs,
  (fix go (ts : list tcomp) (i : nat) {struct ts} : res (list cval) :=
     match ts with
     | [] => Ok []
     | t :: ts' =>
         let keyName := match tc_key t with [] => itoa i | k :: l => k :: l end in
         match lookup keyName m with
         | None => Err EMissingKey
         | Some v => do c <- walkInput bifs t v; do cs <- go ts' (S i); Ok (c :: cs)
         end
     end) ts j = Ok cs ->
  forall i t x', nth_error ts i = Some t -> lookup (effective_key t (j + i)) m = Some x' ->
  exists c, walkInput bifs t x' = Ok c.
Proof.
  induction ts as [|t0 r IH]; intros j cs H i t x' Nt L; [destruct i; discriminate|].
  cbv zeta in H. destruct i as [|i]; cbn [nth_error] in Nt.
  - injection Nt as <-. rewrite Nat.add_0_r in L. unfold effective_key in L. rewrite L in H.
    destruct (walkInput bifs t0 x') as [c0| |] eqn:W; cbn [bind] in H; try discriminate. exists c0. reflexivity.
  - destruct (lookup _ m) as [v|]; [|discriminate].
    destruct (walkInput bifs t0 v) as [c0| |]; cbn [bind] in H; try discriminate.
    match type of H with (do cs <- ?G; _) = _ => destruct G as [l0| |] eqn:E end; cbn [bind] in H; try discriminate.
    apply (IH (S j) l0 E i t x' Nt). replace (S j + i)%nat with (j + S i)%nat by lia. exact L.
Qed.

Lemma walk_ok_step tc x tc' x' : step_in tc x tc' x' ->
  forall cv, walkInput bifs tc x = Ok cv -> exists cv', walkInput bifs tc' x' = Ok cv'.
Proof.
  intros S cv H. destruct S as [len c k x l i x' S N | c k x l i x' S N | ts k x l i t x' S Nt Nl | ts k m i t x' Nt L];
    cbn [walkInput] in H.
  - rewrite S in H. destruct (negb _); [discriminate|].
    match type of H with (do cs <- ?G; _) = _ => destruct G as [l0| |] eqn:E end; cbn [bind] in H; try discriminate.
    exact (go_array_ok c l l0 E i x' N).
  - rewrite S in H.
    match type of H with (do cs <- ?G; _) = _ => destruct G as [l0| |] eqn:E end; cbn [bind] in H; try discriminate.
    exact (go_array_ok c l l0 E i x' N).
  - rewrite S in H. destruct (negb _); [discriminate|].
    match type of H with (do cs <- ?G; _) = _ => destruct G as [l0| |] eqn:E end; cbn [bind] in H; try discriminate.
    exact (go_tuple_pos_ok ts l l0 E i t x' Nt Nl).
  - cbn [as_slice] in H.
    match type of H with (do cs <- ?G; _) = _ => destruct G as [l0| |] eqn:E end; cbn [bind] in H; try discriminate.
    exact (go_tuple_key_ok m ts 0%nat l0 E i t x' Nt L).
Qed.

(* the walk of the whole succeeds only if the walk of every visited pair does *)
Theorem walk_ok_below tc x tc' x' : below tc x tc' x' ->
  forall cv, walkInput bifs tc x = Ok cv -> exists cv', walkInput bifs tc' x' = Ok cv'.
Proof.
  induction 1 as [tc x | tc x tc1 x1 tc2 x2 S _ IH]; intros cv H; [exists cv; exact H|].
  destruct (walk_ok_step _ _ _ _ S cv H) as (cv1 & H1). exact (IH cv1 H1).
Qed.

(* wrong arity anywhere below the parameter list: no entry point accepts the input *)
Theorem nested_arity_rejected params input :
  (forall len c k x l, below (root_of params) input (TCFixedArr len c k) x ->
     as_slice x = Some l -> Z.of_nat (length l) <> len ->
     forall cv, walkInput bifs (root_of params) input <> Ok cv) /\
  (forall ts k x l, below (root_of params) input (TCTuple ts k) x ->
     as_slice x = Some l -> length l <> length ts ->
     forall cv, walkInput bifs (root_of params) input <> Ok cv) /\
  (forall ts k m i t, below (root_of params) input (TCTuple ts k) (XMap m) ->
     nth_error ts i = Some t -> lookup (effective_key t i) m = None ->
     forall cv, walkInput bifs (root_of params) input <> Ok cv) /\
  (forall tc x, below (root_of params) input tc x ->
     (forall cv, walkInput bifs tc x <> Ok cv) ->
     (forall r, EncodeABIDataValues bifs params input <> Ok r) /\
     (forall sel r, EncodeCallDataValues bifs sel params input <> Ok r)).
Proof.
  split; [|split; [|split]].
  - intros len c k x l B S L cv H. destruct (walk_ok_below _ _ _ _ B cv H) as (cv' & H').
    rewrite (arity_fixed_array bifs len c k x l S L) in H'. discriminate.
  - intros ts k x l B S L cv H. destruct (walk_ok_below _ _ _ _ B cv H) as (cv' & H').
    rewrite (arity_tuple_array bifs ts k x l S L) in H'. discriminate.
  - intros ts k m i t B N L cv H. destruct (walk_ok_below _ _ _ _ B cv H) as (cv' & H').
    exact (arity_tuple_object_missing bifs ts k m i t N L cv' H').
  - intros tc x B NO. split.
    + intros r H. unfold EncodeABIDataValues in H.
      destruct (walkInput bifs (root_of params) input) as [cv| |] eqn:W; cbn [bind] in H; try discriminate.
      destruct (walk_ok_below _ _ _ _ B cv W) as (cv' & H'). exact (NO cv' H').
    + intros sel r H. unfold EncodeCallDataValues in H.
      destruct (walkInput bifs (root_of params) input) as [cv| |] eqn:W; cbn [bind] in H; try discriminate.
      destruct (walk_ok_below _ _ _ _ B cv W) as (cv' & H'). exact (NO cv' H').
Qed.

End Nested.

(* ------------------------------------------------------------------------------------------------
   An out-of-range integer INPUT anywhere below the parameter list: no data is returned.
   (Theorem 5b of Properties/C02.v is about value trees; this connects it to the external input:
   the value the walk builds for a visited pair sits in the tree the walk builds for the whole.)
   ------------------------------------------------------------------------------------------------ *)

Lemma sub_trans a b c : sub a b -> sub b c -> sub a c.
Proof.
  intros Hab Hbc. induction Hbc as [b|b c0 tc l v C I _ IH]; [exact Hab|].
  eapply sub_child; [exact C|exact I|exact (IH Hab)].
Qed.

Section NestedValues.
Variable bifs : bytes -> res Z.

Lemma go_array_in child l cs :
  (fix go (l : list ext) : res (list cval) :=
     match l with
     | [] => Ok []
     | v :: r => do c <- walkInput bifs child v; do cs <- go r; Ok (c :: cs)
     end) l = Ok cs ->
  forall i x', nth_error l i = Some x' -> exists c, walkInput bifs child x' = Ok c /\ In c cs.
Proof.
  revert cs. induction l as [|v r IH]; intros cs H i x' N; [destruct i; discriminate|].
  destruct (walkInput bifs child v) as [c0| |] eqn:W; cbn [bind] in H; try discriminate.
  match type of H with (do cs <- ?G; _) = _ => destruct G as [l0| |] eqn:E end; cbn [bind] in H; try discriminate.
  injection H as <-.
  destruct i as [|i]; cbn [nth_error] in N.
  - injection N as <-. exists c0. split; [exact W|left; reflexivity].
  - destruct (IH l0 eq_refl i x' N) as (c & Hc & I). exists c. split; [exact Hc|right; exact I].
Qed.

Lemma go_tuple_pos_in ts : forall l cs,
  (fix go (ts : list tcomp) (l : list ext) {struct ts} : res (list cval) :=
     match ts, l with
     | t :: ts', v :: r => do c <- walkInput bifs t v; do cs <- go ts' r; Ok (c :: cs)
     | _, _ => Ok []
     end) ts l = Ok cs ->
  forall i t x', nth_error ts i = Some t -> nth_error l i = Some x' -> exists c, walkInput bifs t x' = Ok c /\ In c cs.
Proof.
  induction ts as [|t0 r IH]; intros l cs H i t x' Nt Nl; [destruct i; discriminate|].
  destruct l as [|v l]; [destruct i; discriminate|].
  destruct (walkInput bifs t0 v) as [c0| |] eqn:W; cbn [bind] in H; try discriminate.
  match type of H with (do cs <- ?G; _) = _ => destruct G as [l0| |] eqn:E end; cbn [bind] in H; try discriminate.
  injection H as <-.
  destruct i as [|i]; cbn [nth_error] in Nt, Nl.
  - injection Nt as <-. injection Nl as <-. exists c0. split; [exact W|left; reflexivity].
  - destruct (IH l l0 E i t x' Nt Nl) as (c & Hc & I). exists c. split; [exact Hc|right; exact I].
Qed.

Lemma go_tuple_key_in m ts : forall j cs,
  (fix go (ts : list tcomp) (i : nat) {struct ts} : res (list cval) :=
     match ts with
     | [] => Ok []
     | t :: ts' =>
         let keyName := match tc_key t with [] => itoa i | k :: l => k :: l end in
         match lookup keyName m with
         | None => Err EMissingKey
         | Some v => do c <- walkInput bifs t v; do cs <- go ts' (S i); Ok (c :: cs)
         end
     end) ts j = Ok cs ->
  forall i t x', nth_error ts i = Some t -> lookup (effective_key t (j + i)) m = Some x' ->
  exists c, walkInput bifs t x' = Ok c /\ In c cs.
Proof.
  induction ts as [|t0 r IH]; intros j cs H i t x' Nt L; [destruct i; discriminate|].
  cbv zeta in H. destruct i as [|i]; cbn [nth_error] in Nt.
  - injection Nt as <-. rewrite Nat.add_0_r in L. unfold effective_key in L. rewrite L in H.
    destruct (walkInput bifs t0 x') as [c0| |] eqn:W; cbn [bind] in H; try discriminate.
    match type of H with (do cs <- ?G; _) = _ => destruct G as [l0| |] eqn:E end; cbn [bind] in H; try discriminate.
    injection H as <-. exists c0. split; [reflexivity|left; reflexivity].
  - destruct (lookup _ m) as [v|]; [|discriminate].
    destruct (walkInput bifs t0 v) as [c0| |]; cbn [bind] in H; try discriminate.
    match type of H with (do cs <- ?G; _) = _ => destruct G as [l0| |] eqn:E end; cbn [bind] in H; try discriminate.
    injection H as <-.
    assert (L' : lookup (effective_key t (S j + i)) m = Some x') by (replace (S j + i)%nat with (j + S i)%nat by lia; exact L).
    destruct (IH (S j) l0 E i t x' Nt L') as (c & Hc & I). exists c. split; [exact Hc|right; exact I].
Qed.

Lemma walk_sub_step tc x tc' x' : step_in tc x tc' x' ->
  forall cv, walkInput bifs tc x = Ok cv -> exists cv', walkInput bifs tc' x' = Ok cv' /\ sub cv' cv.
Proof.
  intros S cv H. destruct S as [len c k x l i x' S N | c k x l i x' S N | ts k x l i t x' S Nt Nl | ts k m i t x' Nt L];
    cbn [walkInput] in H.
  - rewrite S in H. destruct (negb _); [discriminate|].
    match type of H with (do cs <- ?G; _) = _ => destruct G as [l0| |] eqn:E end; cbn [bind] in H; try discriminate.
    injection H as <-. destruct (go_array_in c l l0 E i x' N) as (c' & Hc & I). exists c'. split; [exact Hc|].
    eapply sub_child; [reflexivity|exact I|apply sub_refl].
  - rewrite S in H.
    match type of H with (do cs <- ?G; _) = _ => destruct G as [l0| |] eqn:E end; cbn [bind] in H; try discriminate.
    injection H as <-. destruct (go_array_in c l l0 E i x' N) as (c' & Hc & I). exists c'. split; [exact Hc|].
    eapply sub_child; [reflexivity|exact I|apply sub_refl].
  - rewrite S in H. destruct (negb _); [discriminate|].
    match type of H with (do cs <- ?G; _) = _ => destruct G as [l0| |] eqn:E end; cbn [bind] in H; try discriminate.
    injection H as <-. destruct (go_tuple_pos_in ts l l0 E i t x' Nt Nl) as (c' & Hc & I). exists c'. split; [exact Hc|].
    eapply sub_child; [reflexivity|exact I|apply sub_refl].
  - cbn [as_slice] in H.
    match type of H with (do cs <- ?G; _) = _ => destruct G as [l0| |] eqn:E end; cbn [bind] in H; try discriminate.
    injection H as <-. destruct (go_tuple_key_in m ts 0%nat l0 E i t x' Nt L) as (c' & Hc & I). exists c'. split; [exact Hc|].
    eapply sub_child; [reflexivity|exact I|apply sub_refl].
Qed.

Theorem walk_sub_below tc x tc' x' : below tc x tc' x' ->
  forall cv, walkInput bifs tc x = Ok cv -> exists cv', walkInput bifs tc' x' = Ok cv' /\ sub cv' cv.
Proof.
  induction 1 as [tc x | tc x tc1 x1 tc2 x2 S _ IH]; intros cv H; [exists cv; split; [exact H|apply sub_refl]|].
  destruct (walk_sub_step _ _ _ _ S cv H) as (cv1 & H1 & S1). destruct (IH cv1 H1) as (cv2 & H2 & S2).
  exists cv2. split; [exact H2|exact (sub_trans _ _ _ S2 S1)].
Qed.

(* the integer read from an input that sits anywhere below the parameter list, at a uint<M>/int<M>
   component, is out of range: EncodeABIDataValues / EncodeCallDataValues return no data *)
Theorem nested_out_of_range_input_rejected params input e s m k x z :
  (e = EInt \/ e = EUInt) -> tc_wf (int_tc e s m k) = true ->
  below (root_of params) input (int_tc e s m k) x -> int_read bifs x z -> ~ in_range e m z ->
  (forall r, EncodeABIDataValues bifs params input <> Ok r) /\
  (forall sel r, EncodeCallDataValues bifs sel params input <> Ok r).
Proof.
  intros He W B R NR.
  assert (K : forall cv, walkInput bifs (root_of params) input = Ok cv -> forall r, encodeABIData cv <> Ok r).
  { intros cv Hw. destruct (walk_sub_below _ _ _ _ B cv Hw) as (cv' & Hl & S).
    assert (RD : reader_of e = RdInteger) by (destruct He as [-> | ->]; reflexivity).
    assert (G : getIntegerFromInterface bifs x = Ok (GBigInt z)).
    { unfold getIntegerFromInterface.
      destruct x as [| t | t | b | [z'|] | [m0 e0 p|sg] | [m0 e0|sg|] | [m0 e0|sg|] | kk z' | b | l | m0 |]; cbn [int_read] in R; try contradiction;
        try (rewrite R; reflexivity); subst; reflexivity. }
    unfold int_tc in Hl. cbn [walkInput] in Hl. rewrite RD in Hl. cbn [read_external] in Hl. rewrite G in Hl. cbn [bind] in Hl.
    injection Hl as <-. exact (out_of_range_leaf_rejected e s m k [] z cv He W NR S). }
  split.
  - intros r H. unfold EncodeABIDataValues in H.
    destruct (walkInput bifs (root_of params) input) as [cv| |] eqn:Hw; cbn [bind] in H; try discriminate.
    unfold EncodeABIData in H. destruct (encodeABIData cv) as [r0| |] eqn:E; cbn [bind] in H; try discriminate.
    exact (K cv eq_refl r0 E).
  - intros sel r H. unfold EncodeCallDataValues in H.
    destruct (walkInput bifs (root_of params) input) as [cv| |] eqn:Hw; cbn [bind] in H; try discriminate.
    unfold EncodeABIData in H. destruct (encodeABIData cv) as [r0| |] eqn:E; cbn [bind] in H; try discriminate.
    exact (K cv eq_refl r0 E).
Qed.

End NestedValues.
