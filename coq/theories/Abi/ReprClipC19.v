(* C02, wave 6: Abi/ReprClip.v with property C19's model of ethtypes.BigIntegerFromString in the place of
   the parser parameter (no parser hypothesis), and the examples. *)
From Coq Require Import String.
From Coq Require Import List NArith ZArith Bool Arith Lia.
From Coq Require Import Init.Byte.
From FFS Require Import Base.Res Base.Bytes Abi.Types Abi.Spec Abi.ModelTypes Abi.EncModel Abi.InputModel.
From FFS Require Import Abi.EncProofs3 Abi.InputProofs Abi.InputC19 Abi.ReprSpec Abi.ReprProofs Abi.ReprWalk Abi.ReprTyped Abi.ReprUnique Abi.ReprC19.
From FFS Require Import Abi.EncZeroLen Abi.ReprClip.
From FFS Require EthTypes.Model EthTypes.ProofsBigAll.
Import ListNotations.

Theorem accepted_is_denoted_clip_c19 params input b :
  let root := root_of params in
  tc_wf root = true -> tc_no_fixed_point root = true -> tc_zero_len_static root = true ->
  ext_clean input = true ->
  EncodeABIDataValues bifs19 params input = Ok b ->
  exists v, repr I19 root input v /\
            well_typed (ty_of root) (clip (ty_of root) v) = true /\
            (weight_ok (clip (ty_of root) v) -> b = enc (ty_of root) (clip (ty_of root) v)) /\
            (not_longer (ty_of root) v = true -> clip (ty_of root) v = v).
Proof. exact (accepted_is_denoted_clip bifs19 accepts19 bifs19_sound params input b). Qed.

Theorem denoted_value_encoded_z_c19 params input v :
  let root := root_of params in
  tc_wf root = true -> tc_no_fixed_point root = true -> tc_zero_len_static root = true ->
  repr I19 root input v -> well_typed (ty_of root) v = true -> weight_ok v ->
  EncodeABIDataValues bifs19 params input = Ok (enc (ty_of root) v).
Proof. exact (denoted_value_encoded_z bifs19 I19 I19_read params input v). Qed.

(* ---------- examples ---------- *)

(* (bytes2, bool) given ["0xaB01ff", true]: the three bytes denoted are cut to two *)
Definition ex_long_input : ext := XList [XStr (ascii_bytes "0xaB01ff"); XBool true].
Definition ex_long_val : val := VList [VBytes [xab; x01; xff]; VNum 1].

Lemma ex_long_repr : forall I, repr I (root_of ex_r_params) ex_long_input ex_long_val.
Proof.
  intros I. unfold root_of, ex_r_params, ex_long_input, ex_long_val.
  eapply R_tuple_seq; [left; reflexivity|].
  constructor.
  - apply R_bytes; [left; reflexivity|]. right. exists (ascii_bytes "0xaB01ff"). split; [left; reflexivity|].
    right. exists (ascii_bytes "aB01ff"). split; [reflexivity|].
    change [xab; x01; xff] with [n2b (16 * 10 + 11); n2b (16 * 0 + 1); n2b (16 * 15 + 15)].
    apply HP_cons; [right; split; [split; [discriminate|reflexivity]|left; reflexivity]
                   |right; split; [split; [discriminate|reflexivity]|right; reflexivity]|].
    apply HP_cons; [left; split; reflexivity|left; split; reflexivity|].
    apply HP_cons; [right; split; [split; [discriminate|reflexivity]|left; reflexivity]
                   |right; split; [split; [discriminate|reflexivity]|left; reflexivity]|constructor].
  - constructor; [|constructor]. apply (R_bool I [] 8 0 [] true).
Qed.

(* uint8[0] (static element) next to a string: inside the relaxed guard, outside the old one *)
Definition ex_z_params : list tcomp :=
  [TCFixedArr 0 (TCElem EUInt (ascii_bytes "8") 8 0 []) []; TCElem EString [] 0 0 []].
Definition ex_z_input : ext := XList [XList []; XStr (ascii_bytes "x")].
Definition ex_z_val : val := VList [VList []; VBytes (ascii_bytes "x")].

Lemma ex_z_repr : forall I, repr I (root_of ex_z_params) ex_z_input ex_z_val.
Proof.
  intros I. unfold root_of, ex_z_params, ex_z_input, ex_z_val.
  eapply R_tuple_seq; [left; reflexivity|].
  constructor.
  - eapply R_fixed_arr; [left; reflexivity|reflexivity|constructor].
  - constructor; [|constructor]. apply R_string. left. left. reflexivity.
Qed.

(* string[0] (dynamic element): the relaxed guard fails, and the model's bytes differ from enc *)
Definition ex_zd_params : list tcomp := [TCFixedArr 0 (TCElem EString [] 0 0 []) []].
