(* Proofs about the serializer model, part 1: every elementary rendering is read back to the value by
   the denotation oracle; the number-if-fits threshold. *)
From Coq Require Import List NArith ZArith Bool Lia Arith.
From Coq Require Import ZifyN ZifyNat ZifyBool.
From Coq Require Import Init.Byte.
From FFS Require Import Base.Res Base.Bytes Abi.Types Abi.Spec Abi.ModelTypes Abi.Render Abi.RenderProofs.
From FFS Require Import Abi.SerModel Abi.SerSpec.
From FFS Require Rlp.Model Rlp.Proofs.
Import ListNotations.

(* ---------- integers ---------- *)
Lemma denotes_int_run f z : denotes_int f z (wire (run_int_ser f z)) = true.
Proof.
  destruct f; cbn [run_int_ser].
  - cbn [wire denotes_int]. rewrite parse_Z_dec_Z_dec. apply Z.eqb_refl.
  - cbn [wire denotes_int]. rewrite parse_Z_0xhex_render. apply Z.eqb_refl.
  - cbn [wire denotes_int]. rewrite parse_Z_dec_Z_dec. apply Z.eqb_refl.
  - unfold maxSafeJSONNumberInt, minSafeJSONNumberInt.
    destruct ((z >? 9007199254740991)%Z || (z <? -9007199254740991)%Z) eqn:E; cbn [wire denotes_int];
      rewrite parse_Z_dec_Z_dec, Z.eqb_refl, andb_true_r; unfold max_safe; change (2 ^ 53 - 1)%Z with 9007199254740991%Z.
    + apply negb_true_iff. lia.
    + lia.
Qed.

(* the number-if-fits serializer emits a JSON number exactly for |i| <= 2^53 - 1, and then the
   number token is the decimal text of i; otherwise the base-10 string *)
Lemma number_if_fits_spec i :
  wire (run_int_ser NumberIfFitsOrBase10StringIntSerializer i) =
  if (Z.abs i <=? 2 ^ 53 - 1)%Z then JNumber (Z_dec i) else JStr (Z_dec i).
Proof.
  cbn [run_int_ser]. unfold maxSafeJSONNumberInt, minSafeJSONNumberInt. change (2 ^ 53 - 1)%Z with 9007199254740991%Z.
  destruct ((i >? 9007199254740991)%Z || (i <? -9007199254740991)%Z) eqn:E;
    destruct (Z.abs i <=? 9007199254740991)%Z eqn:E2; try reflexivity; lia.
Qed.

(* ---------- byte strings ---------- *)
Lemma denotes_bytes_run f b : denotes_bytes f b (wire (run_byte_ser f b)) = true.
Proof.
  destruct f; cbn [run_byte_ser wire denotes_bytes strip0x].
  - rewrite bytes_of_hex_hex_of_bytes. destruct (bytes_eqb_spec b b); congruence.
  - rewrite bytes_of_hex_hex_of_bytes. destruct (bytes_eqb_spec b b); congruence.
  - destruct (bytes_eqb_spec (base64 b) (base64 b)); congruence.
Qed.

(* ---------- addresses ---------- *)
Lemma be_bytes_length k n : length (be_bytes k n) = k.
Proof. revert n; induction k as [|k IH]; intros n; simpl; [reflexivity|]. rewrite app_length, IH. simpl. lia. Qed.

Lemma of_be_be_bytes k n : Rlp.Model.of_be (be_bytes k n) = (n mod 256 ^ N.of_nat k)%N.
Proof.
  revert n; induction k as [|k IH]; intros n.
  - simpl. rewrite N.mod_1_r. reflexivity.
  - cbn [be_bytes]. rewrite Rlp.Proofs.of_be_app, IH.
    change (256 ^ N.of_nat (length [n2b (n mod 256)]))%N with 256%N.
    change (Rlp.Model.of_be [n2b (n mod 256)]) with (0 * 256 + b2n (n2b (n mod 256)))%N.
    rewrite b2n_n2b by (apply N.mod_lt; lia).
    rewrite Nat2N.inj_succ, N.pow_succ_r'.
    assert (256 ^ N.of_nat k <> 0)%N by (apply N.pow_nonzero; lia).
    rewrite (N.mod_mul_r n 256) by lia. lia.
Qed.

Lemma is_addr_of_be z : (0 <= z < 2 ^ 160)%Z -> is_addr_of z (be_bytes 20 (Z.abs_N z)) = true.
Proof.
  intros Hz. unfold is_addr_of. rewrite be_bytes_length, of_be_be_bytes. cbn [Nat.eqb andb].
  change (256 ^ N.of_nat 20)%N with (2 ^ 160)%N.
  rewrite N.mod_small by lia. apply Z.eqb_eq. lia.
Qed.

Lemma hex_val_to_upper c : hex_val (to_upper c) = hex_val c.
Proof. destruct c; reflexivity. Qed.
Lemma hex_val_to_lower c : hex_val (to_lower c) = hex_val c.
Proof. destruct c; reflexivity. Qed.

Lemma hex_val_eip55_char a h :
  hex_val (match hex_val h with
           | Some d => if (8 <=? d)%N then to_upper a else to_lower a
           | None => to_lower a
           end) = hex_val a.
Proof.
  destruct (hex_val h) as [d|]; [destruct (8 <=? d)%N|]; auto using hex_val_to_upper, hex_val_to_lower.
Qed.

Lemma bytes_of_hex_eip55_go ha hh : (length ha <= length hh)%nat ->
  bytes_of_hex (eip55_go ha hh) = bytes_of_hex ha.
Proof.
  assert (G : forall n xa xh, (length xa <= n)%nat -> (length xa <= length xh)%nat ->
                              bytes_of_hex (eip55_go xa xh) = bytes_of_hex xa).
  { clear ha hh. induction n as [|n IH]; intros [|a [|b r]] hh Hn Hl; try (simpl in Hn; lia).
    - destruct hh; reflexivity.
    - destruct hh; reflexivity.
    - destruct hh as [|h1 hr]; [simpl in Hl; lia|]. cbn [eip55_go]. destruct hr; reflexivity.
    - destruct hh as [|h1 [|h2 hr]]; try (simpl in Hl; lia).
      cbn [eip55_go bytes_of_hex]. rewrite !hex_val_eip55_char.
      rewrite (IH r hr) by (simpl in Hn, Hl; lia). reflexivity. }
  apply (G (length ha)). lia.
Qed.

Section Addr.
  Variable H : bytes -> bytes.
  Hypothesis H_len : forall x, length (H x) = 32%nat.

  Lemma eip55_reads_back a : length a = 20%nat ->
    strip0x (eip55 H a) = Some (eip55_go (hex_of_bytes a) (firstn 40 (hex_of_bytes (H (hex_of_bytes a))))) /\
    bytes_of_hex (eip55_go (hex_of_bytes a) (firstn 40 (hex_of_bytes (H (hex_of_bytes a))))) = Some a.
  Proof.
    intros Ha. split; [reflexivity|].
    rewrite bytes_of_hex_eip55_go; [apply bytes_of_hex_hex_of_bytes|].
    rewrite firstn_length, !hex_of_bytes_length, H_len, Ha. simpl. lia.
  Qed.
End Addr.
