(* The example of the Solidity ABI specification text, checked against [Spec.enc].  Kept apart from
   Spec.v so that the specification itself does not depend on Base/Lit (primitive integers). *)
From Coq Require Import List NArith ZArith Bool.
From Coq Require Import Init.Byte.
From FFS Require Import Base.Bytes Abi.Types Abi.Spec.
Import ListNotations.
(* the published example: f(uint256,uint32[],bytes10,bytes) with (0x123, [0x456, 0x789], "1234567890", "Hello, world!") *)
From FFS Require Import Base.Lit.
From Coq Require Import String.
Example enc_solidity_doc_example :
  enc (TTuple [TUInt 256; TDynArr (TUInt 32); TBytesN 10; TBytes])
      (VList [VNum 0x123; VList [VNum 0x456; VNum 0x789];
              VBytes (unhex "31323334353637383930"); VBytes (unhex "48656c6c6f2c20776f726c6421")])
  = unhex ("0000000000000000000000000000000000000000000000000000000000000123"
        ++ "0000000000000000000000000000000000000000000000000000000000000080"
        ++ "3132333435363738393000000000000000000000000000000000000000000000"
        ++ "00000000000000000000000000000000000000000000000000000000000000e0"
        ++ "0000000000000000000000000000000000000000000000000000000000000002"
        ++ "0000000000000000000000000000000000000000000000000000000000000456"
        ++ "0000000000000000000000000000000000000000000000000000000000000789"
        ++ "000000000000000000000000000000000000000000000000000000000000000d"
        ++ "48656c6c6f2c20776f726c642100000000000000000000000000000000000000")%string.
Proof. vm_compute. reflexivity. Qed.
