(* Cost-instrumented twin of the ABI decoder model (Abi/DecModel.v) for property C11.

   Every function of DecModel.v that allocates, or calls one that does, has a twin here that returns
   the same result together with the number of allocation units the Go code has requested up to
   the point where it returns (also when it returns an error: Go allocates the children slice of
   an array before it decodes the first element):

     &ComponentValue{}                        1 unit per node
     make([]*ComponentValue, n)               n units
     make([]*typeComponent, n)                n units   (fixed array of a dynamic type)
     make([]byte, n)                          n units

   No proofs in this file; DecTotalProofs.v proves  fst (twin ...) = model ...  (the twin is the
   model, observed more closely) and the bound on the units. *)
From Coq Require Import List NArith ZArith Bool.
From Coq Require Import Init.Byte.
From FFS Require Import Base.Res Base.Bytes Abi.Types Abi.Spec Abi.ModelTypes Abi.DecModel.
Import ListNotations.
Local Open Scope Z_scope.

Definition cres (A : Type) : Type := (res A * N)%type.

Definition cbind {A B} (r : cres A) (f : A -> cres B) : cres B :=
  match r with
  | (Ok a, c) => let '(r2, c2) := f a in (r2, (c + c2)%N)
  | (Err e, c) => (Err e, c)
  | (Panic, c) => (Panic, c)
  end.

Notation "'cdo' x <- r ; k" := (cbind r (fun x => k))
  (at level 200, x pattern, r at level 100, k at level 200).

Definition lift {A} (r : res A) : cres A := (r, 0%N).
Definition charge {A} (n : N) (r : cres A) : cres A := (fst r, (n + snd r)%N).

(* elementary readers: one node, and for bytes / string / bytes<M> / function the byte buffer, which
   is allocated exactly when the reader succeeds *)
Definition elem_units (r : res cval) : N :=
  match r with
  | Ok (CV _ _ (GBytes b)) | Ok (CV _ _ (GString b)) => N.of_nat (length b)
  | _ => 0%N
  end.

Definition decode_elementary_c (block : bytes) (c : tcomp) (headStart headPosition : Z) : cres cval :=
  let r := decode_elementary block c headStart headPosition in (r, (1 + elem_units r)%N).

(* ---------- the element loop ---------- *)
Definition cstate : Type := (res loop_state * N)%type.

Definition loop_step_c (f : Z -> cres (Z * cval)) (s : cstate) : cstate :=
  match s with
  | (Ok (pos, rd, acc), k) =>
      match f pos with
      | (Ok (n, child), c) => (Ok (pos + n, rd + n, child :: acc), (k + c)%N)
      | (Err e, c) => (Err e, (k + c)%N)
      | (Panic, c) => (Panic, (k + c)%N)
      end
  | _ => s
  end.

Fixpoint iter_c (p : positive) (step : cstate -> cstate) (s : cstate) : cstate :=
  match fst s with
  | Ok _ =>
      match p with
      | xH => step s
      | xO p' => iter_c p' step (iter_c p' step s)
      | xI p' => step (iter_c p' step (iter_c p' step s))
      end
  | _ => s
  end.

Definition loop_elems_c (f : Z -> cres (Z * cval)) (count : Z) (pos : Z) : cres (Z * list cval) :=
  match count with
  | Zpos p =>
      match iter_c p (loop_step_c f) (Ok (pos, 0, []), 0%N) with
      | (Ok (_, rd, acc), k) => (Ok (rd, rev acc), k)
      | (Err e, k) => (Err e, k)
      | (Panic, k) => (Panic, k)
      end
  | _ => (Ok (0, []), 0%N)
  end.

Section Element.
  Variable block : bytes.

  Definition decodeABIFixedArrayBytes_c (dec : Z -> Z -> cres (Z * cval)) (c child : tcomp) (len : Z)
             (headStart headPosition : Z) : cres (Z * cval) :=
    if (len >? 0) && occupiesHeadBytes child && ((len - 1) * 32 >=? zlen block - headPosition)
    then (Err ENotEnoughValue, 0%N) else
    if len <? 0 then (Panic, 0%N) else
    charge (1 + Z.to_N len)
      (cdo (rd, children) <- loop_elems_c (dec headStart) len headPosition;
       (Ok (rd, CV (Some c) children GNil), 0%N)).

  Definition decodeABIDynamicArrayBytes_c (dec : Z -> Z -> cres (Z * cval)) (c child : tcomp)
             (dataOffset : Z) : cres cval :=
    cdo arrayLength <- lift (decodeABILength block dataOffset);
    let dataOffset := dataOffset + 32 in
    let dataStart := dataOffset in
    if (arrayLength >? 0) && occupiesHeadBytes child && ((arrayLength - 1) * 32 >=? zlen block - dataOffset)
    then (Err ENotEnoughValue, 0%N) else
    charge (1 + Z.to_N arrayLength)
      (cdo (_, children) <- loop_elems_c (dec dataStart) arrayLength dataOffset;
       (Ok (CV (Some c) children GNil), 0%N)).

  Definition walkDynamicChildArrayABIBytes_rep_c (dec : Z -> Z -> cres (Z * cval)) (parent : tcomp) (len : Z)
             (headStart headPosition : Z) : cres (Z * cval) :=
    charge (1 + Z.to_N len)
      (cdo (rd, children) <- loop_elems_c (dec headStart) len headPosition;
       (Ok (rd, CV (Some parent) children GNil), 0%N)).

  Fixpoint decodeABIElement_c (c : tcomp) (headStart headPosition : Z) {struct c} : cres (Z * cval) :=
    match c with
    | TCElem _ _ _ _ _ =>
        cdo x <- decode_elementary_c block c headStart headPosition; (Ok (32, x), 0%N)
    | TCFixedArr len child _ =>
        if isDynamicType c then
          cdo headOffset <- lift (decodeABILength block headPosition);
          let headStart := headStart + headOffset in
          let headPosition := headStart in
          if (len >? 0) && ((len - 1) * 32 >=? zlen block - headStart) then (Err ENotEnoughValue, 0%N) else
          if len <? 0 then (Panic, 0%N) else
          charge (Z.to_N len)
            (cdo (_, x) <- walkDynamicChildArrayABIBytes_rep_c (decodeABIElement_c child) c len headStart headPosition;
             (Ok (32, x), 0%N))
        else decodeABIFixedArrayBytes_c (decodeABIElement_c child) c child len headStart headPosition
    | TCDynArr child _ =>
        cdo headOffset <- lift (decodeABILength block headPosition);
        cdo x <- decodeABIDynamicArrayBytes_c (decodeABIElement_c child) c child (headStart + headOffset);
        (Ok (32, x), 0%N)
    | TCTuple children _ =>
        let dynamic := isDynamicType c in
        cdo (headStart, headPosition) <-
           lift (if dynamic then
                   do headOffset <- decodeABILength block headPosition;
                   Ok (headStart + headOffset, headStart + headOffset)
                 else Ok (headStart, headPosition));
        charge (1 + N.of_nat (length children))
          (cdo (rd, l) <-
             (fix walk (l : list tcomp) (headPosition : Z) {struct l} : cres (Z * list cval) :=
                match l with
                | [] => (Ok (0, []), 0%N)
                | ch :: r =>
                    cdo (n, x) <- decodeABIElement_c ch headStart headPosition;
                    cdo (m, xs) <- walk r (headPosition + n);
                    (Ok (n + m, x :: xs), 0%N)
                end) children headPosition;
           (Ok (if dynamic then 32 else rd, CV (Some c) l GNil), 0%N))
    end.

  Fixpoint walkDynamicChildArrayABIBytes_c (children : list tcomp) (headStart headPosition : Z)
    : cres (Z * list cval) :=
    match children with
    | [] => (Ok (0, []), 0%N)
    | ch :: r =>
        cdo (n, x) <- decodeABIElement_c ch headStart headPosition;
        cdo (m, xs) <- walkDynamicChildArrayABIBytes_c r headStart (headPosition + n);
        (Ok (n + m, x :: xs), 0%N)
    end.

  Definition walkTupleABIBytes_c (offset : Z) (c : tcomp) : cres (Z * cval) :=
    match c with
    | TCTuple children _ =>
        charge (1 + N.of_nat (length children))
          (cdo (rd, l) <- walkDynamicChildArrayABIBytes_c children offset offset;
           (Ok (rd, CV (Some c) l GNil), 0%N))
    | _ => (Ok (0, CV (Some c) [] GNil), 1%N)
    end.
End Element.

Definition DecodeABIData_c (c : tcomp) (b : bytes) (offset : Z) : cres cval :=
  match c with
  | TCTuple _ _ => cdo (_, x) <- walkTupleABIBytes_c b offset c; (Ok x, 0%N)
  | _ => (Err ENotTuple, 0%N)
  end.

Definition DecodeCallData_c (id : bytes) (inputs : tcomp) (b : bytes) : cres cval :=
  if (length b <? 4)%nat then (Err ENotEnoughSig, 0%N) else
  if negb (bytes_eqb id (firstn 4 b)) then (Err EBadSig, 0%N) else
  DecodeABIData_c inputs b 4.

(* the allocation units of a decode *)
Definition alloc {A} (r : cres A) : N := snd r.

(* ---------- the bound: defined by recursion on the type, depends on the data length only ----------
   [n] is the length of the data.  A dynamic array can have at most n/32 + 1 elements (the guard in
   decodeABIDynamicArrayBytes), a byte string at most n bytes; a fixed array is decoded with its
   declared length k only when the data can hold that many entries, so min(k, n/32 + 1) entries
   are ever allocated (k itself when the element type occupies no bytes: nothing bounds those). *)
Definition fixed_count (len : Z) (ch_occupies : bool) (n : N) : N :=
  if ch_occupies then N.min (Z.to_N len) (n / 32 + 1) else Z.to_N len.

Fixpoint bound (c : tcomp) (n : N) : N :=
  match c with
  | TCElem e _ m _ _ =>
      match decoder_of e with
      | DecBytes | DecString => 1 + (if (m =? 0) then n else m)
      | _ => 1
      end
  | TCFixedArr len ch _ =>
      let k := fixed_count len (occupiesHeadBytes ch) n in 1 + 2 * k + k * bound ch n
  | TCDynArr ch _ => 1 + (n / 32 + 1) + (n / 32 + 1) * bound ch n
  | TCTuple l _ => 1 + N.of_nat (length l) + fold_right (fun ch acc => bound ch n + acc) 0 l
  end%N.

(* "no element type of zero encoded size": every dynamic array's element type occupies head bytes *)
Fixpoint no_zero_size_elem (c : tcomp) : bool :=
  match c with
  | TCElem _ _ _ _ _ => true
  | TCFixedArr _ ch _ => no_zero_size_elem ch
  | TCDynArr ch _ => occupiesHeadBytes ch && no_zero_size_elem ch
  | TCTuple l _ => forallb no_zero_size_elem l
  end.
