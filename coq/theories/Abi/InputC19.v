(* Composition of the C02 integer theorems with property C19's model and theorems of
   ethtypes.BigIntegerFromString (FFS.EthTypes): number texts of the quantifier's spelling classes
   (canonical decimal, "-" decimal, 0x-hex, JSON numbers with fraction / exponent) given for a
   uint<M> / int<M> parameter are encoded as the word of exactly the integer they denote when it is in
   range, and rejected when out of range or not integral. *)
From Coq Require Import List NArith ZArith Bool Arith Lia.
From Coq Require Import Init.Byte.
From FFS Require Import Base.Res Base.Bytes Abi.Types Abi.Spec Abi.ModelTypes Abi.EncModel Abi.InputModel Abi.InputProofs.
From FFS Require EthTypes.Model EthTypes.Spec EthTypes.ProofsNum.
Import ListNotations.

Definition bifs19 : bytes -> res Z := EthTypes.Model.BigIntegerFromString.

Lemma bifs19_no_panic s : bifs19 s <> Panic.
Proof.
  unfold bifs19, EthTypes.Model.BigIntegerFromString. destruct (EthTypes.Model.int_set_string0 s); [discriminate|].
  destruct (negb (EthTypes.Model.parse_float10_ok s)); [discriminate|].
  destruct (EthTypes.Model.rat_set_string s) as [[a d]|]; [|discriminate].
  destruct (a mod Z.of_N d =? 0)%Z; discriminate.
Qed.

(* the text is a JSON string or a JSON number holding t *)
Definition text_input (x : ext) (t : bytes) : Prop := x = XStr t \/ x = XJNum t.

Theorem text_integers_exact e s m k x t mm ee :
  (e = EInt \/ e = EUInt) -> tc_wf (int_tc e s m k) = true ->
  text_input x t -> EthTypes.Spec.denotes t mm ee ->
  match EncodeABIDataValues bifs19 [int_tc e s m k] (XList [x]) with
  | Ok b => exists z, EthTypes.Spec.sci_is mm ee z /\ in_range e m z /\ b = word z
  | Err _ => True
  | Panic => False
  end.
Proof.
  intros He W TI Dn.
  pose proof (integers_exact_or_rejected bifs19 (fun s z => forall m0 e0, EthTypes.Spec.denotes s m0 e0 -> EthTypes.Spec.sci_is m0 e0 z)
                (fun s z H m0 e0 D0 => EthTypes.ProofsNum.big_sound s m0 e0 z D0 H) bifs19_no_panic e s m k x He W) as T.
  destruct (EncodeABIDataValues bifs19 [int_tc e s m k] (XList [x])) as [b| |].
  - destruct T as (z & Dz & R & ->). exists z. split; [|auto].
    destruct TI as [-> | ->]; cbn [int_denotes] in Dz; apply Dz; exact Dn.
  - exact I.
  - destruct TI as [-> | ->]; destruct T as [T|[sg T]]; discriminate.
Qed.

Theorem text_integers_complete e s m k x t mm ee :
  (e = EInt \/ e = EUInt) -> tc_wf (int_tc e s m k) = true ->
  text_input x t -> EthTypes.Spec.denotes t mm ee -> EthTypes.ProofsNum.guard t ee ->
  (forall z, EthTypes.Spec.sci_is mm ee z -> in_range e m z ->
     EncodeABIDataValues bifs19 [int_tc e s m k] (XList [x]) = Ok (word z)) /\
  (forall z, EthTypes.Spec.sci_is mm ee z -> ~ in_range e m z ->
     exists err, EncodeABIDataValues bifs19 [int_tc e s m k] (XList [x]) = Err err) /\
  ((forall z, ~ EthTypes.Spec.sci_is mm ee z) ->
     exists err, EncodeABIDataValues bifs19 [int_tc e s m k] (XList [x]) = Err err).
Proof.
  intros He W TI Dn G.
  pose proof (EthTypes.ProofsNum.big_exact t mm ee Dn G) as BE.
  split; [|split].
  - intros z Hz R. apply EthTypes.ProofsNum.sci_int_spec in Hz. rewrite Hz in BE.
    apply (integers_in_range_accepted_out_of_range_rejected bifs19 e s m k x z He W); [|exact R].
    destruct TI as [-> | ->]; exact BE.
  - intros z Hz R. apply EthTypes.ProofsNum.sci_int_spec in Hz. rewrite Hz in BE.
    apply (integers_in_range_accepted_out_of_range_rejected bifs19 e s m k x z He W); [|exact R].
    destruct TI as [-> | ->]; exact BE.
  - intros Hn. apply EthTypes.ProofsNum.sci_int_none in Hn. rewrite Hn in BE.
    unfold EncodeABIDataValues. rewrite single_param_walk.
    assert (RD : reader_of e = RdInteger) by (destruct He as [-> | ->]; reflexivity). rewrite RD.
    cbn [read_external]. unfold getIntegerFromInterface.
    destruct TI as [-> | ->]; fold bifs19 in BE; rewrite BE; cbn [wrap_err bind]; eauto.
Qed.
