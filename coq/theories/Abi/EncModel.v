(* Executable model of pkg/abi/abiencode.go and pkg/abi/signedi256.go (encode side), one definition per
   Go function, same case order and guards.  Go partial operations (slice expressions, FillBytes, method
   call on a nil *big.Int) are explicit [Panic]s.  No proofs in this file. *)
From Coq Require Import List NArith ZArith Bool Arith.
From Coq Require Import Init.Byte.
From FFS Require Import Base.Res Base.Bytes Abi.Types Abi.Spec Abi.ModelTypes.
Import ListNotations.

(* error classes (the Go message id, never the text) *)
Definition EBadComponent := 1%nat.     (* MsgBadABITypeComponent *)
Definition EWrongType := 2%nat.        (* MsgWrongTypeComponentABIEncode *)
Definition EInsufficient := 3%nat.     (* MsgInsufficientDataABIEncode *)
Definition ETooLarge := 4%nat.         (* MsgNumberTooLargeABIEncode *)
Definition ENegative := 5%nat.         (* MsgNegativeUnsignedABIEncode *)

(* ---------- buffers: make / slice / copy / FillBytes ---------- *)

Definition make (n : nat) : bytes := repeat x00 n.

(* little-endian digits, reversed: big-endian of x in exactly k bytes (x >= 0, x < 256^k) *)
Fixpoint le_bytes (k : nat) (x : Z) : bytes :=
  match k with O => [] | S k' => n2b (Z.to_N (x mod 256)%Z) :: le_bytes k' (x / 256)%Z end.
Definition be_bytes (k : nat) (x : Z) : bytes := rev (le_bytes k x).

(* [x.FillBytes(buf[lo:hi])] for a non-negative big.Int x: the slice expression panics unless
   lo <= hi <= len buf; FillBytes panics when x does not fit hi-lo bytes *)
Definition fill_at (buf : bytes) (lo hi : nat) (x : Z) : res bytes :=
  if negb ((lo <=? hi)%nat && (hi <=? length buf)%nat) then Panic
  else if negb ((0 <=? x)%Z && (x <? 256 ^ Z.of_nat (hi - lo))%Z) then Panic
  else Ok (firstn lo buf ++ be_bytes (hi - lo) x ++ skipn hi buf).

(* [copy(buf[off:], src)]: the slice expression panics unless off <= len buf; copies
   min(len buf - off, len src) bytes *)
Definition copy_at (buf : bytes) (off : nat) (src : bytes) : res bytes :=
  if negb (off <=? length buf)%nat then Panic
  else let n := Nat.min (length buf - off) (length src) in
       Ok (firstn off buf ++ firstn n src ++ skipn (off + n) buf).

(* ---------- signedi256.go ---------- *)

(* posMax / negMax are maps filled for 8, 16, ..., 256 *)
Definition in_max_table (bitlen : N) : bool :=
  (8 <=? bitlen)%N && (bitlen <=? 256)%N && (bitlen mod 8 =? 0)%N.

Definition checkSignedIntFits (i : Z) (bitlen : N) : bool :=
  match (i ?= 0)%Z with
  | Eq => true
  | Gt => in_max_table bitlen && (i <=? 2 ^ (Z.of_N bitlen - 1) - 1)%Z
  | Lt => in_max_table bitlen && (- 2 ^ (Z.of_N bitlen - 1) <=? i)%Z
  end.

Definition fullBits256 : Z := (2 ^ 256 - 1)%Z.

(* big.Int.And on a possibly negative i follows two's-complement semantics = Z.land *)
Definition SerializeInt256TwosComplementBytes (i : Z) : res bytes :=
  fill_at (make 32) 0 32 (Z.land i fullBits256).

(* big.Int.BitLen of |x| *)
Definition bitlen (x : Z) : Z := if (x =? 0)%Z then 0%Z else (Z.log2 (Z.abs x) + 1)%Z.

(* ---------- elementary encoders (abiencode.go) ---------- *)

Definition encodeABIDynamicBytes (value : bytes) : res (bytes * bool) :=
  let l := length value in
  let dataLen := (32 + (l / 32) * 32 + (if (l mod 32 =? 0)%nat then 0 else 32))%nat in
  do d1 <- fill_at (make dataLen) 0 32 (Z.of_nat l);
  do d2 <- copy_at d1 32 value;
  Ok (d2, true).

Definition encodeABIBytes (m : N) (value : gval) : res (bytes * bool) :=
  match value with
  | GBytes b =>
      if (m =? 0)%N then encodeABIDynamicBytes b
      else
        let fixedLength := N.to_nat m in
        if (length b <? fixedLength)%nat || (32 <? fixedLength)%nat then Err EInsufficient
        else
          do src <- slice b 0 fixedLength;
          do d <- copy_at (make 32) 0 src;
          Ok (d, false)
  | _ => Err EWrongType
  end.

Definition encodeABIString (value : gval) : res (bytes * bool) :=
  match value with
  | GString s => encodeABIDynamicBytes s
  | _ => Err EWrongType
  end.

(* [i] after the type assertion [value.( *big.Int )]: a typed nil pointer passes the assertion and
   panics at the first method call *)
Definition assert_bigint (value : gval) : res (option Z) :=
  match value with
  | GBigInt z => Ok (Some z)
  | GBigIntNil => Ok None
  | _ => Err EWrongType
  end.

Definition encodeABISignedInteger_i (m : N) (i : option Z) : res (bytes * bool) :=
  match i with
  | None => Panic                                   (* i.Sign() on nil *)
  | Some z =>
      if negb (checkSignedIntFits z m) then Err ETooLarge
      else do d <- SerializeInt256TwosComplementBytes z; Ok (d, false)
  end.

Definition encodeABISignedInteger (m : N) (value : gval) : res (bytes * bool) :=
  do i <- assert_bigint value; encodeABISignedInteger_i m i.

Definition encodeABIUnsignedInteger (m : N) (value : gval) : res (bytes * bool) :=
  do i <- assert_bigint value;
  match i with
  | None => Panic
  | Some z =>
      if (z <? 0)%Z then Err ENegative
      else if (Z.of_N m <? bitlen z)%Z then Err ETooLarge
      else do d <- fill_at (make 32) 0 32 z; Ok (d, false)
  end.

(* ---------- big.Float arithmetic used by encodeFixed ---------- *)

(* round mant * 2^exp to [prec] mantissa bits, to nearest even *)
Definition bf_round (mant exp : Z) (prec : N) : Z * Z :=
  let bl := bitlen mant in
  let sh := (bl - Z.of_N prec)%Z in
  if (sh <=? 0)%Z then (mant, exp)
  else
    let a := Z.abs mant in
    let q := Z.shiftr a sh in
    let r := (a - Z.shiftl q sh)%Z in
    let half := Z.shiftl 1 (sh - 1) in
    let q' := if (r <? half)%Z then q
              else if (half <? r)%Z then (q + 1)%Z
              else if Z.even q then q else (q + 1)%Z in
    ((if (mant <? 0)%Z then - q' else q')%Z, (exp + sh)%Z).

(* new(big.Float).SetInt(x): precision max(bitlen x, 64), exact *)
Definition bf_setint_prec (x : Z) : N := N.max (Z.to_N (bitlen x)) 64.

(* new(big.Float).Mul(f, g) with g = SetInt(fN): precision max of the operands', ToNearestEven.
   0 * Inf does not arise (fN >= 1). *)
Definition bf_mul_int (f : bfloat) (fN : Z) : bfloat :=
  match f with
  | BInf s => BInf s
  | BFin mant e p =>
      let prec := N.max p (bf_setint_prec fN) in
      let '(m', e') := bf_round (mant * fN) e prec in
      BFin m' e' prec
  end.

(* f.Abs(f).Int(nil): nil for an infinity *)
Definition bf_abs_int (f : bfloat) : option Z :=
  match f with
  | BInf _ => None
  | BFin mant e _ => Some (bf_trunc (Z.abs mant) e)
  end.

Definition encodeFixed (m n : N) (f : bfloat) : res (bytes * bool) :=
  let fN := (10 ^ Z.of_N n)%Z in
  let f1 := bf_mul_int f fN in
  encodeABISignedInteger_i m (bf_abs_int f1).

Definition encodeABISignedFloat (m n : N) (value : gval) : res (bytes * bool) :=
  match value with GBigFloat f => encodeFixed m n f | _ => Err EWrongType end.
Definition encodeABIUnsignedFloat (m n : N) (value : gval) : res (bytes * bool) :=
  match value with GBigFloat f => encodeFixed m n f | _ => Err EWrongType end.

(* tc.elementaryType.encodeABIData(...): dispatch through the table binding *)
Definition encode_elementary (fn : encoder_fn) (m n : N) (value : gval) : res (bytes * bool) :=
  match fn with
  | EncSignedInteger => encodeABISignedInteger m value
  | EncUnsignedInteger => encodeABIUnsignedInteger m value
  | EncSignedFloat => encodeABISignedFloat m n value
  | EncUnsignedFloat => encodeABIUnsignedFloat m n value
  | EncBytes => encodeABIBytes m value
  | EncString => encodeABIString value
  end.

(* ---------- encodeABIChildren: the three passes ---------- *)

(* pass 1: encode every child, first error / panic wins *)
Definition pass1 {A} (f : A -> res (bytes * bool)) : list A -> res (list (bytes * bool)) :=
  fix go (l : list A) : res (list (bytes * bool)) :=
    match l with
    | [] => Ok []
    | c :: r => do x <- f c; do xs <- go r; Ok (x :: xs)
    end.

(* pass 2: head length, tail length, dynamic flag *)
Fixpoint pass2 (cs : list (bytes * bool)) (headLen tailLen : nat) (dyn : bool) : nat * nat * bool :=
  match cs with
  | [] => (headLen, tailLen, dyn)
  | (d, true) :: r => pass2 r (headLen + 32) (tailLen + length d) true
  | (d, false) :: r => pass2 r (headLen + length d) tailLen dyn
  end.

(* pass 3: write heads and tails into the pre-allocated block wData *)
Fixpoint pass3 (cs : list (bytes * bool)) (wData : bytes) (headOffset tailOffset : nat) : res bytes :=
  match cs with
  | [] => Ok wData
  | (d, true) :: r =>
      do w1 <- fill_at wData headOffset (headOffset + 32) (Z.of_nat tailOffset);
      do w2 <- copy_at w1 tailOffset d;
      pass3 r w2 (headOffset + 32) (tailOffset + length d)
  | (d, false) :: r =>
      do w1 <- copy_at wData headOffset d;
      pass3 r w1 (headOffset + length d) tailOffset
  end.

Definition encodeABIChildren {A} (f : A -> res (bytes * bool)) (children : list A)
           (knownDynamic includeLen : bool) : res (bytes * bool) :=
  do cs <- pass1 f children;
  let '(headLen, tailLen, dyn) := pass2 cs 0 0 knownDynamic in
  let startOffset := if includeLen then 32%nat else 0%nat in
  let data := make (startOffset + headLen + tailLen) in
  if includeLen then
    do d1 <- fill_at data 0 32 (Z.of_nat (length children));
    do wData <- slice d1 32 (length d1);
    do w <- pass3 cs wData 0 headLen;
    (* wData aliases data[32:] *)
    Ok (firstn 32 d1 ++ w, dyn)
  else
    do w <- pass3 cs data 0 headLen;
    Ok (w, dyn).

(* ---------- encodeABIData ---------- *)

Fixpoint encodeABIData (cv : cval) : res (bytes * bool) :=
  match cv with
  | CVNil | CV None _ _ => Err EBadComponent
  | CV (Some tc) children value =>
      match tc with
      | TCElem e _ m n _ => encode_elementary (encoder_of e) m n value
      | TCFixedArr _ _ _ => encodeABIChildren encodeABIData children false false
      | TCDynArr _ _ => encodeABIChildren encodeABIData children true true
      | TCTuple _ _ => encodeABIChildren encodeABIData children false false
      end
  end.

(* ComponentValue.EncodeABIData *)
Definition EncodeABIData (cv : cval) : res bytes :=
  do r <- encodeABIData cv; Ok (fst r).
