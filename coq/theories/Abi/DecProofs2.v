(* Proofs about the decoder model, part 2: byte-level facts.  [embedded block off e] (the bytes [e]
   sit in [block] at offset [off]), reading words and sub-slices out of an embedded string, the
   32-byte words of the specification, and the elementary decoders on embedded specification
   encodings. *)
From Coq Require Import List NArith ZArith Bool Lia Arith.
From Coq Require Import ZifyN ZifyNat ZifyBool.
From Coq Require Import Init.Byte.
From FFS Require Import Base.Res Base.Bytes Abi.Types Abi.Spec Abi.ModelTypes Abi.DecModel Abi.DecSpec.
From FFS Require Rlp.Model Rlp.Proofs.
Import ListNotations.
Local Open Scope Z_scope.

Lemma app_inj_length {A} (a a' b b' : list A) :
  length a = length a' -> a ++ b = a' ++ b' -> a = a' /\ b = b'.
Proof.
  revert a'; induction a as [|x a IH]; intros [|y a'] L E; simpl in *; try discriminate.
  - split; [reflexivity|exact E].
  - injection E as -> E. injection L as L. destruct (IH a' L E) as [-> ->]. split; reflexivity.
Qed.

(* ---------- embedded ---------- *)
Definition embedded (block : bytes) (off : Z) (e : bytes) : Prop :=
  0 <= off /\ off + zlen e <= zlen block /\ firstn (length e) (skipn (Z.to_nat off) block) = e.

Lemma embedded_bound block off e : embedded block off e -> off + zlen e <= zlen block.
Proof. intros [_ [H _]]. exact H. Qed.

Lemma embedded_nonneg block off e : embedded block off e -> 0 <= off.
Proof. intros [H _]. exact H. Qed.

Lemma embedded_nil block off : 0 <= off -> off <= zlen block -> embedded block off [].
Proof. intros H H'. split; [exact H|]. split; [unfold zlen in *; simpl; lia|reflexivity]. Qed.

Lemma embedded_app block off a b :
  embedded block off (a ++ b) -> embedded block off a /\ embedded block (off + zlen a) b.
Proof.
  intros [H0 [Hb H]]. unfold embedded, zlen in *.
  rewrite app_length in H, Hb.
  set (X := skipn (Z.to_nat off) block) in *.
  assert (HX : firstn (length a) X = a /\ firstn (length b) (skipn (length a) X) = b).
  { rewrite <- (firstn_skipn (length a) X) in H at 1.
    rewrite firstn_app in H.
    assert (LX : (length a + length b <= length X)%nat) by (subst X; rewrite skipn_length; lia).
    assert (L : length (firstn (length a) X) = length a) by (rewrite firstn_length; lia).
    rewrite L in H. rewrite firstn_firstn in H.
    replace (Nat.min (length a + length b) (length a)) with (length a) in H by lia.
    replace (length a + length b - length a)%nat with (length b) in H by lia.
    apply app_inj_length in H as [Ha Hb']; [|exact L]. split; assumption. }
  destruct HX as [Ha Hb']. repeat split; try lia; try exact Ha.
  replace (Z.to_nat (off + Z.of_nat (length a))) with (Z.to_nat off + length a)%nat by lia.
  subst X. rewrite skipn_skipn' in Hb'. exact Hb'.
Qed.

Lemma embedded_app_l block off a b : embedded block off (a ++ b) -> embedded block off a.
Proof. intros H; apply embedded_app in H; tauto. Qed.
Lemma embedded_app_r block off a b : embedded block off (a ++ b) -> embedded block (off + zlen a) b.
Proof. intros H; apply embedded_app in H; tauto. Qed.

Lemma embedded_mid pre e post : embedded (pre ++ e ++ post) (zlen pre) e.
Proof.
  unfold embedded, zlen. split; [lia|]. split; [rewrite !app_length; lia|]. rewrite Nat2Z.id, skipn_prefix.
  rewrite firstn_app, Nat.sub_diag, firstn_all. simpl. apply app_nil_r.
Qed.

(* any sub-range of an embedded string can be sliced out *)
Lemma zslice_embedded block off e i j :
  embedded block off e -> 0 <= i -> i <= j -> j <= zlen e ->
  zslice block (off + i) (off + j) = Ok (firstn (Z.to_nat (j - i)) (skipn (Z.to_nat i) e)).
Proof.
  intros He Hi Hij Hj. pose proof (embedded_bound _ _ _ He) as Hb. destruct He as [H0 [_ He]].
  unfold zslice.
  replace ((0 <=? off + i) && (off + i <=? off + j) && (off + j <=? zlen block)) with true
    by (symmetry; rewrite !andb_true_iff; repeat split; apply Z.leb_le; lia).
  f_equal. replace (off + j - (off + i)) with (j - i) by lia.
  replace (Z.to_nat (off + i)) with (Z.to_nat off + Z.to_nat i)%nat by lia.
  rewrite <- skipn_skipn'.
  rewrite <- He at 1. rewrite skipn_firstn_comm, firstn_firstn. f_equal. unfold zlen in Hj. lia.
Qed.

Lemma zslice_embedded_whole block off e :
  embedded block off e -> zslice block off (off + zlen e) = Ok e.
Proof.
  intros He. pose proof (zslice_embedded block off e 0 (zlen e) He ltac:(lia) ltac:(unfold zlen; lia) ltac:(lia)) as H.
  rewrite Z.add_0_r in H. rewrite H. simpl. rewrite Z.sub_0_r. unfold zlen. rewrite Nat2Z.id, firstn_all. reflexivity.
Qed.

(* everything from the offset on *)
Lemma zslice_embedded_rest block off e :
  embedded block off e ->
  exists rest, zslice block off (zlen block) = Ok rest /\ firstn (length e) rest = e.
Proof.
  intros He. pose proof (embedded_bound _ _ _ He) as Hb. destruct He as [H0 [_ He]].
  exists (skipn (Z.to_nat off) block). split; [|exact He].
  unfold zslice.
  replace ((0 <=? off) && (off <=? zlen block) && (zlen block <=? zlen block)) with true
    by (symmetry; rewrite !andb_true_iff; repeat split; apply Z.leb_le; unfold zlen in *; lia).
  f_equal. apply firstn_all2. rewrite skipn_length. unfold zlen. lia.
Qed.

(* ---------- words ---------- *)
Lemma be_fixedZ_length k z : length (be_fixedZ k z) = k.
Proof. revert z; induction k as [|k IH]; intros z; simpl; [reflexivity|]. rewrite app_length, IH. simpl. lia. Qed.

Lemma word_length z : length (word z) = 32%nat.
Proof. apply be_fixedZ_length. Qed.

Lemma zlen_word z : zlen (word z) = 32.
Proof. unfold zlen. rewrite word_length. reflexivity. Qed.

Lemma of_beZ_be_fixedZ k z : 0 <= z -> of_beZ (be_fixedZ k z) = z mod 256 ^ Z.of_nat k.
Proof.
  revert z; induction k as [|k IH]; intros z Hz.
  - simpl. rewrite Z.mod_1_r. reflexivity.
  - cbn [be_fixedZ]. unfold of_beZ in *. rewrite Rlp.Proofs.of_be_app.
    rewrite N2Z.inj_add, N2Z.inj_mul, IH by (apply Z.div_pos; lia).
    simpl length. change (Rlp.Model.of_be [n2b (Z.to_N (z mod 256))]) with (0 * 256 + b2n (n2b (Z.to_N (z mod 256))))%N.
    rewrite b2n_n2b by (pose proof (Z.mod_pos_bound z 256); lia).
    rewrite Nat2Z.inj_succ, Z.pow_succ_r by lia.
    pose proof (Z.mod_pos_bound z 256 ltac:(lia)).
    assert (Hp : 0 < 256 ^ Z.of_nat k) by (apply Z.pow_pos_nonneg; lia).
    change (Z.of_N (256 ^ N.of_nat 1)) with 256.
    replace (Z.of_N (0 * 256 + Z.to_N (z mod 256))) with (z mod 256) by lia.
    rewrite Z.rem_mul_r by lia. lia.
Qed.

Lemma two_pos k : 0 < two k.
Proof. unfold two. apply Z.pow_pos_nonneg; lia. Qed.

Lemma of_beZ_word z : of_beZ (word z) = z mod two 256.
Proof.
  unfold word. rewrite of_beZ_be_fixedZ by (apply Z.mod_pos_bound, two_pos).
  change (256 ^ Z.of_nat 32) with (two 256). apply Z.mod_mod. pose proof (two_pos 256); lia.
Qed.

(* the last j bytes of a k-byte big-endian string *)
Lemma be_fixedZ_split j i z :
  be_fixedZ (i + j) z = be_fixedZ i (z / 256 ^ Z.of_nat j) ++ be_fixedZ j z.
Proof.
  revert z; induction j as [|j IH]; intros z.
  - rewrite Nat.add_0_r. simpl. rewrite Z.div_1_r, app_nil_r. reflexivity.
  - rewrite Nat.add_succ_r. cbn [be_fixedZ]. rewrite IH, <- app_assoc. f_equal.
    rewrite Nat2Z.inj_succ, Z.pow_succ_r by lia.
    rewrite Z.div_div by (try apply Z.pow_pos_nonneg; lia). reflexivity.
Qed.

Lemma skipn_word_low j z : (j <= 32)%nat ->
  skipn (32 - j) (word z) = be_fixedZ j (z mod two 256).
Proof.
  intros Hj. unfold word. replace 32%nat with ((32 - j) + j)%nat at 2 by lia.
  rewrite be_fixedZ_split. rewrite <- (be_fixedZ_length (32 - j) (z mod two 256 / 256 ^ Z.of_nat j)) at 1.
  apply skipn_prefix.
Qed.

(* ---------- decodeABILength on an embedded word ---------- *)
Lemma decodeABILength_word block off o :
  embedded block off (word o) -> 0 <= o < 2 ^ 32 -> decodeABILength block off = Ok o.
Proof.
  intros He Ho. unfold decodeABILength.
  pose proof (embedded_bound _ _ _ He) as Hb. rewrite zlen_word in Hb.
  replace (off + 32 >? zlen block) with false by (symmetry; rewrite Z.gtb_ltb; apply Z.ltb_ge; lia).
  pose proof (zslice_embedded_whole _ _ _ He) as Hs. rewrite zlen_word in Hs. rewrite Hs. cbn [bind].
  rewrite of_beZ_word. unfold two. change (Z.of_N 256) with 256.
  rewrite Z.mod_small by (assert (2 ^ 32 < 2 ^ 256) by (apply Z.pow_lt_mono_r; lia); lia).
  replace (2 ^ 32 <=? o) with false by (symmetry; apply Z.leb_gt; lia). reflexivity.
Qed.

(* ---------- pad_right ---------- *)
Lemma pad_right_app b : exists k, pad_right b = b ++ repeat x00 k /\ ((length b + k) mod 32 = 0)%nat /\ (k < 32)%nat.
Proof.
  unfold pad_right. eexists; split; [reflexivity|].
  pose proof (Nat.mod_upper_bound (length b) 32 ltac:(lia)).
  pose proof (Nat.mod_upper_bound (32 - length b mod 32) 32 ltac:(lia)).
  split; [|lia].
  pose proof (Nat.div_mod (length b) 32 ltac:(lia)) as E.
  destruct (Nat.eq_dec (length b mod 32) 0) as [Z0|NZ].
  - rewrite Z0. replace ((32 - 0) mod 32)%nat with 0%nat by reflexivity. rewrite Nat.add_0_r. exact Z0.
  - rewrite (Nat.mod_small (32 - length b mod 32) 32) by lia.
    rewrite E at 1. replace (32 * (length b / 32) + length b mod 32 + (32 - length b mod 32))%nat
      with ((1 + length b / 32) * 32)%nat by lia.
    apply Nat.mod_mul. lia.
Qed.

Lemma pad_right_small b : (1 <= length b <= 32)%nat -> length (pad_right b) = 32%nat.
Proof.
  intros Hb. destruct (pad_right_app b) as [k [E [Hm Hk]]]. rewrite E, app_length, repeat_length.
  assert (length b + k = 32 \/ length b + k = 64)%nat as [H|H]; [|exact H|].
  - pose proof (Nat.div_mod (length b + k) 32 ltac:(lia)) as D. rewrite Hm in D.
    assert (((length b + k) / 32 = 1) \/ ((length b + k) / 32 = 2) \/ ((length b + k) / 32 = 0) \/ (3 <= (length b + k) / 32))%nat by lia.
    lia.
  - lia.
Qed.

(* ---------- ranges of well-typed integers ---------- *)
Lemma two_mono a b : (a <= b)%N -> two a <= two b.
Proof. intros H. unfold two. apply Z.pow_le_mono_r; lia. Qed.

Lemma two_eq_256 j : two (8 * N.of_nat j) = 256 ^ Z.of_nat j.
Proof.
  unfold two. rewrite N2Z.inj_mul, nat_N_Z. change (Z.of_N 8) with 8.
  rewrite Z.pow_mul_r by lia. reflexivity.
Qed.

(* ---------- the elementary decoders on embedded words ---------- *)
Section Elementary.
  Variable block : bytes.

  (* uint<M>, address, bool: the low M/8 bytes *)
  Lemma decodeABIUnsignedInt_word hp m c z :
    (m mod 8 = 0)%N -> (8 <= m <= 256)%N -> 0 <= z < two m ->
    embedded block hp (word z) ->
    decodeABIUnsignedInt block hp m c = Ok (CV (Some c) [] (GBigInt z)).
  Proof.
    intros Hm8 Hm Hz He. unfold decodeABIUnsignedInt.
    pose proof (embedded_bound _ _ _ He) as Hb. rewrite zlen_word in Hb.
    replace (hp + 32 >? zlen block) with false by (symmetry; rewrite Z.gtb_ltb; apply Z.ltb_ge; lia).
    set (j := N.to_nat (m / 8)).
    assert (Hj : (j <= 32)%nat) by (subst j; assert (m / 8 <= 32)%N by (apply N.div_le_upper_bound; lia); lia).
    assert (Em : m = (8 * N.of_nat j)%N).
    { subst j. rewrite N2Nat.id. rewrite (N.div_mod m 8) at 1 by lia. rewrite Hm8. lia. }
    pose proof (zslice_embedded block hp (word z) (32 - Z.of_N (m / 8)) 32 He) as Hs.
    rewrite zlen_word in Hs. specialize (Hs ltac:(lia) ltac:(lia) ltac:(lia)).
    replace (hp + (32 - Z.of_N (m / 8))) with (hp + (32 - Z.of_N (m / 8))) by reflexivity.
    rewrite Hs. cbn [bind]. do 3 f_equal.
    replace (Z.to_nat (32 - Z.of_N (m / 8))) with (32 - j)%nat by lia.
    rewrite skipn_word_low by exact Hj.
    rewrite firstn_all2 by (rewrite be_fixedZ_length; lia).
    pose proof (two_pos 256). pose proof (two_mono m 256 ltac:(lia)).
    rewrite (Z.mod_small z (two 256)) by lia.
    rewrite of_beZ_be_fixedZ by lia. rewrite <- two_eq_256, <- Em. apply Z.mod_small. lia.
  Qed.

  (* int<M>: the whole word, two's complement *)
  Lemma ParseInt256_word m z :
    (1 <= m <= 256)%N -> - two (m - 1) <= z < two (m - 1) ->
    ParseInt256TwosComplementBytes (word z) = z.
  Proof.
    intros Hm Hz. unfold ParseInt256TwosComplementBytes. rewrite of_beZ_word.
    pose proof (two_mono (m - 1) 255 ltac:(lia)) as Hmono.
    assert (E : two 256 = 2 * two 255) by reflexivity.
    change oneThen255Zeros with (two 255). change oneMoreThanMaxUint256 with (two 256).
    pose proof (two_pos 255).
    destruct (Z_lt_le_dec z 0) as [Hn|Hp].
    - replace (z mod two 256) with (z + two 256).
      + replace (z + two 256 <? two 255) with false by (symmetry; apply Z.ltb_ge; lia). lia.
      + symmetry. rewrite <- (Z.mod_add z 1 (two 256)) by lia. apply Z.mod_small. lia.
    - rewrite Z.mod_small by lia.
      replace (z <? two 255) with true by (symmetry; apply Z.ltb_lt; lia). reflexivity.
  Qed.

  Lemma decodeABISignedInt_word hp m c z :
    (1 <= m <= 256)%N -> - two (m - 1) <= z < two (m - 1) ->
    embedded block hp (word z) ->
    decodeABISignedInt block hp c = Ok (CV (Some c) [] (GBigInt z)).
  Proof.
    intros Hm Hz He. unfold decodeABISignedInt.
    pose proof (embedded_bound _ _ _ He) as Hb. rewrite zlen_word in Hb.
    replace (hp + 32 >? zlen block) with false by (symmetry; rewrite Z.gtb_ltb; apply Z.ltb_ge; lia).
    pose proof (zslice_embedded_whole _ _ _ He) as Hs. rewrite zlen_word in Hs. rewrite Hs. cbn [bind].
    rewrite (ParseInt256_word m z Hm Hz). reflexivity.
  Qed.

  (* bytes<M> / function: the first M bytes at the head position *)
  Lemma decodeABIBytes_raw_fixed hs hp m b :
    (1 <= m <= 32)%N -> N.of_nat (length b) = m ->
    embedded block hp (pad_right b) ->
    decodeABIBytes_raw block hs hp m = Ok b.
  Proof.
    intros Hm Hl He. unfold decodeABIBytes_raw.
    replace (m =? 0)%N with false by (symmetry; apply N.eqb_neq; lia). cbn [bind].
    destruct (pad_right_app b) as [k [E [Hmod Hk]]].
    pose proof (embedded_bound _ _ _ He) as Hb.
    assert (L : zlen (pad_right b) = 32) by (unfold zlen; rewrite pad_right_small by lia; reflexivity).
    replace (hp + Z.of_N m >? zlen block) with false by (symmetry; rewrite Z.gtb_ltb; apply Z.ltb_ge; lia).
    rewrite E in He. apply embedded_app_l in He.
    destruct (zslice_embedded_rest _ _ _ He) as [rest [Hr Hf]]. rewrite Hr. cbn [bind].
    replace (Z.to_nat (Z.of_N m)) with (length b) by lia. rewrite Hf.
    assert (length b <= length rest)%nat.
    { apply (f_equal (@length byte)) in Hf. rewrite firstn_length in Hf. lia. }
    replace (length b - length rest)%nat with 0%nat by lia. simpl. rewrite app_nil_r. reflexivity.
  Qed.

  (* bytes / string: offset word in the head, then length word and data at headStart + offset *)
  Lemma decodeABIBytes_raw_dyn hs hp o b :
    0 <= o < 2 ^ 32 -> zlen b < 2 ^ 32 ->
    embedded block hp (word o) ->
    embedded block (hs + o) (word (blen b) ++ pad_right b) ->
    decodeABIBytes_raw block hs hp 0 = Ok b.
  Proof.
    intros Ho Hlen Hw He. unfold decodeABIBytes_raw. cbn [N.eqb].
    rewrite (decodeABILength_word _ _ _ Hw Ho). cbn [bind].
    destruct (embedded_app _ _ _ _ He) as [He1 He2]. rewrite zlen_word in He2.
    rewrite (decodeABILength_word _ _ (blen b) He1) by (unfold blen, zlen in *; lia). cbn [bind].
    destruct (pad_right_app b) as [k [E [Hmod Hk]]]. rewrite E in He2.
    apply embedded_app_l in He2.
    pose proof (embedded_bound _ _ _ He2) as Hb. unfold blen.
    replace (hs + o + 32 + Z.of_nat (length b) >? zlen block) with false
      by (symmetry; rewrite Z.gtb_ltb; apply Z.ltb_ge; unfold zlen in *; lia).
    destruct (zslice_embedded_rest _ _ _ He2) as [rest [Hr Hf]]. rewrite Hr. cbn [bind].
    rewrite Nat2Z.id, Hf.
    assert (length b <= length rest)%nat.
    { apply (f_equal (@length byte)) in Hf. rewrite firstn_length in Hf. lia. }
    replace (length b - length rest)%nat with 0%nat by lia. simpl. rewrite app_nil_r. reflexivity.
  Qed.
End Elementary.
