(* Proofs about the encoder model, part 4: totality.  On every value tree of the shape the input walk
   builds (well typed or not), encodeABIData returns data or an error - it never panics - and the
   data is bounded by the size of the value. *)
From Coq Require Import List NArith ZArith Bool Arith Lia.
From Coq Require Import ZifyNat ZifyN ZifyBool.
From Coq Require Import Init.Byte.
From FFS Require Import Base.Res Base.Bytes Abi.Types Abi.Spec Abi.ModelTypes Abi.EncModel.
From FFS Require Import Abi.EncProofs Abi.EncProofs2 Abi.EncProofs3.
Import ListNotations.

Definition ok_bounded (r : res (bytes * bool)) (bound : nat) : Prop :=
  (exists d f, r = Ok (d, f) /\ (length d <= bound)%nat) \/ (exists e, r = Err e).

Lemma bytesN_total m b : (m <> 0)%N -> ok_bounded (encodeABIBytes m (GBytes b)) 32.
Proof.
  intros Hm. unfold encodeABIBytes. replace (m =? 0)%N with false by (symmetry; apply N.eqb_neq; exact Hm).
  destruct ((length b <? N.to_nat m)%nat || (32 <? N.to_nat m)%nat) eqn:E; [right; eexists; reflexivity|].
  apply orb_false_elim in E as [E1 E2]. apply Nat.ltb_ge in E1, E2.
  rewrite slice_ok by lia. cbn [bind skipn]. rewrite Nat.sub_0_r.
  rewrite copy_make_front by (rewrite firstn_length; lia). cbn [bind].
  left. do 2 eexists. split; [reflexivity|]. rewrite app_length, make_length, firstn_length. lia.
Qed.

Lemma dynamic_bytes_total b : len_ok (length b) -> ok_bounded (encodeABIDynamicBytes b) (64 * (1 + length b)).
Proof.
  intros H. rewrite dynamic_bytes_ok by exact H. left. do 2 eexists. split; [reflexivity|].
  rewrite app_length, word_length. pose proof (pad_right_length b). lia.
Qed.

Lemma int_dec_range (a z b : Z) : {(a <= z < b)%Z} + {~ (a <= z < b)%Z}.
Proof. destruct (Z_le_dec a z), (Z_lt_dec z b); (left; lia) || (right; lia). Qed.

Lemma elementary_total e s m n k v :
  tc_wf (TCElem e s m n k) = true -> tc_no_fixed_point (TCElem e s m n k) = true ->
  value_kind_ok e v = true -> weight_ok (gval_to_val n v) ->
  ok_bounded (encode_elementary (encoder_of e) m n v) (64 * weight (gval_to_val n v)).
Proof.
  intros W NF VK WO. unfold tc_wf in W. apply andb_prop in W as [CS WF]. unfold value_kind_ok in VK.
  assert (I32 : forall z, ok_bounded (Ok (word z, false)) (64 * weight (VNum z))).
  { intros z. left. do 2 eexists. split; [reflexivity|]. rewrite word_length. cbn [weight]. lia. }
  destruct e; cbn [tc_no_fixed_point] in NF; try discriminate; cbn [reader_of] in VK; destruct v; try discriminate;
    cbn [ty_of gval_to_val encoder_of encode_elementary tc_consistent default_m] in *.
  - pose proof (wf_uint_m m WF) as Wm.
    destruct (int_dec_range (- two (m - 1)) z (two (m - 1))) as [R|R].
    + rewrite signed_ok by auto. apply I32.
    + right. apply signed_rejects; auto.
  - pose proof (wf_uint_m m WF) as (W1 & W2 & W3).
    destruct (int_dec_range 0 z (two m)) as [R|R].
    + rewrite unsigned_ok by (auto; lia). apply I32.
    + right. apply unsigned_rejects; auto.
  - apply N.eqb_eq in CS. subst m. destruct (int_dec_range 0 z (two 160)) as [R|R].
    + rewrite unsigned_ok by (auto; lia). apply I32.
    + right. apply unsigned_rejects; auto.
  - apply N.eqb_eq in CS. subst m. destruct (int_dec_range 0 z (two 8)) as [R|R].
    + rewrite unsigned_ok by (auto; lia). apply I32.
    + right. apply unsigned_rejects; auto.
  - destruct (N.eq_dec m 0) as [->|Hm].
    + unfold encodeABIBytes. cbn [N.eqb]. cbn [weight]. apply dynamic_bytes_total.
      apply len_ok_of_weight. unfold weight_ok in WO. cbn [weight] in WO. lia.
    + destruct (bytesN_total m b Hm) as [(d & f & E & L)|[e E]]; [left|right]; rewrite E; eauto.
      do 2 eexists. split; [reflexivity|]. cbn [weight]. lia.
  - apply N.eqb_eq in CS. subst m.
    destruct (bytesN_total 24 b ltac:(lia)) as [(d & f & E & L)|[e E]]; [left|right]; rewrite E; eauto.
    do 2 eexists. split; [reflexivity|]. cbn [weight]. lia.
  - unfold encodeABIString. cbn [weight]. apply dynamic_bytes_total.
    apply len_ok_of_weight. unfold weight_ok in WO. cbn [weight] in WO. lia.
Qed.

Definition enc_total (x : cval) : Prop :=
  forall tc, tc_wf tc = true -> tc_no_fixed_point tc = true ->
    typed_as tc x = true -> values_ok x = true -> weight_ok (val_of x) ->
    ok_bounded (encodeABIData x) (64 * weight (val_of x)).

Lemma pass1_total l :
  Forall (fun y => ok_bounded (encodeABIData y) (64 * weight (val_of y))) l ->
  (exists cs, pass1 encodeABIData l = Ok cs /\
     (list_sum (map (fun c => 32 + length (fst c)) cs) <= 64 * (length l + list_sum (map weight (map val_of l))))%nat) \/
  (exists e, pass1 encodeABIData l = Err e).
Proof.
  induction 1 as [|y r Hy _ IH].
  - left. exists []. split; [reflexivity|]. simpl. lia.
  - cbn [pass1]. destruct Hy as [(d & f & E & L)|[e E]]; rewrite E; cbn [bind]; [|right; eauto].
    destruct IH as [(cs & P & B)|[e P]]; rewrite P; cbn [bind]; [|right; eauto].
    left. eexists. split; [reflexivity|]. cbn [map length fst]. rewrite !list_sum_cons. unfold bytes in *. lia.
Qed.

Lemma container_total l known includeLen :
  Forall (fun y => ok_bounded (encodeABIData y) (64 * weight (val_of y))) l ->
  weight_ok (VList (map val_of l)) ->
  ok_bounded (encodeABIChildren encodeABIData l known includeLen) (64 * weight (VList (map val_of l))).
Proof.
  intros F WO. unfold weight_ok in WO. cbn [weight] in *. rewrite map_length in *.
  destruct (pass1_total l F) as [(cs & P & B)|[e P]].
  - pose proof (hltl_le cs) as HL.
    assert (T : (64 * 2 ^ 248 + 32 < two 256)%Z) by (vm_compute; reflexivity).
    rewrite (children_layout _ _ _ _ _ P); [| unfold len_ok; lia | unfold len_ok; lia].
    left. do 2 eexists. split; [reflexivity|].
    rewrite app_length, head_tail_length. destruct includeLen; [rewrite word_length|cbn [length]]; lia.
  - right. exists e. unfold encodeABIChildren. rewrite P. reflexivity.
Qed.

Lemma weight_child y l : In y l -> (weight (val_of y) <= list_sum (map weight (map val_of l)))%nat.
Proof.
  induction l as [|a r IH]; [contradiction|]. cbn [map]. rewrite list_sum_cons. intros [->|H]; [lia|]. specialize (IH H). lia.
Qed.

Lemma tuple_each (P : tcomp -> bool) ts : forall l,
  tuple_typed_as ts l = true -> forallb P ts = true ->
  Forall (fun y => exists t, P t = true /\ typed_as t y = true) l.
Proof.
  induction ts as [|t r IH]; intros [|y l] T F; try discriminate; [constructor|].
  cbn [tuple_typed_as forallb] in *. apply andb_prop in T as [T1 T2]. apply andb_prop in F as [F1 F2].
  constructor; [exists t; auto|apply IH; assumption].
Qed.

Theorem encode_total : forall x, enc_total x.
Proof.
  induction x as [|c l v IH] using cval_ind'; intros tc W NF TA VO WO.
  - discriminate.
  - destruct tc as [e s m n k|len c' k|c' k|ts k].
    + cbn [typed_as] in TA. apply andb_prop in TA as [TC TA].
      destruct c as [c|]; [|discriminate]. cbn [opt_tcomp_eqb] in TC. apply tcomp_eqb_eq in TC. subst c.
      destruct l; [|discriminate]. cbn [encodeABIData val_of values_ok] in *. apply elementary_total with (s := s) (k := k); auto.
    + cbn [typed_as] in TA. apply andb_prop in TA as [TC TA].
      destruct c as [c|]; [|discriminate]. cbn [opt_tcomp_eqb] in TC. apply tcomp_eqb_eq in TC. subst c.
      apply tc_wf_fixedarr in W as [_ W]. cbn [tc_no_fixed_point values_ok] in *. cbn [val_of encodeABIData] in *.
      apply container_total; [|exact WO]. rewrite Forall_forall in IH |- *. rewrite forallb_forall in TA, VO. intros y Hy.
      apply (IH y Hy c' W NF (TA y Hy) (VO y Hy)). unfold weight_ok in *. cbn [weight] in WO. pose proof (weight_child y l Hy). lia.
    + cbn [typed_as] in TA. apply andb_prop in TA as [TC TA].
      destruct c as [c|]; [|discriminate]. cbn [opt_tcomp_eqb] in TC. apply tcomp_eqb_eq in TC. subst c.
      apply tc_wf_dynarr in W. cbn [tc_no_fixed_point values_ok] in *. cbn [val_of encodeABIData] in *.
      apply container_total; [|exact WO]. rewrite Forall_forall in IH |- *. rewrite forallb_forall in TA, VO. intros y Hy.
      apply (IH y Hy c' W NF (TA y Hy) (VO y Hy)). unfold weight_ok in *. cbn [weight] in WO. pose proof (weight_child y l Hy). lia.
    + rewrite typed_as_tuple in TA. apply andb_prop in TA as [TC TA].
      destruct c as [c|]; [|discriminate]. cbn [opt_tcomp_eqb] in TC. apply tcomp_eqb_eq in TC. subst c.
      apply tc_wf_tuple in W. cbn [tc_no_fixed_point values_ok] in *. cbn [val_of encodeABIData] in *.
      apply container_total; [|exact WO].
      assert (F : forallb (fun t => tc_wf t && tc_no_fixed_point t) ts = true).
      { clear -W NF. induction ts as [|t r IHr]; [reflexivity|]. cbn [forallb] in *.
        apply andb_prop in W as [W1 W2]. apply andb_prop in NF as [N1 N2]. rewrite W1, N1, IHr by assumption. reflexivity. }
      pose proof (tuple_each _ ts l TA F) as E.
      rewrite Forall_forall in IH, E |- *. rewrite forallb_forall in VO. intros y Hy.
      destruct (E y Hy) as (t & Pt & Ty). apply andb_prop in Pt as [Wt Nt].
      apply (IH y Hy t Wt Nt Ty (VO y Hy)). unfold weight_ok in *. cbn [weight] in WO. pose proof (weight_child y l Hy). lia.
Qed.

Corollary encode_never_panics x tc :
  tc_wf tc = true -> tc_no_fixed_point tc = true -> typed_as tc x = true -> values_ok x = true ->
  weight_ok (val_of x) -> encodeABIData x <> Panic.
Proof.
  intros W NF TA VO WO. destruct (encode_total x tc W NF TA VO WO) as [(d & f & E & _)|[e E]]; rewrite E; discriminate.
Qed.
