(* Proofs about the encoder model, part 3: encodeABIData on a well-typed value tree is the
   specification's enc, for arbitrary nesting (nested induction over the value tree). *)
From Coq Require Import List NArith ZArith Bool Arith Lia.
From Coq Require Import ZifyNat ZifyN ZifyBool.
From Coq Require Import Init.Byte.
From FFS Require Import Base.Res Base.Bytes Abi.Types Abi.Spec Abi.ModelTypes Abi.EncModel Abi.EncProofs Abi.EncProofs2.
Import ListNotations.

(* ---------- soundness of the boolean equality on component trees ---------- *)

Lemma bytes_eqb_eq a b : bytes_eqb a b = true -> a = b.
Proof. destruct (bytes_eqb_spec a b); [auto|discriminate]. Qed.

Lemma tcomp_eqb_eq a : forall b, tcomp_eqb a b = true -> a = b.
Proof.
  induction a as [e s m n k|len c k IH|c k IH|l k IH] using tcomp_ind'; intros [e' s' m' n' k'|len' c' k'|c' k'|l' k'] H;
    cbn [tcomp_eqb] in H; try discriminate.
  - repeat (apply andb_prop in H as [H ?]).
    apply bytes_eqb_eq in H0, H3. apply N.eqb_eq in H1, H2. subst.
    destruct e, e'; try discriminate; reflexivity.
  - repeat (apply andb_prop in H as [H ?]). apply Z.eqb_eq in H. apply bytes_eqb_eq in H0. apply IH in H1. subst. reflexivity.
  - apply andb_prop in H as [H ?]. apply bytes_eqb_eq in H0. apply IH in H. subst. reflexivity.
  - apply andb_prop in H as [H ?]. apply bytes_eqb_eq in H0. subst. f_equal.
    revert l' H. induction IH as [|x r Hx _ IHr]; intros [|y r'] H; try discriminate; [reflexivity|].
    apply andb_prop in H as [H1 H2]. f_equal; [apply Hx; exact H1|apply IHr; exact H2].
Qed.

(* ---------- size of a value: nodes + bytes ---------- *)

Fixpoint weight (v : val) : nat :=
  match v with
  | VNum _ => 1
  | VBytes b => 1 + length b
  | VList l => 1 + length l + list_sum (map weight l)
  end.

Lemma list_sum_cons a l : list_sum (a :: l) = (a + list_sum l)%nat.
Proof. reflexivity. Qed.

Lemma pad_right_length b : (length (pad_right b) <= length b + 31)%nat.
Proof.
  unfold pad_right. rewrite app_length, repeat_length.
  assert ((32 - length b mod 32) mod 32 < 32)%nat by (apply Nat.mod_upper_bound; lia). lia.
Qed.

Lemma heads_tails_le items off :
  (length (heads off items) + length (tails items) <= list_sum (map (fun it => 32 + length (snd it)) items))%nat.
Proof.
  unfold tails. revert off. induction items as [|[[|] e] r IH]; intros off; cbn [heads flat_map map fst snd]; rewrite ?list_sum_cons; [simpl; lia| |].
  - rewrite !app_length, word_length. specialize (IH (off + blen e)%Z). lia.
  - rewrite !app_length. cbn [app length]. specialize (IH off). lia.
Qed.

Lemma head_tail_le items :
  (length (head_tail items) <= list_sum (map (fun it => 32 + length (snd it)) items))%nat.
Proof. unfold head_tail. rewrite app_length. apply heads_tails_le. Qed.

(* the tuple case of [enc] and [well_typed], named *)
Fixpoint tuple_items (ts : list ty) (vs : list val) : list (bool * bytes) :=
  match ts, vs with
  | t :: ts', v :: vs' => (dynamic t, enc t v) :: tuple_items ts' vs'
  | _, _ => []
  end.
Lemma enc_tuple ts vs : enc (TTuple ts) (VList vs) = head_tail (tuple_items ts vs).
Proof.
  cbn [enc]. f_equal. revert ts. induction vs as [|v r IH]; intros [|t ts]; try reflexivity.
  cbn [tuple_items]. f_equal. apply IH.
Qed.
Fixpoint tuple_typed (ts : list ty) (vs : list val) : bool :=
  match ts, vs with
  | [], [] => true
  | t :: ts', v :: vs' => well_typed t v && tuple_typed ts' vs'
  | _, _ => false
  end.
Lemma well_typed_tuple ts vs : well_typed (TTuple ts) (VList vs) = tuple_typed ts vs.
Proof.
  cbn [well_typed]. revert ts. induction vs as [|v r IH]; intros [|t ts]; try reflexivity.
  cbn [tuple_typed]. f_equal. apply IH.
Qed.

Lemma enc_length_bound v : forall t, (length (enc t v) <= 64 * weight v)%nat.
Proof.
  induction v as [z|b|l IH] using val_ind'; intros t.
  - destruct t; cbn [enc weight]; try rewrite word_length; cbn [length]; lia.
  - pose proof (pad_right_length b).
    destruct t; cbn [enc weight]; try rewrite app_length; try rewrite word_length; cbn [length]; lia.
  - assert (A : forall f : val -> bool * bytes, (forall v, In v l -> length (snd (f v)) <= 64 * weight v)%nat ->
                (list_sum (map (fun it => 32 + length (snd it)) (map f l)) <= 64 * (length l + list_sum (map weight l)))%nat).
    { intros f Hf. clear IH. induction l as [|x r IHr]; cbn [map length]; rewrite ?list_sum_cons; [simpl; lia|].
      pose proof (Hf x (or_introl eq_refl)). specialize (IHr (fun v H => Hf v (or_intror H))). unfold bytes in *. lia. }
    rewrite Forall_forall in IH.
    destruct t; cbn [weight]; try (cbn [enc length]; lia).
    + (* T[k] *) cbn [enc]. etransitivity; [apply head_tail_le|].
      etransitivity; [apply A; intros v Hv; cbn [snd]; apply IH; exact Hv|]. lia.
    + (* T[] *) cbn [enc]. rewrite app_length, word_length.
      pose proof (head_tail_le (map (fun v => (dynamic t, enc t v)) l)).
      pose proof (A (fun v => (dynamic t, enc t v)) (fun v Hv => IH v Hv t)). lia.
    + (* tuple *) rewrite enc_tuple. etransitivity; [apply head_tail_le|].
      assert (B : forall ts, (list_sum (map (fun it => 32 + length (snd it)) (tuple_items ts l))
                             <= 64 * (length l + list_sum (map weight l)))%nat).
      { clear A. induction l as [|x r IHr]; intros [|t ts]; cbn [tuple_items map length snd]; rewrite ?list_sum_cons; try (simpl; lia).
        pose proof (IH x (or_introl eq_refl) t). specialize (IHr (fun v H => IH v (or_intror H)) ts). lia. }
      specialize (B l0). lia.
Qed.

Lemma hltl_le cs : (hl cs + tl cs <= list_sum (map (fun c => 32 + length (fst c)) cs))%nat.
Proof. induction cs as [|[d [|]] r IH]; cbn [hl tl map fst]; rewrite ?list_sum_cons; [simpl; lia| |]; unfold bytes in *; lia. Qed.

(* ---------- the Go value held at every elementary node has the dynamic type its reader returns ---------- *)

Definition value_kind_ok (e : ekind) (v : gval) : bool :=
  match reader_of e, v with
  | (RdInteger | RdUintBytes | RdBool), GBigInt _ => true
  | RdBytes, GBytes _ => true
  | RdString, GString _ => true
  | RdFloat, GBigFloat _ => true
  | _, _ => false
  end.

Fixpoint values_ok (x : cval) : bool :=
  match x with
  | CVNil => false
  | CV (Some (TCElem e _ _ _ _)) _ v => value_kind_ok e v
  | CV _ l _ => forallb values_ok l
  end.

(* ---------- main theorem ---------- *)

Definition weight_ok (v : val) : Prop := (Z.of_nat (weight v) < 2 ^ 248)%Z.

Definition enc_correct (x : cval) : Prop :=
  forall tc, tc_wf tc = true -> tc_no_fixed_point tc = true -> tc_no_zero_len tc = true ->
    typed_as tc x = true -> values_ok x = true ->
    well_typed (ty_of tc) (val_of x) = true -> weight_ok (val_of x) ->
    encodeABIData x = Ok (enc (ty_of tc) (val_of x), dynamic (ty_of tc)).

Lemma tc_wf_fixedarr len c k : tc_wf (TCFixedArr len c k) = true -> (0 <= len)%Z /\ tc_wf c = true.
Proof.
  unfold tc_wf. cbn [tc_consistent ty_of wf_ty]. intros H. apply andb_prop in H as [H W].
  apply andb_prop in H as [H C]. apply andb_prop in H as [A B]. apply Z.leb_le in A. split; [exact A|].
  rewrite C, W. reflexivity.
Qed.
Lemma tc_wf_dynarr c k : tc_wf (TCDynArr c k) = true -> tc_wf c = true.
Proof. unfold tc_wf. cbn [tc_consistent ty_of wf_ty]. auto. Qed.
Lemma tc_wf_tuple l k : tc_wf (TCTuple l k) = true -> forallb tc_wf l = true.
Proof.
  unfold tc_wf. cbn [tc_consistent ty_of wf_ty]. intros H. apply andb_prop in H as [A B].
  induction l as [|t r IH]; [reflexivity|]. cbn [forallb map] in *.
  apply andb_prop in A as [A1 A2]. apply andb_prop in B as [B1 B2]. rewrite A1, B1, IH by assumption. reflexivity.
Qed.

Lemma len_ok_of_weight n : (Z.of_nat n < 2 ^ 248)%Z -> len_ok n.
Proof. unfold len_ok, two. intros H. assert (2 ^ 248 < 2 ^ Z.of_N 256)%Z by (apply Z.pow_lt_mono_r; lia). lia. Qed.

(* children of an array: all of one component *)
Lemma array_children c' l :
  Forall enc_correct l ->
  tc_wf c' = true -> tc_no_fixed_point c' = true -> tc_no_zero_len c' = true ->
  forallb (typed_as c') l = true -> forallb values_ok l = true ->
  forallb (well_typed (ty_of c')) (map val_of l) = true ->
  weight_ok (VList (map val_of l)) ->
  let g := fun y => (enc (ty_of c') (val_of y), dynamic (ty_of c')) in
  pass1 encodeABIData l = Ok (map g l) /\
  sw (map g l) = map (fun v => (dynamic (ty_of c'), enc (ty_of c') v)) (map val_of l) /\
  existsb snd (map g l) = negb (length l =? 0)%nat && dynamic (ty_of c') /\
  len_ok (32 + hl (map g l) + tl (map g l)) /\ len_ok (length l).
Proof.
  intros IH W NF NZ TA VO WT WO g.
  assert (HW : (length l + list_sum (map weight (map val_of l)) < weight (VList (map val_of l)))%nat)
    by (cbn [weight]; rewrite map_length; lia).
  split; [|split; [|split; [|split]]].
  - apply pass1_map. rewrite Forall_forall in IH |- *. intros y Hy.
    rewrite forallb_forall in TA, VO, WT.
    apply (IH y Hy c' W NF NZ (TA y Hy) (VO y Hy)).
    + apply WT. apply in_map. exact Hy.
    + unfold weight_ok in *. cbn [weight] in WO.
      assert (weight (val_of y) <= list_sum (map weight (map val_of l)))%nat.
      { clear -Hy. induction l as [|a r IHr]; [contradiction|]. cbn [map]. rewrite list_sum_cons. destruct Hy as [->|Hy]; [lia|]. specialize (IHr Hy). lia. }
      lia.
  - unfold sw. rewrite !map_map. reflexivity.
  - clear. induction l as [|a r IHr]; [reflexivity|]. cbn [map existsb snd length Nat.eqb negb andb].
    destruct (dynamic (ty_of c')); [reflexivity|]. cbn [orb]. rewrite IHr. rewrite andb_false_r. reflexivity.
  - pose proof (hltl_le (map g l)) as H.
    assert (list_sum (map (fun c => 32 + length (fst c)) (map g l)) <= 64 * (length l + list_sum (map weight (map val_of l))))%nat.
    { unfold g. clear. induction l as [|a r IHr]; cbn [map length fst]; rewrite ?list_sum_cons; [simpl; lia|].
      pose proof (enc_length_bound (val_of a) (ty_of c')). unfold bytes in *. lia. }
    unfold weight_ok in WO. unfold len_ok.
    assert (64 * 2 ^ 248 + 32 < two 256)%Z by (vm_compute; reflexivity).
    lia.
  - apply len_ok_of_weight. unfold weight_ok in WO. lia.
Qed.

(* children of a tuple: one component per position *)
Fixpoint titems (ts : list tcomp) (l : list cval) : list (bytes * bool) :=
  match ts, l with
  | t :: ts', y :: l' => (enc (ty_of t) (val_of y), dynamic (ty_of t)) :: titems ts' l'
  | _, _ => []
  end.

Fixpoint tuple_typed_as (ts : list tcomp) (l : list cval) : bool :=
  match ts, l with
  | [], [] => true
  | t :: ts', y :: l' => typed_as t y && tuple_typed_as ts' l'
  | _, _ => false
  end.

Lemma typed_as_tuple ts k c l v :
  typed_as (TCTuple ts k) (CV c l v) = opt_tcomp_eqb c (Some (TCTuple ts k)) && tuple_typed_as ts l.
Proof.
  cbn [typed_as]. f_equal. revert ts. induction l as [|y r IH]; intros [|t ts]; try reflexivity.
  cbn [tuple_typed_as]. f_equal. apply IH.
Qed.

Lemma tuple_children l : Forall enc_correct l -> forall ts,
  forallb tc_wf ts = true -> forallb tc_no_fixed_point ts = true -> forallb tc_no_zero_len ts = true ->
  tuple_typed_as ts l = true -> forallb values_ok l = true ->
  tuple_typed (map ty_of ts) (map val_of l) = true ->
  (Z.of_nat (list_sum (map weight (map val_of l))) < 2 ^ 248)%Z ->
  pass1 encodeABIData l = Ok (titems ts l) /\
  sw (titems ts l) = tuple_items (map ty_of ts) (map val_of l) /\
  existsb snd (titems ts l) = existsb dynamic (map ty_of ts) /\
  (list_sum (map (fun c => 32 + length (fst c)) (titems ts l)) <= 64 * (length l + list_sum (map weight (map val_of l))))%nat.
Proof.
  induction 1 as [|y r Hy _ IH]; intros [|t ts] W NF NZ TA VO WT WO; cbn [tuple_typed_as] in TA; try discriminate.
  - repeat split; reflexivity.
  - cbn [forallb map] in *. rewrite list_sum_cons in WO.
    apply andb_prop in W as [W1 W2]. apply andb_prop in NF as [NF1 NF2]. apply andb_prop in NZ as [NZ1 NZ2].
    apply andb_prop in TA as [TA1 TA2]. apply andb_prop in VO as [VO1 VO2].
    cbn [tuple_typed] in WT. apply andb_prop in WT as [WT1 WT2].
    assert (E : encodeABIData y = Ok (enc (ty_of t) (val_of y), dynamic (ty_of t))).
    { apply Hy; auto. unfold weight_ok. lia. }
    destruct (IH ts W2 NF2 NZ2 TA2 VO2 WT2 ltac:(lia)) as (P1 & S1 & X1 & L1).
    cbn [titems pass1]. rewrite E. cbn [bind]. rewrite P1. cbn [bind].
    split; [reflexivity|]. split; [|split].
    + cbn [sw map tuple_items fst snd]. fold (sw (titems ts r)). rewrite S1. reflexivity.
    + cbn [existsb snd]. rewrite X1. reflexivity.
    + cbn [map length fst]. rewrite !list_sum_cons.
      pose proof (enc_length_bound (val_of y) (ty_of t)). unfold bytes in *. lia.
Qed.

Theorem encode_is_spec : forall x, enc_correct x.
Proof.
  induction x as [|c l v IH] using cval_ind'; intros tc W NF NZ TA VO WT WO.
  - discriminate.
  - destruct tc as [e s m n k|len c' k|c' k|ts k].
    + (* elementary *)
      cbn [typed_as] in TA. apply andb_prop in TA as [TC TA].
      destruct c as [c|]; [|discriminate]. cbn [opt_tcomp_eqb] in TC. apply tcomp_eqb_eq in TC. subst c.
      destruct l; [|discriminate]. cbn [encodeABIData val_of]. cbn [val_of] in WT, WO. cbn [values_ok] in VO.
      apply elementary_is_spec; auto.
      * intros b [->| ->]; cbn [gval_to_val] in WO; unfold weight_ok in WO; cbn [weight] in WO; apply len_ok_of_weight; lia.
      * unfold value_kind_ok in VO. destruct e; cbn [tc_no_fixed_point] in NF; try discriminate;
          cbn [reader_of] in *; destruct v; try discriminate; exact I.
    + (* T[k] *)
      cbn [typed_as] in TA. apply andb_prop in TA as [TC TA].
      destruct c as [c|]; [|discriminate]. cbn [opt_tcomp_eqb] in TC. apply tcomp_eqb_eq in TC. subst c.
      apply tc_wf_fixedarr in W as [Hlen W]. cbn [tc_no_fixed_point] in NF. cbn [tc_no_zero_len] in NZ.
      apply andb_prop in NZ as [NZ0 NZ]. cbn [values_ok] in VO.
      cbn [val_of ty_of] in *. cbn [well_typed] in WT. apply andb_prop in WT as [WL WT].
      destruct (array_children c' l IH W NF NZ TA VO WT WO) as (P1 & S1 & X1 & L1 & L2).
      cbn [encodeABIData]. rewrite (children_layout _ _ _ _ _ P1 L1 L2). cbn [app orb enc dynamic].
      rewrite S1, X1. f_equal. f_equal.
      apply N.eqb_eq in WL. rewrite map_length in WL.
      assert (length l <> 0)%nat.
      { apply negb_true_iff in NZ0. apply Z.eqb_neq in NZ0. lia. }
      replace (length l =? 0)%nat with false by (symmetry; apply Nat.eqb_neq; assumption). reflexivity.
    + (* T[] *)
      cbn [typed_as] in TA. apply andb_prop in TA as [TC TA].
      destruct c as [c|]; [|discriminate]. cbn [opt_tcomp_eqb] in TC. apply tcomp_eqb_eq in TC. subst c.
      apply tc_wf_dynarr in W. cbn [tc_no_fixed_point] in NF. cbn [tc_no_zero_len] in NZ. cbn [values_ok] in VO.
      cbn [val_of ty_of] in *. cbn [well_typed] in WT.
      destruct (array_children c' l IH W NF NZ TA VO WT WO) as (P1 & S1 & X1 & L1 & L2).
      cbn [encodeABIData]. rewrite (children_layout _ _ _ _ _ P1 L1 L2). cbn [app orb enc dynamic].
      rewrite S1, map_length. reflexivity.
    + (* tuple *)
      rewrite typed_as_tuple in TA. apply andb_prop in TA as [TC TA].
      destruct c as [c|]; [|discriminate]. cbn [opt_tcomp_eqb] in TC. apply tcomp_eqb_eq in TC. subst c.
      apply tc_wf_tuple in W. cbn [tc_no_fixed_point] in NF. cbn [tc_no_zero_len] in NZ. cbn [values_ok] in VO.
      cbn [val_of ty_of] in *. rewrite well_typed_tuple in WT.
      assert (WO' : (Z.of_nat (list_sum (map weight (map val_of l))) < 2 ^ 248)%Z)
        by (unfold weight_ok in WO; cbn [weight] in WO; lia).
      destruct (tuple_children l IH ts W NF NZ TA VO WT WO') as (P1 & S1 & X1 & L1).
      assert (L1' : len_ok (32 + hl (titems ts l) + tl (titems ts l))).
      { pose proof (hltl_le (titems ts l)). unfold weight_ok in WO. cbn [weight] in WO. rewrite map_length in WO.
        unfold len_ok. assert (64 * 2 ^ 248 + 32 < two 256)%Z by (vm_compute; reflexivity). lia. }
      assert (L2 : len_ok (length l)).
      { apply len_ok_of_weight. unfold weight_ok in WO. cbn [weight] in WO. rewrite map_length in WO. lia. }
      cbn [encodeABIData]. rewrite (children_layout _ _ _ _ _ P1 L1' L2). cbn [app orb dynamic].
      rewrite enc_tuple, S1, X1. reflexivity.
Qed.

(* ---------- a value tree for a spec value (used for the non-vacuity examples) ---------- *)
Fixpoint mk_cval (tc : tcomp) (v : val) {struct v} : cval :=
  match tc, v with
  | TCElem _ _ _ _ _, VNum z => CV (Some tc) [] (GBigInt z)
  | TCElem EString _ _ _ _, VBytes b => CV (Some tc) [] (GString b)
  | TCElem _ _ _ _ _, VBytes b => CV (Some tc) [] (GBytes b)
  | TCFixedArr _ c _, VList vs | TCDynArr c _, VList vs => CV (Some tc) (map (mk_cval c) vs) GNil
  | TCTuple ts _, VList vs =>
      CV (Some tc) ((fix go (ts : list tcomp) (vs : list val) {struct vs} : list cval :=
                       match ts, vs with
                       | t :: ts', v :: vs' => mk_cval t v :: go ts' vs'
                       | _, _ => []
                       end) ts vs) GNil
  | _, _ => CVNil
  end.

Definition ex_tc : tcomp :=
  TCTuple [TCDynArr (TCFixedArr 2 (TCTuple [TCElem EBytes [] 0 0 [x62]; TCElem EInt [x38] 8 0 [x75]] [x61]) [x61]) [x61];
           TCElem EUInt [x32; x35; x36] 256 0 []; TCElem EBytes [x33] 3 0 []; TCElem EString [] 0 0 [x73]] [].
Definition ex_val : val :=
  VList [VList [VList [VList [VBytes (repeat x61 33); VNum (-128)]; VList [VBytes []; VNum 127]]];
         VNum (2 ^ 256 - 1); VBytes [x01; x02; x03]; VBytes [x68; x69]].
