(* C12, answers to the referee report (design/reviews/C12.md), part 1:
     - the hash instantiated with Keccak-256 of Base/Keccak.v (issue 3),
     - the attributed error definition named: first accepting definition, first definition with the
       selector, arguments of the encoded tree (issue 5),
     - acceptance of event logs, for any codec: a log whose argument topics decode and whose data
       tuple decodes IS decoded, to the interleaving of the two value lists (issue 2, general form;
       the instance with the Solidity encoding is in Abi/EntryRefereeEvent.v). *)
From Coq Require Import List NArith ZArith Lia Bool Arith.
From Coq Require Import Init.Byte.
From FFS Require Import Base.Res Base.Bytes Base.Keccak Abi.Types Abi.ModelTypes Abi.EntryModel Abi.EntrySpec.
From FFS Require Import Abi.EntryProofs Abi.EntryProofsEvent Abi.EntryLink Abi.EntryInst Abi.EntryInstC03.
From FFS Require AbiType.Syntax AbiType.Spec.
From FFS Require Abi.Spec Abi.EncModel Abi.EncProofs3 Abi.DecModel Abi.DecSpec Abi.DecProofs3.
Import ListNotations.

(* ---------- issue 3: Keccak-256 ---------- *)

Theorem selector_keccak e cs :
  tree_children (e_inputs e) = Ok cs -> all_suffix_canonical cs ->
  let sig := signature_spec (e_name e) (map ty_of cs) in
  GenerateFunctionSelector keccak256 e = Ok (firstn 4 (keccak256 sig)) /\
  FunctionSelectorBytes keccak256 e = Ok (firstn 4 (keccak256 sig)) /\
  SignatureHash keccak256 e = Ok (keccak256 sig) /\
  SignatureHashBytes keccak256 e = keccak256 sig.
Proof.
  intros Ht Hs sig.
  destruct (selector_is_spec keccak256 keccak256_length e cs Ht Hs) as [A B].
  destruct (topic0_is_spec keccak256 e cs Ht Hs) as [C D].
  repeat split; assumption.
Qed.

Theorem selector_keccak_from_json ty name anonymous ps ts :
  spells ps ts ->
  let e := link_entry ty name anonymous ps in
  Signature e = Ok (signature_spec name ts) /\
  GenerateFunctionSelector keccak256 e = Ok (firstn 4 (keccak256 (signature_spec name ts))) /\
  SignatureHashBytes keccak256 e = keccak256 (signature_spec name ts).
Proof.
  intros Hsp e. split; [exact (signature_from_json ty name anonymous ps ts Hsp)|].
  exact (selector_from_json keccak256 ty name anonymous ps ts keccak256_length Hsp).
Qed.

(* ---------- issue 5: which definition, which arguments ---------- *)
Section Errors.
  Variable H : bytes -> bytes.
  Hypothesis H_len : forall m, length (H m) = 32%nat.
  Variable decode_data : tcomp -> bytes -> Z -> res cval.

  (* the first definition (in Error(string) :: abi) that accepts the data is the one returned, with
     what it decoded; no assumption about panics is needed *)
  Theorem error_found_first a d pre e post v :
    default_error :: a = pre ++ e :: post ->
    e_type e = TyError -> DecodeCallData H decode_data e d = Ok v ->
    (forall e', In e' pre -> e_type e' = TyError -> exists c, DecodeCallData H decode_data e' d = Err c) ->
    ParseError H decode_data a d = Ok (Some (e, v)).
  Proof.
    unfold ParseError. intros -> Hty Hd Hpre. induction pre as [|x r IH]; cbn [app parse_error_loop].
    - rewrite Hty. cbn [etype_eqb]. rewrite Hd. reflexivity.
    - destruct (etype_eqb (e_type x) TyError) eqn:Et.
      + destruct (Hpre x (or_introl eq_refl)) as [c Hc]; [destruct (e_type x); try discriminate; reflexivity|].
        rewrite Hc. apply IH. intros e' Hin. apply Hpre. right. exact Hin.
      + apply IH. intros e' Hin. apply Hpre. right. exact Hin.
  Qed.

  (* a definition with another selector (or without one) refuses, it cannot panic *)
  Lemma other_selector_refuses e d id :
    firstn 4 d = id -> GenerateFunctionSelector H e <> Ok id ->
    exists c, DecodeCallData H decode_data e d = Err c.
  Proof.
    intros Hd Hne. apply (foreign_selector_refused H H_len). intros id' Hid'. left. intros E. apply Hne. rewrite Hid'. f_equal. rewrite <- E. exact Hd.
  Qed.

  (* completeness with the witness named: when some error definition accepts and no decoder call
     panics, the result is the first accepting definition with its own decode, and it carries the
     selector found in the data *)
  Theorem error_found_named a d :
    (forall e, In e (default_error :: a) -> DecodeCallData H decode_data e d <> Panic) ->
    (exists e v, In e (default_error :: a) /\ e_type e = TyError /\ DecodeCallData H decode_data e d = Ok v) ->
    exists pre e post v,
      default_error :: a = pre ++ e :: post /\ e_type e = TyError /\
      ParseError H decode_data a d = Ok (Some (e, v)) /\
      DecodeCallData H decode_data e d = Ok v /\
      GenerateFunctionSelector H e = Ok (firstn 4 d) /\
      (forall e', In e' pre -> e_type e' = TyError -> exists c, DecodeCallData H decode_data e' d = Err c).
  Proof.
    intros Hnp Hex. destruct (error_found H decode_data a d Hnp Hex) as (e & v & Hp).
    pose proof Hp as Hp'. unfold ParseError in Hp'.
    destruct (parse_error_loop_found H decode_data _ _ _ _ Hp') as (pre & post & Ha & Hty & Hd & Hpre).
    exists pre, e, post, v. repeat split; auto.
    destruct (calldata_guard H decode_data e d v Hd) as (id & Hid & Hf & _). rewrite Hid, Hf. reflexivity.
  Qed.
End Errors.

(* with the encoder model of C02 and the decoder model of C03: revert data built for an error
   definition [e] of the ABI, [selector ++ enc(arguments)], is attributed to [e] with exactly the
   argument tree, provided no earlier error definition (the built-in Error(string) included) has the
   same selector *)
Theorem error_roundtrip_codec (H : bytes -> bytes) :
  (forall m, length (H m) = 32%nat) ->
  forall (a : list entry) (pre post : list entry) (e : entry) (cs : list tcomp) (x : cval),
    default_error :: a = pre ++ e :: post -> e_type e = TyError ->
    (forall e', In e' pre -> e_type e' = TyError -> GenerateFunctionSelector H e' <> GenerateFunctionSelector H e) ->
    tree_children (e_inputs e) = Ok cs -> all_suffix_canonical cs ->
    let tc := TCTuple cs [] in
    tc_wf tc = true -> tc_no_fixed_point tc = true -> tc_no_zero_len tc = true ->
    typed_as tc x = true -> EncProofs3.values_ok x = true ->
    Spec.well_typed (ty_of tc) (val_of x) = true -> EncProofs3.weight_ok (val_of x) ->
    (DecModel.zlen (Spec.enc (ty_of tc) (val_of x)) < 2 ^ 32)%Z -> DecProofs3.counts_ok (val_of x) = true ->
    ParseError H DecModel.DecodeABIData a
      (selector_spec H (e_name e) (map ty_of cs) ++ Spec.enc (TTuple (map ty_of cs)) (val_of x))
    = Ok (Some (e, DecSpec.cv_of tc (val_of x))).
Proof.
  intros Hlen a pre post e cs x Ha Hty Hpre Ht Hs tc Hwf Hnf Hnz Htyp Hv Hwt Hw Hsz Hc.
  destruct (calldata_roundtrip_codec H Hlen e cs x Ht Hs Hwf Hnf Hnz Htyp Hv Hwt Hw Hsz Hc) as (b & He & -> & Hd).
  destruct (selector_is_spec H Hlen e cs Ht Hs) as [Hsel _].
  apply (error_found_first H DecModel.DecodeABIData a _ pre e post _ Ha Hty Hd).
  intros e' Hin Hte.
  apply (other_selector_refuses H Hlen DecModel.DecodeABIData e' _ (selector_spec H (e_name e) (map ty_of cs))).
  - unfold selector_spec. rewrite firstn_app.
    assert (L : length (firstn 4 (H (signature_spec (e_name e) (map ty_of cs)))) = 4%nat)
      by (rewrite firstn_length, Hlen; reflexivity).
    rewrite L, Nat.sub_diag, firstn_O, app_nil_r. rewrite <- L at 1. apply firstn_all.
  - intros E. apply (Hpre e' Hin Hte). rewrite E, Hsel. reflexivity.
Qed.

(* ---------- issue 2, general form: acceptance of event logs ---------- *)

(* declaration-order interleaving of the values taken from topics and the values of the data tuple *)
Fixpoint weave (flags : list bool) (tvs dvs : list cval) : list cval :=
  match flags with
  | [] => []
  | true :: r => match tvs with t :: ts => t :: weave r ts dvs | [] => CVNil :: weave r [] dvs end
  | false :: r => match dvs with d :: ds => d :: weave r tvs ds | [] => CVNil :: weave r tvs [] end
  end.

Definition indexed_args (l : ins) : list tcomp := map fst (filter (fun p : tcomp * bool => snd p) l).

(* what an argument topic yields for an input of component [tc] *)
Definition topic_yields (dece : bytes -> tcomp -> Z -> Z -> res cval) (tc : tcomp) (topic : bytes) (v : cval) : Prop :=
  if topic_is_value (ty_of tc) then dece topic tc 0%Z 0%Z = Ok v else v = raw_topic_value topic tc.

Section EventAccept.
  Variable H : bytes -> bytes.
  Variable decode_data : tcomp -> bytes -> Z -> res cval.
  Variable decode_elem : bytes -> tcomp -> Z -> Z -> res cval.

  Lemma topic_phase_accept (l : ins) : forall tps tvs extra,
    Forall2 (fun tc tv => topic_yields decode_elem tc (fst tv) (snd tv)) (indexed_args l) (combine tps tvs) ->
    length tps = length tvs ->
    exists slots, topic_phase decode_elem l (tps ++ extra) = Ok slots /\
      forall dvs, length dvs = length (data_args l) -> merge slots dvs = weave (map snd l) tvs dvs.
  Proof.
    induction l as [|[tc [|]] r IH]; intros tps tvs extra HF Hl; unfold indexed_args in HF; cbn [filter snd map fst] in HF.
    - exists []. split; [reflexivity|]. intros dvs _. reflexivity.
    - destruct tps as [|t ts]; destruct tvs as [|v vs]; cbn [combine] in HF; try (inversion HF; fail); try discriminate.
      inversion HF as [|? ? ? ? Hy HF']; subst. cbn [fst snd] in Hy.
      destruct (IH ts vs extra HF' ltac:(cbn in Hl; lia)) as (slots & Hp & Hm).
      exists (Some v :: slots). cbn [topic_phase app]. rewrite topicToValue_spec.
      unfold topic_yields in Hy. split.
      + destruct (topic_is_value (ty_of tc)); [rewrite Hy|rewrite Hy]; cbn [bind]; rewrite Hp; reflexivity.
      + intros dvs Hd. cbn [merge map snd weave]. f_equal. apply Hm. exact Hd.
    - destruct (IH tps tvs extra HF Hl) as (slots & Hp & Hm).
      exists (None :: slots). cbn [topic_phase]. rewrite Hp. split; [reflexivity|].
      intros dvs Hd. unfold data_args in Hd. cbn [filter snd negb map length] in Hd.
      destruct dvs as [|d ds]; [discriminate|]. cbn [merge map snd weave]. f_equal. apply Hm.
      unfold data_args. cbn [length] in Hd. lia.
  Qed.

  (* ACCEPTANCE.  A log that
       - carries the event's own signature hash first (unless the event is anonymous),
       - then one topic per indexed input, each of which yields a value ([topic_yields]: decoded for
         value types, surfaced raw otherwise),
       - possibly surplus topics,
       - and whose data decodes as the tuple of the non-indexed inputs to one value per member,
     is decoded, and the result holds the topic values and the data values in declaration order. *)
  Theorem event_accept e cs tps tvs extra data c dvs g :
    tree_children (e_inputs e) = Ok cs ->
    let l := zip_inputs cs (e_inputs e) in
    length tps = length tvs ->
    Forall2 (fun tc tv => topic_yields decode_elem tc (fst tv) (snd tv)) (indexed_args l) (combine tps tvs) ->
    (data_args l = [] /\ dvs = [] \/
     decode_data (TCTuple (data_args l) []) data 0%Z = Ok (CV c dvs g) /\ length dvs = length (data_args l)) ->
    DecodeEventData H decode_data decode_elem e
      ((if e_anonymous e then [] else [SignatureHashBytes H e]) ++ tps ++ extra) data
    = Ok (CV (Some (TCTuple cs [])) (weave (map p_indexed (e_inputs e)) tvs dvs) GNil).
  Proof.
    intros Hc l Hl HF Hdata. rewrite DecodeEventData_spec. unfold event_spec. rewrite Hc. cbn [bind].
    assert (Hg : exists tix, sig_topic_guard H e ((if e_anonymous e then [] else [SignatureHashBytes H e]) ++ tps ++ extra) = Ok tix /\
                 skipn tix ((if e_anonymous e then [] else [SignatureHashBytes H e]) ++ tps ++ extra) = tps ++ extra).
    { unfold sig_topic_guard. destruct (e_anonymous e).
      - exists O. split; reflexivity.
      - exists 1%nat. cbn [app]. destruct (bytes_eqb_spec (SignatureHashBytes H e) (SignatureHashBytes H e)) as [_|N]; [|congruence].
        split; reflexivity. }
    destruct Hg as (tix & Hg1 & Hg2). rewrite Hg1. cbn [bind]. fold l. rewrite Hg2.
    destruct (topic_phase_accept l tps tvs extra HF Hl) as (slots & -> & Hm). cbn [bind].
    rewrite <- (zip_inputs_snd cs (e_inputs e) Hc). fold l.
    destruct Hdata as [[Hn ->]|[Hd Hlen]].
    - rewrite Hn. cbn [length Nat.ltb Nat.leb bind]. rewrite (Hm []); [reflexivity|rewrite Hn; reflexivity].
    - destruct (0 <? length (data_args l))%nat eqn:E0.
      + rewrite Hd. cbn [bind]. rewrite Hlen, Nat.leb_refl. cbn [bind]. rewrite (Hm dvs Hlen). reflexivity.
      + apply Nat.ltb_ge in E0. cbn [bind]. destruct dvs; [|cbn [length] in Hlen; lia].
        rewrite (Hm []); [reflexivity|lia].
  Qed.
End EventAccept.

(* ---------- issue 7: [link_param] does not hide a parser panic ---------- *)

(* [link_param] gives a parameter no type tree only when the parser model REFUSES the parameter object
   with an error: the parser never panics (C13_total) and every accepted tree embeds.  So the [Err] of
   C12_signature_invalid_json is the parser's refusal, never a panic made to look like one. *)
Theorem link_param_none_is_refusal (p : AbiType.Syntax.param) (ix : bool) :
  AbiType.Model.Validate p <> Panic /\
  (p_tc (link_param p ix) = None <-> exists c, AbiType.Model.Validate p = Err c).
Proof.
  destruct (AbiType.ProofsMain.validate_total p) as [NP _]. split; [exact NP|].
  unfold link_param. cbn [p_tc]. destruct (AbiType.Model.Validate p) as [tc|c|] eqn:Ev.
  - destruct (AbiType.ProofsMain.accepted_is_typed _ _ Ev) as (t & Ht & _).
    destruct (embed_total tc [] t Ht) as [mt Hmt]. rewrite Hmt. split; [discriminate|intros [c Hc]; discriminate].
  - split; [eauto|reflexivity].
  - contradiction.
Qed.
