(* Executable model of the ABI decoder: pkg/abi/abidecode.go and ParseInt256TwosComplementBytes of
   pkg/abi/signedi256.go, plus the decode entry points of abi.go / typecomponents.go.
   One definition per Go function, same case order and guards.  Go [int] offsets are [Z] (no 64-bit
   wrap is modelled: an offset is a sum of at most depth-many words below 2^32); every Go slice
   expression goes through the panic-explicit [zslice]; [make] with a negative length panics.
   No proofs in this file. *)
From Coq Require Import List NArith ZArith Bool.
From Coq Require Import Init.Byte.
From FFS Require Import Base.Res Base.Bytes Abi.Types Abi.Spec Abi.ModelTypes.
From FFS Require Rlp.Model.
Import ListNotations.
Local Open Scope Z_scope.

(* error classes (never compared with the implementation beyond "is an error") *)
Definition ENotEnoughCount := 1%nat.   (* MsgNotEnoughBytesABIArrayCount *)
Definition ECountTooLarge := 2%nat.    (* MsgABIArrayCountTooLarge *)
Definition ENotEnoughValue := 3%nat.   (* MsgNotEnoughBytesABIValue *)
Definition EBadComponent := 4%nat.     (* MsgBadABITypeComponent *)
Definition ENotTuple := 5%nat.         (* MsgDecodeNotTuple *)
Definition ENotEnoughSig := 6%nat.     (* MsgNotEnoughBytesABISignature *)
Definition EBadSig := 7%nat.           (* MsgIncorrectABISignatureID *)

Definition zlen (b : bytes) : Z := Z.of_nat (length b).

(* Go [b[lo:hi]] with int bounds *)
Definition zslice (b : bytes) (lo hi : Z) : res bytes :=
  if (0 <=? lo) && (lo <=? hi) && (hi <=? zlen b)
  then Ok (firstn (Z.to_nat (hi - lo)) (skipn (Z.to_nat lo) b)) else Panic.

(* big.Int.SetBytes *)
Definition of_beZ (b : bytes) : Z := Z.of_N (Rlp.Model.of_be b).

(* ---------- signedi256.go ---------- *)
Definition oneThen255Zeros : Z := 2 ^ 255.
Definition oneMoreThanMaxUint256 : Z := 2 ^ 256.

Definition ParseInt256TwosComplementBytes (b : bytes) : Z :=
  let i := of_beZ b in
  if i <? oneThen255Zeros then i else i - oneMoreThanMaxUint256.

(* ---------- big.Float quotient used by intToFixed ----------
   new(big.Float).SetInt(z) has precision max(64, bitlen z); f.Quo(f, 10^n) rounds the exact
   quotient to that precision, to nearest even.  Result as mant * 2^exp. *)
Definition bitlen (z : Z) : Z := Z.log2 (Z.abs z) + (if Z.abs z =? 0 then 0 else 1).

Definition bf_quo_int (z d : Z) : bfloat :=
  let prec := Z.max 64 (bitlen z) in
  if z =? 0 then BFin 0 0 (Z.to_N prec) else
  let a := Z.abs z in
  (* choose e with 2^prec <= a * 2^(-e) / d < 2^(prec+2): one or two guard bits *)
  let e := bitlen a - bitlen d - prec - 1 in
  let '(q, r, dd) :=
    if e <? 0 then (Z.div (a * 2 ^ (- e)) d, Z.modulo (a * 2 ^ (- e)) d, d)
    else (Z.div a (d * 2 ^ e), Z.modulo a (d * 2 ^ e), d * 2 ^ e) in
  (* q has prec+1 or prec+2 bits; drop the extra k bits with round-to-nearest-even (sticky = r) *)
  let k := bitlen q - prec in
  let lowmask := 2 ^ k in
  let hi := Z.div q lowmask in
  let lo := Z.modulo q lowmask in
  let half := 2 ^ (k - 1) in
  let up :=
    if lo >? half then true
    else if lo <? half then false
    else if negb (r =? 0) then true
    else Z.odd hi in
  let m := if up then hi + 1 else hi in
  BFin (if z <? 0 then - m else m) (e + k) (Z.to_N prec).

Section Decode.
  Variable block : bytes.

  (* decodeABILength *)
  Definition decodeABILength (offset : Z) : res Z :=
    if offset + 32 >? zlen block then Err ENotEnoughCount else
    do w <- zslice block offset (offset + 32);
    let i := of_beZ w in
    if 2 ^ 32 <=? i then Err ECountTooLarge      (* i.BitLen() > 32 *)
    else Ok i.

  (* decodeABISignedInt *)
  Definition decodeABISignedInt (headPosition : Z) (c : tcomp) : res cval :=
    if headPosition + 32 >? zlen block then Err ENotEnoughValue else
    do w <- zslice block headPosition (headPosition + 32);
    Ok (CV (Some c) [] (GBigInt (ParseInt256TwosComplementBytes w))).

  (* decodeABIUnsignedInt: reads the low m/8 bytes of the word only *)
  Definition decodeABIUnsignedInt (headPosition : Z) (m : N) (c : tcomp) : res cval :=
    if headPosition + 32 >? zlen block then Err ENotEnoughValue else
    do w <- zslice block (headPosition + (32 - Z.of_N (m / 8))) (headPosition + 32);
    Ok (CV (Some c) [] (GBigInt (of_beZ w))).

  (* intToFixed *)
  Definition intToFixed (n : N) (x : cval) : res cval :=
    if (n =? 0)%N then Err EBadComponent else
    match x with
    | CV c l (GBigInt z) => Ok (CV c l (GBigFloat (bf_quo_int z (10 ^ Z.of_N n))))
    | _ => Panic          (* type assertion to big.Int *)
    end.

  Definition decodeABISignedFloat (headPosition : Z) (n : N) (c : tcomp) : res cval :=
    do x <- decodeABISignedInt headPosition c; intToFixed n x.
  Definition decodeABIUnsignedFloat (headPosition : Z) (m n : N) (c : tcomp) : res cval :=
    do x <- decodeABIUnsignedInt headPosition m c; intToFixed n x.

  (* decodeABIBytes: returns the raw bytes; the caller wraps them as []byte or string *)
  Definition decodeABIBytes_raw (headStart headPosition : Z) (m : N) : res bytes :=
    do (byteLength, dataOffset) <-
       (if (m =? 0)%N then
          do o <- decodeABILength headPosition;
          let dataOffset := headStart + o in
          do bl <- decodeABILength dataOffset;
          Ok (bl, dataOffset + 32)
        else Ok (Z.of_N m, headPosition));
    if dataOffset + byteLength >? zlen block then Err ENotEnoughValue else
    (* b := make([]byte, byteLength); copy(b, block[dataOffset:]) *)
    do rest <- zslice block dataOffset (zlen block);
    let n := Z.to_nat byteLength in
    Ok (firstn n rest ++ repeat x00 (n - length rest)).

  Definition decodeABIBytes (headStart headPosition : Z) (m : N) (c : tcomp) : res cval :=
    do b <- decodeABIBytes_raw headStart headPosition m; Ok (CV (Some c) [] (GBytes b)).
  Definition decodeABIString (headStart headPosition : Z) (m : N) (c : tcomp) : res cval :=
    do b <- decodeABIBytes_raw headStart headPosition m; Ok (CV (Some c) [] (GString b)).

  (* component.elementaryType.decodeABIData(...) : dispatch through the table entry *)
  Definition decode_elementary (c : tcomp) (headStart headPosition : Z) : res cval :=
    match c with
    | TCElem e _ m n _ =>
        match decoder_of e with
        | DecSignedInt => decodeABISignedInt headPosition c
        | DecUnsignedInt => decodeABIUnsignedInt headPosition m c
        | DecSignedFloat => decodeABISignedFloat headPosition n c
        | DecUnsignedFloat => decodeABIUnsignedFloat headPosition m n c
        | DecBytes => decodeABIBytes headStart headPosition m c
        | DecString => decodeABIString headStart headPosition m c
        end
    | _ => Panic      (* nil elementaryType dereference *)
    end.
End Decode.

(* elementaryTypeInfo.dynamic *)
Definition elem_dynamic (e : ekind) (suffix : bytes) : bool :=
  match e with
  | EBytes => match suffix with [] => true | _ => false end
  | EString => true
  | _ => false
  end.

(* isDynamicType (its error case needs a cType outside the enum, which [tcomp] cannot express) *)
Fixpoint isDynamicType (c : tcomp) : bool :=
  match c with
  | TCTuple l _ => existsb isDynamicType l
  | TCFixedArr len ch _ => if len =? 0 then false else isDynamicType ch
  | TCDynArr _ _ => true
  | TCElem e s _ _ _ => elem_dynamic e s
  end.

(* occupiesHeadBytes *)
Fixpoint occupiesHeadBytes (c : tcomp) : bool :=
  match c with
  | TCTuple l _ => existsb occupiesHeadBytes l
  | TCFixedArr len ch _ => (len >? 0) && occupiesHeadBytes ch
  | _ => true
  end.

(* ---------- the three element loops ----------
   decodeABIFixedArrayBytes, decodeABIDynamicArrayBytes and walkDynamicChildArrayABIBytes over a
   replicated child all run  "for i < count { n, child := decodeABIElement(block, headStart, pos, T);
   children[i] = child; read += n; pos += n }".  The count can be any number below 2^32 taken from the
   data, so the loop is a binary iteration that stops at the first error. *)
Definition loop_state := (Z * Z * list cval)%type.      (* position, bytes read, children reversed *)

Definition loop_step (f : Z -> res (Z * cval)) (st : loop_state) : res loop_state :=
  let '(pos, rd, acc) := st in
  do (n, child) <- f pos; Ok (pos + n, rd + n, child :: acc).

Fixpoint iter_res {S} (p : positive) (step : S -> res S) (r : res S) : res S :=
  match r with
  | Ok _ =>
      match p with
      | xH => bind r step
      | xO p' => iter_res p' step (iter_res p' step r)
      | xI p' => bind (iter_res p' step (iter_res p' step r)) step
      end
  | _ => r
  end.

Definition loop_elems (f : Z -> res (Z * cval)) (count : Z) (pos : Z) : res (Z * list cval) :=
  match count with
  | Zpos p => do (_, rd, acc) <- iter_res p (loop_step f) (Ok (pos, 0, [])); Ok (rd, rev acc)
  | _ => Ok (0, [])
  end.

Section Element.
  Variable block : bytes.

  (* decodeABIFixedArrayBytes; [dec] is decodeABIElement on component.arrayChild *)
  Definition decodeABIFixedArrayBytes (dec : Z -> Z -> res (Z * cval)) (c child : tcomp) (len : Z)
             (headStart headPosition : Z) : res (Z * cval) :=
    (* the declared length is refused when the remaining data cannot hold that many elements *)
    if (len >? 0) && occupiesHeadBytes child && ((len - 1) * 32 >=? zlen block - headPosition)
    then Err ENotEnoughValue else
    if len <? 0 then Panic else      (* make([]*ComponentValue, component.arrayLength) *)
    do (rd, children) <- loop_elems (dec headStart) len headPosition;
    Ok (rd, CV (Some c) children GNil).

  (* decodeABIDynamicArrayBytes *)
  Definition decodeABIDynamicArrayBytes (dec : Z -> Z -> res (Z * cval)) (c child : tcomp)
             (dataOffset : Z) : res cval :=
    do arrayLength <- decodeABILength block dataOffset;
    let dataOffset := dataOffset + 32 in
    let dataStart := dataOffset in
    (* the count is refused when the remaining data cannot hold that many elements *)
    if (arrayLength >? 0) && occupiesHeadBytes child && ((arrayLength - 1) * 32 >=? zlen block - dataOffset)
    then Err ENotEnoughValue else
    do (_, children) <- loop_elems (dec dataStart) arrayLength dataOffset;
    Ok (CV (Some c) children GNil).

  (* walkDynamicChildArrayABIBytes for the replicated children of a fixed array of a dynamic type *)
  Definition walkDynamicChildArrayABIBytes_rep (dec : Z -> Z -> res (Z * cval)) (parent : tcomp) (len : Z)
             (headStart headPosition : Z) : res (Z * cval) :=
    do (rd, children) <- loop_elems (dec headStart) len headPosition;
    Ok (rd, CV (Some parent) children GNil).

  (* decodeABIElement, with walkDynamicChildArrayABIBytes over tuple children as the nested [walk] *)
  Fixpoint decodeABIElement (c : tcomp) (headStart headPosition : Z) {struct c} : res (Z * cval) :=
    match c with
    | TCElem _ _ _ _ _ =>
        do x <- decode_elementary block c headStart headPosition; Ok (32, x)
    | TCFixedArr len child _ =>
        if isDynamicType c then
          do headOffset <- decodeABILength block headPosition;
          let headStart := headStart + headOffset in
          let headPosition := headStart in
          (* every entry has a 32 byte offset in the head *)
          if (len >? 0) && ((len - 1) * 32 >=? zlen block - headStart) then Err ENotEnoughValue else
          if len <? 0 then Panic else      (* children := make([]*typeComponent, arrayLength) *)
          do (_, x) <- walkDynamicChildArrayABIBytes_rep (decodeABIElement child) c len headStart headPosition;
          Ok (32, x)
        else decodeABIFixedArrayBytes (decodeABIElement child) c child len headStart headPosition
    | TCDynArr child _ =>
        do headOffset <- decodeABILength block headPosition;
        do x <- decodeABIDynamicArrayBytes (decodeABIElement child) c child (headStart + headOffset);
        Ok (32, x)
    | TCTuple children _ =>
        let dynamic := isDynamicType c in
        do (headStart, headPosition) <-
           (if dynamic then
              do headOffset <- decodeABILength block headPosition;
              Ok (headStart + headOffset, headStart + headOffset)
            else Ok (headStart, headPosition));
        do (rd, l) <-
           (fix walk (l : list tcomp) (headPosition : Z) {struct l} : res (Z * list cval) :=
              match l with
              | [] => Ok (0, [])
              | ch :: r =>
                  do (n, x) <- decodeABIElement ch headStart headPosition;
                  do (m, xs) <- walk r (headPosition + n);
                  Ok (n + m, x :: xs)
              end) children headPosition;
        Ok (if dynamic then 32 else rd, CV (Some c) l GNil)
    end.

  (* walkDynamicChildArrayABIBytes(..., children) as a standalone function (same loop as the nested one) *)
  Fixpoint walkDynamicChildArrayABIBytes (children : list tcomp) (headStart headPosition : Z)
    : res (Z * list cval) :=
    match children with
    | [] => Ok (0, [])
    | ch :: r =>
        do (n, x) <- decodeABIElement ch headStart headPosition;
        do (m, xs) <- walkDynamicChildArrayABIBytes r headStart (headPosition + n);
        Ok (n + m, x :: xs)
    end.

  (* walkTupleABIBytes *)
  Definition walkTupleABIBytes (offset : Z) (c : tcomp) : res (Z * cval) :=
    match c with
    | TCTuple children _ =>
        do (rd, l) <- walkDynamicChildArrayABIBytes children offset offset;
        Ok (rd, CV (Some c) l GNil)
    | _ => Ok (0, CV (Some c) [] GNil)     (* component.tupleChildren is nil for other components *)
    end.
End Element.

(* typeComponent.DecodeABIDataCtx / ParameterArray.DecodeABIDataCtx (the latter always passes a tuple) *)
Definition DecodeABIData (c : tcomp) (b : bytes) (offset : Z) : res cval :=
  match c with
  | TCTuple _ _ => do (_, x) <- walkTupleABIBytes b offset c; Ok x
  | _ => Err ENotTuple
  end.

(* Entry.DecodeCallDataCtx after the selector has been computed: [id] is the 4-byte selector *)
Definition DecodeCallData (id : bytes) (inputs : tcomp) (b : bytes) : res cval :=
  if (length b <? 4)%nat then Err ENotEnoughSig else
  if negb (bytes_eqb id (firstn 4 b)) then Err EBadSig else
  DecodeABIData inputs b 4.
