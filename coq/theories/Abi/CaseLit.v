(* Literal helper for the case files written by harness/abigen (used by the C02, C03, C11, C12
   evaluators): [bx d] expands a byte-DSL literal to [bytes].  Nothing here is used by a model or a
   theorem. *)
From Coq Require Import String List NArith ZArith Uint63.
From FFS Require Export Base.Bytes Base.Lit.
Definition bx (d : bdsl) : bytes := bexpand d.
