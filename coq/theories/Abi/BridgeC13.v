(* C02, referee issue 4(ii): the component trees the C02 theorems quantify over ([tcomp] of
   Abi/ModelTypes.v with [tc_wf]) composed with property C13's model of the type parser
   (AbiType/Model.v: Validate = parseABIParameterComponents).  C13 proves ([validate_sound]) that the
   component tree Validate builds for an accepted parameter is the canonical component [tc_of t] of a
   valid type t.  C13's tree carries no key names; [same_comp] relates it to a C02 tree of the same
   shape (same elementary entry by name, same suffix text, M, N, array lengths; ANY key names - the key
   names are the parameters' names, which the type parser does not look at).  Then: every C02 tree that
   stands for a tree Validate built is [tc_wf], and its spec type is the type C13 says was parsed. *)
From Coq Require Import String.
From Coq Require Import List NArith ZArith Bool Arith Lia.
From Coq Require Import Init.Byte.
From FFS Require Import Base.Res Base.Bytes Abi.Types Abi.ModelTypes Gen.AbiConsts.
From FFS Require AbiType.Syntax AbiType.Model AbiType.Spec AbiType.Abs AbiType.ProofsDec AbiType.ProofsLeaf AbiType.ProofsMain.
Import ListNotations.

Module M := AbiType.Model.
Module S := AbiType.Spec.
Module PL := AbiType.ProofsLeaf.
Module PM := AbiType.ProofsMain.

(* the table entry (by its name in typecomponents.go) an [ekind] stands for *)
Definition ekind_of_name (s : string) : option ekind :=
  if String.eqb s "int" then Some EInt
  else if String.eqb s "uint" then Some EUInt
  else if String.eqb s "address" then Some EAddress
  else if String.eqb s "bool" then Some EBool
  else if String.eqb s "fixed" then Some EFixed
  else if String.eqb s "ufixed" then Some EUFixed
  else if String.eqb s "bytes" then Some EBytes
  else if String.eqb s "function" then Some EFunction
  else if String.eqb s "string" then Some EString
  else None.

Inductive same_comp : M.tcomp -> tcomp -> Prop :=
| SC_elem et sfx m n e k : ekind_of_name (et_name et) = Some e -> same_comp (M.CElem et sfx m n) (TCElem e sfx m n k)
| SC_fixed c c' len k : same_comp c c' -> same_comp (M.CFixedArr c len) (TCFixedArr (Z.of_N len) c' k)
| SC_dyn c c' k : same_comp c c' -> same_comp (M.CDynArr c) (TCDynArr c' k)
| SC_tuple l l' k : Forall2 same_comp l l' -> same_comp (M.CTuple l) (TCTuple l' k).

Definition canon_ok (t : ty) : Prop :=
  forall tc tc', wf_ty t = true -> S.dims_ok t = true -> PM.tc_of t = Some tc -> same_comp tc tc' ->
    ty_of tc' = t /\ tc_consistent tc' = true.

Ltac leaf H SC :=
  cbn [PM.tc_of] in H; unfold PL.leaf_tc, PL.mk_leaf in H;
  match type of H with
  | match ?L with _ => _ end = _ =>
      let E := fresh "E" in destruct L eqn:E; [vm_compute in E; injection E as <-|discriminate]
  end;
  injection H as <-;
  let EK := fresh "EK" in
  inversion SC as [et sfx m' n' e k EK| | |]; subst; vm_compute in EK; injection EK as <-.

Lemma canon_list l (IH : Forall canon_ok l) : forall cs l',
  forallb wf_ty l = true -> forallb S.dims_ok l = true -> PM.tc_of_list l = Some cs -> Forall2 same_comp cs l' ->
  map ty_of l' = l /\ forallb tc_consistent l' = true.
Proof.
  induction IH as [|t r Ht _ IHr]; intros cs l' W D H F; cbn [PM.tc_of_list] in H.
  - injection H as <-. inversion F; subst. split; reflexivity.
  - destruct (PM.tc_of t) as [c|] eqn:Ec; [|discriminate]. destruct (PM.tc_of_list r) as [cr|] eqn:Er; [|discriminate].
    injection H as <-. inversion F as [|c0 c' cr0 r' SC F']; subst.
    cbn [forallb] in W, D. apply andb_prop in W as [W1 W2]. apply andb_prop in D as [D1 D2].
    destruct (Ht c c' W1 D1 Ec SC) as [T C]. destruct (IHr cr r' W2 D2 eq_refl F') as [Ts Cs].
    cbn [map forallb]. rewrite T, Ts, C, Cs. split; reflexivity.
Qed.

Theorem canonical_comp_ok t : canon_ok t.
Proof.
  induction t as [m|m| | |m n|m n|m| | | |t k IH|t IH|l IH] using ty_ind'; intros tc tc' W D H SC.
  - leaf H SC. split; reflexivity.
  - leaf H SC. split; reflexivity.
  - leaf H SC. split; reflexivity.
  - leaf H SC. split; reflexivity.
  - leaf H SC. split; reflexivity.
  - leaf H SC. split; reflexivity.
  - leaf H SC. cbn [ty_of tc_consistent]. cbn [wf_ty] in W. apply andb_prop in W as [W1 W2]. apply N.leb_le in W1.
    destruct (N.eqb_spec m 0) as [->|NE]; [lia|].
    pose proof (AbiType.ProofsDec.dec_nonnil m) as NN. destruct (S.dec m); [congruence|]. split; reflexivity.
  - leaf H SC. split; reflexivity.
  - leaf H SC. split; reflexivity.
  - leaf H SC. split; reflexivity.
  - cbn [PM.tc_of] in H. destruct (PM.tc_of t) as [c|] eqn:Ec; [|discriminate]. injection H as <-.
    inversion SC as [|c0 c' len key SC'| |]; subst. cbn [wf_ty] in W. cbn [S.dims_ok] in D. apply andb_prop in D as [D1 D2].
    destruct (IH c c' W D2 Ec SC') as [T C]. cbn [ty_of tc_consistent]. rewrite T, C, N2Z.id.
    apply N.ltb_lt in D1. split; [reflexivity|].
    apply andb_true_intro; split; [apply andb_true_intro; split|reflexivity]; [apply Z.leb_le; lia|apply Z.ltb_lt].
    change (2 ^ 32)%Z with (Z.of_N (2 ^ 32)). lia.
  - cbn [PM.tc_of] in H. destruct (PM.tc_of t) as [c|] eqn:Ec; [|discriminate]. injection H as <-.
    inversion SC as [| |c0 c' key SC'|]; subst. cbn [wf_ty] in W. cbn [S.dims_ok] in D.
    destruct (IH c c' W D Ec SC') as [T C]. cbn [ty_of tc_consistent]. rewrite T, C. split; reflexivity.
  - rewrite PM.tc_of_tuple in H. destruct (PM.tc_of_list l) as [cs|] eqn:El; [|discriminate]. injection H as <-.
    inversion SC as [| | |l0 l' key F]; subst. cbn [wf_ty] in W. cbn [S.dims_ok] in D.
    destruct (canon_list l IH cs l' W D El F) as [T C]. cbn [ty_of tc_consistent]. rewrite T, C. split; reflexivity.
Qed.

(* every C02 component tree standing for a tree that C13's Validate built is well formed, and its
   spec type is the valid type C13 proves was parsed *)
Theorem validated_comp_wf p tc tc' :
  M.Validate p = Ok tc -> same_comp tc tc' ->
  tc_wf tc' = true /\ AbiType.Abs.ty_of tc = Some (ty_of tc') /\ S.valid_type (ty_of tc') = true /\
  S.spelling (ty_of tc') (AbiType.Syntax.p_type p) (AbiType.Syntax.p_comps p).
Proof.
  intros V SC. destruct (PM.validate_sound p tc V) as (t & T1 & T2 & T3 & _ & T5).
  pose proof T2 as T2'. unfold S.valid_type in T2'. apply andb_prop in T2' as [W D].
  destruct (canonical_comp_ok t tc tc' W D T5 SC) as [E C]. subst t.
  unfold tc_wf. rewrite C, W. repeat split; assumption.
Qed.

(* a parameter list: the root tuple the encoder theorems are stated for *)
Theorem validated_params_wf ps tcs :
  Forall2 (fun p tc' => exists tc, M.Validate p = Ok tc /\ same_comp tc tc') ps tcs ->
  tc_wf (TCTuple tcs []) = true.
Proof.
  intros F. unfold tc_wf. cbn [tc_consistent ty_of wf_ty].
  induction F as [|p tc' ps tcs (tc & V & SC) _ IH]; [reflexivity|].
  destruct (validated_comp_wf p tc tc' V SC) as (W & _). unfold tc_wf in W. apply andb_prop in W as [W1 W2].
  apply andb_prop in IH as [I1 I2]. cbn [forallb map]. rewrite W1, W2, I1, I2. reflexivity.
Qed.
