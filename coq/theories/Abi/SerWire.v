(* C03, referee issue 1: json.Marshal's treatment of Go strings that are not valid UTF-8.
   encoding/json (encodeState.string / appendString) walks the string with utf8.DecodeRuneInString and
   writes the escape backslash-u-fffd for every byte at which no valid encoding starts (RuneError of
   width 1); a reader gets U+FFFD = EF BF BD there.  Everything else (escapes of control characters,
   quotes, <, >, &, U+2028/9) is read back as the same bytes.  Object keys go through the same routine.
   [wire_go] is the faithful version of SerModel.wire (which keeps strings verbatim); the serializer
   entry point with it is [SerializeJSON_go].  Definitions only; proofs in SerWireProofs.v. *)
From Coq Require Import List NArith ZArith Bool.
From Coq Require Import Init.Byte.
From FFS Require Import Base.Res Base.Bytes Abi.Types Abi.Spec Abi.ModelTypes Abi.Render Abi.SerModel.
Import ListNotations.

Definition in_range (c : byte) (lo hi : N) : bool := ((lo <=? b2n c) && (b2n c <=? hi))%N.

(* utf8.DecodeRune on the head of s: the width of the valid encoding that starts there (1..4),
   0 when there is none (Go returns RuneError with width 1).  Table of RFC 3629 / unicode/utf8:
   00..7F | C2..DF 80..BF | E0 A0..BF 80..BF | E1..EC,EE,EF 80..BF 80..BF | ED 80..9F 80..BF |
   F0 90..BF 80..BF 80..BF | F1..F3 80..BF x3 | F4 80..8F 80..BF 80..BF *)
Definition rune_width (s : bytes) : nat :=
  match s with
  | [] => 0
  | c :: t =>
      if (b2n c <? 128)%N then 1
      else if in_range c 194 223 then
        match t with d :: _ => if in_range d 128 191 then 2 else 0 | _ => 0 end
      else if in_range c 224 239 then
        match t with
        | d :: e :: _ =>
            if in_range d (if (b2n c =? 224)%N then 160 else 128) (if (b2n c =? 237)%N then 159 else 191)
               && in_range e 128 191 then 3 else 0
        | _ => 0
        end
      else if in_range c 240 244 then
        match t with
        | d :: e :: f :: _ =>
            if in_range d (if (b2n c =? 240)%N then 144 else 128) (if (b2n c =? 244)%N then 143 else 191)
               && in_range e 128 191 && in_range f 128 191 then 4 else 0
        | _ => 0
        end
      else 0
  end.

(* the bytes a JSON reader gets back for the Go string s; [skip] = bytes of the current rune still to copy *)
Fixpoint json_text_go (skip : nat) (s : bytes) : bytes :=
  match s with
  | [] => []
  | c :: t =>
      match skip with
      | S k => c :: json_text_go k t
      | O => match rune_width s with
             | O => xef :: xbf :: xbd :: json_text_go 0 t
             | S w => c :: json_text_go w t
             end
      end
  end.
Definition json_text (s : bytes) : bytes := json_text_go 0 s.

(* utf8.Valid *)
Fixpoint utf8_go (skip : nat) (s : bytes) : bool :=
  match s with
  | [] => true
  | c :: t =>
      match skip with
      | S k => utf8_go k t
      | O => match rune_width s with O => false | S w => utf8_go w t end
      end
  end.
Definition utf8_ok (s : bytes) : bool := utf8_go 0 s.

(* json.Marshal's view of the tree, strings and keys included *)
Fixpoint wire_go (j : jv) : jv :=
  match j with
  | JStr t => JStr (json_text t)
  | JFloatInt z => JNumber (Z_dec z)
  | JArr l => JArr (map wire_go l)
  | JObj m => JObj (map (fun kv => (json_text (fst kv), wire_go (snd kv))) m)
  | _ => j
  end.

(* every string and key of the tree is valid UTF-8 *)
Fixpoint json_utf8 (j : jv) : bool :=
  match j with
  | JStr t => utf8_ok t
  | JArr l => forallb json_utf8 l
  | JObj m => forallb (fun kv => utf8_ok (fst kv) && json_utf8 (snd kv)) m
  | _ => true
  end.

(* SerializeJSONCtx with the faithful json.Marshal view *)
Definition SerializeJSON_go (H : bytes -> bytes) (fs : bfloat -> jv) (dn : nat -> bytes) (s : serializer)
           (x : cval) : res jv :=
  do v <- walkOutput H fs dn s x; Ok (wire_go v).

(* guard on the tree handed to the serializer: every Go string it holds is valid UTF-8, and so are the
   member names and type labels of the components of tuple members (always the case for a component
   tree the type parser built from an ABI JSON document) *)
Definition member_utf8 (y : cval) : bool :=
  match y with
  | CV (Some cc) _ _ => utf8_ok (tc_key cc) && utf8_ok (tc_string cc)
  | _ => true
  end.
(* fixed-point values (a *big.Float, rendered by the configured FloatSerializer) are outside the property *)
Definition gval_utf8 (g : gval) : bool :=
  match g with GString t => utf8_ok t | GBigFloat _ => false | _ => true end.
Fixpoint cval_utf8 (x : cval) : bool :=
  match x with
  | CVNil => true
  | CV _ l g =>
      gval_utf8 g &&
      (fix go (l : list cval) : bool :=
         match l with [] => true | y :: r => member_utf8 y && cval_utf8 y && go r end) l
  end.

(* the same on the specification side: every value of type string is valid UTF-8 *)
Fixpoint strings_utf8 (t : ty) (v : val) {struct v} : bool :=
  match t, v with
  | TString, VBytes b => utf8_ok b
  | TFixedArr t' _, VList vs | TDynArr t', VList vs =>
      (fix go (vs : list val) : bool := match vs with [] => true | x :: r => strings_utf8 t' x && go r end) vs
  | TTuple ts, VList vs =>
      (fix go (ts : list ty) (vs : list val) {struct vs} : bool :=
         match ts, vs with
         | t' :: tr, x :: r => strings_utf8 t' x && go tr r
         | _, _ => true
         end) ts vs
  | _, _ => true
  end.

(* ... and on the type side: member names and type labels of every component under a tuple or array *)
Definition comp_utf8 (c : tcomp) : bool := utf8_ok (tc_key c) && utf8_ok (tc_string c).
Fixpoint names_utf8 (c : tcomp) : bool :=
  match c with
  | TCElem _ _ _ _ _ => true
  | TCFixedArr _ ch _ | TCDynArr ch _ => comp_utf8 ch && names_utf8 ch
  | TCTuple cs _ => forallb (fun c' => comp_utf8 c' && names_utf8 c') cs
  end.
