(* C02, referee issue 1: the independent relation [repr] of Abi/ReprSpec.v determines the value -
   an input denotes at most one value for a component tree (given that an integer input denotes at
   most one integer), so "exists v, repr .. v /\ .." in the accepted-is-denoted theorems pins v. *)
From Coq Require Import List NArith ZArith Bool Arith Lia.
From Coq Require Import Init.Byte.
From FFS Require Import Base.Res Base.Bytes Abi.Types Abi.Spec Abi.ModelTypes Abi.EncModel Abi.InputModel.
From FFS Require Import Abi.InputProofs Abi.ReprSpec Abi.ReprProofs.
Import ListNotations.

Lemma text_of_fun x s s' : text_of x s -> text_of x s' -> s = s'.
Proof. intros [-> | ->] [E|E]; congruence. Qed.

Lemma bytes_of_fun x b b' : bytes_of x b -> bytes_of x b' -> b = b'.
Proof. intros H H'. apply bytes_of_read in H. apply bytes_of_read in H'. congruence. Qed.

Lemma seq_of_fun x l l' : seq_of x l -> seq_of x l' -> l = l'.
Proof. intros H H'. apply seq_of_slice in H. apply seq_of_slice in H'. congruence. Qed.

Lemma members_fun m i ts l : members m i ts l -> forall l', members m i ts l' -> l = l'.
Proof.
  induction 1 as [i|i t ts key x l MK FB _ IH]; intros l' H'.
  - inversion H'. reflexivity.
  - inversion H' as [|i' t' ts' key' x' l0 MK' FB' M']; subst.
    apply member_key_effective in MK. apply member_key_effective in MK'. subst.
    apply lookup_first in FB. apply lookup_first in FB'. rewrite (IH l0 M'). congruence.
Qed.

Section Unique.
Variable I : ext -> Z -> Prop.
Hypothesis I_fun : forall x z z', I x z -> I x z' -> z = z'.

Definition repr_det (tc : tcomp) : Prop := forall x v v', repr I tc x v -> repr I tc x v' -> v = v'.

Lemma forall2_det c (IH : repr_det c) l vs : Forall2 (repr I c) l vs -> forall vs', Forall2 (repr I c) l vs' -> vs = vs'.
Proof.
  induction 1 as [|x v l vs R _ IHl]; intros vs' H'; inversion H' as [|x' v' l' vs0 R' F']; subst; [reflexivity|].
  rewrite (IH x v v' R R'), (IHl vs0 F'). reflexivity.
Qed.

Lemma all3_det ts (IH : Forall repr_det ts) l vs : all3 (repr I) ts l vs -> forall vs', all3 (repr I) ts l vs' -> vs = vs'.
Proof.
  intros A. induction A as [|t x v ts l vs R _ IHl]; intros vs' H'; inversion H' as [|t' x' v' ts' l' vs0 R' A']; subst; [reflexivity|].
  inversion IH as [|t0 ts0 Ht Hts]; subst. rewrite (Ht x v v' R R'), (IHl Hts vs0 A'). reflexivity.
Qed.

Ltac absurd_kind :=
  solve [ repeat match goal with H : _ = _ \/ _ = _ |- _ => destruct H end; subst; congruence ].

Theorem repr_unique tc : repr_det tc.
Proof.
  induction tc as [e s m n k|len c k IH|c k IH|ts k IH] using tcomp_ind'; intros x v v' R1 R2.
  - inversion R1 as [e1 s1 m1 n1 k1 x1 z1 He1 Hz1|s1 m1 n1 k1 b1|s1 m1 n1 k1 x1 t1 Ht1 Htt1|s1 m1 n1 k1 x1 t1 Ht1 Htt1
                    |s1 m1 n1 k1 x1 b1 Hb1|e1 s1 m1 n1 k1 x1 b1 He1 Hb1|s1 m1 n1 k1 x1 b1 Hb1| | | |]; subst;
    inversion R2 as [e2 s2 m2 n2 k2 x2 z2 He2 Hz2|s2 m2 n2 k2 b2|s2 m2 n2 k2 x2 t2 Ht2 Htt2|s2 m2 n2 k2 x2 t2 Ht2 Htt2
                    |s2 m2 n2 k2 x2 b2 Hb2|e2 s2 m2 n2 k2 x2 b2 He2 Hb2|s2 m2 n2 k2 x2 b2 Hb2| | | |]; subst;
    try reflexivity; try absurd_kind;
    try solve [exfalso; match goal with H : text_of (XBool _) _ |- _ => destruct H; discriminate end].
    + rewrite (I_fun _ _ _ Hz1 Hz2). reflexivity.
    + exfalso. apply Htt2. rewrite <- (text_of_fun _ _ _ Ht1 Ht2). exact Htt1.
    + exfalso. apply Htt1. rewrite <- (text_of_fun _ _ _ Ht2 Ht1). exact Htt2.
    + rewrite (bytes_of_fun _ _ _ Hb1 Hb2). reflexivity.
    + rewrite (bytes_of_fun _ _ _ Hb1 Hb2). reflexivity.
    + destruct Hb1 as [[-> | ->] | ->]; destruct Hb2 as [[E|E]|E]; congruence.
  - inversion R1 as [| | | | | | |len1 c1 k1 x1 l1 vs1 S1 L1 F1| | |]; subst.
    inversion R2 as [| | | | | | |len2 c2 k2 x2 l2 vs2 S2 L2 F2| | |]; subst.
    rewrite (seq_of_fun _ _ _ S2 S1) in F2. rewrite (forall2_det c IH l1 vs1 F1 vs2 F2). reflexivity.
  - inversion R1 as [| | | | | | | |c1 k1 x1 l1 vs1 S1 F1| |]; subst.
    inversion R2 as [| | | | | | | |c2 k2 x2 l2 vs2 S2 F2| |]; subst.
    rewrite (seq_of_fun _ _ _ S2 S1) in F2. rewrite (forall2_det c IH l1 vs1 F1 vs2 F2). reflexivity.
  - inversion R1 as [| | | | | | | | |ts1 k1 x1 l1 vs1 S1 A1|ts1 k1 m1 l1 vs1 M1 A1]; subst;
    inversion R2 as [| | | | | | | | |ts2 k2 x2 l2 vs2 S2 A2|ts2 k2 m2 l2 vs2 M2 A2]; subst.
    + rewrite (seq_of_fun _ _ _ S2 S1) in A2. rewrite (all3_det ts IH l1 vs1 A1 vs2 A2). reflexivity.
    + exfalso. destruct S1 as [E|(b & E & _)]; discriminate.
    + exfalso. destruct S2 as [E|(b & E & _)]; discriminate.
    + rewrite (members_fun _ _ _ _ M2 _ M1) in A2. rewrite (all3_det ts IH l1 vs1 A1 vs2 A2). reflexivity.
Qed.
End Unique.
