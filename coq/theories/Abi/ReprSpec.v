(* C02, answer to the referee's issue 1: an INDEPENDENT statement of which value an external input
   denotes for a component tree - written from the documentation of the accepted representations, not
   from the readers of inputparsing.go.  No model function of Abi/InputModel.v is used here: only the
   data type [ext] of external values (and [tcomp], [val]).

     hex text            two hex digits (either case) per byte, most significant nibble first,
                         optionally preceded by "0x"
     address             the big-endian number of the bytes given (as hex text or []byte)
     bool                a Go bool; or a text: "true" in any case is 1, every other text is 0
                         (the documented behaviour of the reader: strings.EqualFold(s, "true"))
     bytes<M>/bytes/function   the bytes given (hex text or []byte)
     string              the characters given (string, json.Number or []byte)
     T[k], T[]           a sequence (a list, or a []byte standing for the list of its uint8 elements),
                         element by element; T[k] only for a sequence of k elements
     tuple               a sequence of as many elements as members, position by position; or an
                         object holding, for every member, a binding of the member's name (of the
                         decimal text of its position when it has no name)
     uint<M>/int<M>      a parameter [I] of the relation (property C19's subject for texts)

   fixed<M>x<N> / ufixed<M>x<N> have no constructor: nothing is claimed for them (C02_fixed_refuted). *)
From Coq Require Import List NArith ZArith Bool Arith.
From Coq Require Import Init.Byte.
From FFS Require Import Base.Bytes Abi.Types Abi.Spec Abi.ModelTypes Abi.InputModel.
Import ListNotations.

(* ---------- texts ---------- *)

(* the character c is a hex digit of value d: '0'..'9', 'a'..'f' or 'A'..'F' *)
Definition hex_digit (c : byte) (d : N) : Prop :=
  ((d < 10)%N /\ c = n2b (48 + d)) \/
  ((10 <= d < 16)%N /\ (c = n2b (87 + d) \/ c = n2b (55 + d))).

Inductive hex_pairs : bytes -> bytes -> Prop :=
| HP_nil : hex_pairs [] []
| HP_cons a b hi lo s t : hex_digit a hi -> hex_digit b lo -> hex_pairs s t ->
    hex_pairs (a :: b :: s) (n2b (16 * hi + lo) :: t).

Definition hex_text (s b : bytes) : Prop :=
  hex_pairs s b \/ exists h, s = x30 :: x78 :: h /\ hex_pairs h b.

(* big-endian value of a byte string *)
Fixpoint be_value (b : bytes) : Z :=
  match b with
  | [] => 0
  | x :: r => Z.of_N (b2n x) * 256 ^ Z.of_nat (length r) + be_value r
  end.

(* c is the lower-case letter l or its upper-case form *)
Definition fold_eq (c l : byte) : Prop := c = l \/ (b2n c + 32 = b2n l)%N.
Definition is_true_text (s : bytes) : Prop := Forall2 fold_eq s [x74; x72; x75; x65].   (* "true" *)

(* canonical decimal text of a number (object keys of unnamed tuple members) *)
Definition dec_digit (d : N) : byte := n2b (48 + d).
Inductive dec_text : N -> bytes -> Prop :=
| DT_digit d : (d < 10)%N -> dec_text d [dec_digit d]
| DT_more n d s : (0 < n)%N -> (d < 10)%N -> dec_text n s -> dec_text (10 * n + d) (s ++ [dec_digit d]).

(* ---------- external values ---------- *)

Definition text_of (x : ext) (s : bytes) : Prop := x = XStr s \/ x = XJNum s.

Definition bytes_of (x : ext) (b : bytes) : Prop :=
  x = XBytes b \/ exists s, text_of x s /\ hex_text s b.

Definition seq_of (x : ext) (l : list ext) : Prop :=
  x = XList l \/ exists b, x = XBytes b /\ l = map (fun c => XInt KUint8 (Z.of_N (b2n c))) b.

(* the (first) binding of key k in an object; Go maps and decoded JSON objects have distinct keys *)
Definition first_binding (m : list (bytes * ext)) (k : bytes) (x : ext) : Prop :=
  exists m1 m2, m = m1 ++ (k, x) :: m2 /\ ~ In k (map fst m1).

Definition member_key (t : tcomp) (i : nat) (key : bytes) : Prop :=
  match tc_key t with
  | [] => dec_text (N.of_nat i) key
  | k => key = k
  end.

(* the inputs an object holds for the members ts (positions i, i+1, ...) *)
Inductive members (m : list (bytes * ext)) : nat -> list tcomp -> list ext -> Prop :=
| M_nil i : members m i [] []
| M_cons i t ts key x l : member_key t i key -> first_binding m key x -> members m (S i) ts l ->
    members m i (t :: ts) (x :: l).

Inductive all3 {A B C : Type} (R : A -> B -> C -> Prop) : list A -> list B -> list C -> Prop :=
| A3_nil : all3 R [] [] []
| A3_cons a b c la lb lc : R a b c -> all3 R la lb lc -> all3 R (a :: la) (b :: lb) (c :: lc).

(* ---------- the relation ---------- *)
Section Repr.
(* what an external value given for a uint<M> / int<M> component denotes *)
Variable I : ext -> Z -> Prop.

Inductive repr : tcomp -> ext -> val -> Prop :=
| R_int e s m n k x z : (e = EInt \/ e = EUInt) -> I x z -> repr (TCElem e s m n k) x (VNum z)
| R_bool s m n k b : repr (TCElem EBool s m n k) (XBool b) (VNum (if b then 1 else 0))
| R_bool_true s m n k x t : text_of x t -> is_true_text t -> repr (TCElem EBool s m n k) x (VNum 1)
| R_bool_false s m n k x t : text_of x t -> ~ is_true_text t -> repr (TCElem EBool s m n k) x (VNum 0)
| R_address s m n k x b : bytes_of x b -> repr (TCElem EAddress s m n k) x (VNum (be_value b))
| R_bytes e s m n k x b : (e = EBytes \/ e = EFunction) -> bytes_of x b -> repr (TCElem e s m n k) x (VBytes b)
| R_string s m n k x b : (text_of x b \/ x = XBytes b) -> repr (TCElem EString s m n k) x (VBytes b)
| R_fixed_arr len c k x l vs : seq_of x l -> Z.of_nat (length l) = len -> Forall2 (repr c) l vs ->
    repr (TCFixedArr len c k) x (VList vs)
| R_dyn_arr c k x l vs : seq_of x l -> Forall2 (repr c) l vs -> repr (TCDynArr c k) x (VList vs)
| R_tuple_seq ts k x l vs : seq_of x l -> all3 repr ts l vs -> repr (TCTuple ts k) x (VList vs)
| R_tuple_obj ts k m l vs : members m 0 ts l -> all3 repr ts l vs -> repr (TCTuple ts k) (XMap m) (VList vs).
End Repr.
