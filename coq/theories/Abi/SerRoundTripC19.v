(* C03 / C02 / C19 composition, part 2: the two parser laws of the JSON round trip
   (SerRoundTrip.json_roundtrip: "reads back the canonical decimal text", "reads back the signed
   0x-hex text") are PROVED for property C19's model of ethtypes.BigIntegerFromString
   (EthTypes/Model.v, imported read-only) and for the local copy of Abi/InputModel.v, from the
   digit-list form of the renderings (SerRoundTripDigits.v).  Hence the round trip without any
   hypothesis on the parser, and the C02 integer theorems instantiated with C19's model.

   C19's size guards (|exponent| <= 10^6, |text| < 2^28) do NOT surface: both renderings are read by
   the first branch of BigIntegerFromString (big.Int.SetString(s, 0)), which has no size limit; the
   guards belong to the ParseFloat / Rat.SetString branch that only exponent / fraction spellings reach. *)
From Coq Require Import List NArith ZArith Bool Lia.
From Coq Require Import ZifyN ZifyNat ZifyBool.
From Coq Require Import Init.Byte.
From FFS Require Import Base.Res Base.Bytes Abi.Types Abi.Spec Abi.ModelTypes Abi.Render.
From FFS Require Import Abi.DecSpec Abi.SerModel Abi.SerSpec Abi.EncModel Abi.EncProofs3 Abi.InputModel Abi.InputProofs Abi.InputProofs2.
From FFS Require Import Abi.SerProofs Abi.SerProofs2 Abi.SerRoundTrip Abi.SerRoundTripDigits Abi.InputC19.
From FFS Require EthTypes.Model EthTypes.Spec EthTypes.ProofsInt EthTypes.ProofsNum.
Import ListNotations.

Module EM := FFS.EthTypes.Model.
Module ES := FFS.EthTypes.Spec.
Module EP := FFS.EthTypes.ProofsInt.

(* the 0x-hex text the serializer writes for z *)
Definition Z_0xhex (z : Z) : bytes := (if (z <? 0)%Z then [x2d] else []) ++ x30 :: x78 :: N_hex (Z.abs_N z).

(* ================= the renderings in the vocabulary of C19's specification ================= *)
Lemma dec_val_char d : (d < 10)%N -> ES.dec_val (dec_char d) = Some d.
Proof.
  intros L. unfold ES.dec_val, dec_char. rewrite b2n_n2b by lia.
  destruct ((48 <=? 48 + d)%N && (48 + d <=? 57)%N) eqn:E; [f_equal; lia|lia].
Qed.

Lemma hex_val_char d : (d < 16)%N -> ES.hex_val (hex_char false d) = Some d.
Proof.
  intros L. destruct d as [|p]; [reflexivity|].
  do 5 (try (destruct p as [p|p|]; try lia; try reflexivity)).
Qed.

Lemma digits_val_chars base (dv : byte -> option N) (ch : N -> byte) ds :
  Forall (fun d => dv (ch d) = Some d) ds ->
  forall acc, ES.digits_val base dv (map ch ds) acc = Some (horner base ds acc).
Proof.
  induction 1 as [|d ds Hd _ IH]; intros acc; [reflexivity|].
  cbn [map ES.digits_val]. rewrite Hd, IH. reflexivity.
Qed.

Lemma dec_value_N_dec n : ES.dec_value (N_dec n) = Some n /\ ES.no_leading_zero (N_dec n) = true.
Proof.
  destruct (N_dec_digits n) as (d0 & ds & E & L & V & P & Z0). rewrite E.
  assert (F : Forall (fun d => ES.dec_val (dec_char d) = Some d) (d0 :: ds))
    by (eapply Forall_impl; [|exact L]; intros a; apply dec_val_char).
  split.
  - unfold ES.dec_value. cbn [map]. rewrite <- V.
    exact (digits_val_chars 10%N ES.dec_val dec_char (d0 :: ds) F 0%N).
  - cbn [map ES.no_leading_zero]. destruct (map dec_char ds) eqn:M; [reflexivity|].
    destruct (N.eq_dec n 0) as [->|NZ].
    + destruct (Z0 eq_refl) as [_ ->]. discriminate.
    + assert (0 < d0)%N by (apply P; lia). inversion L; subst.
      unfold dec_char. rewrite b2n_n2b by lia. apply negb_true_iff, N.eqb_neq. lia.
Qed.

Lemma hex_value_N_hex n : ES.hex_value (N_hex n) = Some n.
Proof.
  destruct (N_hex_digits n) as (ds & E & NE & L & V). rewrite E.
  assert (F : Forall (fun d => ES.hex_val (hex_char false d) = Some d) ds)
    by (eapply Forall_impl; [|exact L]; intros a; apply hex_val_char).
  unfold ES.hex_value. destruct ds as [|d ds]; [contradiction|]. cbn [map].
  rewrite <- V. exact (digits_val_chars 16%N ES.hex_val (hex_char false) (d :: ds) F 0%N).
Qed.

(* the decimal rendering of every integer, and the 0x-hex rendering of every non-negative one, are
   spellings of C19's quantifier and denote the integer ("-0x.." is not among C19's classes; the
   model is shown to read it below) *)
Theorem Z_dec_denotes z : ES.denotes (Z_dec z) z 0.
Proof.
  destruct (dec_value_N_dec (Z.abs_N z)) as [V NL]. unfold Z_dec.
  destruct (z <? 0)%Z eqn:S.
  - replace z with (- Z.of_N (Z.abs_N z))%Z at 2 by lia.
    exact (ES.den_neg_dec _ _ NL V).
  - replace z with (Z.of_N (Z.abs_N z)) at 2 by lia.
    exact (ES.den_dec _ _ NL V).
Qed.

Theorem Z_0xhex_denotes z : (0 <= z)%Z -> ES.denotes (Z_0xhex z) z 0.
Proof.
  intros P. unfold Z_0xhex. replace (z <? 0)%Z with false by lia.
  replace z with (Z.of_N (Z.abs_N z)) at 2 by lia.
  exact (ES.den_hex _ _ (hex_value_N_hex (Z.abs_N z))).
Qed.

(* ================= C19's model reads the renderings back ================= *)
Lemma set_string_neg_hex s n :
  ES.hex_value s = Some n -> EM.int_set_string0 (ES.t_minus ++ ES.t_0x ++ s) = Some (- Z.of_N n)%Z.
Proof.
  intros Hv. pose proof (EP.set_string_hex s n Hv) as P.
  unfold EM.int_set_string0 in *. unfold ES.t_minus, ES.t_0x in *. cbn [app EM.scan_sign] in *.
  rewrite (EP.b2n_ch 45) by lia. rewrite (EP.b2n_ch 48) in P by lia.
  cbn [N.eqb Pos.eqb] in *.
  destruct (EM.s_ok _ && EM.is_nil _); [|discriminate].
  injection P as P. f_equal. lia.
Qed.

Theorem bifs19_dec z : bifs19 (Z_dec z) = Ok z.
Proof.
  destruct (dec_value_N_dec (Z.abs_N z)) as [V NL].
  assert (S0 : EM.int_set_string0 (Z_dec z) = Some z).
  { unfold Z_dec. destruct (z <? 0)%Z eqn:S.
    - change (x2d :: N_dec (Z.abs_N z)) with (ES.t_minus ++ N_dec (Z.abs_N z)).
      rewrite (EP.set_string_neg_dec _ _ NL V). f_equal. lia.
    - rewrite (EP.set_string_dec _ _ NL V). f_equal. lia. }
  unfold bifs19, EM.BigIntegerFromString. rewrite S0. reflexivity.
Qed.

Theorem bifs19_hex z : bifs19 (Z_0xhex z) = Ok z.
Proof.
  pose proof (hex_value_N_hex (Z.abs_N z)) as V.
  assert (S0 : EM.int_set_string0 (Z_0xhex z) = Some z).
  { unfold Z_0xhex. destruct (z <? 0)%Z eqn:S.
    - change ([x2d] ++ x30 :: x78 :: N_hex (Z.abs_N z)) with (ES.t_minus ++ ES.t_0x ++ N_hex (Z.abs_N z)).
      rewrite (set_string_neg_hex _ _ V). f_equal. lia.
    - change ([] ++ x30 :: x78 :: N_hex (Z.abs_N z)) with (ES.t_0x ++ N_hex (Z.abs_N z)).
      rewrite (EP.set_string_hex _ _ V). f_equal. lia. }
  unfold bifs19, EM.BigIntegerFromString. rewrite S0. reflexivity.
Qed.

(* ================= the local copy (Abi/InputModel.v) reads them back too ================= *)
Theorem local_dec z : InputModel.BigIntegerFromString (Z_dec z) = Ok z.
Proof.
  destruct (N_dec_digits (Z.abs_N z)) as (d0 & ds & E & L & V & P & Z0). unfold Z_dec. rewrite E.
  destruct (Z.eq_dec z 0) as [->|NZ].
  { destruct (Z0 eq_refl) as [-> ->]. reflexivity. }
  assert (B : (0 < d0 < 10)%N) by (inversion L; subst; split; [apply P; lia|assumption]).
  assert (Lds : Forall (fun d => (d < 10)%N) ds) by (inversion L; assumption).
  destruct (z <? 0)%Z eqn:S.
  - etransitivity; [exact (decimal_text_exact true d0 ds B Lds)|]. cbv zeta. rewrite V. f_equal. lia.
  - etransitivity; [exact (decimal_text_exact false d0 ds B Lds)|]. cbv zeta. rewrite V. f_equal. lia.
Qed.

Theorem local_hex z : InputModel.BigIntegerFromString (Z_0xhex z) = Ok z.
Proof.
  destruct (N_hex_digits (Z.abs_N z)) as (ds & E & NE & L & V). unfold Z_0xhex. rewrite E.
  set (uds := map (fun d => (false, d)) ds).
  assert (M1 : map (hex_char false) ds = map (fun ud : bool * N => hex_char (fst ud) (snd ud)) uds)
    by (unfold uds; rewrite map_map; reflexivity).
  assert (M2 : map snd uds = ds) by (unfold uds; rewrite map_map; apply map_id).
  assert (NE' : uds <> []) by (unfold uds; destruct ds; [contradiction|discriminate]).
  assert (L' : Forall (fun ud : bool * N => (snd ud < 16)%N) uds).
  { unfold uds. clear -L. induction L; cbn [map]; constructor; assumption. }
  rewrite M1.
  destruct (z <? 0)%Z eqn:S.
  - etransitivity; [exact (hex_text_exact true uds NE' L')|]. cbv zeta. rewrite M2, V. f_equal. lia.
  - etransitivity; [exact (hex_text_exact false uds NE' L')|]. cbv zeta. rewrite M2, V. f_equal. lia.
Qed.

(* ================= the JSON round trip without a hypothesis on the parser ================= *)
Section RoundTripC19.
  Variable H : bytes -> bytes.
  Hypothesis H_len : forall x, length (H x) = 32%nat.
  Variable fs : bfloat -> jv.
  Variable s : serializer.
  Hypothesis Hmode : ts s = FormatAsFlatArrays \/ ts s = FormatAsObjects.
  Hypothesis Hbs : bs s <> Base64ByteSerializer.

  Theorem json_roundtrip_c19 :
    forall (children : list tcomp) (v : val),
      let c := root_of children in
      ser_ok s c = true -> widths_ok c = true -> tc_wf c = true -> tc_no_zero_len c = true ->
      well_typed (ty_of c) v = true -> weight_ok v ->
      exists j, SerializeJSON H fs NumericDefaultNameGenerator s (cv_of c v) = Ok j /\
                EncodeABIDataValues bifs19 children (ext_of j) = Ok (enc (ty_of c) v).
  Proof. exact (json_roundtrip H H_len fs s bifs19 bifs19_dec bifs19_hex Hmode Hbs). Qed.

  Theorem json_roundtrip_local :
    forall (children : list tcomp) (v : val),
      let c := root_of children in
      ser_ok s c = true -> widths_ok c = true -> tc_wf c = true -> tc_no_zero_len c = true ->
      well_typed (ty_of c) v = true -> weight_ok v ->
      exists j, SerializeJSON H fs NumericDefaultNameGenerator s (cv_of c v) = Ok j /\
                EncodeABIDataValues InputModel.BigIntegerFromString children (ext_of j) = Ok (enc (ty_of c) v).
  Proof. exact (json_roundtrip H H_len fs s InputModel.BigIntegerFromString local_dec local_hex Hmode Hbs). Qed.
End RoundTripC19.

(* ================= C02's integer theorems with C19's model plugged in ================= *)
(* what a number text denotes, from C19's specification: whenever the text is a spelling of the
   quantifier's classes for m * 10^e, z is that number *)
Definition D19 (t : bytes) (z : Z) : Prop := forall m e, ES.denotes t m e -> ES.sci_is m e z.

Theorem integers_exact_or_rejected_c19 e s m k x :
  (e = EInt \/ e = EUInt) -> tc_wf (int_tc e s m k) = true ->
  match EncodeABIDataValues bifs19 [int_tc e s m k] (XList [x]) with
  | Ok b => exists z, int_denotes D19 x z /\ in_range e m z /\ b = word z
  | Err _ => True
  | Panic => x = XBigInt None \/ exists sg, x = XBigFloat (BInf sg)
  end.
Proof.
  exact (integers_exact_or_rejected bifs19 D19
           (fun t z Hz m0 e0 D0 => EthTypes.ProofsNum.big_sound t m0 e0 z D0 Hz) bifs19_no_panic e s m k x).
Qed.

Theorem never_panics_c19 (params : list tcomp) (input : ext) :
  let root := root_of params in
  tc_wf root = true -> tc_no_fixed_point root = true -> ext_clean input = true ->
  match walkInput bifs19 root input with
  | Panic => False
  | Err _ => True
  | Ok x => weight_ok (val_of x) -> EncodeABIDataValues bifs19 params input <> Panic
  end.
Proof. exact (values_never_panic bifs19 bifs19_no_panic params input). Qed.

(* the texts the output serializer writes for z (base-10 as a JSON string or number, signed 0x-hex as
   a JSON string), given for a uint<M> / int<M> parameter: the word of z when z is in range, an
   error when it is not - no guard on the size of z *)
Definition rendered_input (x : ext) (z : Z) : Prop :=
  x = XStr (Z_dec z) \/ x = XJNum (Z_dec z) \/ x = XStr (Z_0xhex z).

Theorem rendered_integers_c19 e s m k x z :
  (e = EInt \/ e = EUInt) -> tc_wf (int_tc e s m k) = true -> rendered_input x z ->
  (in_range e m z -> EncodeABIDataValues bifs19 [int_tc e s m k] (XList [x]) = Ok (word z)) /\
  (~ in_range e m z -> exists err, EncodeABIDataValues bifs19 [int_tc e s m k] (XList [x]) = Err err).
Proof.
  intros He W R.
  apply (integers_in_range_accepted_out_of_range_rejected bifs19 e s m k x z He W).
  destruct R as [-> | [-> | ->]]; cbn [int_read]; [apply bifs19_dec|apply bifs19_dec|apply bifs19_hex].
Qed.

(* summary used by the statements file: both executable models of BigIntegerFromString read both
   renderings of every integer back, and the renderings are spellings of C19's quantifier *)
Theorem parser_reads_renderings (z : Z) :
  EM.BigIntegerFromString (Z_dec z) = Ok z /\ EM.BigIntegerFromString (Z_0xhex z) = Ok z /\
  InputModel.BigIntegerFromString (Z_dec z) = Ok z /\ InputModel.BigIntegerFromString (Z_0xhex z) = Ok z /\
  ES.denotes (Z_dec z) z 0 /\ ((0 <= z)%Z -> ES.denotes (Z_0xhex z) z 0).
Proof.
  split; [exact (bifs19_dec z)|]. split; [exact (bifs19_hex z)|]. split; [exact (local_dec z)|].
  split; [exact (local_hex z)|]. split; [exact (Z_dec_denotes z)|exact (Z_0xhex_denotes z)].
Qed.
