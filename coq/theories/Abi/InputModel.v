(* Executable model of pkg/abi/inputparsing.go (external values -> ComponentValue tree) and of what it
   calls in pkg/ethtypes/integer_parsing.go (BigIntegerFromString, incl. the slice of math/big's
   SetString(s,0) and ParseFloat/Float.Int that it relies on).  No proofs in this file. *)
From Coq Require Import List NArith ZArith Bool Arith.
From Coq Require Import Init.Byte.
From FFS Require Import Base.Res Base.Bytes Abi.Types Abi.Spec Abi.ModelTypes Abi.EncModel.
Import ListNotations.

Definition EInvalidInteger := 6%nat.     (* MsgInvalidIntegerABIInput *)
Definition EInvalidFloat := 7%nat.       (* MsgInvalidFloatABIInput *)
Definition EInvalidBool := 8%nat.        (* MsgInvalidBoolABIInput *)
Definition EInvalidString := 9%nat.      (* MsgInvalidStringABIInput *)
Definition EInvalidHex := 10%nat.        (* MsgInvalidHexABIInput *)
Definition EMustBeSlice := 11%nat.       (* MsgMustBeSliceABIInput *)
Definition EFixedLenMismatch := 12%nat.  (* MsgFixedLengthABIArrayMismatch *)
Definition ETupleArrayMismatch := 13%nat. (* MsgTupleABIArrayMismatch *)
Definition ETupleNotArrayOrMap := 14%nat. (* MsgTupleABINotArrayOrMap *)
Definition EMissingKey := 15%nat.        (* MsgMissingInputKeyABITuple *)
Definition EInvalidNumberString := 16%nat. (* MsgInvalidNumberString *)
Definition EPrecisionLoss := 17%nat.     (* MsgInvalidIntPrecisionLoss *)

(* ------------------------------------------------------------------------------------------------
   External values: what json.Decoder (UseNumber) produces, plus the Go values of the quantifier.
   ------------------------------------------------------------------------------------------------ *)
Inductive f64 :=
| F64 (mant exp : Z)         (* finite: mant * 2^exp *)
| F64Inf (neg : bool)
| F64NaN.

Inductive ikind := KInt64 | KInt32 | KInt16 | KInt8 | KInt | KUint64 | KUint32 | KUint16 | KUint8 | KUint.

Inductive ext :=
| XNil                          (* nil interface (JSON null) *)
| XJNum (t : bytes)             (* json.Number *)
| XStr (s : bytes)              (* string *)
| XBool (b : bool)
| XBigInt (z : option Z)        (* *big.Int; None = typed nil pointer *)
| XBigFloat (f : bfloat)        (* non-nil *big.Float *)
| XF64 (f : f64)                (* float64 *)
| XF32 (f : f64)                (* float32 (value given exactly) *)
| XInt (k : ikind) (z : Z)      (* Go sized integer, z within the range of k *)
| XBytes (b : bytes)            (* []byte *)
| XList (l : list ext)          (* []interface{} *)
| XMap (m : list (bytes * ext)) (* map[string]interface{}, keys distinct *)
| XOther.                       (* anything else (struct, chan, ...) *)

Section ext_ind'.
  Variable P : ext -> Prop.
  Hypothesis HNil : P XNil.
  Hypothesis HJNum : forall t, P (XJNum t).
  Hypothesis HStr : forall t, P (XStr t).
  Hypothesis HBool : forall b, P (XBool b).
  Hypothesis HBigInt : forall z, P (XBigInt z).
  Hypothesis HBigFloat : forall f, P (XBigFloat f).
  Hypothesis HF64 : forall f, P (XF64 f).
  Hypothesis HF32 : forall f, P (XF32 f).
  Hypothesis HInt : forall k z, P (XInt k z).
  Hypothesis HBytes : forall b, P (XBytes b).
  Hypothesis HList : forall l, Forall P l -> P (XList l).
  Hypothesis HMap : forall m, Forall (fun kv => P (snd kv)) m -> P (XMap m).
  Hypothesis HOther : P XOther.
  Fixpoint ext_ind' (x : ext) : P x :=
    match x with
    | XNil => HNil | XJNum t => HJNum t | XStr t => HStr t | XBool b => HBool b
    | XBigInt z => HBigInt z | XBigFloat f => HBigFloat f | XF64 f => HF64 f | XF32 f => HF32 f
    | XInt k z => HInt k z | XBytes b => HBytes b | XOther => HOther
    | XList l => HList l ((fix go (l : list ext) : Forall P l :=
                             match l with [] => Forall_nil P | y :: r => Forall_cons y (ext_ind' y) (go r) end) l)
    | XMap m => HMap m ((fix go (m : list (bytes * ext)) : Forall (fun kv => P (snd kv)) m :=
                           match m with
                           | [] => Forall_nil _
                           | kv :: r => Forall_cons kv (ext_ind' (snd kv)) (go r)
                           end) m)
    end.
End ext_ind'.

(* ------------------------------------------------------------------------------------------------
   math/big text scanning, as used by BigIntegerFromString
   ------------------------------------------------------------------------------------------------ *)
Definition bn (b : byte) : N := b2n b.

(* digit value for bases up to 36; 99 for a non-digit *)
Definition digit_val (b : byte) : N :=
  let c := bn b in
  if (48 <=? c)%N && (c <=? 57)%N then c - 48
  else if (97 <=? c)%N && (c <=? 122)%N then c - 97 + 10
  else if (65 <=? c)%N && (c <=? 90)%N then c - 65 + 10
  else 99.

Inductive prevk := PDot | PSep | PDig.

(* nat.scan digit loop without fractions (Int): returns (value, digit count, invalid-separator flag,
   prev, rest).  [sep] = underscores recognised (base argument 0). *)
Fixpoint scan_digits (base : N) (sep : bool) (s : bytes) (acc : N) (count : nat) (prev : prevk) (inval : bool)
  : N * nat * bool * prevk * bytes :=
  match s with
  | [] => (acc, count, inval, prev, [])
  | c :: r =>
      if sep && (bn c =? 95)%N then
        scan_digits base sep r acc count PSep (inval || match prev with PDig => false | _ => true end)
      else
        let d := digit_val c in
        if (base <=? d)%N then (acc, count, inval, prev, s)
        else scan_digits base sep r (acc * base + d)%N (S count) PDig inval
  end.

Definition is_b (c : byte) (n : N) : bool := (bn c =? n)%N.

(* big.Int.SetString(s, 0): Some z when accepted *)
Definition set_string0 (s : bytes) : option Z :=
  let '(neg, s1) :=
    match s with
    | c :: r => if is_b c 45 then (true, r) else if is_b c 43 then (false, r) else (false, s)
    | [] => (false, s)
    end in
  let finish (res : N * nat * bool * prevk * bytes) (octal_prefix : bool) : option Z :=
    let '(acc, count, inval, prev, rest) := res in
    let sep_err := inval || match prev with PSep => true | _ => false end in
    if sep_err then None
    else if (count =? 0)%nat then
      (* no digits: only the "0" octal prefix counts as the number 0 *)
      if octal_prefix then match rest with [] => Some 0%Z | _ => None end else None
    else match rest with
         | [] => Some (if neg then - Z.of_N acc else Z.of_N acc)%Z
         | _ => None
         end in
  match s1 with
  | [] => None
  | c0 :: r0 =>
      if is_b c0 48 then
        match r0 with
        | [] => Some 0%Z
        | c1 :: r1 =>
            if is_b c1 98 || is_b c1 66 then finish (scan_digits 2 true r1 0 0 PDig false) false
            else if is_b c1 111 || is_b c1 79 then finish (scan_digits 8 true r1 0 0 PDig false) false
            else if is_b c1 120 || is_b c1 88 then finish (scan_digits 16 true r1 0 0 PDig false) false
            else finish (scan_digits 8 true r0 0 0 PDig false) true
        end
      else finish (scan_digits 10 true s1 0 0 PDot false) false
  end.

(* decimal mantissa with an optional radix point (nat.scan, base 10, fracOk): value of all digits,
   digit count, number of digits after the point, whether a point was seen, rest *)
Fixpoint scan_mant10 (s : bytes) (acc : N) (count : nat) (frac : nat) (dot : bool) : N * nat * nat * bytes :=
  match s with
  | [] => (acc, count, frac, [])
  | c :: r =>
      if is_b c 46 && negb dot then scan_mant10 r acc count frac true
      else
        let d := digit_val c in
        if (10 <=? d)%N then (acc, count, frac, s)
        else scan_mant10 r (acc * 10 + d)%N (S count) (if dot then S frac else frac) dot
  end.

Fixpoint scan_dec (s : bytes) (acc : N) (count : nat) : N * nat * bytes :=
  match s with
  | [] => (acc, count, [])
  | c :: r => let d := digit_val c in
              if (10 <=? d)%N then (acc, count, s) else scan_dec r (acc * 10 + d)%N (S count)
  end.

(* scanExponent(r, base2ok = true, sepOk = false): Some (exponent, base-2?, rest); None on error.
   Exponents beyond int64 are an error (strconv.ParseInt). *)
Definition scan_exponent (s : bytes) : option (Z * bool * bytes) :=
  match s with
  | [] => Some (0%Z, false, [])
  | c :: r =>
      let e10 := is_b c 101 || is_b c 69 in
      let e2 := is_b c 112 || is_b c 80 in
      if negb (e10 || e2) then Some (0%Z, false, s)
      else
        let '(neg, r1) :=
          match r with
          | c1 :: r' => if is_b c1 45 then (true, r') else if is_b c1 43 then (false, r') else (false, r)
          | [] => (false, r)
          end in
        let '(v, count, rest) := scan_dec r1 0 0 in
        if (count =? 0)%nat then None
        else
          let z := (if neg then - Z.of_N v else Z.of_N v)%Z in
          if (z <? - 2 ^ 63)%Z || (2 ^ 63 <=? z)%Z then None
          else Some (z, e2, rest)
  end.

(* correctly rounded quotient (mx * 2^ex) / (my * 2^ey), mx >= 0, my > 0, to [prec] bits *)
Definition bf_quo_pos (mx ex my ey : Z) (prec : N) : Z * Z :=
  if (mx =? 0)%Z then (0%Z, 0%Z)
  else
    let s := Z.max 0 (Z.of_N prec + 2 + bitlen my - bitlen mx) in
    let num := Z.shiftl mx s in
    let q := (num / my)%Z in
    let r := (num mod my)%Z in
    let q2 := (2 * q + (if (r =? 0)%Z then 0 else 1))%Z in
    bf_round q2 (ex - ey - s - 1) prec.

(* (new Float with precision P).pow5(n): table up to 5^27, then square-and-multiply with the
   multiplier kept at P + 64 bits and every product rounded *)
Fixpoint pow5_loop (fuel : nat) (n : N) (z f : Z * Z) (P : N) : Z * Z :=
  match fuel with
  | O => z
  | S fuel' =>
      if (n =? 0)%N then z
      else
        let z' := if N.odd n then bf_round (fst z * fst f) (snd z + snd f) P else z in
        let f' := bf_round (fst f * fst f) (snd f + snd f) (P + 64) in
        pow5_loop fuel' (N.div2 n) z' f' P
  end.
Definition pow5 (P : N) (n : N) : Z * Z :=
  if (n <=? 27)%N then (5 ^ Z.of_N n, 0)%Z
  else pow5_loop 64 (n - 27) (5 ^ 27, 0)%Z (5, 0)%Z P.

Definition MaxExp : Z := 2147483647.
Definition MinExp : Z := (-2147483648).

(* syntax part of Float.scan for base 10 (sign, decimal mantissa with optional point, exponent):
   Some (negative?, all mantissa digits as a number, digits after the point, exponent, exponent is
   binary ('p')?, rest); None on a syntax error *)
Definition float_syntax10 (s : bytes) : option (bool * N * nat * Z * bool * bytes) :=
  let '(neg, s1) :=
    match s with
    | c :: r => if is_b c 45 then (true, r) else if is_b c 43 then (false, r) else (false, s)
    | [] => (false, s)
    end in
  let '(m, count, frac, rest) := scan_mant10 s1 0 0 0 false in
  if (count =? 0)%nat then None
  else
    match scan_exponent rest with
    | None => None
    | Some (e, base2, rest') => Some (neg, m, frac, e, base2, rest')
    end.

(* the exponent range check of Float.scan (on the normalised binary exponent); zero passes *)
Definition float_exp_ok (m : N) (frac : nat) (e : Z) : bool :=
  (m =? 0)%N ||
  (let e2n := (bitlen (Z.of_N m) - Z.of_nat frac + e)%Z in (MinExp <=? e2n)%Z && (e2n <=? MaxExp)%Z).

(* Float.scan for base 10 (and base 0 restricted to decimal literals) with precision [prec]: the
   rounded result (negative?, mantissa, exponent, rest).  Mantissa 0 stands for zero. *)
Definition float_scan10 (s : bytes) (prec : N) : option (bool * Z * Z * bytes) :=
  match float_syntax10 s with
  | None => None
  | Some (neg, m, frac, e, base2, rest') =>
      if (m =? 0)%N then Some (neg, 0%Z, 0%Z, rest')
      else if negb (float_exp_ok m frac e) then None
      else
        let mz := Z.of_N m in
        let d := (- Z.of_nat frac)%Z in
        let exp5 := if base2 then d else (d + e)%Z in
        let exp2 := (d + e)%Z in
        if (exp5 =? 0)%Z then
          let '(m', e') := bf_round mz exp2 prec in Some (neg, m', e', rest')
        else if (exp5 <? 0)%Z then
          let p := pow5 (prec + 64) (Z.to_N (- exp5)) in
          let '(m', e') := bf_quo_pos mz exp2 (fst p) (snd p) prec in Some (neg, m', e', rest')
        else
          let p := pow5 (prec + 64) (Z.to_N exp5) in
          let '(m', e') := bf_round (mz * fst p) (exp2 + snd p) prec in Some (neg, m', e', rest')
  end.

Definition is_inf_text (s : bytes) : option bool :=
  let low (c : byte) (l u : N) := is_b c l || is_b c u in
  match s with
  | [a; b; c] => if low a 105%N 73%N && is_b b 110 && is_b c 102 then Some false else None
  | [sg; a; b; c] =>
      if (is_b sg 43 || is_b sg 45) && low a 105%N 73%N && is_b b 110 && is_b c 102 then Some (is_b sg 45) else None
  | _ => None
  end.

(* Float.Parse(s, 10) at precision prec: the whole string must be consumed *)
Definition float_parse10 (s : bytes) (prec : N) : option bfloat :=
  match is_inf_text s with
  | Some ng => Some (BInf ng)
  | None =>
      match float_scan10 s prec with
      | Some (neg, m, e, []) => Some (BFin (if neg then - m else m)%Z e prec)
      | _ => None
      end
  end.

(* does big.ParseFloat(s, 10, 256, ToNearestEven) return without error?  (the syntax gate of the
   repaired BigIntegerFromString) *)
Definition parse_float10_ok (s : bytes) : bool :=
  match is_inf_text s with
  | Some _ => true
  | None =>
      match float_syntax10 s with
      | Some (_, m, frac, e, _, []) => float_exp_ok m frac e
      | _ => false
      end
  end.

(* new(big.Rat).SetString(s) followed by IsInt / Num, for texts that passed the gate: the exact value
   mant * 10^(e - frac) (or mant * 10^-frac * 2^e for a 'p' exponent); refused when a decimal
   exponent exceeds 1e6 or a binary one 1e7 in magnitude, for infinities, and when not integral *)
Definition rat_int_value (s : bytes) : option Z :=
  match is_inf_text s with
  | Some _ => None
  | None =>
      match float_syntax10 s with
      | Some (neg, m, frac, e, base2, []) =>
          if (m =? 0)%N then Some 0%Z
          else
            let d := (- Z.of_nat frac)%Z in
            let exp5 := if base2 then d else (d + e)%Z in
            let exp2 := (d + e)%Z in
            if (1000000 <? Z.abs exp5)%Z || (10000000 <? Z.abs exp2)%Z then None
            else
              let num := (Z.of_N m * 5 ^ Z.max exp5 0 * 2 ^ Z.max exp2 0)%Z in
              let den := (5 ^ Z.max (- exp5) 0 * 2 ^ Z.max (- exp2) 0)%Z in
              if (num mod den =? 0)%Z then Some (if neg then - (num / den) else num / den)%Z else None
      | _ => None
      end
  end.

(* ethtypes.BigIntegerFromString (as repaired by the D19a fix: exact value or error) *)
Definition BigIntegerFromString (s : bytes) : res Z :=
  match set_string0 s with
  | Some z => Ok z
  | None =>
      if negb (parse_float10_ok s) then Err EInvalidNumberString
      else match rat_int_value s with
           | Some z => Ok z
           | None => Err EPrecisionLoss
           end
  end.

(* ------------------------------------------------------------------------------------------------
   inputparsing.go: readers
   ------------------------------------------------------------------------------------------------ *)

(* getIntegerFromFloat64 (after the D02a fix): the integer part, exactly; NaN and infinities refused *)
Definition getIntegerFromFloat64 (f : f64) : res gval :=
  match f with
  | F64 m e => Ok (GBigInt (bf_trunc m e))
  | _ => Err EInvalidInteger
  end.

(* the string behind a value of string kind (getStringIfConvertible): string and json.Number *)
Definition string_if_convertible (v : ext) : option bytes :=
  match v with XStr s | XJNum s => Some s | _ => None end.

Definition wrap_err {A} (r : res A) (e : nat) : res A :=
  match r with Ok a => Ok a | Err _ => Err e | Panic => Panic end.

(* From here on the text parser of pkg/ethtypes is a parameter [bifs] (external to pkg/abi): the
   evaluator plugs in [BigIntegerFromString] above, the theorems quantify over it with explicit laws. *)
Section WithParser.
Variable bifs : bytes -> res Z.

Definition getIntegerFromInterface (v : ext) : res gval :=
  match v with
  | XJNum t | XStr t => do z <- wrap_err (bifs t) EInvalidInteger; Ok (GBigInt z)
  | XBigFloat (BFin m e _) => Ok (GBigInt (bf_trunc m e))
  | XBigFloat (BInf _) => Ok GBigIntNil
  | XBigInt (Some z) => Ok (GBigInt z)
  | XBigInt None => Ok GBigIntNil
  | XF64 f | XF32 f => getIntegerFromFloat64 f
  | XInt _ z => Ok (GBigInt z)
  | _ => Err EInvalidInteger
  end.

(* float64(x) for a Go integer: nearest even at 53 bits *)
Definition f64_of_int (z : Z) : Z * Z := bf_round z 0 53.

Definition getFloatFromInterface (v : ext) : res gval :=
  match v with
  | XStr t | XJNum t =>
      match float_parse10 t 64 with
      | Some f => Ok (GBigFloat f)
      | None => Err EInvalidFloat
      end
  | XBigFloat f => Ok (GBigFloat f)
  | XBigInt (Some z) => Ok (GBigFloat (BFin z 0 (bf_setint_prec z)))
  | XBigInt None => Panic
  | XF64 (F64 m e) | XF32 (F64 m e) => Ok (GBigFloat (BFin m e 53))
  | XF64 (F64Inf s) | XF32 (F64Inf s) => Ok (GBigFloat (BInf s))
  | XF64 F64NaN | XF32 F64NaN => Panic                     (* SetFloat64(NaN) panics with ErrNaN *)
  | XInt _ z => let '(m, e) := f64_of_int z in Ok (GBigFloat (BFin m e 53))
  | _ => Err EInvalidFloat
  end.

Definition lower (b : byte) : byte :=
  let c := bn b in if (65 <=? c)%N && (c <=? 90)%N then n2b (c + 32) else b.
Definition true_text : bytes := [x74; x72; x75; x65].
(* strings.EqualFold(s, "true"): none of t, r, u, e has a non-ASCII simple fold *)
Definition equal_fold_true (s : bytes) : bool := bytes_eqb (map lower s) true_text.

Definition big_of_bool (b : bool) : gval := GBigInt (if b then 1 else 0)%Z.

Definition getBoolAsUnsignedIntegerFromInterface (v : ext) : res gval :=
  match v with
  | XBool b => Ok (big_of_bool b)
  | XStr s | XJNum s => Ok (big_of_bool (equal_fold_true s))
  | _ => Err EInvalidBool
  end.

Definition getStringFromInterface (v : ext) : res gval :=
  match v with
  | XStr s | XJNum s => Ok (GString s)
  | XBytes b => Ok (GString b)
  | _ => Err EInvalidString
  end.

Definition hex_val (b : byte) : option N :=
  let d := digit_val b in if (d <? 16)%N then Some d else None.
(* encoding/hex.DecodeString *)
Fixpoint hex_decode (s : bytes) : option bytes :=
  match s with
  | [] => Some []
  | a :: b :: r =>
      match hex_val a, hex_val b, hex_decode r with
      | Some x, Some y, Some t => Some (n2b (x * 16 + y) :: t)
      | _, _, _ => None
      end
  | _ => None
  end.
Definition trim_0x (s : bytes) : bytes :=
  match s with a :: b :: r => if is_b a 48 && is_b b 120 then r else s | _ => s end.

Definition getBytesFromInterface_b (v : ext) : res bytes :=
  match v with
  | XBytes b => Ok b
  | XStr s | XJNum s => match hex_decode (trim_0x s) with Some b => Ok b | None => Err EInvalidHex end
  | _ => Err EInvalidHex
  end.
Definition getBytesFromInterface (v : ext) : res gval :=
  do b <- getBytesFromInterface_b v; Ok (GBytes b).

(* big.Int.SetBytes *)
Definition of_be (b : bytes) : Z := fold_left (fun acc x => acc * 256 + Z.of_N (bn x))%Z b 0%Z.
Definition getUintBytesFromInterface (v : ext) : res gval :=
  do b <- getBytesFromInterface_b v; Ok (GBigInt (of_be b)).

Definition read_external (fn : reader_fn) (v : ext) : res gval :=
  match fn with
  | RdInteger => getIntegerFromInterface v
  | RdUintBytes => getUintBytesFromInterface v
  | RdBool => getBoolAsUnsignedIntegerFromInterface v
  | RdFloat => getFloatFromInterface v
  | RdBytes => getBytesFromInterface v
  | RdString => getStringFromInterface v
  end.

(* ------------------------------------------------------------------------------------------------
   inputparsing.go: the walk
   ------------------------------------------------------------------------------------------------ *)

(* reflect: Kind() == Slice, and getInterfaceArray *)
Definition as_slice (v : ext) : option (list ext) :=
  match v with
  | XList l => Some l
  | XBytes b => Some (map (fun x => XInt KUint8 (Z.of_N (bn x))) b)
  | _ => None
  end.

(* strconv.Itoa for an index *)
Fixpoint itoa_fuel (fuel : nat) (n : N) (acc : bytes) : bytes :=
  match fuel with
  | O => acc
  | S f => let acc' := n2b (48 + n mod 10) :: acc in
           if (n <? 10)%N then acc' else itoa_fuel f (n / 10) acc'
  end.
Definition itoa (n : nat) : bytes := itoa_fuel (S n) (N.of_nat n) [].

Fixpoint lookup (k : bytes) (m : list (bytes * ext)) : option ext :=
  match m with
  | [] => None
  | (k', v) :: r => if bytes_eqb k k' then Some v else lookup k r
  end.

Fixpoint walkInput (component : tcomp) (input : ext) {struct component} : res cval :=
  match component with
  | TCElem e _ _ _ _ =>
      (* readElementaryType *)
      do value <- read_external (reader_of e) input;
      Ok (CV (Some component) [] value)
  | TCFixedArr len child _ =>
      (* walkArrayInput *)
      match as_slice input with
      | None => Err EMustBeSlice
      | Some iArray =>
          if negb (Z.of_nat (length iArray) =? len)%Z then Err EFixedLenMismatch
          else
            do children <- (fix go (l : list ext) : res (list cval) :=
                              match l with
                              | [] => Ok []
                              | v :: r => do c <- walkInput child v; do cs <- go r; Ok (c :: cs)
                              end) iArray;
            Ok (CV (Some component) children GNil)
      end
  | TCDynArr child _ =>
      match as_slice input with
      | None => Err EMustBeSlice
      | Some iArray =>
          do children <- (fix go (l : list ext) : res (list cval) :=
                            match l with
                            | [] => Ok []
                            | v :: r => do c <- walkInput child v; do cs <- go r; Ok (c :: cs)
                            end) iArray;
          Ok (CV (Some component) children GNil)
      end
  | TCTuple tupleChildren _ =>
      (* walkTupleInput *)
      match as_slice input with
      | Some iArray =>
          (* walkTupleInputArray *)
          if negb (length iArray =? length tupleChildren)%nat then Err ETupleArrayMismatch
          else
            do children <- (fix go (ts : list tcomp) (l : list ext) {struct ts} : res (list cval) :=
                              match ts, l with
                              | t :: ts', v :: r => do c <- walkInput t v; do cs <- go ts' r; Ok (c :: cs)
                              | _, _ => Ok []
                              end) tupleChildren iArray;
            Ok (CV (Some component) children GNil)
      | None =>
          match input with
          | XMap iMap =>
              do children <- (fix go (ts : list tcomp) (i : nat) {struct ts} : res (list cval) :=
                                match ts with
                                | [] => Ok []
                                | t :: ts' =>
                                    let keyName := match tc_key t with [] => itoa i | k => k end in
                                    match lookup keyName iMap with
                                    | None => Err EMissingKey
                                    | Some v => do c <- walkInput t v; do cs <- go ts' (S i); Ok (c :: cs)
                                    end
                                end) tupleChildren 0%nat;
              Ok (CV (Some component) children GNil)
          | _ => Err ETupleNotArrayOrMap
          end
      end
  end.

(* ParameterArray.TypeComponentTreeCtx: the root tuple (no key name) *)
Definition root_of (params : list tcomp) : tcomp := TCTuple params [].

(* ParameterArray.EncodeABIDataValues / EncodeABIDataJSON after JSON decoding *)
Definition EncodeABIDataValues (params : list tcomp) (v : ext) : res bytes :=
  do cv <- walkInput (root_of params) v;
  EncodeABIData cv.

(* Entry.EncodeCallDataValues: selector (4 bytes, computed elsewhere) followed by the data *)
Definition EncodeCallDataValues (selector : bytes) (params : list tcomp) (v : ext) : res bytes :=
  do cv <- walkInput (root_of params) v;
  do d <- EncodeABIData cv;
  Ok (selector ++ d).

End WithParser.
