(* C12: the laws the entry-level theorems ask of the data codec, discharged for the decoder model of
   Abi/DecModel.v (b-c03), so that the theorems of Properties/C12.v apply to the instance that
   Abi/RunC12.v runs against the implementation. *)
From Coq Require Import List NArith ZArith Lia Bool Arith.
From Coq Require Import Init.Byte.
From FFS Require Import Base.Res Base.Bytes Abi.Types Abi.ModelTypes Abi.EntryModel Abi.EntrySpec.
From FFS Require Import Abi.EntryProofs Abi.EntryProofsEvent.
From FFS Require Abi.DecModel.
Import ListNotations.

Lemma walk_children_length block children : forall hs hp rd l,
  DecModel.walkDynamicChildArrayABIBytes block children hs hp = Ok (rd, l) -> length l = length children.
Proof.
  induction children as [|ch r IH]; intros hs hp rd l; cbn [DecModel.walkDynamicChildArrayABIBytes].
  - intros E; injection E as _ <-. reflexivity.
  - destruct (DecModel.decodeABIElement block ch hs hp) as [[n x]| |]; cbn [bind]; try discriminate.
    destruct (DecModel.walkDynamicChildArrayABIBytes block r hs (hp + n)%Z) as [[m xs]| |] eqn:Er; cbn [bind]; try discriminate.
    intros E; injection E as _ <-. cbn [length]. rewrite (IH _ _ _ _ Er). reflexivity.
Qed.

(* the tuple decoder returns one value per member *)
Theorem DecModel_decode_len : decode_len_law DecModel.DecodeABIData.
Proof.
  intros cs k b o c vs g. unfold DecModel.DecodeABIData, DecModel.walkTupleABIBytes.
  destruct (DecModel.walkDynamicChildArrayABIBytes b cs o o) as [[rd l]| |] eqn:Ew; cbn [bind]; try discriminate.
  intros E; injection E as _ <- _. exact (walk_children_length _ _ _ _ _ _ Ew).
Qed.

(* decoding an elementary value from a topic is decoding a one-member tuple whose block is the topic *)
Lemma topic_decode_is_tuple_decode topic (tc : tcomp) :
  match tc with TCElem _ _ _ _ _ => True | _ => False end ->
  DecModel.DecodeABIData (TCTuple [tc] []) topic 0%Z =
  do v <- DecModel.decode_elementary topic tc 0%Z 0%Z; Ok (CV (Some (TCTuple [tc] [])) [v] GNil).
Proof.
  destruct tc as [e s m n k| | |]; try contradiction. intros _.
  unfold DecModel.DecodeABIData, DecModel.walkTupleABIBytes.
  cbn [DecModel.walkDynamicChildArrayABIBytes DecModel.decodeABIElement].
  destruct (DecModel.decode_elementary topic (TCElem e s m n k) 0%Z 0%Z) as [v| |]; reflexivity.
Qed.

(* ------------------------------------------------------------------------------------------------
   Call data against the Solidity specification, through C02's theorem for the encoder model:
   EncodeCallData = selector ++ enc((T1,...,Tn), arguments).
   ------------------------------------------------------------------------------------------------ *)
From FFS Require Abi.EncModel Abi.EncProofs3 Abi.Spec.

Theorem calldata_is_spec (H : bytes -> bytes) :
  (forall m, length (H m) = 32%nat) ->
  forall (e : entry) (cs : list tcomp) (x : cval),
    tree_children (e_inputs e) = Ok cs -> all_suffix_canonical cs ->
    let tc := TCTuple cs [] in
    tc_wf tc = true -> tc_no_fixed_point tc = true -> tc_no_zero_len tc = true ->
    typed_as tc x = true -> EncProofs3.values_ok x = true ->
    Spec.well_typed (ty_of tc) (val_of x) = true -> EncProofs3.weight_ok (val_of x) ->
    EncodeCallData H EncModel.EncodeABIData e x =
      Ok (selector_spec H (e_name e) (map ty_of cs) ++ Spec.enc (TTuple (map ty_of cs)) (val_of x)).
Proof.
  intros Hlen e cs x Ht Hs tc Hwf Hnf Hnz Hty Hv Hwt Hw.
  unfold EncodeCallData. destruct (selector_is_spec H Hlen e cs Ht Hs) as [-> _]. cbn [bind].
  unfold EncModel.EncodeABIData.
  rewrite (EncProofs3.encode_is_spec x tc Hwf Hnf Hnz Hty Hv Hwt Hw). cbn [bind fst]. reflexivity.
Qed.
