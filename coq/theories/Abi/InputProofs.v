(* Proofs about the input walk (Abi/InputModel.v) and its composition with the encoder: the walk builds
   trees of the shape the encoder theorem needs; encoding never panics; integers are exact or rejected
   for every external representation; arity errors; fixed-point refutations. *)
From Coq Require Import List NArith ZArith Bool Arith Lia.
From Coq Require Import ZifyNat ZifyN ZifyBool.
From Coq Require Import Init.Byte.
From FFS Require Import Base.Res Base.Bytes Abi.Types Abi.Spec Abi.ModelTypes Abi.EncModel Abi.InputModel.
From FFS Require Import Abi.EncProofs Abi.EncProofs2 Abi.EncProofs3 Abi.EncProofs4.
Import ListNotations.

(* ---------- reflexivity of the component equality ---------- *)

Lemma bytes_eqb_refl b : bytes_eqb b b = true.
Proof. destruct (bytes_eqb_spec b b); [reflexivity|contradiction]. Qed.

Lemma tcomp_eqb_refl t : tcomp_eqb t t = true.
Proof.
  induction t as [e s m n k|len c k IH|c k IH|l k IH] using tcomp_ind'; cbn [tcomp_eqb].
  - rewrite !bytes_eqb_refl, !N.eqb_refl. destruct e; reflexivity.
  - rewrite Z.eqb_refl, IH, bytes_eqb_refl. reflexivity.
  - rewrite IH, bytes_eqb_refl. reflexivity.
  - rewrite bytes_eqb_refl, andb_true_r. induction IH as [|x r Hx _ IHr]; [reflexivity|]. rewrite Hx, IHr. reflexivity.
Qed.

(* ---------- inputs without typed-nil pointers and infinities ---------- *)

Fixpoint ext_clean (x : ext) : bool :=
  match x with
  | XBigInt None => false
  | XBigFloat (BInf _) => false
  | XF64 F64NaN | XF32 F64NaN => false
  | XList l => forallb ext_clean l
  | XMap m => forallb (fun kv => ext_clean (snd kv)) m
  | _ => true
  end.

Section Walk.
Variable bifs : bytes -> res Z.

Lemma read_kind_ok e v g : ext_clean v = true -> read_external bifs (reader_of e) v = Ok g -> value_kind_ok e g = true.
Proof.
  intros C H. unfold value_kind_ok.
  destruct e; cbn [reader_of read_external] in *.
  - (* int *) unfold getIntegerFromInterface in H.
    destruct v as [| t | t | b | [z|] | [m0 e0 p|s] | [m0 e0|s|] | [m0 e0|s|] | k z | b | l | m0 |]; try discriminate; cbn [ext_clean] in C; try discriminate;
      try (destruct (bifs t); cbn [wrap_err bind] in H; try discriminate); injection H as <-; reflexivity.
  - unfold getIntegerFromInterface in H.
    destruct v as [| t | t | b | [z|] | [m0 e0 p|s] | [m0 e0|s|] | [m0 e0|s|] | k z | b | l | m0 |]; try discriminate; cbn [ext_clean] in C; try discriminate;
      try (destruct (bifs t); cbn [wrap_err bind] in H; try discriminate); injection H as <-; reflexivity.
  - unfold getUintBytesFromInterface in H. destruct (getBytesFromInterface_b v); cbn [bind] in H; try discriminate. injection H as <-. reflexivity.
  - unfold getBoolAsUnsignedIntegerFromInterface in H. destruct v; try discriminate; injection H as <-; unfold big_of_bool; reflexivity.
  - unfold getFloatFromInterface in H.
    destruct v as [| t | t | b | [z|] | f | [m0 e0|s|] | [m0 e0|s|] | k z | b | l | m0 |]; try discriminate; cbn [ext_clean] in C; try discriminate;
      try (destruct (float_parse10 t 64); try discriminate); try (destruct (f64_of_int z)); injection H as <-; reflexivity.
  - unfold getFloatFromInterface in H.
    destruct v as [| t | t | b | [z|] | f | [m0 e0|s|] | [m0 e0|s|] | k z | b | l | m0 |]; try discriminate; cbn [ext_clean] in C; try discriminate;
      try (destruct (float_parse10 t 64); try discriminate); try (destruct (f64_of_int z)); injection H as <-; reflexivity.
  - unfold getBytesFromInterface in H. destruct (getBytesFromInterface_b v); cbn [bind] in H; try discriminate. injection H as <-. reflexivity.
  - unfold getBytesFromInterface in H. destruct (getBytesFromInterface_b v); cbn [bind] in H; try discriminate. injection H as <-. reflexivity.
  - unfold getStringFromInterface in H. destruct v; try discriminate; injection H as <-; reflexivity.
Qed.

Lemma as_slice_clean v l : ext_clean v = true -> as_slice v = Some l -> forallb ext_clean l = true.
Proof.
  destruct v; cbn [as_slice]; try discriminate; intros C H; injection H as <-.
  - clear C. induction b as [|x r IH]; [reflexivity|]. cbn [map forallb ext_clean]. exact IH.
  - exact C.
Qed.

Lemma lookup_clean k m v : forallb (fun kv => ext_clean (snd kv)) m = true -> lookup k m = Some v -> ext_clean v = true.
Proof.
  induction m as [|[k' v'] r IH]; cbn [lookup forallb snd]; [discriminate|]. intros C H.
  apply andb_prop in C as [C1 C2]. destruct (bytes_eqb k k'); [injection H as <-; exact C1|apply IH; assumption].
Qed.

(* the walk builds a tree shaped like the component tree, every elementary node holding the Go type
   its reader returns *)
Definition walk_shape (tc : tcomp) : Prop :=
  forall input x, walkInput bifs tc input = Ok x -> typed_as tc x = true /\ (ext_clean input = true -> values_ok x = true).

Lemma walk_array_children child (IH : walk_shape child) l cs :
  (fix go (l : list ext) : res (list cval) :=
     match l with
     | [] => Ok []
     | v :: r => do c <- walkInput bifs child v; do cs <- go r; Ok (c :: cs)
     end) l = Ok cs ->
  forallb (typed_as child) cs = true /\ (forallb ext_clean l = true -> forallb values_ok cs = true).
Proof.
  revert cs. induction l as [|v r IHr]; intros cs H.
  - injection H as <-. split; reflexivity.
  - destruct (walkInput bifs child v) as [a| |] eqn:E; cbn [bind] in H; try discriminate.
    match type of H with (do cs0 <- ?G; _) = _ => destruct G as [l'| |] eqn:E2 end; cbn [bind] in H; try discriminate.
    injection H as <-. destruct (IH v a E) as [T V]. destruct (IHr l' eq_refl) as [T' V'].
    cbn [forallb]. rewrite T, T'. split; [reflexivity|]. intros C. apply andb_prop in C as [C1 C2]. rewrite V, V' by assumption. reflexivity.
Qed.

Lemma walkInput_shape tc : walk_shape tc.
Proof.
  induction tc as [e s m n k|len c k IH|c k IH|ts k IH] using tcomp_ind'; intros input x H; cbn [walkInput] in H.
  - destruct (read_external bifs (reader_of e) input) eqn:E; cbn [bind] in H; try discriminate. injection H as <-.
    cbn [typed_as opt_tcomp_eqb values_ok]. rewrite tcomp_eqb_refl. split; [reflexivity|]. intros C. eapply read_kind_ok; eassumption.
  - destruct (as_slice input) as [iArray|] eqn:SL; [|discriminate].
    destruct (negb (Z.of_nat (length iArray) =? len)%Z); [discriminate|].
    match type of H with (do cs0 <- ?G; _) = _ => destruct G as [a| |] eqn:E2 end; cbn [bind] in H; try discriminate.
    injection H as <-. destruct (walk_array_children c IH iArray a E2) as [T V].
    cbn [typed_as opt_tcomp_eqb values_ok]. rewrite tcomp_eqb_refl, T. split; [reflexivity|].
    intros C. apply V. eapply as_slice_clean; eassumption.
  - destruct (as_slice input) as [iArray|] eqn:SL; [|discriminate].
    match type of H with (do cs0 <- ?G; _) = _ => destruct G as [a| |] eqn:E2 end; cbn [bind] in H; try discriminate.
    injection H as <-. destruct (walk_array_children c IH iArray a E2) as [T V].
    cbn [typed_as opt_tcomp_eqb values_ok]. rewrite tcomp_eqb_refl, T. split; [reflexivity|].
    intros C. apply V. eapply as_slice_clean; eassumption.
  - destruct (as_slice input) as [iArray|] eqn:SL.
    + destruct (negb (length iArray =? length ts)%nat) eqn:LE; [discriminate|].
      apply negb_false_iff in LE. apply Nat.eqb_eq in LE.
      match type of H with (do cs0 <- ?G; _) = _ => destruct G as [a| |] eqn:E2 end; cbn [bind] in H; try discriminate.
      injection H as <-. rewrite typed_as_tuple. cbn [opt_tcomp_eqb values_ok]. rewrite tcomp_eqb_refl. cbn [andb].
      pose proof (as_slice_clean input iArray) as CL. rewrite SL in CL.
      assert (G : tuple_typed_as ts a = true /\ (forallb ext_clean iArray = true -> forallb values_ok a = true)).
      { clear SL CL. revert iArray a LE E2. induction IH as [|t r Ht _ IHr]; intros [|v l] a LE E2; try discriminate.
        - injection E2 as <-. split; reflexivity.
        - destruct (walkInput bifs t v) as [a0| |] eqn:E; cbn [bind] in E2; try discriminate.
          match type of E2 with (do cs0 <- ?G; _) = _ => destruct G as [l0| |] eqn:E3 end; cbn [bind] in E2; try discriminate.
          injection E2 as <-. destruct (Ht v a0 E) as [T V]. cbn [length] in LE. destruct (IHr l l0 ltac:(lia) E3) as [T' V'].
          cbn [tuple_typed_as forallb]. rewrite T, T'. split; [reflexivity|]. intros C. apply andb_prop in C as [C1 C2].
          rewrite V, V' by assumption. reflexivity. }
      destruct G as [T V]. split; [exact T|]. intros C. apply V. apply CL; [exact C|reflexivity].
    + destruct input; try discriminate. cbn [as_slice] in SL.
      match type of H with (do cs0 <- ?G; _) = _ => destruct G as [a| |] eqn:E2 end; cbn [bind] in H; try discriminate.
      injection H as <-. rewrite typed_as_tuple. cbn [opt_tcomp_eqb values_ok ext_clean]. rewrite tcomp_eqb_refl. cbn [andb].
      assert (G : forall i, (fix go (ts : list tcomp) (i : nat) {struct ts} : res (list cval) :=
                    match ts with
                    | [] => Ok []
                    | t :: ts' =>
                        let keyName := match tc_key t with [] => itoa i | k :: l => k :: l end in
                        match lookup keyName m with
                        | None => Err EMissingKey
                        | Some v => do c <- walkInput bifs t v; do cs <- go ts' (S i); Ok (c :: cs)
                        end
                    end) ts i = Ok a ->
                  tuple_typed_as ts a = true /\ (forallb (fun kv => ext_clean (snd kv)) m = true -> forallb values_ok a = true)).
      { clear E2. revert a. induction IH as [|t r Ht _ IHr]; intros a i E2.
        - injection E2 as <-. split; reflexivity.
        - cbv zeta in E2. destruct (lookup _ m) as [v|] eqn:LK; [|discriminate].
          destruct (walkInput bifs t v) as [a0| |] eqn:E; cbn [bind] in E2; try discriminate.
          match type of E2 with (do cs0 <- ?G; _) = _ => destruct G as [l0| |] eqn:E3 end; cbn [bind] in E2; try discriminate.
          injection E2 as <-. destruct (Ht v a0 E) as [T V]. destruct (IHr l0 (S i) E3) as [T' V'].
          cbn [tuple_typed_as forallb]. rewrite T, T'. split; [reflexivity|]. intros C.
          rewrite V, V'; [reflexivity|exact C|]. eapply lookup_clean; eassumption. }
      apply (G 0%nat). exact E2.
Qed.

(* ---------- the walk never panics on types without fixed-point leaves ---------- *)

Hypothesis bifs_no_panic : forall s, bifs s <> Panic.

Lemma read_no_panic e v : (e <> EFixed /\ e <> EUFixed) -> read_external bifs (reader_of e) v <> Panic.
Proof.
  intros [N1 N2]. destruct e; try contradiction; cbn [reader_of read_external].
  - unfold getIntegerFromInterface.
    destruct v as [| t | t | b | [z|] | [m0 e0 p|s] | [m0 e0|s|] | [m0 e0|s|] | k z | b | l | m0 |]; try discriminate;
      pose proof (bifs_no_panic t); destruct (bifs t); cbn [wrap_err bind]; congruence.
  - unfold getIntegerFromInterface.
    destruct v as [| t | t | b | [z|] | [m0 e0 p|s] | [m0 e0|s|] | [m0 e0|s|] | k z | b | l | m0 |]; try discriminate;
      pose proof (bifs_no_panic t); destruct (bifs t); cbn [wrap_err bind]; congruence.
  - unfold getUintBytesFromInterface, getBytesFromInterface_b. destruct v; try discriminate; cbn [bind]; destruct (hex_decode _); discriminate.
  - unfold getBoolAsUnsignedIntegerFromInterface. destruct v; discriminate.
  - unfold getBytesFromInterface, getBytesFromInterface_b. destruct v; try discriminate; cbn [bind]; destruct (hex_decode _); discriminate.
  - unfold getBytesFromInterface, getBytesFromInterface_b. destruct v; try discriminate; cbn [bind]; destruct (hex_decode _); discriminate.
  - unfold getStringFromInterface. destruct v; discriminate.
Qed.

Lemma walkInput_no_panic tc : tc_no_fixed_point tc = true -> forall input, walkInput bifs tc input <> Panic.
Proof.
  induction tc as [e s m n k|len c k IH|c k IH|ts k IH] using tcomp_ind'; intros NF input; cbn [walkInput]; cbn [tc_no_fixed_point] in NF.
  - pose proof (read_no_panic e input) as R.
    destruct (read_external bifs (reader_of e) input); cbn [bind]; try discriminate.
    exfalso. apply R; [|reflexivity]. destruct e; try discriminate; split; discriminate.
  - destruct (as_slice input) as [iArray|]; [|discriminate].
    destruct (negb _); [discriminate|].
    assert (G : (fix go (l : list ext) : res (list cval) :=
                   match l with [] => Ok [] | v :: r => do c0 <- walkInput bifs c v; do cs <- go r; Ok (c0 :: cs) end) iArray <> Panic).
    { induction iArray as [|v r IHr]; [discriminate|]. pose proof (IH NF v).
      destruct (walkInput bifs c v); cbn [bind]; try congruence.
      match goal with |- (do cs <- ?G; _) <> _ => destruct G end; cbn [bind]; congruence. }
    match goal with |- (do cs <- ?G; _) <> _ => destruct G end; cbn [bind]; congruence.
  - destruct (as_slice input) as [iArray|]; [|discriminate].
    assert (G : (fix go (l : list ext) : res (list cval) :=
                   match l with [] => Ok [] | v :: r => do c0 <- walkInput bifs c v; do cs <- go r; Ok (c0 :: cs) end) iArray <> Panic).
    { induction iArray as [|v r IHr]; [discriminate|]. pose proof (IH NF v).
      destruct (walkInput bifs c v); cbn [bind]; try congruence.
      match goal with |- (do cs <- ?G; _) <> _ => destruct G end; cbn [bind]; congruence. }
    match goal with |- (do cs <- ?G; _) <> _ => destruct G end; cbn [bind]; congruence.
  - destruct (as_slice input) as [iArray|].
    + destruct (negb _); [discriminate|].
      assert (G : forall l, (fix go (ts : list tcomp) (l : list ext) {struct ts} : res (list cval) :=
                     match ts, l with
                     | t :: ts', v :: r => do c <- walkInput bifs t v; do cs <- go ts' r; Ok (c :: cs)
                     | _, _ => Ok []
                     end) ts l <> Panic).
      { induction IH as [|t r Ht _ IHr]; intros [|v l]; try discriminate.
        cbn [forallb] in NF. apply andb_prop in NF as [N1 N2]. pose proof (Ht N1 v). specialize (IHr N2 l).
        destruct (walkInput bifs t v); cbn [bind]; try congruence.
        match goal with |- (do cs <- ?G; _) <> _ => destruct G end; cbn [bind]; congruence. }
      specialize (G iArray). match goal with |- (do cs <- ?G; _) <> _ => destruct G end; cbn [bind]; congruence.
    + destruct input; try discriminate.
      assert (G : forall i, (fix go (ts : list tcomp) (i : nat) {struct ts} : res (list cval) :=
                    match ts with
                    | [] => Ok []
                    | t :: ts' =>
                        let keyName := match tc_key t with [] => itoa i | k :: l => k :: l end in
                        match lookup keyName m with
                        | None => Err EMissingKey
                        | Some v => do c <- walkInput bifs t v; do cs <- go ts' (S i); Ok (c :: cs)
                        end
                    end) ts i <> Panic).
      { induction IH as [|t r Ht _ IHr]; intros i; [discriminate|]. cbv zeta.
        cbn [forallb] in NF. apply andb_prop in NF as [N1 N2].
        destruct (lookup _ m) as [v|]; [|discriminate]. pose proof (Ht N1 v). specialize (IHr N2 (S i)).
        destruct (walkInput bifs t v); cbn [bind]; try congruence.
        match goal with |- (do cs <- ?G; _) <> _ => destruct G end; cbn [bind]; congruence. }
      specialize (G 0%nat). match goal with |- (do cs <- ?G; _) <> _ => destruct G end; cbn [bind]; congruence.
Qed.

(* ---------- composition with the encoder ---------- *)

Theorem values_encode_is_spec params input x :
  let root := root_of params in
  tc_wf root = true -> tc_no_fixed_point root = true -> tc_no_zero_len root = true ->
  ext_clean input = true ->
  walkInput bifs root input = Ok x ->
  well_typed (ty_of root) (val_of x) = true -> weight_ok (val_of x) ->
  EncodeABIDataValues bifs params input = Ok (enc (ty_of root) (val_of x)).
Proof.
  intros root W NF NZ C H WT WO. unfold EncodeABIDataValues. fold root. rewrite H. cbn [bind].
  destruct (walkInput_shape root input x H) as [T V]. unfold EncodeABIData.
  rewrite (encode_is_spec x root W NF NZ T (V C) WT WO). reflexivity.
Qed.

Theorem values_never_panic params input :
  let root := root_of params in
  tc_wf root = true -> tc_no_fixed_point root = true -> ext_clean input = true ->
  match walkInput bifs root input with
  | Panic => False
  | Err _ => True
  | Ok x => weight_ok (val_of x) -> EncodeABIDataValues bifs params input <> Panic
  end.
Proof.
  intros root W NF C. pose proof (walkInput_no_panic root NF input) as NP.
  destruct (walkInput bifs root input) as [x| |] eqn:H; [|exact I|congruence].
  intros WO. unfold EncodeABIDataValues. fold root. rewrite H. cbn [bind].
  destruct (walkInput_shape root input x H) as [T V]. unfold EncodeABIData.
  destruct (encode_total x root W NF T (V C) WO) as [(d & f & E & _)|[e E]]; rewrite E; discriminate.
Qed.

End Walk.

(* ---------- integers: exact or rejected, for every external representation ---------- *)

Definition in_range (e : ekind) (m : N) (z : Z) : Prop :=
  match e with
  | EInt => (- two (m - 1) <= z < two (m - 1))%Z
  | _ => (0 <= z < two m)%Z
  end.

(* the integer an external value stands for: a text denotes what the (external) parser law [D] says;
   Go integers and big.Int themselves; floats their integer part (see [bf_trunc_exact]: for an
   integral float that is the value itself) *)
Definition int_denotes (D : bytes -> Z -> Prop) (x : ext) (z : Z) : Prop :=
  match x with
  | XJNum s | XStr s => D s z
  | XBigInt (Some z') | XInt _ z' => z = z'
  | XF64 (F64 m e) | XF32 (F64 m e) | XBigFloat (BFin m e _) => z = bf_trunc m e
  | _ => False
  end.

(* for an integral dyadic number the truncation is the number: z = mant * 2^exp *)
Lemma bf_trunc_exact mant e : bf_is_int mant e = true ->
  if (0 <=? e)%Z then bf_trunc mant e = (mant * 2 ^ e)%Z else mant = (bf_trunc mant e * 2 ^ (- e))%Z.
Proof.
  unfold bf_is_int, bf_trunc. destruct (0 <=? e)%Z eqn:E; [reflexivity|]. cbn [orb]. intros H. apply Z.eqb_eq in H.
  apply Z.leb_gt in E. assert (0 < 2 ^ (- e))%Z by (apply Z.pow_pos_nonneg; lia).
  pose proof (Z.quot_rem' mant (2 ^ (- e))). lia.
Qed.

Section Integers.
Variable bifs : bytes -> res Z.

Definition int_tc (e : ekind) (s : bytes) (m : N) (k : bytes) : tcomp := TCElem e s m 0 k.

(* one integer parameter: the encoded parameter list is the word of the integer read, or an error *)
Lemma single_param_encode e s m k (z : Z) :
  (e = EInt \/ e = EUInt) -> tc_wf (int_tc e s m k) = true ->
  let root := root_of [int_tc e s m k] in
  (in_range e m z -> EncodeABIData (CV (Some root) [CV (Some (int_tc e s m k)) [] (GBigInt z)] GNil) = Ok (word z)) /\
  (~ in_range e m z -> exists err, EncodeABIData (CV (Some root) [CV (Some (int_tc e s m k)) [] (GBigInt z)] GNil) = Err err).
Proof.
  intros He W root. unfold tc_wf in W. apply andb_prop in W as [_ WF].
  assert (Wm : wf_m m) by (destruct He as [-> | ->]; exact (wf_uint_m m WF)).
  unfold EncodeABIData, root, root_of. cbn [encodeABIData]. split; intros R.
  - assert (E : encodeABIData (CV (Some (int_tc e s m k)) [] (GBigInt z)) = Ok (word z, false)).
    { cbn [encodeABIData int_tc]. destruct He as [-> | ->]; cbn [encoder_of encode_elementary in_range] in *.
      - apply signed_ok; assumption.
      - destruct Wm as (_ & ? & _). apply unsigned_ok; lia. }
    assert (P : pass1 encodeABIData [CV (Some (int_tc e s m k)) [] (GBigInt z)] = Ok [(word z, false)])
      by (cbn [pass1]; rewrite E; reflexivity).
    rewrite (children_layout _ _ _ _ _ P); [|cbn [hl tl]; rewrite word_length; unfold len_ok, two; simpl; lia|unfold len_ok, two; simpl; lia].
    cbn [bind fst app sw map snd]. unfold head_tail. cbn [heads tails flat_map fst snd app]. rewrite !app_nil_r. reflexivity.
  - assert (E : exists err, encodeABIData (CV (Some (int_tc e s m k)) [] (GBigInt z)) = Err err).
    { cbn [encodeABIData int_tc]. destruct He as [-> | ->]; cbn [encoder_of encode_elementary in_range] in *.
      - apply signed_rejects; assumption.
      - apply unsigned_rejects; assumption. }
    destruct E as [err E]. exists err. unfold encodeABIChildren. cbn [pass1]. rewrite E. reflexivity.
Qed.

Lemma single_param_walk e s m k x :
  walkInput bifs (root_of [int_tc e s m k]) (XList [x])
  = do value <- read_external bifs (reader_of e) x;
    Ok (CV (Some (root_of [int_tc e s m k])) [CV (Some (int_tc e s m k)) [] value] GNil).
Proof.
  unfold root_of. cbn [walkInput as_slice length Nat.eqb negb int_tc].
  destruct (read_external bifs (reader_of e) x); reflexivity.
Qed.

Variable D : bytes -> Z -> Prop.
Hypothesis bifs_sound : forall s z, bifs s = Ok z -> D s z.
Hypothesis bifs_no_panic : forall s, bifs s <> Panic.

Theorem integers_exact_or_rejected e s m k x :
  (e = EInt \/ e = EUInt) -> tc_wf (int_tc e s m k) = true ->
  match EncodeABIDataValues bifs [int_tc e s m k] (XList [x]) with
  | Ok b => exists z, int_denotes D x z /\ in_range e m z /\ b = word z
  | Err _ => True
  | Panic => x = XBigInt None \/ exists sg, x = XBigFloat (BInf sg)
  end.
Proof.
  intros He W. unfold EncodeABIDataValues. rewrite single_param_walk.
  assert (RD : reader_of e = RdInteger) by (destruct He as [-> | ->]; reflexivity). rewrite RD. cbn [read_external].
  assert (K : forall z, int_denotes D x z ->
              match (do cv <- Ok (CV (Some (root_of [int_tc e s m k])) [CV (Some (int_tc e s m k)) [] (GBigInt z)] GNil); EncodeABIData cv) with
              | Ok b => exists z0, int_denotes D x z0 /\ in_range e m z0 /\ b = word z0
              | Err _ => True
              | Panic => x = XBigInt None \/ (exists sg, x = XBigFloat (BInf sg))
              end).
  { intros z Dz. cbn [bind]. destruct (single_param_encode e s m k z He W) as [A B].
    assert (Dec : in_range e m z \/ ~ in_range e m z) by (unfold in_range; destruct e; lia).
    destruct Dec as [R|R]; [rewrite (A R); exists z; auto|destruct (B R) as [err ->]; exact I]. }
  unfold getIntegerFromInterface.
  destruct x as [| t | t | b | [z|] | [m0 e0 p|sg] | [m0 e0|sg|] | [m0 e0|sg|] | kk z | b | l | m0 |]; cbn [bind wrap_err getIntegerFromFloat64]; try exact I.
  - pose proof (bifs_sound t) as S. pose proof (bifs_no_panic t) as NP. destruct (bifs t); cbn [wrap_err bind]; [apply K; cbn [int_denotes]; auto|exact I|congruence].
  - pose proof (bifs_sound t) as S. pose proof (bifs_no_panic t) as NP. destruct (bifs t); cbn [wrap_err bind]; [apply K; cbn [int_denotes]; auto|exact I|congruence].
  - apply K. reflexivity.
  - (* typed nil *big.Int *)
    unfold EncodeABIData, root_of. cbn [bind encodeABIData]. unfold encodeABIChildren. cbn [pass1 encodeABIData int_tc].
    destruct He as [-> | ->]; cbn [encoder_of encode_elementary]; left; reflexivity.
  - apply K. reflexivity.
  - unfold EncodeABIData, root_of. cbn [bind encodeABIData]. unfold encodeABIChildren. cbn [pass1 encodeABIData int_tc].
    destruct He as [-> | ->]; cbn [encoder_of encode_elementary]; right; eexists; reflexivity.
  - apply K. reflexivity.
  - apply K. reflexivity.
  - apply K. reflexivity.
Qed.

(* completeness: whatever integer the reader obtains is encoded exactly when in range, refused otherwise *)
Definition int_read (x : ext) (z : Z) : Prop :=
  match x with
  | XJNum s | XStr s => bifs s = Ok z
  | XBigInt (Some z') | XInt _ z' => z = z'
  | XF64 (F64 m e) | XF32 (F64 m e) | XBigFloat (BFin m e _) => z = bf_trunc m e
  | _ => False
  end.

Theorem integers_in_range_accepted_out_of_range_rejected e s m k x z :
  (e = EInt \/ e = EUInt) -> tc_wf (int_tc e s m k) = true -> int_read x z ->
  (in_range e m z -> EncodeABIDataValues bifs [int_tc e s m k] (XList [x]) = Ok (word z)) /\
  (~ in_range e m z -> exists err, EncodeABIDataValues bifs [int_tc e s m k] (XList [x]) = Err err).
Proof.
  intros He W R. unfold EncodeABIDataValues. rewrite single_param_walk.
  assert (RD : reader_of e = RdInteger) by (destruct He as [-> | ->]; reflexivity). rewrite RD. cbn [read_external].
  assert (G : getIntegerFromInterface bifs x = Ok (GBigInt z)).
  { unfold getIntegerFromInterface.
    destruct x as [| t | t | b | [z'|] | [m0 e0 p|sg] | [m0 e0|sg|] | [m0 e0|sg|] | kk z' | b | l | m0 |]; cbn [int_read] in R; try contradiction;
      try (rewrite R; reflexivity); subst; reflexivity. }
  rewrite G. cbn [bind]. apply single_param_encode; assumption.
Qed.

End Integers.

(* ---------- arity ---------- *)

Section Arity.
Variable bifs : bytes -> res Z.

Lemma arity_fixed_array len c k input l :
  as_slice input = Some l -> Z.of_nat (length l) <> len ->
  walkInput bifs (TCFixedArr len c k) input = Err EFixedLenMismatch.
Proof.
  intros S H. cbn [walkInput]. rewrite S.
  replace (Z.of_nat (length l) =? len)%Z with false by (symmetry; apply Z.eqb_neq; exact H). reflexivity.
Qed.

Lemma arity_not_a_slice_array tc input : as_slice input = None ->
  (forall len c k, tc = TCFixedArr len c k -> walkInput bifs tc input = Err EMustBeSlice) /\
  (forall c k, tc = TCDynArr c k -> walkInput bifs tc input = Err EMustBeSlice).
Proof. intros S. split; intros; subst; cbn [walkInput]; rewrite S; reflexivity. Qed.

Lemma arity_tuple_array ts k input l :
  as_slice input = Some l -> length l <> length ts ->
  walkInput bifs (TCTuple ts k) input = Err ETupleArrayMismatch.
Proof.
  intros S H. cbn [walkInput]. rewrite S.
  replace (length l =? length ts)%nat with false by (symmetry; apply Nat.eqb_neq; exact H). reflexivity.
Qed.

Definition effective_key (t : tcomp) (i : nat) : bytes := match tc_key t with [] => itoa i | k => k end.

Lemma arity_tuple_object_missing ts k m i t :
  nth_error ts i = Some t -> lookup (effective_key t i) m = None ->
  forall x, walkInput bifs (TCTuple ts k) (XMap m) <> Ok x.
Proof.
  intros N L x. cbn [walkInput as_slice].
  assert (G : forall (cs0 : list cval) j, (fix go (ts : list tcomp) (i : nat) {struct ts} : res (list cval) :=
                match ts with
                | [] => Ok []
                | t :: ts' =>
                    let keyName := match tc_key t with [] => itoa i | k :: l => k :: l end in
                    match lookup keyName m with
                    | None => Err EMissingKey
                    | Some v => do c <- walkInput bifs t v; do cs <- go ts' (S i); Ok (c :: cs)
                    end
                end) ts j = Ok cs0 -> forall i', nth_error ts i' = Some t -> lookup (effective_key t (j + i')) m = None -> False).
  { clear N L x. induction ts as [|t0 r IHr]; intros cs0 j H i' N L; [destruct i'; discriminate|].
    cbv zeta in H. destruct i' as [|i'].
    - injection N as ->. rewrite Nat.add_0_r in L. unfold effective_key in L. rewrite L in H. discriminate.
    - cbn [nth_error] in N. destruct (lookup _ m); [|discriminate].
      destruct (walkInput bifs t0 e); cbn [bind] in H; try discriminate.
      match type of H with (do cs <- ?G; _) = _ => destruct G as [l0| |] eqn:E end; cbn [bind] in H; try discriminate.
      apply (IHr l0 (S j) E i' N). replace (S j + i')%nat with (j + S i')%nat by lia. exact L. }
  intros H.
  match type of H with (do cs <- ?G; _) = _ => destruct G as [l0| |] eqn:E end; cbn [bind] in H; try discriminate.
  apply (G l0 0%nat E i N). exact L.
Qed.

End Arity.

(* ---------- an out-of-range integer anywhere in a value tree makes the whole encoding fail ---------- *)

Definition is_container (tc : tcomp) : bool := match tc with TCElem _ _ _ _ _ => false | _ => true end.

(* [sub y x]: y is x or sits below x through array / tuple nodes (the nodes whose children are encoded) *)
Inductive sub : cval -> cval -> Prop :=
| sub_refl x : sub x x
| sub_child y c tc l v : is_container tc = true -> In c l -> sub y c -> sub y (CV (Some tc) l v).

Lemma forall2_in {A B} (R : A -> B -> Prop) l l' a : Forall2 R l l' -> In a l -> exists b, R a b.
Proof.
  induction 1 as [|x y r r' Hxy _ IH]; [contradiction|]. intros [->|H]; [eauto|auto].
Qed.

Lemma encode_ok_sub y x : sub y x -> forall r, encodeABIData x = Ok r -> exists r', encodeABIData y = Ok r'.
Proof.
  induction 1 as [x|y c tc l v C I _ IH]; intros r H; [eauto|].
  assert (P : exists cs, pass1 encodeABIData l = Ok cs).
  { destruct tc; try discriminate; cbn [encodeABIData] in H; eapply children_ok_inv; exact H. }
  destruct P as [cs P]. apply pass1_ok_all in P. destruct (forall2_in _ _ _ c P I) as [rc Hc]. eapply IH; exact Hc.
Qed.

Theorem out_of_range_leaf_rejected e s m k l z x :
  (e = EInt \/ e = EUInt) -> tc_wf (int_tc e s m k) = true -> ~ in_range e m z ->
  sub (CV (Some (int_tc e s m k)) l (GBigInt z)) x ->
  forall r, encodeABIData x <> Ok r.
Proof.
  intros He W R S r H. destruct (encode_ok_sub _ _ S r H) as [r' E].
  unfold tc_wf in W. apply andb_prop in W as [_ WF].
  assert (Wm : wf_m m) by (destruct He as [-> | ->]; exact (wf_uint_m m WF)).
  cbn [encodeABIData int_tc] in E. destruct He as [-> | ->]; cbn [encoder_of encode_elementary in_range] in *.
  - destruct (signed_rejects m z Wm R) as [err E']. congruence.
  - destruct (unsigned_rejects m z R) as [err E']. congruence.
Qed.
