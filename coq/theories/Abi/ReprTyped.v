(* C02, referee issue 1 (converse): what the model ACCEPTS is well typed, except that a bytes<M> /
   function value longer than M is accepted (its first M bytes are encoded).  [not_longer t v] is the
   spec-side statement "no bytes<M> / function value in v is longer than its type allows"; under it
   every accepted input holds a well-typed value, so that (with Abi/ReprWalk.v) the accepted bytes
   are exactly enc of the value the input denotes. *)
From Coq Require Import List NArith ZArith Bool Arith Lia.
From Coq Require Import ZifyNat ZifyN ZifyBool.
From Coq Require Import Init.Byte.
From FFS Require Import Base.Res Base.Bytes Abi.Types Abi.Spec Abi.ModelTypes Abi.EncModel Abi.InputModel.
From FFS Require Import Abi.EncProofs Abi.EncProofs2 Abi.EncProofs3 Abi.EncProofs4 Abi.InputProofs Abi.ReprSpec Abi.ReprProofs Abi.ReprWalk.
Import ListNotations.

Fixpoint tuple_not_longer (f : ty -> val -> bool) (ts : list ty) (vs : list val) : bool :=
  match ts, vs with
  | t :: ts', v :: vs' => f t v && tuple_not_longer f ts' vs'
  | _, _ => true
  end.

Fixpoint not_longer (t : ty) (v : val) {struct v} : bool :=
  match t, v with
  | TBytesN m, VBytes b => (N.of_nat (length b) <=? m)%N
  | TFunction, VBytes b => (length b <=? 24)%nat
  | TFixedArr t' _, VList vs | TDynArr t', VList vs => forallb (not_longer t') vs
  | TTuple ts, VList vs =>
      (fix go (ts : list ty) (vs : list val) {struct vs} : bool :=
         match ts, vs with
         | t :: ts', v :: vs' => not_longer t v && go ts' vs'
         | _, _ => true
         end) ts vs
  | _, _ => true
  end.

Lemma not_longer_tuple ts vs : not_longer (TTuple ts) (VList vs) = tuple_not_longer not_longer ts vs.
Proof.
  cbn [not_longer]. revert ts. induction vs as [|v r IH]; intros [|t ts]; try reflexivity.
  cbn [tuple_not_longer]. rewrite IH. reflexivity.
Qed.

(* a well-typed value has no over-long byte string *)
Lemma well_typed_not_longer t : forall v, well_typed t v = true -> not_longer t v = true.
Proof.
  induction t as [m|m| | |m n|m n|m| | | |t k IH|t IH|l IH] using ty_ind'; intros v H;
    destruct v as [z|b|vs]; try reflexivity; try discriminate.
  - cbn [well_typed] in H. cbn [not_longer]. lia.
  - cbn [well_typed] in H. cbn [not_longer]. apply Nat.eqb_eq in H. apply Nat.leb_le. lia.
  - cbn [well_typed] in H. apply andb_prop in H as [_ H]. cbn [not_longer].
    induction vs as [|v r IHr]; [reflexivity|]. cbn [forallb] in *. apply andb_prop in H as [H1 H2]. rewrite (IH v H1), (IHr H2). reflexivity.
  - cbn [well_typed] in H. cbn [not_longer].
    induction vs as [|v r IHr]; [reflexivity|]. cbn [forallb] in *. apply andb_prop in H as [H1 H2]. rewrite (IH v H1), (IHr H2). reflexivity.
  - rewrite well_typed_tuple in H. rewrite not_longer_tuple. revert vs H.
    induction IH as [|t r Ht _ IHr]; intros [|v vs] H; try reflexivity.
    cbn [tuple_typed] in H. apply andb_prop in H as [H1 H2]. cbn [tuple_not_longer]. rewrite (Ht v H1), (IHr vs H2). reflexivity.
Qed.

Section Typed.
Variable bifs : bytes -> res Z.

Definition enc_ok (x : cval) : Prop := exists r, encodeABIData x = Ok r.

Definition accepted_typed (tc : tcomp) : Prop :=
  tc_wf tc = true -> tc_no_fixed_point tc = true ->
  forall input x, ext_clean input = true -> walkInput bifs tc input = Ok x -> enc_ok x ->
    not_longer (ty_of tc) (val_of x) = true -> well_typed (ty_of tc) (val_of x) = true.

Lemma children_enc_ok tc l v : is_container tc = true -> enc_ok (CV (Some tc) l v) -> Forall enc_ok l.
Proof.
  intros C [r H].
  assert (P : exists cs, pass1 encodeABIData l = Ok cs).
  { destruct tc; try discriminate; cbn [encodeABIData] in H; eapply children_ok_inv; exact H. }
  destruct P as [cs P]. apply pass1_ok_all in P. clear H. induction P as [|y c l cs Hy _ IH]; constructor; [exists c; exact Hy|exact IH].
Qed.

Lemma typed_array child
  (IH : forall input x, ext_clean input = true -> walkInput bifs child input = Ok x -> enc_ok x ->
          not_longer (ty_of child) (val_of x) = true -> well_typed (ty_of child) (val_of x) = true) l :
  forall cs,
  (fix go (l : list ext) : res (list cval) :=
     match l with
     | [] => Ok []
     | v :: r => do c <- walkInput bifs child v; do cs <- go r; Ok (c :: cs)
     end) l = Ok cs ->
  forallb ext_clean l = true -> Forall enc_ok cs ->
  forallb (not_longer (ty_of child)) (map val_of cs) = true ->
  forallb (well_typed (ty_of child)) (map val_of cs) = true /\ length cs = length l.
Proof.
  induction l as [|v r IHr]; intros cs H C EO NL.
  - injection H as <-. split; reflexivity.
  - destruct (walkInput bifs child v) as [a| |] eqn:E; cbn [bind] in H; try discriminate.
    match type of H with (do cs0 <- ?G; _) = _ => destruct G as [l'| |] eqn:E2 end; cbn [bind] in H; try discriminate.
    injection H as <-. cbn [forallb] in C. apply andb_prop in C as [C1 C2]. cbn [map forallb] in *.
    apply andb_prop in NL as [N1 N2]. inversion EO as [|a' l'' EA EL]; subst.
    destruct (IHr l' eq_refl C2 EL N2) as [WT LE]. rewrite (IH v a C1 E EA N1), WT. cbn [length]. rewrite LE. split; reflexivity.
Qed.

Lemma typed_tuple_seq ts
  (IH : Forall (fun t => forall input x, ext_clean input = true -> walkInput bifs t input = Ok x -> enc_ok x ->
          not_longer (ty_of t) (val_of x) = true -> well_typed (ty_of t) (val_of x) = true) ts) :
  forall l cs, length l = length ts ->
  (fix go (ts : list tcomp) (l : list ext) {struct ts} : res (list cval) :=
     match ts, l with
     | t :: ts', v :: r => do c <- walkInput bifs t v; do cs <- go ts' r; Ok (c :: cs)
     | _, _ => Ok []
     end) ts l = Ok cs ->
  forallb ext_clean l = true -> Forall enc_ok cs ->
  tuple_not_longer not_longer (map ty_of ts) (map val_of cs) = true ->
  tuple_typed (map ty_of ts) (map val_of cs) = true.
Proof.
  induction IH as [|t r Ht _ IHr]; intros [|v l] cs LE H C EO NL; try discriminate.
  - injection H as <-. reflexivity.
  - destruct (walkInput bifs t v) as [a| |] eqn:E; cbn [bind] in H; try discriminate.
    match type of H with (do cs0 <- ?G; _) = _ => destruct G as [l'| |] eqn:E2 end; cbn [bind] in H; try discriminate.
    injection H as <-. cbn [forallb] in C. apply andb_prop in C as [C1 C2]. cbn [map tuple_not_longer tuple_typed] in *.
    apply andb_prop in NL as [N1 N2]. inversion EO as [|a' l'' EA EL]; subst. cbn [length] in LE.
    rewrite (Ht v a C1 E EA N1), (IHr l l' ltac:(lia) E2 C2 EL N2). reflexivity.
Qed.

Lemma typed_tuple_obj m ts
  (IH : Forall (fun t => forall input x, ext_clean input = true -> walkInput bifs t input = Ok x -> enc_ok x ->
          not_longer (ty_of t) (val_of x) = true -> well_typed (ty_of t) (val_of x) = true) ts) :
  forallb (fun kv => ext_clean (snd kv)) m = true ->
  forall i cs,
  (fix go (ts : list tcomp) (i : nat) {struct ts} : res (list cval) :=
     match ts with
     | [] => Ok []
     | t :: ts' =>
         let keyName := match tc_key t with [] => itoa i | k :: l => k :: l end in
         match lookup keyName m with
         | None => Err EMissingKey
         | Some v => do c <- walkInput bifs t v; do cs <- go ts' (S i); Ok (c :: cs)
         end
     end) ts i = Ok cs ->
  Forall enc_ok cs ->
  tuple_not_longer not_longer (map ty_of ts) (map val_of cs) = true ->
  tuple_typed (map ty_of ts) (map val_of cs) = true.
Proof.
  intros C. induction IH as [|t r Ht _ IHr]; intros i cs H EO NL.
  - injection H as <-. reflexivity.
  - cbv zeta in H. destruct (lookup _ m) as [v|] eqn:LK; [|discriminate].
    destruct (walkInput bifs t v) as [a| |] eqn:E; cbn [bind] in H; try discriminate.
    match type of H with (do cs0 <- ?G; _) = _ => destruct G as [l'| |] eqn:E2 end; cbn [bind] in H; try discriminate.
    injection H as <-. cbn [map tuple_not_longer tuple_typed] in *.
    apply andb_prop in NL as [N1 N2]. inversion EO as [|a' l'' EA EL]; subst.
    rewrite (Ht v a (lookup_clean _ _ _ C LK) E EA N1), (IHr (S i) l' E2 EL N2). reflexivity.
Qed.

Lemma read_bigint e v g : (reader_of e = RdInteger \/ reader_of e = RdUintBytes \/ reader_of e = RdBool) ->
  ext_clean v = true -> read_external bifs (reader_of e) v = Ok g -> exists z, g = GBigInt z.
Proof.
  intros R C H. pose proof (read_kind_ok bifs e v g C H) as K. unfold value_kind_ok in K.
  destruct R as [R|[R|R]]; rewrite R in K; destruct g; try discriminate; eauto.
Qed.

Theorem accepted_is_typed tc : accepted_typed tc.
Proof.
  induction tc as [e s m n k|len c k IH|c k IH|ts k IH] using tcomp_ind'; intros W NF input x C H EO NL; cbn [walkInput] in H.
  - destruct (read_external bifs (reader_of e) input) as [g| |] eqn:E; cbn [bind] in H; try discriminate. injection H as <-.
    destruct EO as [r EO]. cbn [encodeABIData] in EO. cbn [val_of] in *.
    unfold tc_wf in W. apply andb_prop in W as [CS WF].
    destruct e; cbn [tc_no_fixed_point] in NF; try discriminate; cbn [ty_of encoder_of encode_elementary tc_consistent default_m] in *.
    + destruct (read_bigint EInt input g ltac:(auto) C E) as [z ->]. cbn [gval_to_val well_typed].
      assert (Wm : wf_m m) by exact (wf_uint_m m WF).
      assert (Dec : (- two (m - 1) <= z < two (m - 1))%Z \/ ~ (- two (m - 1) <= z < two (m - 1))%Z) by lia.
      destruct Dec as [R|R]; [lia|]. destruct (signed_rejects m z Wm R) as [err E']. congruence.
    + destruct (read_bigint EUInt input g ltac:(auto) C E) as [z ->]. cbn [gval_to_val well_typed].
      assert (Dec : (0 <= z < two m)%Z \/ ~ (0 <= z < two m)%Z) by lia.
      destruct Dec as [R|R]; [lia|]. destruct (unsigned_rejects m z R) as [err E']. congruence.
    + destruct (read_bigint EAddress input g ltac:(auto) C E) as [z ->]. cbn [gval_to_val well_typed].
      apply N.eqb_eq in CS. subst m.
      assert (Dec : (0 <= z < two 160)%Z \/ ~ (0 <= z < two 160)%Z) by lia.
      destruct Dec as [R|R]; [lia|]. destruct (unsigned_rejects 160 z R) as [err E']. congruence.
    + cbn [reader_of read_external] in E. unfold getBoolAsUnsignedIntegerFromInterface in E.
      destruct input; try discriminate; injection E as <-; unfold big_of_bool; cbn [gval_to_val well_typed];
        match goal with |- context [if ?b then _ else _] => destruct b end; reflexivity.
    + cbn [reader_of read_external] in E. unfold getBytesFromInterface in E.
      destruct (getBytesFromInterface_b input) as [b| |]; cbn [bind] in E; try discriminate. injection E as <-.
      cbn [gval_to_val] in *. destruct (m =? 0)%N eqn:M0; [reflexivity|].
      cbn [well_typed not_longer] in *. unfold encodeABIBytes in EO. rewrite M0 in EO. cbv zeta in EO.
      destruct ((length b <? N.to_nat m)%nat || (32 <? N.to_nat m)%nat) eqn:G; [discriminate|].
      apply orb_false_elim in G as [G _]. apply Nat.ltb_ge in G. lia.
    + cbn [reader_of read_external] in E. unfold getBytesFromInterface in E.
      destruct (getBytesFromInterface_b input) as [b| |]; cbn [bind] in E; try discriminate. injection E as <-.
      cbn [gval_to_val] in *. apply N.eqb_eq in CS. subst m.
      cbn [well_typed not_longer] in *. unfold encodeABIBytes in EO. change (24 =? 0)%N with false in EO. cbv zeta in EO.
      destruct ((length b <? N.to_nat 24)%nat || (32 <? N.to_nat 24)%nat) eqn:G; [discriminate|].
      apply orb_false_elim in G as [G _]. apply Nat.ltb_ge in G. apply Nat.leb_le in NL. apply Nat.eqb_eq.
      change (N.to_nat 24) with 24%nat in G. lia.
    + cbn [reader_of read_external] in E. unfold getStringFromInterface in E.
      destruct input; try discriminate; injection E as <-; reflexivity.
  - apply tc_wf_fixedarr in W as [L0 W]. cbn [tc_no_fixed_point] in NF.
    destruct (as_slice input) as [iArray|] eqn:SL; [|discriminate].
    destruct (negb (Z.of_nat (length iArray) =? len)%Z) eqn:LE; [discriminate|]. apply negb_false_iff in LE. apply Z.eqb_eq in LE.
    match type of H with (do cs0 <- ?G; _) = _ => destruct G as [a| |] eqn:E2 end; cbn [bind] in H; try discriminate.
    injection H as <-. apply children_enc_ok in EO; [|reflexivity]. cbn [val_of ty_of well_typed not_longer] in *.
    destruct (typed_array c (IH W NF) iArray a E2 (as_slice_clean _ _ C SL) EO NL) as [WT LN].
    rewrite WT, map_length, LN. rewrite andb_true_r. apply N.eqb_eq. lia.
  - apply tc_wf_dynarr in W. cbn [tc_no_fixed_point] in NF.
    destruct (as_slice input) as [iArray|] eqn:SL; [|discriminate].
    match type of H with (do cs0 <- ?G; _) = _ => destruct G as [a| |] eqn:E2 end; cbn [bind] in H; try discriminate.
    injection H as <-. apply children_enc_ok in EO; [|reflexivity]. cbn [val_of ty_of well_typed not_longer] in *.
    exact (proj1 (typed_array c (IH W NF) iArray a E2 (as_slice_clean _ _ C SL) EO NL)).
  - apply tc_wf_tuple in W. cbn [tc_no_fixed_point] in NF.
    assert (IH' : Forall (fun t => forall input x, ext_clean input = true -> walkInput bifs t input = Ok x -> enc_ok x ->
          not_longer (ty_of t) (val_of x) = true -> well_typed (ty_of t) (val_of x) = true) ts).
    { clear H NL. induction IH as [|t r Ht _ IHr]; [constructor|]. cbn [forallb] in NF, W.
      apply andb_prop in NF as [N1 N2]. apply andb_prop in W as [W1 W2].
      constructor; [exact (Ht W1 N1)|exact (IHr W2 N2)]. }
    destruct (as_slice input) as [iArray|] eqn:SL.
    + destruct (negb (length iArray =? length ts)%nat) eqn:LE; [discriminate|].
      apply negb_false_iff in LE. apply Nat.eqb_eq in LE.
      match type of H with (do cs0 <- ?G; _) = _ => destruct G as [a| |] eqn:E2 end; cbn [bind] in H; try discriminate.
      injection H as <-. apply children_enc_ok in EO; [|reflexivity]. cbn [val_of ty_of] in *.
      rewrite well_typed_tuple. rewrite not_longer_tuple in NL.
      exact (typed_tuple_seq ts IH' iArray a LE E2 (as_slice_clean _ _ C SL) EO NL).
    + destruct input; try discriminate. cbn [ext_clean] in C.
      match type of H with (do cs0 <- ?G; _) = _ => destruct G as [a| |] eqn:E2 end; cbn [bind] in H; try discriminate.
      injection H as <-. apply children_enc_ok in EO; [|reflexivity]. cbn [val_of ty_of] in *.
      rewrite well_typed_tuple. rewrite not_longer_tuple in NL.
      exact (typed_tuple_obj m ts IH' C 0%nat a E2 EO NL).
Qed.

(* ---------- the converse of denoted_value_encoded ---------- *)
Variable D : bytes -> Z -> Prop.
Hypothesis bifs_sound : forall s z, bifs s = Ok z -> D s z.

Theorem accepted_is_denoted_typed params input b :
  let root := root_of params in
  tc_wf root = true -> tc_no_fixed_point root = true -> tc_no_zero_len root = true ->
  ext_clean input = true ->
  EncodeABIDataValues bifs params input = Ok b ->
  exists v, repr (int_denotes D) root input v /\
            (not_longer (ty_of root) v = true -> weight_ok v ->
               well_typed (ty_of root) v = true /\ b = enc (ty_of root) v).
Proof.
  intros root W NF NZ C H. unfold EncodeABIDataValues in H. fold root in H.
  destruct (walkInput bifs root input) as [x| |] eqn:E; cbn [bind] in H; try discriminate.
  exists (val_of x). split; [exact (walk_sound bifs D bifs_sound root NF input x C E)|].
  intros NL WO.
  assert (EO : enc_ok x).
  { unfold EncodeABIData in H. destruct (encodeABIData x) as [r| |] eqn:EE; cbn [bind] in H; try discriminate. exists r. exact EE. }
  pose proof (accepted_is_typed root W NF input x C E EO NL) as WT. split; [exact WT|].
  pose proof (values_encode_is_spec bifs params input x W NF NZ C E WT WO) as V.
  unfold EncodeABIDataValues in V. fold root in V. rewrite E in V. cbn [bind] in V. congruence.
Qed.
End Typed.
