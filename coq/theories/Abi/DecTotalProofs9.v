(* C11, answer to referee issue I2: the allocation bound [bound c n] written out as what it is - a
   polynomial in the data length whose degree [bound_deg c] is the nesting of dynamic arrays (plus one
   for a bytes/string leaf) and whose coefficient [bound_coef c] depends on the type alone:
       bound c n <= bound_coef c * (n + 1) ^ bound_deg c.
   Hence a constant for static types, linear in the data for one level of dynamic data - and NO
   absolute cap from two nested dynamic levels on (see the Examples in Properties/C11.v: the bound of
   uint256[][][] for 64 KiB exceeds 8e9 units, and aliasing offsets really reach the product of the
   counts).  No new model definitions besides the two type-level functions. *)
From Coq Require Import List NArith ZArith Bool Lia ZifyBool ZifyN ZifyNat.
From FFS Require Import Base.Res Base.Bytes Abi.Types Abi.ModelTypes Abi.DecModel Abi.DecCost Abi.DecTotalProofs.
Import ListNotations.
Local Open Scope N_scope.

Fixpoint bound_deg (c : tcomp) : nat :=
  match c with
  | TCElem e _ m _ _ =>
      match decoder_of e with
      | DecBytes | DecString => if m =? 0 then 1%nat else 0%nat
      | _ => 0%nat
      end
  | TCFixedArr _ ch _ => bound_deg ch
  | TCDynArr ch _ => S (bound_deg ch)
  | TCTuple l _ => fold_right (fun ch acc => Nat.max (bound_deg ch) acc) 0%nat l
  end.

Fixpoint bound_coef (c : tcomp) : N :=
  match c with
  | TCElem e _ m _ _ =>
      match decoder_of e with
      | DecBytes | DecString => if m =? 0 then 1 else 1 + m
      | _ => 1
      end
  | TCFixedArr len ch _ => 1 + 2 * Z.to_N len + Z.to_N len * bound_coef ch
  | TCDynArr ch _ => 2 + bound_coef ch
  | TCTuple l _ => 1 + N.of_nat (length l) + fold_right (fun ch acc => bound_coef ch + acc) 0 l
  end.

Lemma pow_ge_1 x d : 1 <= (x + 1) ^ d.
Proof. assert ((x + 1) ^ d <> 0) by (apply N.pow_nonzero; lia). lia. Qed.

Theorem bound_polynomial c n : bound c n <= bound_coef c * (n + 1) ^ N.of_nat (bound_deg c).
Proof.
  induction c as [e s m n0 k|len ch k IH|ch k IH|l k IH] using tcomp_ind'.
  - cbn [bound bound_coef bound_deg].
    destruct (decoder_of e); try (change (N.of_nat 0) with 0; rewrite N.pow_0_r; lia);
      destruct (m =? 0);
      try (change (N.of_nat 0) with 0; rewrite N.pow_0_r; lia);
      change (N.of_nat 1) with 1; rewrite N.pow_1_r; lia.
  - cbn [bound bound_coef bound_deg].
    set (P := (n + 1) ^ N.of_nat (bound_deg ch)) in *.
    assert (HP : 1 <= P) by apply pow_ge_1.
    set (kk := fixed_count len (occupiesHeadBytes ch) n).
    assert (Hk : kk <= Z.to_N len) by (unfold kk, fixed_count; destruct (occupiesHeadBytes ch); lia).
    set (L := Z.to_N len) in *. set (B := bound ch n) in *. set (K := bound_coef ch) in *.
    assert (A1 : kk * B <= L * (K * P)) by (apply N.mul_le_mono; assumption).
    assert (A2 : kk <= L * P) by nia.
    nia.
  - cbn [bound bound_coef bound_deg]. rewrite Nat2N.inj_succ, N.pow_succ_r'.
    set (P := (n + 1) ^ N.of_nat (bound_deg ch)) in *.
    assert (HP : 1 <= P) by apply pow_ge_1.
    assert (Hw : n / 32 + 1 <= n + 1).
    { assert (n / 32 <= n) by (apply N.div_le_upper_bound; lia). lia. }
    set (w := n / 32 + 1) in *. set (X := n + 1) in *.
    set (B := bound ch n) in *. set (K := bound_coef ch) in *.
    assert (A1 : w * B <= X * (K * P)) by (apply N.mul_le_mono; assumption).
    assert (A2 : w <= X * P) by nia.
    assert (A3 : 1 <= X * P) by nia.
    nia.
  - cbn [bound bound_coef bound_deg].
    set (D := fold_right (fun ch acc => Nat.max (bound_deg ch) acc) 0%nat l).
    assert (HP : 1 <= (n + 1) ^ N.of_nat D) by apply pow_ge_1.
    assert (S : fold_right (fun ch acc => bound ch n + acc) 0 l <=
                fold_right (fun ch acc => bound_coef ch + acc) 0 l * (n + 1) ^ N.of_nat D).
    { subst D. clear HP. induction IH as [|x r Hx Hr IHr]; cbn [fold_right]; [lia|].
      set (dr := fold_right (fun ch acc => Nat.max (bound_deg ch) acc) 0%nat r) in *.
      assert (E1 : (n + 1) ^ N.of_nat (bound_deg x) <= (n + 1) ^ N.of_nat (Nat.max (bound_deg x) dr))
        by (apply N.pow_le_mono_r; lia).
      assert (E2 : (n + 1) ^ N.of_nat dr <= (n + 1) ^ N.of_nat (Nat.max (bound_deg x) dr))
        by (apply N.pow_le_mono_r; lia).
      set (Px := (n + 1) ^ N.of_nat (bound_deg x)) in *. set (Pr := (n + 1) ^ N.of_nat dr) in *.
      set (Pm := (n + 1) ^ N.of_nat (Nat.max (bound_deg x) dr)) in *.
      set (Kx := bound_coef x) in *. set (Kr := fold_right (fun ch acc => bound_coef ch + acc) 0 r) in *.
      assert (F1 : Kx * Px <= Kx * Pm) by (apply N.mul_le_mono_l; assumption).
      assert (F2 : Kr * Pr <= Kr * Pm) by (apply N.mul_le_mono_l; assumption).
      lia. }
    nia.
Qed.

(* corollaries: constant for degree 0, linear for degree <= 1 *)
Corollary bound_constant c n : bound_deg c = 0%nat -> bound c n <= bound_coef c.
Proof.
  intros Hd. pose proof (bound_polynomial c n) as Hb. rewrite Hd in Hb.
  change (N.of_nat 0) with 0 in Hb. rewrite N.pow_0_r in Hb. lia.
Qed.

Corollary bound_linear c n : (bound_deg c <= 1)%nat -> bound c n <= bound_coef c * (n + 1).
Proof.
  intros Hd. pose proof (bound_polynomial c n) as Hb.
  assert (E : (n + 1) ^ N.of_nat (bound_deg c) <= (n + 1) ^ 1) by (apply N.pow_le_mono_r; lia).
  rewrite N.pow_1_r in E.
  assert (bound_coef c * (n + 1) ^ N.of_nat (bound_deg c) <= bound_coef c * (n + 1)) by (apply N.mul_le_mono_l; assumption).
  lia.
Qed.

(* the statements used by Properties/C11.v: allocation of a decode, in absolute terms *)
Theorem DecodeABIData_alloc_polynomial c bs off :
  tc_wf c = true -> no_zero_size_elem c = true -> (0 <= off)%Z ->
  alloc (DecodeABIData_c c bs off) <= bound_coef c * (N.of_nat (length bs) + 1) ^ N.of_nat (bound_deg c).
Proof.
  intros Hw Hn Ho. pose proof (DecodeABIData_alloc_bound c bs off Hw Hn Ho).
  pose proof (bound_polynomial c (N.of_nat (length bs))). lia.
Qed.

Theorem DecodeABIData_alloc_linear c bs off :
  tc_wf c = true -> no_zero_size_elem c = true -> (0 <= off)%Z -> (bound_deg c <= 1)%nat ->
  alloc (DecodeABIData_c c bs off) <= bound_coef c * (N.of_nat (length bs) + 1).
Proof.
  intros Hw Hn Ho Hd. pose proof (DecodeABIData_alloc_bound c bs off Hw Hn Ho).
  pose proof (bound_linear c (N.of_nat (length bs)) Hd). lia.
Qed.
