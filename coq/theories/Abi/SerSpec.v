(* What it means for a JSON document to denote an ABI value under a formatting mode and a choice of
   integer / byte / address renderings — written from the property text, as a reader of the JSON
   (it parses the renderings back) that shares no code with SerModel.v's walkOutput.
   [denotes] works on the JSON as written on the wire (numbers are number tokens). *)
From Coq Require Import String List NArith ZArith Bool.
From Coq Require Import Init.Byte.
From FFS Require Import Base.Bytes Abi.Types Abi.Spec Abi.ModelTypes Abi.Render Abi.SerModel.
From FFS Require Rlp.Model.
Import ListNotations.
Local Open Scope string_scope.
Local Open Scope list_scope.

(* canonical type label of a spec type, e.g. (uint256,bytes)[2] *)
Fixpoint ty_sig (t : ty) : bytes :=
  match t with
  | TUInt m => ascii_bytes "uint" ++ N_dec m
  | TInt m => ascii_bytes "int" ++ N_dec m
  | TAddress => ascii_bytes "address"
  | TBool => ascii_bytes "bool"
  | TFixed m n => ascii_bytes "fixed" ++ N_dec m ++ [x78] ++ N_dec n
  | TUFixed m n => ascii_bytes "ufixed" ++ N_dec m ++ [x78] ++ N_dec n
  | TBytesN m => ascii_bytes "bytes" ++ N_dec m
  | TBytes => ascii_bytes "bytes"
  | TString => ascii_bytes "string"
  | TFunction => ascii_bytes "function"
  | TFixedArr t k => ty_sig t ++ [x5b] ++ N_dec k ++ [x5d]
  | TDynArr t => ty_sig t ++ [x5b; x5d]
  | TTuple l =>
      [x28] ++ (fix go (first : bool) (l : list ty) : bytes :=
                  match l with
                  | [] => []
                  | x :: r => (if first then [] else [x2c]) ++ ty_sig x ++ go false r
                  end) true l ++ [x29]
  end.

(* the name a tuple member is known by in JSON: its ABI name, or its index when it has none *)
Definition effective_name (i : nat) (c : tcomp) : bytes :=
  match tc_key c with [] => N_dec (N.of_nat i) | k => k end.

Definition max_safe : Z := 2 ^ 53 - 1.

Definition denotes_int (f : int_ser) (z : Z) (j : jv) : bool :=
  match f, j with
  | Base10StringIntSerializer, JStr t => match parse_Z_dec t with Some z' => (z =? z')%Z | None => false end
  | HexIntSerializer0xPrefix, JStr t => match parse_Z_0xhex t with Some z' => (z =? z')%Z | None => false end
  | JSONNumberIntSerializer, JNumber t => match parse_Z_dec t with Some z' => (z =? z')%Z | None => false end
  (* a JSON number exactly when the integer is exactly representable, else a base-10 string *)
  | NumberIfFitsOrBase10StringIntSerializer, JNumber t =>
      (Z.abs z <=? max_safe)%Z && match parse_Z_dec t with Some z' => (z =? z')%Z | None => false end
  | NumberIfFitsOrBase10StringIntSerializer, JStr t =>
      negb (Z.abs z <=? max_safe)%Z && match parse_Z_dec t with Some z' => (z =? z')%Z | None => false end
  | _, _ => false
  end.

Definition strip0x (t : bytes) : option bytes :=
  match t with x30 :: x78 :: r => Some r | _ => None end.

Definition denotes_bytes (f : byte_ser) (b : bytes) (j : jv) : bool :=
  match f, j with
  | HexByteSerializer, JStr t => match bytes_of_hex t with Some b' => bytes_eqb b b' | None => false end
  | HexByteSerializer0xPrefix, JStr t =>
      match strip0x t with
      | Some r => match bytes_of_hex r with Some b' => bytes_eqb b b' | None => false end
      | None => false
      end
  | Base64ByteSerializer, JStr t => bytes_eqb t (base64 b)
  | _, _ => false
  end.

Section Denote.
  Variable H : bytes -> bytes.
  Variable s : serializer.

  (* a 20-byte big-endian string holding z *)
  Definition is_addr_of (z : Z) (a : bytes) : bool :=
    (length a =? 20)%nat && (Z.of_N (Rlp.Model.of_be a) =? z)%Z.

  Definition denotes_addr (z : Z) (j : jv) : bool :=
    match ad s, j with
    | None, _ =>
        match bs s, j with
        | HexByteSerializer, JStr t => match bytes_of_hex t with Some a => is_addr_of z a | None => false end
        | HexByteSerializer0xPrefix, JStr t =>
            match strip0x t with
            | Some r => match bytes_of_hex r with Some a => is_addr_of z a | None => false end
            | None => false
            end
        | Base64ByteSerializer, JStr t =>
            (0 <=? z)%Z && (z <? 2 ^ 160)%Z && bytes_eqb t (base64 (be_bytes 20 (Z.to_N z)))
        | _, _ => false
        end
    | Some HexAddrSerializer0xPrefix, JStr t =>
        match strip0x t with
        | Some r => match bytes_of_hex r with Some a => is_addr_of z a | None => false end
        | None => false
        end
    | Some HexAddrSerializerPlain, JStr t =>
        match bytes_of_hex t with Some a => is_addr_of z a | None => false end
    | Some ChecksumAddrSerializer, JStr t =>
        match strip0x t with
        | Some r => match bytes_of_hex r with
                    | Some a => is_addr_of z a && bytes_eqb t (eip55 H a)     (* and it carries the EIP-55 case *)
                    | None => false
                    end
        | None => false
        end
    | _, _ => false
    end.



  (* [denotes c v j]: the JSON [j] denotes value [v] of the ABI component [c] (names from [c]) *)
  Fixpoint denotes (c : tcomp) (v : val) (j : jv) {struct v} : bool :=
    match c, v with
    | TCElem e _ _ _ _, VNum z =>
        match e with
        | EInt | EUInt => denotes_int (is_ s) z j
        | EAddress => denotes_addr z j
        | EBool => match j with JBool b => Bool.eqb b (z =? 1)%Z | _ => false end
        | _ => false              (* fixed-point: outside the property *)
        end
    | TCElem e _ _ _ _, VBytes b =>
        match e with
        | EBytes | EFunction => denotes_bytes (bs s) b j
        | EString => match j with JStr t => bytes_eqb t b | _ => false end
        | _ => false
        end
    | TCFixedArr _ ch _, VList vs | TCDynArr ch _, VList vs =>
        match j with
        | JArr js =>
            (fix go (vs : list val) (js : list jv) {struct vs} : bool :=
               match vs, js with
               | [], [] => true
               | v' :: vs', j' :: js' => denotes ch v' j' && go vs' js'
               | _, _ => false
               end) vs js
        | _ => false
        end
    | TCTuple cs _, VList vs =>
        match ts s, j with
        | FormatAsObjects, JObj m =>
            (* one entry per member, found under the member's effective name *)
            (length m =? length cs)%nat &&
            (fix go (i : nat) (cs : list tcomp) (vs : list val) {struct vs} : bool :=
               match cs, vs with
               | [], [] => true
               | c' :: cs', v' :: vs' =>
                   match map_get (effective_name i c') m with
                   | Some j' => denotes c' v' j' && go (S i) cs' vs'
                   | None => false
                   end
               | _, _ => false
               end) O cs vs
        | FormatAsFlatArrays, JArr js =>
            (fix go (cs : list tcomp) (vs : list val) (js : list jv) {struct vs} : bool :=
               match cs, vs, js with
               | [], [], [] => true
               | c' :: cs', v' :: vs', j' :: js' => denotes c' v' j' && go cs' vs' js'
               | _, _, _ => false
               end) cs vs js
        | FormatAsSelfDescribingArrays, JArr js =>
            (* in ABI order: {"name": effective name, "type": canonical type label, "value": ...} *)
            (fix go (i : nat) (cs : list tcomp) (vs : list val) (js : list jv) {struct vs} : bool :=
               match cs, vs, js with
               | [], [], [] => true
               | c' :: cs', v' :: vs', JObj m :: js' =>
                   (length m =? 3)%nat &&
                   match map_get s_name m, map_get s_type m, map_get s_value m with
                   | Some (JStr nm), Some (JStr tl), Some j' =>
                       bytes_eqb nm (effective_name i c') && bytes_eqb tl (ty_sig (ty_of c')) && denotes c' v' j'
                   | _, _, _ => false
                   end && go (S i) cs' vs' js'
               | _, _, _ => false
               end) O cs vs js
        | _, _ => false
        end
    | _, _ => false
    end.
End Denote.

(* the hypothesis of the object-mode clauses: members of every tuple have pairwise distinct effective names *)
Fixpoint names_distinct_list (l : list bytes) : bool :=
  match l with
  | [] => true
  | x :: r => negb (existsb (bytes_eqb x) r) && names_distinct_list r
  end.
Fixpoint effective_names (i : nat) (cs : list tcomp) : list bytes :=
  match cs with [] => [] | c :: r => effective_name i c :: effective_names (S i) r end.
Fixpoint names_distinct (c : tcomp) : bool :=
  match c with
  | TCElem _ _ _ _ _ => true
  | TCFixedArr _ ch _ | TCDynArr ch _ => names_distinct ch
  | TCTuple cs _ => names_distinct_list (effective_names O cs) && forallb names_distinct cs
  end.
