(* C12, wave 6: the decode direction stated on the SPECIFICATION encoding alone, and revert data without
   any guard on the selectors of earlier definitions.

   1. [calldata_decode_spec]: every byte string  selector(e) ++ enc((T1..Tn), v) ++ post  for a
      well-typed value v -- whoever produced it; no encoder model, hence none of C02's guards
      (typed_as, values_ok, weight_ok) -- is decoded by e to the tree of v.
   2. [error_roundtrip_spec]: revert data  selector(e) ++ enc(args)  built for ANY error definition e of
      (Error(string) :: ABI), at any position, with same-signature duplicates and same-selector
      definitions allowed before it: it is attributed to the FIRST error definition that has e's name
      and parameter types, with exactly the emitted values -- or else an earlier error definition with
      a different signature string accepted it, and then the hash collides on its first four bytes on
      two different strings.  The hypotheses are on the ABI only (C03's quantifier for its error
      definitions), not on the hash.
   3. [error_roundtrip_no_collision]: the second alternative excluded by the minimal hypothesis on the
      hash (no 4-byte collision between e's signature and another error signature of the ABI). *)
From Coq Require Import List NArith ZArith Lia Bool Arith.
From Coq Require Import Init.Byte.
From FFS Require Import Base.Res Base.Bytes Abi.Types Abi.ModelTypes Abi.EntryModel Abi.EntrySpec.
From FFS Require Import Abi.EntryProofs Abi.EntryInst Abi.EntryReferee.
From FFS Require Abi.Spec Abi.DecModel Abi.DecSpec Abi.DecProofs3 Abi.DecProofs4 Abi.DecTotalProofs3.
From FFS Require AbiType.Spec AbiType.ProofsArr Abi.EntryRefereeInj2.
Import ListNotations.

(* ---------- 1. call data: decode of the specification encoding ---------- *)

Theorem calldata_decode_spec (H : bytes -> bytes) :
  (forall m, length (H m) = 32%nat) ->
  forall (e : entry) (cs : list tcomp) (v : Spec.val) (post : bytes),
    tree_children (e_inputs e) = Ok cs -> all_suffix_canonical cs ->
    let tc := TCTuple cs [] in
    tc_wf tc = true -> tc_no_fixed_point tc = true -> tc_no_zero_len tc = true ->
    Spec.well_typed (ty_of tc) v = true ->
    (DecModel.zlen (Spec.enc (ty_of tc) v) < 2 ^ 32)%Z -> DecProofs3.counts_ok v = true ->
    DecodeCallData H DecModel.DecodeABIData e
      (selector_spec H (e_name e) (map ty_of cs) ++ Spec.enc (TTuple (map ty_of cs)) v ++ post)
    = Ok (DecSpec.cv_of tc v) /\
    val_of (DecSpec.cv_of tc v) = v.
Proof.
  intros Hlen e cs v post Ht Hs tc Hwf Hnf Hnz Hwt Hsz Hc.
  split; [|apply DecProofs4.val_of_cv_of; assumption].
  destruct (selector_is_spec H Hlen e cs Ht Hs) as [Hsel _].
  rewrite (calldata_accept H DecModel.DecodeABIData e _ _ Hsel).
  unfold DecodeABIData_params, TypeComponentTree. rewrite Ht. cbn [bind].
  pose proof (selector_length H e _ Hsel) as Hl4.
  unfold tc_wf in Hwf. apply andb_prop in Hwf as [Hcons Hwfty].
  pose proof (DecProofs4.DecodeABIData_enc cs [] v (selector_spec H (e_name e) (map ty_of cs)) post
                Hcons Hwfty Hnf Hnz Hwt Hsz Hc) as Hdec.
  assert (Hz : DecModel.zlen (selector_spec H (e_name e) (map ty_of cs)) = 4%Z)
    by (unfold DecModel.zlen; rewrite Hl4; reflexivity).
  rewrite Hz in Hdec. exact Hdec.
Qed.

(* ---------- 2. revert data ---------- *)

(* an error definition inside C03's quantifier (and the guards of the injectivity theorem): what
   Entry.Validate + "no fixed-point, no T[0]" say about the definition; nothing about the hash *)
Definition err_def_ok (e : entry) : Prop :=
  exists cs, tree_children (e_inputs e) = Ok cs /\ all_suffix_canonical cs /\
    tc_wf (TCTuple cs []) = true /\ tc_no_fixed_point (TCTuple cs []) = true /\
    tc_no_zero_len (TCTuple cs []) = true /\
    AbiType.ProofsArr.no_byte ch_lparen (e_name e) /\
    forallb AbiType.Spec.valid_type (map ty_of cs) = true.

Lemma tree_children_in pa : forall cs p tc,
  tree_children pa = Ok cs -> In p pa -> p_tc p = Some tc -> In tc cs.
Proof.
  induction pa as [|q r IH]; intros cs p tc E Hin Ep; [destruct Hin|].
  cbn [tree_children] in E. destruct (p_tc q) as [tq|] eqn:Eq; [|discriminate].
  destruct (tree_children r) as [rest| |] eqn:Er; cbn [bind] in E; try discriminate.
  injection E as <-. destruct Hin as [->|Hin].
  - rewrite Ep in Eq. injection Eq as <-. left. reflexivity.
  - right. exact (IH rest p tc eq_refl Hin Ep).
Qed.

Lemma err_def_ok_params_wf e : err_def_ok e -> DecTotalProofs3.params_wf (e_inputs e).
Proof.
  intros (cs & Ht & _ & Hwf & _). intros p tc Hin Ep.
  pose proof (tree_children_in _ _ _ _ Ht Hin Ep) as Hc.
  unfold tc_wf in *. cbn [tc_consistent ty_of] in Hwf.
  apply andb_prop in Hwf as [H1 H2]. cbn [wf_ty] in H2.
  rewrite forallb_forall in H1, H2. apply andb_true_intro. split.
  - apply H1. exact Hc.
  - apply H2. apply in_map. exact Hc.
Qed.

Lemma default_error_ok : err_def_ok default_error.
Proof.
  eexists. split; [reflexivity|]. split; [cbn; repeat split; reflexivity|].
  split; [vm_compute; reflexivity|]. split; [vm_compute; reflexivity|]. split; [vm_compute; reflexivity|].
  split; [repeat constructor|]. vm_compute. reflexivity.
Qed.

Section RevertSpec.
  Variable H : bytes -> bytes.
  Hypothesis H_len : forall m, length (H m) = 32%nat.
  Notation dec := DecModel.DecodeABIData.

  (* the outcome for data [d] that is  selector ++ enc(ts, v) ++ post  of the signature (n, ts) *)
  Definition attributed_or_collision (n : bytes) (ts : list ty) (v : Spec.val) (e1 : entry) (v1 : cval) : Prop :=
    (exists cs1, tree_children (e_inputs e1) = Ok cs1 /\ e_name e1 = n /\ map ty_of cs1 = ts /\
                 v1 = DecSpec.cv_of (TCTuple cs1 []) v /\ val_of v1 = v)
    \/
    (exists s1, Signature e1 = Ok s1 /\ s1 <> signature_spec n ts /\
                firstn 4 (H s1) = firstn 4 (H (signature_spec n ts))).

  Lemma loop_spec (n : bytes) (ts : list ty) (v : Spec.val) (post : bytes) :
    AbiType.ProofsArr.no_byte ch_lparen n -> forallb AbiType.Spec.valid_type ts = true ->
    Spec.well_typed (TTuple ts) v = true ->
    (DecModel.zlen (Spec.enc (TTuple ts) v) < 2 ^ 32)%Z -> DecProofs3.counts_ok v = true ->
    let d := selector_spec H n ts ++ Spec.enc (TTuple ts) v ++ post in
    forall l : list entry,
      (forall e', In e' l -> e_type e' = TyError -> err_def_ok e') ->
      (exists e cs, In e l /\ e_type e = TyError /\ tree_children (e_inputs e) = Ok cs /\
                    e_name e = n /\ map ty_of cs = ts) ->
      exists pre e1 post1 v1,
        l = pre ++ e1 :: post1 /\ e_type e1 = TyError /\
        parse_error_loop H dec l d = Ok (Some (e1, v1)) /\
        (forall e', In e' pre -> e_type e' = TyError -> Signature e' <> Ok (signature_spec n ts)) /\
        attributed_or_collision n ts v e1 v1.
  Proof.
    intros Hn Hv Hwt Hsz Hc d l. induction l as [|x r IH]; intros Hok (e & cs & Hin & Hty & Ht & Hname & Htys); [destruct Hin|].
    cbn [parse_error_loop].
    destruct (etype_eqb (e_type x) TyError) eqn:Et.
    - assert (Htx : e_type x = TyError) by (destruct (e_type x); try discriminate; reflexivity).
      destruct (Hok x (or_introl eq_refl) Htx) as (csx & Htcx & Hsx & Hwfx & Hnfx & Hnzx & Hnx & Hvx).
      pose proof (signature_canonical x csx Htcx Hsx) as Hsigx.
      destruct (bytes_eqb_spec (signature_spec (e_name x) (map ty_of csx)) (signature_spec n ts)) as [Eq|Ne].
      + (* x has the signature (n, ts): it accepts, with the values v *)
        destruct (EntryRefereeInj2.signature_spec_inj _ _ _ _ Hnx Hn Hvx Hv Eq) as [En Ets].
        assert (Hd : DecodeCallData H dec x d = Ok (DecSpec.cv_of (TCTuple csx []) v) /\
                     val_of (DecSpec.cv_of (TCTuple csx []) v) = v).
        { unfold d. rewrite <- En, <- Ets.
          apply (calldata_decode_spec H H_len x csx v post Htcx Hsx Hwfx Hnfx Hnzx); cbn [ty_of]; try rewrite Ets; assumption. }
        destruct Hd as [Hd Hval]. rewrite Hd.
        exists [], x, r, (DecSpec.cv_of (TCTuple csx []) v).
        split; [reflexivity|]. split; [exact Htx|]. split; [reflexivity|]. split; [intros e' []|].
        left. exists csx. repeat split; assumption.
      + (* another signature string *)
        destruct (DecodeCallData H dec x d) as [v1|c|] eqn:Ed.
        * exists [], x, r, v1. split; [reflexivity|]. split; [exact Htx|]. split; [reflexivity|]. split; [intros e' []|].
          right. exists (signature_spec (e_name x) (map ty_of csx)). split; [exact Hsigx|]. split; [exact Ne|].
          destruct (calldata_guard H dec x d v1 Ed) as (id & Hid & Hf & _).
          destruct (selector_is_spec H H_len x csx Htcx Hsx) as [Hselx _]. rewrite Hselx in Hid. injection Hid as Hid.
          unfold selector_spec in Hid. rewrite Hid, <- Hf. unfold d, selector_spec.
          rewrite firstn_app.
          assert (L : length (firstn 4 (H (signature_spec n ts))) = 4%nat) by (rewrite firstn_length, H_len; reflexivity).
          rewrite L, Nat.sub_diag, firstn_O, app_nil_r. rewrite <- L at 1. rewrite firstn_all. reflexivity.
        * assert (Hin' : In e r).
          { destruct Hin as [<-|Hin]; [|exact Hin]. exfalso. apply Ne.
            rewrite Htcx in Ht. injection Ht as <-. rewrite Hname, Htys. reflexivity. }
          destruct (IH (fun e' He' => Hok e' (or_intror He')) (ex_intro _ e (ex_intro _ cs (conj Hin' (conj Hty (conj Ht (conj Hname Htys)))))))
            as (pre & e1 & post1 & v1 & -> & Hty1 & Hp & Hpre & Hout).
          exists (x :: pre), e1, post1, v1. split; [reflexivity|]. split; [exact Hty1|]. split; [exact Hp|]. split; [|exact Hout].
          intros e' [<-|He'] Hte'; [|apply Hpre; assumption].
          rewrite Hsigx. intros E. injection E as E. exact (Ne E).
        * exfalso. apply (DecTotalProofs3.Entry_DecodeCallData_total H H_len x d); [|exact Ed].
          apply err_def_ok_params_wf. exact (Hok x (or_introl eq_refl) Htx).
    - assert (Hin' : In e r).
      { destruct Hin as [<-|Hin]; [|exact Hin]. rewrite Hty in Et. discriminate. }
      destruct (IH (fun e' He' => Hok e' (or_intror He')) (ex_intro _ e (ex_intro _ cs (conj Hin' (conj Hty (conj Ht (conj Hname Htys)))))))
        as (pre & e1 & post1 & v1 & -> & Hty1 & Hp & Hpre & Hout).
      exists (x :: pre), e1, post1, v1. split; [reflexivity|]. split; [exact Hty1|]. split; [exact Hp|]. split; [|exact Hout].
      intros e' [<-|He'] Hte'; [|apply Hpre; assumption]. rewrite Hte' in Et. discriminate.
  Qed.

  (* revert data built (by anyone) for the error definition [e] of (Error(string) :: a), at any position *)
  Theorem error_roundtrip_spec (a : list entry) (e : entry) (cs : list tcomp) (v : Spec.val) (post : bytes) :
    (forall e', In e' a -> e_type e' = TyError -> err_def_ok e') ->
    In e (default_error :: a) -> e_type e = TyError -> tree_children (e_inputs e) = Ok cs ->
    Spec.well_typed (TTuple (map ty_of cs)) v = true ->
    (DecModel.zlen (Spec.enc (TTuple (map ty_of cs)) v) < 2 ^ 32)%Z -> DecProofs3.counts_ok v = true ->
    let n := e_name e in let ts := map ty_of cs in
    let d := selector_spec H n ts ++ Spec.enc (TTuple ts) v ++ post in
    exists pre e1 post1 v1,
      default_error :: a = pre ++ e1 :: post1 /\ e_type e1 = TyError /\
      ParseError H dec a d = Ok (Some (e1, v1)) /\
      (forall e', In e' pre -> e_type e' = TyError -> Signature e' <> Ok (signature_spec n ts)) /\
      attributed_or_collision n ts v e1 v1.
  Proof.
    intros Hok Hin Hty Ht Hwt Hsz Hc n ts d.
    assert (Hall : forall e', In e' (default_error :: a) -> e_type e' = TyError -> err_def_ok e').
    { intros e' [<-|He'] Hte; [exact default_error_ok|apply Hok; assumption]. }
    destruct (Hall e Hin Hty) as (cs' & Ht' & _ & _ & _ & _ & Hn & Hv).
    rewrite Ht in Ht'. injection Ht' as <-.
    unfold ParseError.
    apply (loop_spec n ts v post Hn Hv Hwt Hsz Hc (default_error :: a) Hall).
    exists e, cs. repeat split; assumption.
  Qed.

  (* the collision alternative excluded by the minimal hypothesis on the hash *)
  Theorem error_roundtrip_no_collision (a : list entry) (e : entry) (cs : list tcomp) (v : Spec.val) (post : bytes) :
    (forall e', In e' a -> e_type e' = TyError -> err_def_ok e') ->
    In e (default_error :: a) -> e_type e = TyError -> tree_children (e_inputs e) = Ok cs ->
    Spec.well_typed (TTuple (map ty_of cs)) v = true ->
    (DecModel.zlen (Spec.enc (TTuple (map ty_of cs)) v) < 2 ^ 32)%Z -> DecProofs3.counts_ok v = true ->
    let n := e_name e in let ts := map ty_of cs in
    (forall e' s', In e' (default_error :: a) -> e_type e' = TyError -> Signature e' = Ok s' ->
                   s' <> signature_spec n ts -> firstn 4 (H s') <> firstn 4 (H (signature_spec n ts))) ->
    let d := selector_spec H n ts ++ Spec.enc (TTuple ts) v ++ post in
    exists pre e1 post1 cs1,
      default_error :: a = pre ++ e1 :: post1 /\ e_type e1 = TyError /\
      tree_children (e_inputs e1) = Ok cs1 /\ e_name e1 = n /\ map ty_of cs1 = ts /\
      (forall e', In e' pre -> e_type e' = TyError -> Signature e' <> Ok (signature_spec n ts)) /\
      ParseError H dec a d = Ok (Some (e1, DecSpec.cv_of (TCTuple cs1 []) v)) /\
      val_of (DecSpec.cv_of (TCTuple cs1 []) v) = v.
  Proof.
    intros Hok Hin Hty Ht Hwt Hsz Hc n ts Hnc d.
    destruct (error_roundtrip_spec a e cs v post Hok Hin Hty Ht Hwt Hsz Hc)
      as (pre & e1 & post1 & v1 & Ha & Hty1 & Hp & Hpre & [(cs1 & Ht1 & Hn1 & Hts1 & -> & Hval)|(s1 & Hs1 & Hne & Hcol)]).
    - exists pre, e1, post1, cs1. repeat split; assumption.
    - exfalso. apply (Hnc e1 s1); try assumption. rewrite Ha. apply in_or_app. right. left. reflexivity.
  Qed.
End RevertSpec.
