(* C03, referee issue 1: proofs about the faithful json.Marshal view (SerWire.v).
   - a tree whose strings are valid UTF-8 is written verbatim: wire_go = wire;
   - every rendering the serializer emits (decimal, hex, base64, EIP-55, default names) is ASCII;
   - hence for a decoded tree whose string leaves / member names / type labels are valid UTF-8
     ([cval_utf8]) the faithful entry point SerializeJSON_go agrees with SerializeJSON;
   - refutation: for type (string) and the value ff the emitted document does not denote the value. *)
From Coq Require Import List NArith ZArith Bool Lia.
From Coq Require Import Init.Byte.
From FFS Require Import Base.Res Base.Bytes Abi.Types Abi.Spec Abi.ModelTypes Abi.Render.
From FFS Require Import Abi.DecSpec Abi.SerModel Abi.SerSpec Abi.SerProofs Abi.SerProofs2 Abi.SerWire.
Import ListNotations.

(* ---------- valid strings are written verbatim ---------- *)
Lemma json_text_go_valid s : forall k, utf8_go k s = true -> json_text_go k s = s.
Proof.
  induction s as [|c t IH]; intros k Hk; [reflexivity|].
  cbn [json_text_go utf8_go] in *. destruct k as [|k].
  - destruct (rune_width (c :: t)) as [|w]; [discriminate|]. rewrite IH by exact Hk. reflexivity.
  - rewrite IH by exact Hk. reflexivity.
Qed.

Lemma json_text_valid s : utf8_ok s = true -> json_text s = s.
Proof. apply json_text_go_valid. Qed.

Section jv_ind'.
  Variable P : jv -> Prop.
  Hypothesis HNull : P JNull.
  Hypothesis HBool : forall b, P (JBool b).
  Hypothesis HStr : forall s, P (JStr s).
  Hypothesis HNumber : forall s, P (JNumber s).
  Hypothesis HFloat : forall z, P (JFloatInt z).
  Hypothesis HArr : forall l, Forall P l -> P (JArr l).
  Hypothesis HObj : forall m, Forall (fun kv => P (snd kv)) m -> P (JObj m).
  Fixpoint jv_ind' (j : jv) : P j :=
    match j with
    | JNull => HNull
    | JBool b => HBool b
    | JStr s => HStr s
    | JNumber s => HNumber s
    | JFloatInt z => HFloat z
    | JArr l => HArr l ((fix go (l : list jv) : Forall P l :=
                           match l with [] => Forall_nil P | y :: r => Forall_cons y (jv_ind' y) (go r) end) l)
    | JObj m => HObj m ((fix go (m : list (bytes * jv)) : Forall (fun kv => P (snd kv)) m :=
                           match m with
                           | [] => Forall_nil _
                           | kv :: r => Forall_cons kv (jv_ind' (snd kv)) (go r)
                           end) m)
    end.
End jv_ind'.

Theorem wire_go_verbatim j : json_utf8 j = true -> wire_go j = wire j.
Proof.
  induction j as [| | | | |l IH|m IH] using jv_ind'; cbn [json_utf8 wire_go wire]; intros Hu; try reflexivity.
  - rewrite json_text_valid by exact Hu. reflexivity.
  - f_equal. rewrite forallb_forall in Hu. apply map_ext_in. intros x Hx.
    rewrite Forall_forall in IH. apply IH; [exact Hx|apply Hu; exact Hx].
  - f_equal. rewrite forallb_forall in Hu. apply map_ext_in. intros kv Hx.
    rewrite Forall_forall in IH. specialize (Hu kv Hx). apply andb_true_iff in Hu as [Hk Hv].
    rewrite json_text_valid by exact Hk. rewrite IH by assumption. reflexivity.
Qed.

(* ---------- ASCII strings ---------- *)
Definition is_ascii (c : byte) : bool := (b2n c <? 128)%N.
Definition ascii (s : bytes) : bool := forallb is_ascii s.

Lemma ascii_utf8_go s : ascii s = true -> utf8_go 0 s = true.
Proof.
  induction s as [|c t IH]; [reflexivity|]. unfold ascii. cbn [forallb]. intros Ha.
  apply andb_true_iff in Ha as [Hc Ht]. cbn [utf8_go rune_width]. unfold is_ascii in Hc. rewrite Hc.
  apply IH. exact Ht.
Qed.
Lemma ascii_utf8 s : ascii s = true -> utf8_ok s = true.
Proof. apply ascii_utf8_go. Qed.

Lemma ascii_app a b : ascii (a ++ b) = ascii a && ascii b.
Proof. apply forallb_app. Qed.
Lemma ascii_cons c s : ascii (c :: s) = is_ascii c && ascii s.
Proof. reflexivity. Qed.

Lemma uint_bytes_ascii d : ascii (uint_bytes d) = true.
Proof. induction d; cbn [uint_bytes]; try reflexivity; rewrite ascii_cons, IHd; reflexivity. Qed.
Lemma hex_uint_bytes_ascii d : ascii (hex_uint_bytes d) = true.
Proof. induction d; cbn [hex_uint_bytes]; try reflexivity; rewrite ascii_cons, IHd; reflexivity. Qed.
Lemma N_dec_ascii n : ascii (N_dec n) = true.
Proof. apply uint_bytes_ascii. Qed.
Lemma N_hex_ascii n : ascii (N_hex n) = true.
Proof. apply hex_uint_bytes_ascii. Qed.
Lemma Z_dec_ascii z : ascii (Z_dec z) = true.
Proof. unfold Z_dec. destruct (z <? 0)%Z; [rewrite ascii_cons|]; rewrite N_dec_ascii; reflexivity. Qed.

Lemma hex_digits_ascii c :
  is_ascii (hex_digit (b2n c / 16)) = true /\ is_ascii (hex_digit (b2n c mod 16)) = true.
Proof. destruct c; vm_compute; split; reflexivity. Qed.
Lemma hex_of_bytes_ascii b : ascii (hex_of_bytes b) = true.
Proof.
  induction b as [|c r IH]; [reflexivity|]. cbn [hex_of_bytes]. rewrite !ascii_cons, IH.
  destruct (hex_digits_ascii c) as [A B]. rewrite A, B. reflexivity.
Qed.

Lemma b64_char_ascii n : is_ascii (b64_char n) = true.
Proof.
  unfold is_ascii, b64_char.
  destruct (N.ltb_spec n 26); [rewrite b2n_n2b by lia; apply N.ltb_lt; lia|].
  destruct (N.ltb_spec n 52); [rewrite b2n_n2b by lia; apply N.ltb_lt; lia|].
  destruct (N.ltb_spec n 62); [rewrite b2n_n2b by lia; apply N.ltb_lt; lia|].
  destruct (n =? 62)%N; reflexivity.
Qed.
Lemma base64_go_ascii fuel : forall b, ascii (base64_go fuel b) = true.
Proof.
  induction fuel as [|f IH]; intros b; [reflexivity|].
  destruct b as [|a [|c [|d r]]]; cbn [base64_go]; [reflexivity| | |];
    rewrite ?ascii_cons, ?b64_char_ascii, ?IH; reflexivity.
Qed.
Lemma base64_ascii b : ascii (base64 b) = true.
Proof. apply base64_go_ascii. Qed.

Lemma to_upper_ascii c : is_ascii c = true -> is_ascii (to_upper c) = true.
Proof. destruct c; vm_compute; intros E; first [reflexivity|discriminate E]. Qed.
Lemma to_lower_ascii c : is_ascii c = true -> is_ascii (to_lower c) = true.
Proof. destruct c; vm_compute; intros E; first [reflexivity|discriminate E]. Qed.
Lemma eip55_go_ascii a : forall h, ascii a = true -> ascii (eip55_go a h) = true.
Proof.
  induction a as [|x r IH]; intros h Ha; [reflexivity|].
  rewrite ascii_cons in Ha. apply andb_true_iff in Ha as [Hx Hr].
  destruct h as [|y hr]; [reflexivity|]. cbn [eip55_go]. rewrite ascii_cons, IH by exact Hr.
  destruct (hex_val y) as [d|]; [destruct (8 <=? d)%N|];
    rewrite ?to_upper_ascii, ?to_lower_ascii by exact Hx; reflexivity.
Qed.
Lemma eip55_ascii H a : ascii (eip55 H a) = true.
Proof. unfold eip55. rewrite !ascii_cons, eip55_go_ascii by apply hex_of_bytes_ascii. reflexivity. Qed.

(* ---------- the renderings as JSON values ---------- *)
Lemma run_int_ser_utf8 f i : json_utf8 (run_int_ser f i) = true.
Proof.
  destruct f; cbn [run_int_ser json_utf8]; try reflexivity.
  - apply ascii_utf8, Z_dec_ascii.
  - apply ascii_utf8. rewrite ascii_app, !ascii_cons, N_hex_ascii. destruct (i <? 0)%Z; reflexivity.
  - destruct ((i >? maxSafeJSONNumberInt)%Z || (i <? minSafeJSONNumberInt)%Z); cbn [json_utf8]; [|reflexivity].
    apply ascii_utf8, Z_dec_ascii.
Qed.
Lemma run_byte_ser_utf8 f b : json_utf8 (run_byte_ser f b) = true.
Proof.
  destruct f; cbn [run_byte_ser json_utf8]; apply ascii_utf8.
  - apply hex_of_bytes_ascii.
  - rewrite !ascii_cons, hex_of_bytes_ascii. reflexivity.
  - apply base64_ascii.
Qed.
Lemma run_addr_ser_utf8 H f a : json_utf8 (run_addr_ser H f a) = true.
Proof.
  destruct f; cbn [run_addr_ser json_utf8]; apply ascii_utf8.
  - rewrite !ascii_cons, hex_of_bytes_ascii. reflexivity.
  - apply hex_of_bytes_ascii.
  - apply eip55_ascii.
Qed.

(* ---------- the serializer's output on a tree whose strings are valid UTF-8 ---------- *)
Definition kv_utf8 (kv : bytes * jv) : bool := utf8_ok (fst kv) && json_utf8 (snd kv).

Lemma map_set_utf8 k v m :
  utf8_ok k = true -> json_utf8 v = true -> forallb kv_utf8 m = true -> forallb kv_utf8 (map_set k v m) = true.
Proof.
  intros Hk Hv. induction m as [|[k' v'] r IH]; cbn [map_set forallb]; intros Hm.
  - unfold kv_utf8. cbn [fst snd]. rewrite Hk, Hv. reflexivity.
  - apply andb_true_iff in Hm as [H1 H2]. destruct (bytes_eqb k k'); cbn [forallb].
    + unfold kv_utf8 at 1. cbn [fst snd]. rewrite Hk, Hv, H2. reflexivity.
    + rewrite H1, IH by exact H2. reflexivity.
Qed.

Section Walk.
  Variable H : bytes -> bytes.
  Variable fs : bfloat -> jv.
  Variable s : serializer.
  Notation dn := NumericDefaultNameGenerator.
  Notation WO := (walkOutput H fs dn s).

  Definition member_goal (x : cval) : Prop :=
    forall j, cval_utf8 x = true -> WO x = Ok j -> json_utf8 j = true.
  Definition members_ok (l : list cval) : bool := forallb (fun y => member_utf8 y && cval_utf8 y) l.

  Lemma cval_utf8_unfold c l g : cval_utf8 (CV c l g) = gval_utf8 g && members_ok l.
  Proof.
    reflexivity.
  Qed.

  Lemma elem_utf8 e g j :
    gval_utf8 g = true -> serializeElementaryType H fs s e g = Ok j -> json_utf8 j = true.
  Proof.
    intros Hg. destruct e; cbn [serializeElementaryType]; destruct g; try discriminate;
      try (intros E; injection E as <-).
    - apply run_int_ser_utf8.
    - apply run_int_ser_utf8.
    - destruct (2 ^ 160 <=? Z.abs z)%Z; [discriminate|]. destruct (ad s); intros E; injection E as <-.
      + apply run_addr_ser_utf8.
      + apply run_byte_ser_utf8.
    - reflexivity.
    - apply run_byte_ser_utf8.
    - apply run_byte_ser_utf8.
    - exact Hg.
  Qed.

  Lemma walk_all_utf8 l : Forall member_goal l -> members_ok l = true ->
    forall js, walk_all H fs s l = Ok js -> forallb json_utf8 js = true.
  Proof.
    induction l as [|y r IH]; intros HF Hm js; cbn [walk_all].
    - intros E. injection E as <-. reflexivity.
    - inversion HF as [|? ? Hy Hr]; subst. unfold members_ok in Hm. cbn [forallb] in Hm.
      apply andb_true_iff in Hm as [Hmy Hmr]. apply andb_true_iff in Hmy as [_ Hcy].
      destruct (WO y) as [v| |] eqn:Ey; cbn [bind]; try discriminate.
      destruct (walk_all H fs s r) as [vs| |] eqn:Er; cbn [bind]; try discriminate.
      intros E. injection E as <-. cbn [forallb]. rewrite (Hy v Hcy Ey), (IH Hr Hmr vs eq_refl). reflexivity.
  Qed.

  Lemma name_utf8 cc i : utf8_ok (tc_key cc) = true ->
    utf8_ok (match tc_key cc with [] => dn i | k => k end) = true.
  Proof.
    intros Hk. destruct (tc_key cc); [|exact Hk]. apply ascii_utf8. unfold NumericDefaultNameGenerator. apply N_dec_ascii.
  Qed.

  Lemma obj_go_utf8 l : Forall member_goal l -> members_ok l = true ->
    forall i out m, forallb kv_utf8 out = true -> obj_go H fs s i l out = Ok m -> forallb kv_utf8 m = true.
  Proof.
    induction l as [|y r IH]; intros HF Hm i out m Hout; cbn [obj_go].
    - intros E. injection E as <-. exact Hout.
    - inversion HF as [|? ? Hy Hr]; subst. unfold members_ok in Hm. cbn [forallb] in Hm.
      apply andb_true_iff in Hm as [Hmy Hmr]. apply andb_true_iff in Hmy as [Hny Hcy].
      destruct y as [|[cc|] l' g']; [discriminate| |].
      + destruct (WO (CV (Some cc) l' g')) as [v| |] eqn:Ey; cbn [bind]; try discriminate.
        cbn [member_utf8] in Hny. apply andb_true_iff in Hny as [Hk _].
        apply (IH Hr Hmr). apply map_set_utf8; [apply name_utf8; exact Hk|exact (Hy v Hcy Ey)|exact Hout].
      + apply (IH Hr Hmr). exact Hout.
  Qed.

  Lemma sd_go_utf8 l : Forall member_goal l -> members_ok l = true ->
    forall i js, sd_go H fs s i l = Ok js -> forallb json_utf8 js = true.
  Proof.
    induction l as [|y r IH]; intros HF Hm i js; cbn [sd_go].
    - intros E. injection E as <-. reflexivity.
    - inversion HF as [|? ? Hy Hr]; subst. unfold members_ok in Hm. cbn [forallb] in Hm.
      apply andb_true_iff in Hm as [Hmy Hmr]. apply andb_true_iff in Hmy as [Hny Hcy].
      destruct y as [|[cc|] l' g']; [discriminate| |discriminate].
      destruct (WO (CV (Some cc) l' g')) as [v| |] eqn:Ey; cbn [bind]; try discriminate.
      destruct (sd_go H fs s (S i) r) as [vs| |] eqn:Er; cbn [bind]; try discriminate.
      intros E. injection E as <-.
      cbn [member_utf8] in Hny. apply andb_true_iff in Hny as [Hk Hl].
      cbn [forallb json_utf8 fst snd]. rewrite (name_utf8 cc i Hk), Hl, (Hy v Hcy Ey), (IH Hr Hmr (S i) vs Er).
      reflexivity.
  Qed.

  Theorem walkOutput_utf8 x : member_goal x.
  Proof.
    induction x as [|c l g IH] using cval_ind'; intros j Hu E; [discriminate|].
    rewrite cval_utf8_unfold in Hu. apply andb_true_iff in Hu as [Hg Hm].
    destruct c as [c|]; [|discriminate].
    destruct c as [e su m n k|len ch k|ch k|cs k].
    - rewrite WO_elem in E. exact (elem_utf8 e g j Hg E).
    - rewrite WO_fixed in E. destruct (walk_all H fs s l) as [js| |] eqn:Ew; cbn [bind] in E; try discriminate.
      injection E as <-. cbn [json_utf8]. exact (walk_all_utf8 l IH Hm js Ew).
    - rewrite WO_dyn in E. destruct (walk_all H fs s l) as [js| |] eqn:Ew; cbn [bind] in E; try discriminate.
      injection E as <-. cbn [json_utf8]. exact (walk_all_utf8 l IH Hm js Ew).
    - destruct (ts s) eqn:Em.
      + rewrite WO_tuple in E by (rewrite Em; discriminate). rewrite Em in E.
        destruct (obj_go H fs s 0 l []) as [mm| |] eqn:Ew; cbn [bind] in E; try discriminate.
        injection E as <-. cbn [json_utf8]. exact (obj_go_utf8 l IH Hm 0%nat [] mm eq_refl Ew).
      + rewrite WO_tuple in E by (rewrite Em; discriminate). rewrite Em in E.
        destruct (walk_all H fs s l) as [js| |] eqn:Ew; cbn [bind] in E; try discriminate.
        injection E as <-. cbn [json_utf8]. exact (walk_all_utf8 l IH Hm js Ew).
      + rewrite WO_tuple in E by (rewrite Em; discriminate). rewrite Em in E.
        destruct (sd_go H fs s 0 l) as [js| |] eqn:Ew; cbn [bind] in E; try discriminate.
        injection E as <-. cbn [json_utf8]. exact (sd_go_utf8 l IH Hm 0%nat js Ew).
      + cbn [walkOutput] in E. rewrite Em in E. discriminate.
  Qed.

  (* the faithful entry point agrees with SerializeJSON on such trees *)
  Theorem SerializeJSON_go_same x :
    cval_utf8 x = true -> SerializeJSON_go H fs dn s x = SerializeJSON H fs dn s x.
  Proof.
    intros Hu. unfold SerializeJSON_go, SerializeJSON.
    destruct (WO x) as [v| |] eqn:E; cbn [bind]; try reflexivity.
    rewrite (wire_go_verbatim v (walkOutput_utf8 x v Hu E)). reflexivity.
  Qed.
End Walk.

(* ---------- the guard in terms of the specification value and the component tree ---------- *)
Lemma member_utf8_cv_of c v : comp_utf8 c = true -> member_utf8 (cv_of c v) = true.
Proof.
  intros Hc. destruct c as [e su m n k|len ch k|ch k|cs k]; destruct v as [z|b|vs]; try reflexivity.
  - destruct e; exact Hc.
  - destruct e; exact Hc.
  - exact Hc.
  - exact Hc.
  - rewrite DecProofs3.cv_of_tuple. exact Hc.
Qed.

Lemma cval_utf8_cv_of c : forall v,
  names_utf8 c = true -> strings_utf8 (ty_of c) v = true -> cval_utf8 (cv_of c v) = true.
Proof.
  induction c as [e su m n k|len ch k IH|ch k IH|cs k IH] using tcomp_ind'; intros v Hn Hs.
  - destruct v as [z|b|vs]; [destruct e; reflexivity| |reflexivity].
    destruct e; try reflexivity. cbn [ty_of strings_utf8] in Hs. cbn [cv_of cval_utf8 gval_utf8]. rewrite Hs. reflexivity.
  - destruct v as [z|b|vs]; try reflexivity. cbn [names_utf8] in Hn. apply andb_true_iff in Hn as [Hc Hn].
    cbn [cv_of]. rewrite cval_utf8_unfold. cbn [gval_utf8 andb]. cbn [ty_of strings_utf8] in Hs.
    unfold members_ok. induction vs as [|x r IHr]; [reflexivity|]. cbn [map forallb].
    apply andb_true_iff in Hs as [Hx Hr]. rewrite (member_utf8_cv_of ch x Hc), (IH x Hn Hx), (IHr Hr). reflexivity.
  - destruct v as [z|b|vs]; try reflexivity. cbn [names_utf8] in Hn. apply andb_true_iff in Hn as [Hc Hn].
    cbn [cv_of]. rewrite cval_utf8_unfold. cbn [gval_utf8 andb]. cbn [ty_of strings_utf8] in Hs.
    unfold members_ok. induction vs as [|x r IHr]; [reflexivity|]. cbn [map forallb].
    apply andb_true_iff in Hs as [Hx Hr]. rewrite (member_utf8_cv_of ch x Hc), (IH x Hn Hx), (IHr Hr). reflexivity.
  - destruct v as [z|b|vs]; try reflexivity. rewrite DecProofs3.cv_of_tuple, cval_utf8_unfold. cbn [gval_utf8 andb].
    cbn [names_utf8] in Hn. cbn [ty_of strings_utf8] in Hs. unfold members_ok.
    revert vs Hs. induction cs as [|c' cs' IHcs]; intros vs Hs; [destruct vs; reflexivity|].
    destruct vs as [|x r]; [reflexivity|]. cbn [DecProofs3.tuple_cvs forallb].
    inversion IH as [|? ? Hc' Hcs']; subst. cbn [forallb] in Hn. apply andb_true_iff in Hn as [Hn1 Hn2].
    apply andb_true_iff in Hn1 as [Hk Hn1]. cbn [map] in Hs. apply andb_true_iff in Hs as [Hx Hr].
    rewrite (member_utf8_cv_of c' x Hk), (Hc' x Hn1 Hx). cbn [andb]. exact (IHcs Hcs' Hn2 r Hr).
Qed.
