(* Evaluator for the correspondence check of C02: runs the model (Abi/InputModel.v + Abi/EncModel.v)
   and the Solidity specification (Abi/Spec.v) on the cases written by harness/cmd/c02 and reports
   where they differ from what the implementation did. *)
From Coq Require Import String.
From Coq Require Import List NArith ZArith Lia Bool Arith.
From Coq Require Import Init.Byte.
From FFS Require Import Base.Res Base.Bytes Base.Lit Abi.Types Abi.Spec Abi.ModelTypes Abi.EncModel Abi.InputModel.
From FFS Require Export Abi.CaseLit.
From FFS Require EthTypes.Model.
Import ListNotations.

(* what the harness knows about the input: it denotes this well-typed value (the implementation must
   encode it as the specification says); it is outside the accepted values (out of range, wrong
   arity, non-integral text: must be an error); or nothing is claimed (model comparison only) *)
Inductive oracle := OValue (v : val) | OReject | ONone.

Inductive case :=
(* ParameterArray.EncodeABIDataJSON / EncodeABIDataValues (prefix = []) and Entry.EncodeCallData*
   (prefix = the selector the implementation computed): parameter list, external input,
   implementation outcome class (0 Ok, 1 error, 2 panic) and output *)
| CEnc (prefix : bytes) (params : list tcomp) (input : ext) (cls : nat) (out : bytes) (o : oracle)
(* ParseExternalData: the ComponentValue tree the implementation built (None when it failed) *)
| CParse (params : list tcomp) (input : ext) (cls : nat) (tree : option cval)
(* ComponentValue.EncodeABIData on a hand-built tree (possibly ill-formed) *)
| CTree (cv : cval) (cls : nat) (out : bytes).

(* same outcome class and bytes (the walk is run twice: with the local copy of the text parser and with
   property C19's model of it, which the composed theorem C02_number_texts_exact_or_rejected uses) *)
Definition res_bytes_eqb (a b : res bytes) : bool :=
  match a, b with
  | Ok x, Ok y => bytes_eqb x y
  | Err _, Err _ => true
  | Panic, Panic => true
  | _, _ => false
  end.

(* result codes: 0 agree; 1..9 model differs from implementation; >= 10 implementation breaks the
   property *)
Definition check_case (c : case) : N :=
  (match c with
  | CEnc prefix params input cls out o =>
      let ty := TTuple (map ty_of params) in
      let oc : N :=
        match o with
        | OValue v =>
            if negb (well_typed ty v) then 9
            else if (cls =? 2)%nat then 12
            else if negb (cls =? 0)%nat then 13
            else if negb (bytes_eqb out (prefix ++ enc ty v)) then 10 else 0
        | OReject => if (cls =? 2)%nat then 12 else if (cls =? 0)%nat then 11 else 0
        | ONone => 0
        end in
      if negb (oc =? 0)%N then oc
      else if negb (res_bytes_eqb (EncodeABIDataValues BigIntegerFromString params input)
                                  (EncodeABIDataValues EthTypes.Model.BigIntegerFromString params input)) then 7
      else match EncodeABIDataValues BigIntegerFromString params input, cls with
           | Ok b, 0%nat => if bytes_eqb (prefix ++ b) out then 0 else 1
           | Err _, 1%nat => 0
           | Panic, 2%nat => 0
           | Panic, _ => 2
           | _, 2%nat => 12      (* the implementation panicked where the modelled code returns *)
           | _, _ => 2
           end
  | CParse params input cls tree =>
      match walkInput BigIntegerFromString (root_of params) input, cls, tree with
      | Ok t, 0%nat, Some t' => if cval_eqb t t' then 0 else 3
      | Err _, 1%nat, _ => 0
      | Panic, 2%nat, _ => 0
      | _, _, _ => 4
      end
  | CTree cv cls out =>
      match EncodeABIData cv, cls with
      | Ok b, 0%nat => if bytes_eqb b out then 0 else 5
      | Err _, 1%nat => 0
      | Panic, 2%nat => 0
      | Panic, _ => 6
      | _, 2%nat => 12
      | _, _ => 6
      end
  end)%N.

Fixpoint mismatches_go (i : N) (l : list case) : list (N * N) :=
  match l with
  | [] => []
  | c :: t => let r := check_case c in
              if (r =? 0)%N then mismatches_go (i + 1) t else (i, r) :: mismatches_go (i + 1) t
  end.
Definition mismatches (l : list case) : list (N * N) := firstn 20 (mismatches_go 0 l).
