(* Proofs about Abi/EntryModel.v (C12), part 2: event logs.  [DecodeEventData] (an imperative loop
   over a pre-allocated child slice, a second tuple built on the side and an index map) is shown equal
   to a two-phase functional description -- topics first ([topic_phase]), then the data tuple merged
   into the free slots ([merge]) -- from which the per-argument statement and the refusals follow. *)
From Coq Require Import List NArith ZArith Lia Bool Arith.
From Coq Require Import Init.Byte.
From FFS Require Import Base.Res Base.Bytes Abi.Types Abi.ModelTypes Abi.EntryModel Abi.EntrySpec Abi.EntryProofs.
Import ListNotations.

(* ---------- list helpers ---------- *)

Lemma set_nth_app {A} (pre : list A) x post v :
  set_nth (pre ++ x :: post) (length pre) v = Ok (pre ++ v :: post).
Proof.
  induction pre as [|a pre IH]; [reflexivity|].
  cbn [app length set_nth]. rewrite IH. reflexivity.
Qed.

Lemma nth_error_skipn {A} (l : list A) n :
  match nth_error l n with
  | None => skipn n l = []
  | Some x => skipn n l = x :: skipn (S n) l
  end.
Proof.
  revert n. induction l as [|a l IH]; intros [|n]; cbn [nth_error skipn]; try reflexivity.
  specialize (IH n). destruct (nth_error l n); exact IH.
Qed.

Lemma map_get_unique (l : list (nat * nat)) k v :
  NoDup (map fst l) -> In (k, v) l -> map_get l k = v.
Proof.
  induction l as [|[k' v'] r IH]; intros Hnd Hin; [destruct Hin|].
  cbn [map fst] in Hnd. inversion Hnd as [|? ? Hni Hnd']; subst. cbn [map_get].
  destruct Hin as [E|Hin].
  - injection E as -> ->. rewrite Nat.eqb_refl. reflexivity.
  - destruct (Nat.eqb_spec k' k) as [->|N]; [|apply IH; assumption].
    exfalso. apply Hni. apply (in_map fst) in Hin. exact Hin.
Qed.

(* ---------- the functional description ---------- *)

Definition ins := list (tcomp * bool).

Definition data_args (l : ins) : list tcomp := map fst (filter (fun p => negb (snd p)) l).
Definition n_indexed (l : ins) : nat := length (filter (fun p : tcomp * bool => snd p) l).

Definition slot_default (s : option cval) : cval := match s with Some v => v | None => CVNil end.

(* free slots (None) take the data values in order; CVNil (a nil pointer) when there are too few *)
Fixpoint merge (slots : list (option cval)) (dvs : list cval) : list cval :=
  match slots with
  | [] => []
  | Some v :: r => v :: merge r dvs
  | None :: r => match dvs with
                 | [] => CVNil :: merge r []
                 | d :: ds => d :: merge r ds
                 end
  end.

Definition n_free (slots : list (option cval)) : nat :=
  length (filter (fun s : option cval => match s with None => true | Some _ => false end) slots).

Lemma merge_nil slots : merge slots [] = map slot_default slots.
Proof. induction slots as [|[v|] r IH]; cbn [merge map slot_default]; [reflexivity| |]; rewrite IH; reflexivity. Qed.

Lemma merge_length slots dvs : length (merge slots dvs) = length slots.
Proof.
  revert dvs. induction slots as [|[v|] r IH]; intros dvs; cbn [merge length]; [reflexivity|rewrite IH; reflexivity|].
  destruct dvs; cbn [length]; rewrite IH; reflexivity.
Qed.

(* positions (relative) of the free slots, with the data index each one takes *)
Fixpoint dmap_of (l : ins) (idx nda : nat) : list (nat * nat) :=
  match l with
  | [] => []
  | (_, true) :: r => dmap_of r (S idx) nda
  | (_, false) :: r => (nda, idx) :: dmap_of r (S idx) (S nda)
  end.

Lemma dmap_of_keys l idx nda : map fst (dmap_of l idx nda) = seq nda (length (data_args l)).
Proof.
  revert idx nda. induction l as [|[tc [|]] r IH]; intros idx nda; cbn [dmap_of]; [reflexivity| |].
  - rewrite IH. reflexivity.
  - cbn [map fst]. rewrite IH. reflexivity.
Qed.

Section Event.
  Variable H : bytes -> bytes.
  Variable decode_data : tcomp -> bytes -> Z -> res cval.
  Variable decode_elem : bytes -> tcomp -> Z -> Z -> res cval.

  Notation topicToValue := (topicToValue decode_elem).
  Notation event_walk := (event_walk decode_elem).

  (* phase 1: the argument topics are consumed in order by the indexed inputs *)
  Fixpoint topic_phase (l : ins) (tps : list bytes) : res (list (option cval)) :=
    match l with
    | [] => Ok []
    | (tc, true) :: r =>
        match tps with
        | [] => Err EInsufficientTopics
        | t :: ts => do v <- topicToValue t tc; do rest <- topic_phase r ts; Ok (Some v :: rest)
        end
    | (tc, false) :: r => do rest <- topic_phase r tps; Ok (None :: rest)
    end.

  Lemma topic_phase_shape l tps slots :
    topic_phase l tps = Ok slots ->
    length slots = length l /\ n_free slots = length (data_args l) /\ (n_indexed l <= length tps)%nat.
  Proof.
    revert tps slots. induction l as [|[tc [|]] r IH]; intros tps slots; cbn [topic_phase].
    - intros E; injection E as <-. repeat split; cbn; lia.
    - destruct tps as [|t ts]; [discriminate|].
      destruct (topicToValue t tc) as [v| |]; cbn [bind]; try discriminate.
      destruct (topic_phase r ts) as [rest| |] eqn:Er; cbn [bind]; try discriminate.
      intros E; injection E as <-. destruct (IH _ _ Er) as (A & B & C).
      unfold n_free, data_args, n_indexed in *. cbn [filter snd negb length]. repeat split; cbn [length]; lia.
    - destruct (topic_phase r tps) as [rest| |] eqn:Er; cbn [bind]; try discriminate.
      intros E; injection E as <-. destruct (IH _ _ Er) as (A & B & C).
      unfold n_free, data_args, n_indexed in *. cbn [filter snd negb length map]. repeat split; cbn [length]; lia.
  Qed.

  (* the loop of DecodeEventDataCtx, started anywhere in the child slice *)
  Lemma walk_eq topics (l : ins) pre tix da dm :
    event_walk topics l (length pre) tix (pre ++ repeat CVNil (length l)) da dm =
    do slots <- topic_phase l (skipn tix topics);
    Ok (pre ++ map slot_default slots, da ++ data_args l, rev (dmap_of l (length pre) (length da)) ++ dm).
  Proof.
    revert pre tix da dm. induction l as [|[tc [|]] r IH]; intros pre tix da dm.
    - cbn [EntryModel.event_walk topic_phase bind length repeat map data_args filter dmap_of rev app].
      rewrite !app_nil_r. reflexivity.
    - cbn [EntryModel.event_walk topic_phase length repeat].
      pose proof (nth_error_skipn topics tix) as Hs. destruct (nth_error topics tix) as [t|]; rewrite Hs; [|reflexivity].
      destruct (topicToValue t tc) as [v| |]; cbn [bind]; try reflexivity.
      rewrite set_nth_app. cbn [bind].
      replace (pre ++ v :: repeat CVNil (length r)) with ((pre ++ [v]) ++ repeat CVNil (length r))
        by (rewrite <- app_assoc; reflexivity).
      replace (S (length pre)) with (length (pre ++ [v])) by (rewrite app_length; cbn; lia).
      rewrite IH. destruct (topic_phase r (skipn (S tix) topics)) as [rest| |]; cbn [bind]; try reflexivity.
      rewrite app_length. cbn [length]. rewrite Nat.add_1_r.
      unfold data_args. cbn [map slot_default filter snd negb dmap_of]. rewrite <- app_assoc. reflexivity.
    - cbn [EntryModel.event_walk topic_phase length repeat].
      replace (pre ++ CVNil :: repeat CVNil (length r)) with ((pre ++ [CVNil]) ++ repeat CVNil (length r))
        by (rewrite <- app_assoc; reflexivity).
      replace (S (length pre)) with (length (pre ++ [CVNil])) by (rewrite app_length; cbn; lia).
      rewrite (IH (pre ++ [CVNil]) tix (da ++ [tc]) ((length da, length pre) :: dm)).
      destruct (topic_phase r (skipn tix topics)) as [rest| |]; cbn [bind]; try reflexivity.
      rewrite !app_length. cbn [length]. rewrite !Nat.add_1_r.
      unfold data_args. cbn [map slot_default filter snd negb dmap_of rev fst].
      rewrite <- !app_assoc. reflexivity.
  Qed.

  (* "map back": with a map that sends data index i0+j to the position of the j-th free slot, filling
     is merging *)
  Fixpoint free_positions (slots : list (option cval)) (idx : nat) : list nat :=
    match slots with
    | [] => []
    | Some _ :: r => free_positions r (S idx)
    | None :: r => idx :: free_positions r (S idx)
    end.

  Lemma fill_eq slots : forall pre vs i0 dm,
    (forall j p, nth_error (free_positions slots (length pre)) j = Some p -> map_get dm (i0 + j) = p) ->
    (length vs <= n_free slots)%nat ->
    event_fill vs i0 dm (pre ++ map slot_default slots) = Ok (pre ++ merge slots vs).
  Proof.
    induction slots as [|[v|] r IH]; intros pre vs i0 dm Hm Hl.
    - destruct vs; [reflexivity|cbn in Hl; lia].
    - cbn [map slot_default merge].
      replace (pre ++ v :: map slot_default r) with ((pre ++ [v]) ++ map slot_default r) by (rewrite <- app_assoc; reflexivity).
      replace (pre ++ v :: merge r vs) with ((pre ++ [v]) ++ merge r vs) by (rewrite <- app_assoc; reflexivity).
      apply IH; [|exact Hl].
      intros j p Hj. apply Hm. cbn [free_positions]. rewrite app_length in Hj. cbn [length] in Hj.
      replace (S (length pre)) with (length pre + 1)%nat by lia. exact Hj.
    - destruct vs as [|d ds].
      + cbn [event_fill]. rewrite merge_nil. reflexivity.
      + cbn [event_fill map slot_default merge].
        assert (map_get dm i0 = length pre) as ->.
        { replace i0 with (i0 + 0)%nat by lia. apply Hm. reflexivity. }
        rewrite set_nth_app. cbn [bind].
        replace (pre ++ d :: map slot_default r) with ((pre ++ [d]) ++ map slot_default r) by (rewrite <- app_assoc; reflexivity).
        replace (pre ++ d :: merge r ds) with ((pre ++ [d]) ++ merge r ds) by (rewrite <- app_assoc; reflexivity).
        apply IH.
        * intros j p Hj. replace (S i0 + j)%nat with (i0 + S j)%nat by lia. apply Hm.
          cbn [free_positions nth_error]. rewrite app_length in Hj. cbn [length] in Hj.
          replace (S (length pre)) with (length pre + 1)%nat by lia. exact Hj.
        * unfold n_free in *. cbn [filter length] in Hl. lia.
  Qed.

  (* the map the loop builds does send data index j to the j-th free slot *)
  Lemma dmap_of_free l tps slots : topic_phase l tps = Ok slots ->
    forall idx nda j p, nth_error (free_positions slots idx) j = Some p -> In ((nda + j)%nat, p) (dmap_of l idx nda).
  Proof.
    revert tps slots. induction l as [|[tc [|]] r IH]; intros tps slots; cbn [topic_phase].
    - intros E; injection E as <-. intros idx nda [|j] p E; discriminate.
    - destruct tps as [|t ts]; [discriminate|].
      destruct (topicToValue t tc) as [v| |]; cbn [bind]; try discriminate.
      destruct (topic_phase r ts) as [rest| |] eqn:Er; cbn [bind]; try discriminate.
      intros E; injection E as <-. intros idx nda j p Hj. cbn [free_positions dmap_of] in *.
      exact (IH _ _ Er _ _ _ _ Hj).
    - destruct (topic_phase r tps) as [rest| |] eqn:Er; cbn [bind]; try discriminate.
      intros E; injection E as <-. intros idx nda j p Hj. cbn [free_positions dmap_of] in *.
      destruct j as [|j]; cbn [nth_error] in Hj.
      + injection Hj as <-. left. f_equal. lia.
      + right. replace (nda + S j)%nat with (S nda + j)%nat by lia. exact (IH _ _ Er _ _ _ _ Hj).
  Qed.

  (* ---------- DecodeEventData, functionally ---------- *)

  Definition sig_topic_guard (e : entry) (topics : list bytes) : res nat :=
    if e_anonymous e then Ok O
    else match topics with
         | [] => Err EInsufficientTopics
         | t0 :: _ => if bytes_eqb t0 (SignatureHashBytes H e) then Ok 1%nat else Err ESigMismatch
         end.

  Definition event_spec (e : entry) (topics : list bytes) (data : bytes) : res cval :=
    do cs <- tree_children (e_inputs e);
    do tix <- sig_topic_guard e topics;
    let l := zip_inputs cs (e_inputs e) in
    do slots <- topic_phase l (skipn tix topics);
    do children <-
       (if (0 <? length (data_args l))%nat then
          do dv <- decode_data (TCTuple (data_args l) []) data 0;
          match dv with
          | CVNil => Panic
          | CV _ vs _ => if (length vs <=? length (data_args l))%nat then Ok (merge slots vs)
                         else event_fill vs O (rev (dmap_of l O O)) (map slot_default slots)
          end
        else Ok (merge slots []));
    Ok (CV (Some (TCTuple cs [])) children GNil).

  Lemma zip_inputs_length cs pa : tree_children pa = Ok cs -> length (zip_inputs cs pa) = length cs.
  Proof.
    revert cs. induction pa as [|p r IH]; intros cs; cbn [tree_children].
    - intros E; injection E as <-. reflexivity.
    - destruct (p_tc p); [|discriminate]. destruct (tree_children r) as [rest| |] eqn:Er; cbn [bind]; try discriminate.
      intros E; injection E as <-. cbn [zip_inputs length]. rewrite (IH rest eq_refl). reflexivity.
  Qed.

  Theorem DecodeEventData_spec e topics data :
    DecodeEventData H decode_data decode_elem e topics data = event_spec e topics data.
  Proof.
    unfold DecodeEventData, event_spec.
    destruct (tree_children (e_inputs e)) as [cs| |] eqn:Ec; cbn [bind]; try reflexivity.
    unfold sig_topic_guard. destruct (e_anonymous e); cbn [negb].
    - cbn [bind]. rewrite <- (zip_inputs_length cs (e_inputs e) Ec).
      pose proof (walk_eq topics (zip_inputs cs (e_inputs e)) [] O [] []) as Hw.
      cbn [app length] in Hw. rewrite Hw. clear Hw. destruct (topic_phase (zip_inputs cs (e_inputs e)) (skipn 0 topics)) as [slots| |] eqn:Et; cbn [bind]; try reflexivity.
      rewrite app_nil_r.
      destruct (0 <? length (data_args (zip_inputs cs (e_inputs e))))%nat; [|rewrite merge_nil; reflexivity].
      destruct (decode_data _ data 0%Z) as [[|c vs g]| |]; cbn [bind]; try reflexivity.
      destruct (length vs <=? _)%nat eqn:El; [|reflexivity]. apply Nat.leb_le in El.
      destruct (topic_phase_shape _ _ _ Et) as (_ & Hf & _).
      rewrite (fill_eq slots [] vs O); [reflexivity| |lia].
      intros j p Hj. cbn [length] in Hj. apply map_get_unique.
      + rewrite map_rev, dmap_of_keys. apply NoDup_rev. apply seq_NoDup.
      + apply -> in_rev. exact (dmap_of_free _ _ _ Et O O j p Hj).
    - destruct topics as [|t0 ts]; [reflexivity|].
      destruct (bytes_eqb t0 (SignatureHashBytes H e)); cbn [negb bind]; [|reflexivity].
      rewrite <- (zip_inputs_length cs (e_inputs e) Ec).
      pose proof (walk_eq (t0 :: ts) (zip_inputs cs (e_inputs e)) [] 1 [] []) as Hw.
      cbn [app length] in Hw. rewrite Hw. clear Hw. destruct (topic_phase (zip_inputs cs (e_inputs e)) (skipn 1 (t0 :: ts))) as [slots| |] eqn:Et; cbn [bind]; try reflexivity.
      rewrite app_nil_r.
      destruct (0 <? length (data_args (zip_inputs cs (e_inputs e))))%nat; [|rewrite merge_nil; reflexivity].
      destruct (decode_data _ data 0%Z) as [[|c vs g]| |]; cbn [bind]; try reflexivity.
      destruct (length vs <=? _)%nat eqn:El; [|reflexivity]. apply Nat.leb_le in El.
      destruct (topic_phase_shape _ _ _ Et) as (_ & Hf & _).
      rewrite (fill_eq slots [] vs O); [reflexivity| |lia].
      intros j p Hj. cbn [length] in Hj. apply map_get_unique.
      + rewrite map_rev, dmap_of_keys. apply NoDup_rev. apply seq_NoDup.
      + apply -> in_rev. exact (dmap_of_free _ _ _ Et O O j p Hj).
  Qed.

  (* ---------- consequences ---------- *)

  Lemma topicToValue_spec topic tc :
    topicToValue topic tc =
    if topic_is_value (ty_of tc) then decode_elem topic tc 0%Z 0%Z else Ok (raw_topic_value topic tc).
  Proof.
    destruct tc as [e s m n k|len c k|c k|l k]; cbn [EntryModel.topicToValue ty_of topic_is_value]; try reflexivity.
    destruct e; cbn [fixed32 topic_is_value]; try reflexivity.
    destruct (m =? 0)%N; reflexivity.
  Qed.

  Lemma zip_inputs_fst cs pa : tree_children pa = Ok cs -> map fst (zip_inputs cs pa) = cs.
  Proof.
    revert cs. induction pa as [|p r IH]; intros cs; cbn [tree_children].
    - intros E; injection E as <-. reflexivity.
    - destruct (p_tc p); [|discriminate]. destruct (tree_children r) as [rest| |] eqn:Er; cbn [bind]; try discriminate.
      intros E; injection E as <-. cbn [zip_inputs map fst]. rewrite (IH rest eq_refl). reflexivity.
  Qed.

  Lemma zip_inputs_snd cs pa : tree_children pa = Ok cs -> map snd (zip_inputs cs pa) = map p_indexed pa.
  Proof.
    revert cs. induction pa as [|p r IH]; intros cs; cbn [tree_children].
    - intros E; injection E as <-. reflexivity.
    - destruct (p_tc p); [|discriminate]. destruct (tree_children r) as [rest| |] eqn:Er; cbn [bind]; try discriminate.
      intros E; injection E as <-. cbn [zip_inputs map snd]. rewrite (IH rest eq_refl). reflexivity.
  Qed.

  Lemma n_indexed_flags (l : ins) : n_indexed l = length (filter (fun b : bool => b) (map snd l)).
  Proof.
    unfold n_indexed. induction l as [|[tc [|]] r IH]; cbn [filter map snd length]; [reflexivity| |]; rewrite IH; reflexivity.
  Qed.

  (* where each slot comes from, in the terms of EntrySpec.sources *)
  Lemma phase_sources l : forall tps slots, topic_phase l tps = Ok slots -> forall nt nd i,
    match nth_error (sources_from (map snd l) nt nd) i with
    | Some (FromTopic k) =>
        exists tc topic v, nth_error l i = Some (tc, true) /\ (nt <= k)%nat /\ nth_error tps (k - nt) = Some topic /\
                           topicToValue topic tc = Ok v /\ nth_error slots i = Some (Some v)
    | Some (FromData k) =>
        exists tc, nth_error l i = Some (tc, false) /\ (nd <= k)%nat /\ nth_error slots i = Some None /\
                   n_free (firstn i slots) = (k - nd)%nat
    | None => True
    end.
  Proof.
    induction l as [|[tc [|]] r IH]; intros tps slots; cbn [topic_phase].
    - intros _ nt nd [|i]; exact I.
    - destruct tps as [|t ts]; [discriminate|].
      destruct (topicToValue t tc) as [v| |] eqn:Ev; cbn [bind]; try discriminate.
      destruct (topic_phase r ts) as [rest| |] eqn:Er; cbn [bind]; try discriminate.
      intros E; injection E as <-. intros nt nd [|i]; cbn [map snd sources_from nth_error].
      + exists tc, t, v. rewrite Nat.sub_diag. repeat split; auto.
      + specialize (IH ts rest Er (S nt) nd i).
        destruct (nth_error (sources_from (map snd r) (S nt) nd) i) as [[k|k]|]; [| |exact I].
        * destruct IH as (tc' & topic & v' & A & B & C & D & F). exists tc', topic, v'.
          repeat split; auto; [lia|]. replace (k - nt)%nat with (S (k - S nt)) by lia. exact C.
        * destruct IH as (tc' & A & B & C & D). exists tc'. repeat split; auto.
    - destruct (topic_phase r tps) as [rest| |] eqn:Er; cbn [bind]; try discriminate.
      intros E; injection E as <-. intros nt nd [|i]; cbn [map snd sources_from nth_error].
      + exists tc. rewrite Nat.sub_diag. repeat split; auto.
      + specialize (IH tps rest Er nt (S nd) i).
        destruct (nth_error (sources_from (map snd r) nt (S nd)) i) as [[k|k]|]; [| |exact I].
        * destruct IH as (tc' & topic & v' & A & B & C & D & F). exists tc', topic, v'. repeat split; auto.
        * destruct IH as (tc' & A & B & C & D). exists tc'. repeat split; auto; [lia|].
          cbn [firstn]. unfold n_free in *. cbn [filter length]. rewrite D. lia.
  Qed.

  Lemma merge_topic slots : forall vs i v, nth_error slots i = Some (Some v) -> nth_error (merge slots vs) i = Some v.
  Proof.
    induction slots as [|[w|] r IH]; intros vs [|i] v; cbn [nth_error merge]; try discriminate.
    - intros E; injection E as <-. reflexivity.
    - apply IH.
    - destruct vs; cbn [nth_error]; apply IH.
  Qed.

  Lemma merge_data slots : forall vs i, nth_error slots i = Some None -> (n_free (firstn i slots) < length vs)%nat ->
    nth_error (merge slots vs) i = nth_error vs (n_free (firstn i slots)).
  Proof.
    induction slots as [|[w|] r IH]; intros vs [|i]; cbn [nth_error merge firstn]; try discriminate.
    - intros E Hl. unfold n_free in *. cbn [filter] in *. apply IH; assumption.
    - intros _ Hl. destruct vs as [|d ds]; [cbn in Hl; lia|reflexivity].
    - intros E Hl. unfold n_free in *. cbn [filter length] in *.
      destruct vs as [|d ds]; [cbn in Hl; lia|]. cbn [nth_error length] in *. apply IH; [exact E|lia].
  Qed.

  (* the data decoder returns one value per member of the tuple it was asked for *)
  Definition decode_len_law : Prop :=
    forall cs k b o c vs g, decode_data (TCTuple cs k) b o = Ok (CV c vs g) -> length vs = length cs.

  (* C12_event_decode *)
  Theorem event_decode e topics data r :
    decode_len_law ->
    DecodeEventData H decode_data decode_elem e topics data = Ok r ->
    exists cs children,
      tree_children (e_inputs e) = Ok cs /\
      r = CV (Some (TCTuple cs [])) children GNil /\ length children = length cs /\
      (topics_needed (e_anonymous e) (map p_indexed (e_inputs e)) <= length topics)%nat /\
      (e_anonymous e = false -> nth_error topics 0 = Some (SignatureHashBytes H e)) /\
      forall i tc, nth_error cs i = Some tc ->
        match nth_error (sources (map p_indexed (e_inputs e))) i with
        | Some (FromTopic k) =>
            exists topic v, nth_error topics ((if e_anonymous e then 0 else 1) + k) = Some topic /\
                            nth_error children i = Some v /\
                            (if topic_is_value (ty_of tc) then decode_elem topic tc 0%Z 0%Z = Ok v
                             else v = raw_topic_value topic tc)
        | Some (FromData k) =>
            exists c vs g, decode_data (TCTuple (data_args (zip_inputs cs (e_inputs e))) []) data 0%Z = Ok (CV c vs g) /\
                           (k < length vs)%nat /\ nth_error children i = nth_error vs k
        | None => False
        end.
  Proof.
    intros Hlaw. rewrite DecodeEventData_spec. unfold event_spec.
    destruct (tree_children (e_inputs e)) as [cs| |] eqn:Ec; cbn [bind]; try discriminate.
    destruct (sig_topic_guard e topics) as [tix| |] eqn:Eg; cbn [bind]; try discriminate.
    set (l := zip_inputs cs (e_inputs e)).
    destruct (topic_phase l (skipn tix topics)) as [slots| |] eqn:Et; cbn [bind]; try discriminate.
    destruct (topic_phase_shape _ _ _ Et) as (Hsl & Hfree & Hn).
    assert (Htix : tix = if e_anonymous e then O else 1%nat).
    { unfold sig_topic_guard in Eg. destruct (e_anonymous e); [congruence|].
      destruct topics as [|t0 ts]; [discriminate|]. destruct (bytes_eqb t0 _); congruence. }
    assert (Hll : length l = length cs) by (apply zip_inputs_length; exact Ec).
    assert (Hflags : map snd l = map p_indexed (e_inputs e)) by (apply zip_inputs_snd; exact Ec).
    assert (Hfst : map fst l = cs) by (apply zip_inputs_fst; exact Ec).
    intros Hr.
    match type of Hr with (do x <- ?A; _) = _ => destruct A as [ch| |] eqn:EA; cbn [bind] in Hr; try discriminate end.
    injection Hr as <-.
    destruct (0 <? length (data_args l))%nat eqn:E0.
    2:{ (* no data arguments *)
      injection EA as <-. exists cs, (merge slots []). split; [reflexivity|]. split; [reflexivity|].
      split; [rewrite merge_length; lia|].
      split.
      { unfold topics_needed. rewrite <- Hflags, <- n_indexed_flags. rewrite skipn_length in Hn.
        unfold sig_topic_guard in Eg. destruct (e_anonymous e); [subst tix; lia|]. subst tix.
        destruct topics; [discriminate|]. cbn [length] in *. lia. }
      split.
      { intros Ha. unfold sig_topic_guard in Eg. rewrite Ha in Eg. destruct topics as [|t0 ts]; [discriminate|].
        destruct (bytes_eqb_spec t0 (SignatureHashBytes H e)) as [->|]; [reflexivity|discriminate]. }
      intros i tc Hi. unfold sources. rewrite <- Hflags.
      pose proof (phase_sources l _ _ Et O O i) as Hp.
      assert (Hlt : (i < length (map snd l))%nat) by (rewrite map_length, Hll; apply nth_error_Some; congruence).
      destruct (nth_error (sources_from (map snd l) 0 0) i) as [[k|k]|] eqn:Es.
      - destruct Hp as (tc' & topic & v & A & B & C & D & F). exists topic, v.
        assert (tc' = tc) as ->.
        { rewrite <- Hfst in Hi. rewrite nth_error_map, A in Hi. cbn in Hi. congruence. }
        rewrite Nat.sub_0_r in C. pose proof (nth_error_skipn topics tix) as Hsk.
        split; [|split; [apply merge_topic; exact F|rewrite topicToValue_spec in D; destruct (topic_is_value (ty_of tc)); [exact D|congruence]]].
        rewrite <- Htix. clear -C. revert topics C. induction tix as [|n IHn]; intros topics C; [exact C|].
        destruct topics as [|t ts]; [destruct k; discriminate|]. cbn [skipn] in C. cbn [plus nth_error]. apply IHn. exact C.
      - exfalso. destruct Hp as (tc' & A & B & C & D). apply Nat.ltb_ge in E0.
        assert (In (tc', false) l) by (eapply nth_error_In; exact A).
        unfold data_args in E0. rewrite map_length in E0.
        assert (In (tc', false) (filter (fun p : tcomp * bool => negb (snd p)) l)) as Hin by (apply filter_In; split; [assumption|reflexivity]).
        destruct (filter (fun p : tcomp * bool => negb (snd p)) l); [destruct Hin|cbn in E0; lia].
      - apply nth_error_None in Es.
        assert (forall fl nt nd, length (sources_from fl nt nd) = length fl) as Hsl'.
        { induction fl as [|[|] fl IHf]; intros nt nd; cbn [sources_from length]; [reflexivity| |]; rewrite IHf; reflexivity. }
        rewrite Hsl' in Es. lia. }
    (* with data arguments *)
    destruct (decode_data (TCTuple (data_args l) []) data 0%Z) as [[|c vs g]| |] eqn:Ed; cbn [bind] in EA; try discriminate.
    pose proof (Hlaw _ _ _ _ _ _ _ Ed) as Hlen. rewrite Hlen, Nat.leb_refl in EA. injection EA as <-.
    exists cs, (merge slots vs). split; [reflexivity|]. split; [reflexivity|].
    split; [rewrite merge_length; lia|].
    split.
    { unfold topics_needed. rewrite <- Hflags, <- n_indexed_flags. rewrite skipn_length in Hn.
      unfold sig_topic_guard in Eg. destruct (e_anonymous e); [subst tix; lia|]. subst tix.
      destruct topics; [discriminate|]. cbn [length] in *. lia. }
    split.
    { intros Ha. unfold sig_topic_guard in Eg. rewrite Ha in Eg. destruct topics as [|t0 ts]; [discriminate|].
      destruct (bytes_eqb_spec t0 (SignatureHashBytes H e)) as [->|]; [reflexivity|discriminate]. }
    intros i tc Hi. unfold sources. rewrite <- Hflags.
    pose proof (phase_sources l _ _ Et O O i) as Hp.
    destruct (nth_error (sources_from (map snd l) 0 0) i) as [[k|k]|] eqn:Es.
    - destruct Hp as (tc' & topic & v & A & B & C & D & F). exists topic, v.
      assert (tc' = tc) as ->.
      { rewrite <- Hfst in Hi. rewrite nth_error_map, A in Hi. cbn in Hi. congruence. }
      rewrite Nat.sub_0_r in C.
      split; [|split; [apply merge_topic; exact F|rewrite topicToValue_spec in D; destruct (topic_is_value (ty_of tc)); [exact D|congruence]]].
      rewrite <- Htix. clear -C. revert topics C. induction tix as [|n IHn]; intros topics C; [exact C|].
      destruct topics as [|t ts]; [destruct k; discriminate|]. cbn [skipn] in C. cbn [plus nth_error]. apply IHn. exact C.
    - destruct Hp as (tc' & A & B & C & D). rewrite Nat.sub_0_r in D. exists c, vs, g.
      assert (Hk : (k < length vs)%nat).
      { rewrite Hlen, <- Hfree, <- D. unfold n_free.
        rewrite <- (firstn_skipn i slots) at 2. rewrite filter_app, app_length.
        pose proof (nth_error_skipn slots i) as Hsk. rewrite C in Hsk. rewrite Hsk. cbn [filter length]. lia. }
      split; [exact Ed|]. split; [exact Hk|]. rewrite <- D. apply merge_data; [exact C|rewrite D; exact Hk].
    - apply nth_error_None in Es.
      assert (forall fl nt nd, length (sources_from fl nt nd) = length fl) as Hsl'.
      { induction fl as [|[|] fl IHf]; intros nt nd; cbn [sources_from length]; [reflexivity| |]; rewrite IHf; reflexivity. }
      rewrite Hsl', map_length, Hll in Es. assert (i < length cs)%nat by (apply nth_error_Some; congruence). lia.
  Qed.

  (* C12_event_refuse *)
  Theorem event_refuse_no_topics e data :
    e_anonymous e = false -> (exists cs, tree_children (e_inputs e) = Ok cs) ->
    DecodeEventData H decode_data decode_elem e [] data = Err EInsufficientTopics.
  Proof.
    intros Ha [cs Hc]. rewrite DecodeEventData_spec. unfold event_spec, sig_topic_guard. rewrite Hc, Ha. reflexivity.
  Qed.

  Theorem event_refuse_foreign_topic0 e t0 ts data :
    e_anonymous e = false -> (exists cs, tree_children (e_inputs e) = Ok cs) ->
    t0 <> SignatureHashBytes H e ->
    DecodeEventData H decode_data decode_elem e (t0 :: ts) data = Err ESigMismatch.
  Proof.
    intros Ha [cs Hc] Hne. rewrite DecodeEventData_spec. unfold event_spec, sig_topic_guard. rewrite Hc, Ha. cbn [bind].
    destruct (bytes_eqb_spec t0 (SignatureHashBytes H e)); [contradiction|reflexivity].
  Qed.

  Theorem event_refuse_too_few_topics e topics data r :
    (length topics < topics_needed (e_anonymous e) (map p_indexed (e_inputs e)))%nat ->
    DecodeEventData H decode_data decode_elem e topics data <> Ok r.
  Proof.
    intros Hlt. rewrite DecodeEventData_spec. unfold event_spec.
    destruct (tree_children (e_inputs e)) as [cs| |] eqn:Ec; cbn [bind]; try discriminate.
    destruct (sig_topic_guard e topics) as [tix| |] eqn:Eg; cbn [bind]; try discriminate.
    destruct (topic_phase (zip_inputs cs (e_inputs e)) (skipn tix topics)) as [slots| |] eqn:Et; cbn [bind]; try discriminate.
    exfalso. destruct (topic_phase_shape _ _ _ Et) as (_ & _ & Hn).
    rewrite n_indexed_flags, (zip_inputs_snd _ _ Ec), skipn_length in Hn.
    unfold topics_needed in Hlt. unfold sig_topic_guard in Eg.
    destruct (e_anonymous e); [injection Eg as <-; lia|].
    destruct topics as [|t0 ts]; [discriminate|]. destruct (bytes_eqb t0 _); [|discriminate].
    injection Eg as <-. cbn [length] in *. lia.
  Qed.

  (* without a panicking topic decoder the refusal is an error *)
  Theorem event_refuse_too_few_topics_err e topics data :
    (forall topic tc, decode_elem topic tc 0%Z 0%Z <> Panic) ->
    (length topics < topics_needed (e_anonymous e) (map p_indexed (e_inputs e)))%nat ->
    exists c, DecodeEventData H decode_data decode_elem e topics data = Err c.
  Proof.
    intros Hnp Hlt.
    destruct (DecodeEventData H decode_data decode_elem e topics data) as [r|c|] eqn:Ed; [|eauto|].
    - exfalso. exact (event_refuse_too_few_topics e topics data r Hlt Ed).
    - exfalso. rewrite DecodeEventData_spec in Ed. unfold event_spec in Ed.
      destruct (tree_children (e_inputs e)) as [cs| |] eqn:Ec; cbn [bind] in Ed; try discriminate.
      2:{ exact (tree_children_not_panic _ Ec). }
      destruct (sig_topic_guard e topics) as [tix| |] eqn:Eg; cbn [bind] in Ed; try discriminate.
      2:{ unfold sig_topic_guard in Eg. destruct (e_anonymous e); [discriminate|]. destruct topics; [discriminate|].
          destruct (bytes_eqb b _); discriminate. }
      destruct (topic_phase (zip_inputs cs (e_inputs e)) (skipn tix topics)) as [slots| |] eqn:Et; cbn [bind] in Ed; try discriminate.
      + destruct (topic_phase_shape _ _ _ Et) as (_ & _ & Hn).
        rewrite n_indexed_flags, (zip_inputs_snd _ _ Ec), skipn_length in Hn.
        unfold topics_needed in Hlt. unfold sig_topic_guard in Eg.
        destruct (e_anonymous e); [injection Eg as <-; lia|].
        destruct topics as [|t0 ts]; [discriminate|]. destruct (bytes_eqb t0 _); [|discriminate].
        injection Eg as <-. cbn [length] in *. lia.
      + clear -Et Hnp. revert Et. generalize (skipn tix topics). generalize (zip_inputs cs (e_inputs e)).
        induction l as [|[tc [|]] r IH]; intros tps; cbn [topic_phase]; [discriminate| |].
        * destruct tps as [|t ts]; [discriminate|].
          destruct (topicToValue t tc) as [v| |] eqn:Ev; cbn [bind]; [|discriminate|].
          -- destruct (topic_phase r ts) eqn:Er; cbn [bind]; try discriminate. intros _. exact (IH ts Er).
          -- intros _. rewrite topicToValue_spec in Ev. destruct (topic_is_value (ty_of tc)); [|discriminate].
             exact (Hnp _ _ Ev).
        * destruct (topic_phase r tps) eqn:Er; cbn [bind]; try discriminate. intros _. exact (IH tps Er).
  Qed.
End Event.
