(* Proofs about the encoder model (Abi/EncModel.v) against the Solidity specification (Abi/Spec.v):
   part 1 - buffers, words and the elementary encoders. *)
From Coq Require Import List NArith ZArith Bool Arith Lia.
From Coq Require Import ZifyNat ZifyN ZifyBool.
From Coq Require Import Init.Byte.
From FFS Require Import Base.Res Base.Bytes Abi.Types Abi.Spec Abi.ModelTypes Abi.EncModel.
Import ListNotations.

Ltac Zify.zify_post_hook ::= Z.div_mod_to_equations.

(* ---------- words ---------- *)

Lemma be_bytes_is_be_fixedZ k z : be_bytes k z = be_fixedZ k z.
Proof.
  unfold be_bytes. revert z. induction k as [|k IH]; intros z; [reflexivity|].
  cbn [le_bytes be_fixedZ rev]. rewrite IH. reflexivity.
Qed.

Lemma be_fixedZ_length k z : length (be_fixedZ k z) = k.
Proof.
  revert z. induction k as [|k IH]; intros z; [reflexivity|].
  cbn [be_fixedZ]. rewrite app_length, IH. simpl. lia.
Qed.

Lemma word_length z : length (word z) = 32%nat.
Proof. apply be_fixedZ_length. Qed.

Lemma two_256 : two 256 = (256 ^ Z.of_nat 32)%Z.
Proof. reflexivity. Qed.

Lemma two_pos k : (0 < two k)%Z.
Proof. unfold two. apply Z.pow_pos_nonneg; lia. Qed.

Lemma two_le a b : (a <= b)%N -> (two a <= two b)%Z.
Proof. intros H. unfold two. apply Z.pow_le_mono_r; lia. Qed.

Lemma make_length n : length (make n) = n.
Proof. apply repeat_length. Qed.

Lemma skipn_make a n : skipn a (make n) = make (n - a).
Proof.
  unfold make. revert a. induction n as [|n IH]; intros [|a]; simpl; try reflexivity. apply IH.
Qed.

Lemma firstn_make a n : firstn a (make n) = make (Nat.min a n).
Proof.
  unfold make. revert a. induction n as [|n IH]; intros [|a]; simpl; try reflexivity. f_equal. apply IH.
Qed.

(* FillBytes into a fresh 32-byte buffer *)
Lemma fill_make32 x : (0 <= x < two 256)%Z -> fill_at (make 32) 0 32 x = Ok (word x).
Proof.
  intros H. unfold fill_at. rewrite make_length.
  replace ((0 <=? 32)%nat && (32 <=? 32)%nat) with true by reflexivity. cbn [negb].
  replace (32 - 0)%nat with 32%nat by reflexivity. rewrite <- two_256.
  replace ((0 <=? x)%Z && (x <? two 256)%Z) with true by (symmetry; apply andb_true_intro; split; [apply Z.leb_le|apply Z.ltb_lt]; lia).
  cbn [negb]. rewrite be_bytes_is_be_fixedZ. unfold word. rewrite Z.mod_small by lia.
  change (skipn 32 (make 32)) with (@nil byte). rewrite app_nil_r. reflexivity.
Qed.

(* FillBytes into the first 32 bytes of a zeroed buffer *)
Lemma fill_make_prefix n x : (32 <= n)%nat -> (0 <= x < two 256)%Z ->
  fill_at (make n) 0 32 x = Ok (word x ++ make (n - 32)).
Proof.
  intros Hn H. unfold fill_at. rewrite make_length.
  replace ((0 <=? 32)%nat && (32 <=? n)%nat) with true by (symmetry; apply andb_true_intro; split; apply Nat.leb_le; lia).
  cbn [negb]. replace (32 - 0)%nat with 32%nat by reflexivity. rewrite <- two_256.
  replace ((0 <=? x)%Z && (x <? two 256)%Z) with true by (symmetry; apply andb_true_intro; split; [apply Z.leb_le|apply Z.ltb_lt]; lia).
  cbn [negb firstn app]. rewrite be_bytes_is_be_fixedZ, skipn_make. unfold word. rewrite Z.mod_small by lia. reflexivity.
Qed.

(* ---------- integers ---------- *)

Lemma bitlen_le z m : (0 <= z)%Z -> (z < two m)%Z -> (bitlen z <= Z.of_N m)%Z.
Proof.
  intros H0 H. unfold bitlen. destruct (z =? 0)%Z eqn:E; [lia|].
  apply Z.eqb_neq in E. rewrite Z.abs_eq by lia.
  assert (Z.log2 z < Z.of_N m)%Z by (apply Z.log2_lt_pow2; [lia|exact H]). lia.
Qed.

Lemma bitlen_gt z m : (two m <= z)%Z -> (Z.of_N m < bitlen z)%Z.
Proof.
  intros H. pose proof (two_pos m). unfold bitlen. destruct (z =? 0)%Z eqn:E; [apply Z.eqb_eq in E; lia|].
  rewrite Z.abs_eq by lia.
  assert (Z.of_N m <= Z.log2 z)%Z by (apply Z.log2_le_pow2; [lia|exact H]). lia.
Qed.

Lemma unsigned_ok m z : (m <= 256)%N -> (0 <= z)%Z -> (z < two m)%Z ->
  encodeABIUnsignedInteger m (GBigInt z) = Ok (word z, false).
Proof.
  intros Hm H0 H. unfold encodeABIUnsignedInteger. cbn [assert_bigint bind].
  replace (z <? 0)%Z with false by (symmetry; apply Z.ltb_ge; lia).
  pose proof (bitlen_le z m H0 H).
  replace (Z.of_N m <? bitlen z)%Z with false by (symmetry; apply Z.ltb_ge; lia).
  pose proof (two_le m 256 Hm). rewrite fill_make32 by lia. reflexivity.
Qed.

Lemma unsigned_rejects m z : ~ (0 <= z < two m)%Z -> exists e, encodeABIUnsignedInteger m (GBigInt z) = Err e.
Proof.
  intros H. unfold encodeABIUnsignedInteger. cbn [assert_bigint bind].
  destruct (z <? 0)%Z eqn:E; [eexists; reflexivity|]. apply Z.ltb_ge in E.
  assert (two m <= z)%Z by lia. pose proof (bitlen_gt z m H0).
  replace (Z.of_N m <? bitlen z)%Z with true by (symmetry; apply Z.ltb_lt; lia). eexists; reflexivity.
Qed.

Definition wf_m (m : N) : Prop := (8 <= m)%N /\ (m <= 256)%N /\ (m mod 8 = 0)%N.

Lemma in_max_table_wf m : wf_m m -> in_max_table m = true.
Proof.
  intros (A & B & C). unfold in_max_table.
  apply andb_true_intro; split; [apply andb_true_intro; split|]; [apply N.leb_le|apply N.leb_le|apply N.eqb_eq]; assumption.
Qed.

Lemma two_pred m : (1 <= m)%N -> two (m - 1) = (2 ^ (Z.of_N m - 1))%Z.
Proof. intros H. unfold two. f_equal. lia. Qed.

Lemma checkSignedIntFits_iff m z : wf_m m ->
  checkSignedIntFits z m = true <-> (- two (m - 1) <= z < two (m - 1))%Z.
Proof.
  intros W. pose proof (in_max_table_wf m W) as T. destruct W as (A & B & C).
  rewrite two_pred by lia. unfold checkSignedIntFits. rewrite T. cbn [andb].
  assert (0 < 2 ^ (Z.of_N m - 1))%Z by (apply Z.pow_pos_nonneg; lia).
  destruct (Z.compare_spec z 0).
  - subst. split; [lia|reflexivity].
  - rewrite Z.leb_le. lia.
  - rewrite Z.leb_le. lia.
Qed.

Lemma land_fullBits i : Z.land i fullBits256 = (i mod two 256)%Z.
Proof.
  unfold fullBits256, two. change (2 ^ 256 - 1)%Z with (Z.ones 256). apply Z.land_ones. lia.
Qed.

Lemma serialize_ok i : SerializeInt256TwosComplementBytes i = Ok (word i).
Proof.
  unfold SerializeInt256TwosComplementBytes. rewrite land_fullBits.
  pose proof (Z.mod_pos_bound i (two 256) (two_pos 256)).
  rewrite fill_make32 by lia. unfold word. rewrite Z.mod_mod by (pose proof (two_pos 256); lia). reflexivity.
Qed.

Lemma signed_ok m z : wf_m m -> (- two (m - 1) <= z < two (m - 1))%Z ->
  encodeABISignedInteger m (GBigInt z) = Ok (word z, false).
Proof.
  intros W H. unfold encodeABISignedInteger. cbn [assert_bigint bind encodeABISignedInteger_i].
  apply (checkSignedIntFits_iff m z W) in H. rewrite H. cbn [negb]. rewrite serialize_ok. reflexivity.
Qed.

Lemma signed_rejects m z : wf_m m -> ~ (- two (m - 1) <= z < two (m - 1))%Z ->
  exists e, encodeABISignedInteger m (GBigInt z) = Err e.
Proof.
  intros W H. unfold encodeABISignedInteger. cbn [assert_bigint bind encodeABISignedInteger_i].
  destruct (checkSignedIntFits z m) eqn:E.
  - apply (checkSignedIntFits_iff m z W) in E. contradiction.
  - eexists; reflexivity.
Qed.

(* ---------- byte strings ---------- *)

Lemma copy_make_front n b : (length b <= n)%nat -> copy_at (make n) 0 b = Ok (b ++ make (n - length b)).
Proof.
  intros H. unfold copy_at. rewrite make_length. cbn [Nat.leb negb firstn app].
  rewrite Nat.sub_0_r, Nat.min_r by lia. rewrite firstn_all, skipn_make. reflexivity.
Qed.

Lemma pad_right_exact b : (1 <= length b <= 32)%nat -> pad_right b = b ++ make (32 - length b).
Proof.
  intros H. unfold pad_right, make. f_equal. f_equal.
  destruct (Nat.eq_dec (length b) 32) as [E|E].
  - rewrite E. reflexivity.
  - rewrite (Nat.mod_small (length b) 32) by lia. rewrite Nat.mod_small by lia. reflexivity.
Qed.

Lemma slice_all b : slice b 0 (length b) = Ok b.
Proof.
  pose proof (slice_prefix b []) as H. rewrite app_nil_r in H. exact H.
Qed.

Lemma bytesN_ok m b : (1 <= m)%N -> (m <= 32)%N -> N.of_nat (length b) = m ->
  encodeABIBytes m (GBytes b) = Ok (pad_right b, false).
Proof.
  intros H1 H2 HL. unfold encodeABIBytes.
  replace (m =? 0)%N with false by (symmetry; apply N.eqb_neq; lia).
  replace (N.to_nat m) with (length b) by lia.
  replace (length b <? length b)%nat with false by (symmetry; apply Nat.ltb_ge; lia).
  replace (32 <? length b)%nat with false by (symmetry; apply Nat.ltb_ge; lia).
  cbn [orb]. rewrite slice_all. cbn [bind].
  rewrite copy_make_front by lia. cbn [bind]. rewrite pad_right_exact by lia. reflexivity.
Qed.

Definition len_ok (n : nat) : Prop := (Z.of_nat n < two 256)%Z.

(* writes into a block seen as  A ++ (area to be overwritten) ++ C *)
Lemma copy_at_app (A Zs C src : bytes) : length Zs = length src ->
  copy_at (A ++ Zs ++ C) (length A) src = Ok (A ++ src ++ C).
Proof.
  intros HL. unfold copy_at. rewrite !app_length.
  replace (length A <=? length A + (length Zs + length C))%nat with true by (symmetry; apply Nat.leb_le; lia).
  cbn [negb]. rewrite Nat.min_r by lia.
  rewrite firstn_app, Nat.sub_diag, firstn_all. cbn [firstn]. rewrite app_nil_r, firstn_all.
  rewrite skipn_app. rewrite (skipn_all2 A) by lia. cbn [app].
  replace (length A + length src - length A)%nat with (length Zs) by lia.
  rewrite skipn_app, skipn_all, Nat.sub_diag. reflexivity.
Qed.

Lemma fill_at_app (A Zs C : bytes) x : length Zs = 32%nat -> (0 <= x < two 256)%Z ->
  fill_at (A ++ Zs ++ C) (length A) (length A + 32) x = Ok (A ++ word x ++ C).
Proof.
  intros HL Hx. unfold fill_at. rewrite !app_length.
  replace ((length A <=? length A + 32)%nat && (length A + 32 <=? length A + (length Zs + length C))%nat) with true
    by (symmetry; apply andb_true_intro; split; apply Nat.leb_le; lia).
  cbn [negb]. replace (length A + 32 - length A)%nat with 32%nat by lia. rewrite <- two_256.
  replace ((0 <=? x)%Z && (x <? two 256)%Z) with true by (symmetry; apply andb_true_intro; split; [apply Z.leb_le|apply Z.ltb_lt]; lia).
  cbn [negb]. rewrite be_bytes_is_be_fixedZ. unfold word. rewrite Z.mod_small by lia.
  rewrite firstn_app, Nat.sub_diag, firstn_all. cbn [firstn]. rewrite app_nil_r.
  rewrite skipn_app. rewrite (skipn_all2 A) by lia. cbn [app].
  replace (length A + 32 - length A)%nat with (length Zs) by lia.
  rewrite skipn_app, skipn_all, Nat.sub_diag. reflexivity.
Qed.

Lemma make_app a b : make (a + b) = make a ++ make b.
Proof. unfold make. apply repeat_app. Qed.

Lemma dynamic_bytes_ok b : len_ok (length b) ->
  encodeABIDynamicBytes b = Ok (word (blen b) ++ pad_right b, true).
Proof.
  intros HL. unfold encodeABIDynamicBytes, len_ok in *.
  set (l := length b) in *.
  set (dataLen := (32 + l / 32 * 32 + (if (l mod 32 =? 0)%nat then 0 else 32))%nat).
  set (pad := ((32 - l mod 32) mod 32)%nat).
  assert (Hd : dataLen = (32 + (l + pad))%nat).
  { unfold dataLen, pad. destruct (l mod 32 =? 0)%nat eqn:E; [apply Nat.eqb_eq in E|apply Nat.eqb_neq in E].
    - rewrite E. replace ((32 - 0) mod 32)%nat with 0%nat by reflexivity. lia.
    - assert (l mod 32 < 32)%nat by (apply Nat.mod_upper_bound; lia).
      rewrite (Nat.mod_small (32 - l mod 32) 32) by lia. lia. }
  rewrite Hd, make_app, make_app.
  pose proof (fill_at_app [] (make 32) (make l ++ make pad) (Z.of_nat l) (make_length 32)) as F.
  cbn [app length Nat.add] in F. rewrite F by lia. cbn [bind].
  pose proof (copy_at_app (word (Z.of_nat l)) (make l) (make pad) b) as Cp.
  rewrite word_length, make_length in Cp. rewrite Cp by reflexivity. cbn [bind].
  unfold pad_right, blen. fold l. reflexivity.
Qed.

(* ---------- elementary components against the specification ---------- *)

(* what parseABIParameterComponents guarantees for an elementary component, spelled out *)
Lemma wf_uint_m m : wf_ty (TUInt m) = true -> wf_m m.
Proof.
  cbn [wf_ty]. intros H. apply andb_prop in H as [H C]. apply andb_prop in H as [A B].
  apply N.leb_le in A, B. apply N.eqb_eq in C. repeat split; assumption.
Qed.

Lemma elementary_is_spec e s m n k v :
  tc_wf (TCElem e s m n k) = true -> tc_no_fixed_point (TCElem e s m n k) = true ->
  well_typed (ty_of (TCElem e s m n k)) (gval_to_val n v) = true ->
  (forall b, v = GString b \/ v = GBytes b -> len_ok (length b)) ->
  (* the Go value has the dynamic type the reader of this entry produces *)
  match reader_of e, v with
  | (RdInteger | RdUintBytes | RdBool), GBigInt _ => True
  | RdBytes, GBytes _ => True
  | RdString, GString _ => True
  | _, _ => False
  end ->
  encode_elementary (encoder_of e) m n v
  = Ok (enc (ty_of (TCElem e s m n k)) (gval_to_val n v), dynamic (ty_of (TCElem e s m n k))).
Proof.
  intros W NF WT HL HV. unfold tc_wf in W. apply andb_prop in W as [CS WF].
  destruct e; cbn [reader_of] in HV; destruct v; try contradiction; clear HV;
    cbn [ty_of gval_to_val] in *; cbn [tc_no_fixed_point] in NF; try discriminate;
    cbn [encoder_of encode_elementary tc_consistent default_m] in *.
  - (* int *)
    pose proof (wf_uint_m m WF) as Wm. cbn [well_typed] in WT. apply andb_prop in WT as [A B].
    apply Z.leb_le in A. apply Z.ltb_lt in B. rewrite signed_ok by (auto; lia). reflexivity.
  - (* uint *)
    pose proof (wf_uint_m m WF) as (W1 & W2 & W3). cbn [well_typed] in WT. apply andb_prop in WT as [A B].
    apply Z.leb_le in A. apply Z.ltb_lt in B. rewrite unsigned_ok by (auto; lia). reflexivity.
  - (* address *)
    apply N.eqb_eq in CS. subst m. cbn [well_typed] in WT. apply andb_prop in WT as [A B].
    apply Z.leb_le in A. apply Z.ltb_lt in B. rewrite unsigned_ok by (auto; lia). reflexivity.
  - (* bool *)
    apply N.eqb_eq in CS. subst m. cbn [well_typed] in WT.
    assert (0 <= z < two 8)%Z.
    { apply orb_prop in WT as [E|E]; apply Z.eqb_eq in E; subst z; unfold two; simpl; lia. }
    rewrite unsigned_ok by (auto; lia). reflexivity.
  - (* bytes / bytes<M> *)
    destruct (m =? 0)%N eqn:E.
    + apply N.eqb_eq in E. subst m. cbn [enc dynamic]. unfold encodeABIBytes. cbn [N.eqb].
      rewrite dynamic_bytes_ok by (apply (HL b); auto). reflexivity.
    + apply N.eqb_neq in E. cbn [wf_ty] in WF. apply andb_prop in WF as [A B]. apply N.leb_le in A, B.
      cbn [well_typed] in WT. apply N.eqb_eq in WT. cbn [enc dynamic]. rewrite bytesN_ok by lia. reflexivity.
  - (* function *)
    apply N.eqb_eq in CS. subst m. cbn [well_typed] in WT. apply Nat.eqb_eq in WT.
    cbn [enc dynamic]. rewrite bytesN_ok by lia. reflexivity.
  - (* string *)
    cbn [enc dynamic]. unfold encodeABIString. rewrite dynamic_bytes_ok by (apply (HL s0); auto). reflexivity.
Qed.
