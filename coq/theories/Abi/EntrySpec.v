(* What C12 refers to outside the code, written directly from the Solidity ABI specification
   ("Function Selector", "Events", "Errors" sections); shares no code with Abi/EntryModel.v.

     signature      name ( canonical type , ... )    -- aliases expanded, tuples as parenthesised lists
                                                       (the canonical spelling is AbiType/Spec.v)
     selector       first four bytes of the Keccak-256 of the signature (functions, errors)
     topic0         the whole hash (non-anonymous events)
     event layout   indexed arguments travel in the topics, in order, after topic0 when the event is
                    not anonymous; value types (integers, address, bool, fixed-point, function) are
                    stored in the topic itself, every other indexed type only as a hash -- the raw
                    32-byte topic is all a decoder can surface; the non-indexed arguments are
                    ABI-encoded, in order, as one tuple in the log data. *)
From Coq Require Import String.
From Coq Require Import List NArith Bool.
From Coq Require Import Init.Byte.
From FFS Require Import Base.Bytes Abi.Types AbiType.Spec.
Import ListNotations.

Definition signature_spec (name : bytes) (tys : list ty) : bytes :=
  name ++ T "(" ++ sepby (T ",") (map canonical tys) ++ T ")".

Section Hash.
  Variable H : bytes -> bytes.
  Definition selector_spec (name : bytes) (tys : list ty) : bytes := firstn 4 (H (signature_spec name tys)).
  Definition topic0_spec (name : bytes) (tys : list ty) : bytes := H (signature_spec name tys).
End Hash.

(* types whose indexed value is the topic itself *)
Definition topic_is_value (t : ty) : bool :=
  match t with
  | TUInt _ | TInt _ | TAddress | TBool | TFixed _ _ | TUFixed _ _ | TFunction => true
  | TBytesN _ | TBytes | TString | TFixedArr _ _ | TDynArr _ | TTuple _ => false
  end.

(* where the i-th argument of an event comes from: the k-th argument topic, or the k-th member of
   the data tuple *)
Inductive source := FromTopic (k : nat) | FromData (k : nat).

Fixpoint sources_from (flags : list bool) (nt nd : nat) : list source :=
  match flags with
  | [] => []
  | true :: r => FromTopic nt :: sources_from r (S nt) nd
  | false :: r => FromData nd :: sources_from r nt (S nd)
  end.
(* [flags] are the indexed flags in declaration order *)
Definition sources (flags : list bool) : list source := sources_from flags 0 0.

Definition topics_needed (anonymous : bool) (flags : list bool) : nat :=
  (if anonymous then 0 else 1) + length (filter (fun b => b) flags).
