(* Proofs about the decoder model, part 4: the entry points.  DecodeABIData / DecodeCallData on the
   specification encoding of a parameter list placed anywhere in a block; the decoded tree denotes the
   value it was encoded from. *)
From Coq Require Import List NArith ZArith Bool Lia Arith.
From Coq Require Import ZifyN ZifyNat ZifyBool.
From Coq Require Import Init.Byte.
From FFS Require Import Base.Res Base.Bytes Abi.Types Abi.Spec Abi.ModelTypes Abi.DecModel Abi.DecSpec.
From FFS Require Import Abi.DecProofs Abi.DecProofs2 Abi.DecProofs3.
Import ListNotations.
Local Open Scope Z_scope.

Theorem DecodeABIData_enc children k v pre post :
  let c := TCTuple children k in
  tc_consistent c = true -> wf_ty (ty_of c) = true -> tc_no_fixed_point c = true -> tc_no_zero_len c = true ->
  well_typed (ty_of c) v = true -> zlen (enc (ty_of c) v) < 2 ^ 32 -> counts_ok v = true ->
  DecodeABIData c (pre ++ enc (ty_of c) v ++ post) (zlen pre) = Ok (cv_of c v).
Proof.
  intros c H1 H2 H3 H4 Hwt Hsz Hcnt.
  assert (Hg : good c = true) by (unfold good; rewrite H1, H2, H3, H4; reflexivity).
  set (block := pre ++ enc (ty_of c) v ++ post).
  pose proof (embedded_mid pre (enc (ty_of c) v) post) as He. fold block in He.
  subst c. cbn [ty_of] in *.
  destruct v as [| |vs]; try (cbn [well_typed] in Hwt; discriminate).
  rewrite well_typed_tuple in Hwt. rewrite enc_tuple in *. rewrite cv_of_tuple.
  destruct (counts_list _ Hcnt) as [_ Hcs].
  pose proof (good_tuple _ _ Hg) as Hgl.
  assert (IH : Forall (fun c => good c = true -> elem_goal block c) children).
  { apply Forall_forall. intros x _. apply decodeABIElement_enc. }
  pose proof (all_ok_tuple block children IH Hgl vs Hwt (items_bound _ Hsz) Hcs) as Hok.
  destruct (embedded_head_tail _ _ _ He) as [Hh Ht].
  rewrite head_tail_length in Hsz.
  unfold DecodeABIData, walkTupleABIBytes.
  rewrite walk_children_list.
  rewrite (walk_list_ok block _ _ _ Hok (zlen pre) (zlen pre) (hlen (tuple_items (map ty_of children) vs)));
    [reflexivity|apply hlen_nonneg|lia|exact Hh|exact Ht].
Qed.

(* with a 4-byte selector in front (Entry.DecodeCallData) *)
Corollary DecodeCallData_enc id children k v post :
  let c := TCTuple children k in
  length id = 4%nat ->
  tc_consistent c = true -> wf_ty (ty_of c) = true -> tc_no_fixed_point c = true -> tc_no_zero_len c = true ->
  well_typed (ty_of c) v = true -> zlen (enc (ty_of c) v) < 2 ^ 32 -> counts_ok v = true ->
  DecodeCallData id c (id ++ enc (ty_of c) v ++ post) = Ok (cv_of c v).
Proof.
  intros c Hid H1 H2 H3 H4 Hwt Hsz Hcnt. unfold DecodeCallData.
  replace (length (id ++ enc (ty_of c) v ++ post) <? 4)%nat with false
    by (symmetry; apply Nat.ltb_ge; rewrite app_length; lia).
  replace (firstn 4 (id ++ enc (ty_of c) v ++ post)) with id
    by (rewrite <- Hid; rewrite firstn_app, Nat.sub_diag, firstn_all; simpl firstn; rewrite app_nil_r; reflexivity).
  destruct (bytes_eqb_spec id id) as [_|N]; [|congruence]. cbn [negb].
  replace 4 with (zlen id) by (unfold zlen; rewrite Hid; reflexivity).
  apply DecodeABIData_enc; assumption.
Qed.

(* ---------- the expected tree denotes the value ---------- *)
Lemma map_id_Forall {A} (f : A -> A) l : Forall (fun x => f x = x) l -> map f l = l.
Proof. induction 1 as [|x l H _ IH]; simpl; [reflexivity|]. rewrite H, IH. reflexivity. Qed.

Lemma val_of_cv_of c :
  tc_no_fixed_point c = true -> forall v, well_typed (ty_of c) v = true -> val_of (cv_of c v) = v.
Proof.
  induction c as [e s m n k|len ch k IH|ch k IH|l k IH] using tcomp_ind'; intros Hnf v Hwt.
  - cbn [tc_no_fixed_point] in Hnf.
    destruct e; try discriminate; cbn [ty_of] in Hwt;
      try (destruct (m =? 0)%N); destruct v; cbn [well_typed] in Hwt; try discriminate; reflexivity.
  - cbn [ty_of tc_no_fixed_point] in *. destruct v as [| |vs]; cbn [well_typed] in Hwt; try discriminate.
    apply andb_true_iff in Hwt as [_ Hall].
    change (val_of (cv_of (TCFixedArr len ch k) (VList vs))) with (VList (map val_of (map (cv_of ch) vs))).
    f_equal. rewrite map_map. apply map_id_Forall. apply Forall_forall. intros x Hx.
    rewrite forallb_forall in Hall. apply IH; auto.
  - cbn [ty_of tc_no_fixed_point] in *. destruct v as [| |vs]; cbn [well_typed] in Hwt; try discriminate.
    change (val_of (cv_of (TCDynArr ch k) (VList vs))) with (VList (map val_of (map (cv_of ch) vs))).
    f_equal. rewrite map_map. apply map_id_Forall. apply Forall_forall. intros x Hx.
    rewrite forallb_forall in Hwt. apply IH; auto.
  - cbn [ty_of tc_no_fixed_point] in *. destruct v as [| |vs]; try (cbn [well_typed] in Hwt; discriminate).
    rewrite well_typed_tuple in Hwt. rewrite cv_of_tuple. cbn [val_of]. f_equal.
    revert vs Hwt. induction l as [|c l IHl]; intros vs Hwt.
    + destruct vs; [reflexivity|discriminate].
    + destruct vs as [|v vs]; [discriminate|].
      inversion IH as [|? ? IHc IHr]; subst.
      cbn [map forallb tuple_wt tuple_cvs] in *.
      apply andb_true_iff in Hnf as [Hn1 Hn2]. apply andb_true_iff in Hwt as [Hv Hvs].
      rewrite (IHc Hn1 v Hv), (IHl IHr Hn2 vs Hvs). reflexivity.
Qed.

(* the decode clause in terms of values: the decoded tree denotes exactly [v] and is shaped like the
   component tree *)
Theorem decode_returns_value children k v pre post :
  let c := TCTuple children k in
  tc_consistent c = true -> wf_ty (ty_of c) = true -> tc_no_fixed_point c = true -> tc_no_zero_len c = true ->
  well_typed (ty_of c) v = true -> zlen (enc (ty_of c) v) < 2 ^ 32 -> counts_ok v = true ->
  exists x, DecodeABIData c (pre ++ enc (ty_of c) v ++ post) (zlen pre) = Ok x /\ val_of x = v.
Proof.
  intros c H1 H2 H3 H4 Hwt Hsz Hcnt. exists (cv_of c v). split.
  - apply DecodeABIData_enc; assumption.
  - apply val_of_cv_of; assumption.
Qed.
