(* Executable model of the entry level of pkg/abi (abi.go): signature rendering, selector / topic
   hashing, call-data framing, event-log decoding and revert-data attribution, and of
   typeComponent.String (typecomponents.go).  One definition per Go function, same case order, same
   guards (abi.go after fix 228bb41: a non-anonymous event needs its signature topic).

   What these functions *call* is not re-modelled here; it enters as Section variables:
     H            sha3.NewLegacyKeccak256 (Write; Sum)
     encode_cv    ComponentValue.EncodeABIDataCtx                       (Abi/EncModel.v: EncodeABIData)
     decode_data  typeComponent.DecodeABIDataCtx on a tuple component   (Abi/DecModel.v: DecodeABIData)
                  ( = ParameterArray.DecodeABIDataCtx: both call walkTupleABIBytes on the tuple )
     decode_elem  elementaryTypeInfo.decodeABIData(block, headStart, headPosition, component)
                                                                        (Abi/DecModel.v: decode_elementary)
     format_args  the serializer + json.Marshal pipeline of FormatErrorStringCtx
   Type strings are represented by their parse result ([p_tc = None]: the type does not validate;
   parsing itself is the model of AbiType/).  Go index / slice / nil-dereference operations are
   panic-explicit.  No proofs in this file. *)
From Coq Require Import List NArith ZArith Bool Arith.
From Coq Require Import Init.Byte.
From FFS Require Import Base.Res Base.Bytes Abi.ModelTypes.
Import ListNotations.

(* error classes (never compared with the implementation beyond "is an error") *)
Definition EParse := 21%nat.              (* any error of Parameter.typeComponentTreeCtx *)
Definition ENotEnoughSig := 22%nat.       (* MsgNotEnoughBytesABISignature  FF22048 *)
Definition EBadSig := 23%nat.             (* MsgIncorrectABISignatureID     FF22049 *)
Definition EInsufficientTopics := 24%nat. (* MsgEventsInsufficientTopics    FF22053 *)
Definition ESigMismatch := 25%nat.        (* MsgEventSignatureMismatch      FF22054 *)

(* ---------- characters ---------- *)
Definition ch_lparen : byte := x28.
Definition ch_rparen : byte := x29.
Definition ch_comma : byte := x2c.
Definition ch_lbrack : byte := x5b.
Definition ch_rbrack : byte := x5d.
Definition ch_minus : byte := x2d.

(* ---------- fmt "%d" ---------- *)
Fixpoint dec_digits (fuel : nat) (n : N) (acc : bytes) : bytes :=
  match fuel with
  | O => acc
  | S f => let acc' := n2b (48 + n mod 10) :: acc in
           if (n <? 10)%N then acc' else dec_digits f (n / 10)%N acc'
  end.
(* fuel: a number has at most 1 + log2 n decimal digits *)
Definition fmt_N (n : N) : bytes := dec_digits (S (N.to_nat (N.log2 n))) n [].
Definition fmt_Z (z : Z) : bytes :=
  if (z <? 0)%Z then ch_minus :: fmt_N (Z.to_N (- z)) else fmt_N (Z.to_N z).

(* ---------- typecomponents.go ---------- *)

(* elementaryTypeInfo.name *)
Definition ekind_name (e : ekind) : bytes :=
  match e with
  | EInt => [x69; x6e; x74]                                   (* int *)
  | EUInt => [x75; x69; x6e; x74]                             (* uint *)
  | EAddress => [x61; x64; x64; x72; x65; x73; x73]           (* address *)
  | EBool => [x62; x6f; x6f; x6c]                             (* bool *)
  | EFixed => [x66; x69; x78; x65; x64]                       (* fixed *)
  | EUFixed => [x75; x66; x69; x78; x65; x64]                 (* ufixed *)
  | EBytes => [x62; x79; x74; x65; x73]                       (* bytes *)
  | EFunction => [x66; x75; x6e; x63; x74; x69; x6f; x6e]     (* function *)
  | EString => [x73; x74; x72; x69; x6e; x67]                 (* string *)
  end.

(* elementaryTypeInfo.fixed32: "at most 32 bytes in length, so directly fits into an event topic" *)
Definition fixed32 (e : ekind) : bool :=
  match e with
  | EInt | EUInt | EAddress | EBool | EFixed | EUFixed | EFunction => true
  | EBytes | EString => false
  end.

(* typeComponent.String *)
Fixpoint tc_string (tc : tcomp) : bytes :=
  match tc with
  | TCElem e suffix _ _ _ => ekind_name e ++ suffix
  | TCFixedArr len child _ => tc_string child ++ [ch_lbrack] ++ fmt_Z len ++ [ch_rbrack]
  | TCDynArr child _ => tc_string child ++ [ch_lbrack; ch_rbrack]
  | TCTuple children _ =>
      [ch_lparen] ++
      (fix go (i : nat) (l : list tcomp) : bytes :=
         match l with
         | [] => []
         | c :: r => (if (0 <? i)%nat then [ch_comma] else []) ++ tc_string c ++ go (S i) r
         end) O children ++
      [ch_rparen]
  end.

(* ---------- abi.go: the ABI document ---------- *)

Inductive etype := TyFunction | TyConstructor | TyReceive | TyFallback | TyEvent | TyError | TyOther.

(* Parameter: [p_tc] is what typeComponentTreeCtx returns for it (None: an error), [p_indexed] the
   Indexed flag *)
Record param := mkParam { p_tc : option tcomp; p_indexed : bool }.

Record entry := mkEntry {
  e_type : etype;
  e_name : bytes;
  e_anonymous : bool;
  e_inputs : list param
}.

Definition etype_eqb (a b : etype) : bool :=
  match a, b with
  | TyFunction, TyFunction | TyConstructor, TyConstructor | TyReceive, TyReceive
  | TyFallback, TyFallback | TyEvent, TyEvent | TyError, TyError | TyOther, TyOther => true
  | _, _ => false
  end.

(* Go [s[i] = v] on a slice *)
Fixpoint set_nth {A} (l : list A) (i : nat) (v : A) : res (list A) :=
  match l, i with
  | [], _ => Panic
  | _ :: r, O => Ok (v :: r)
  | x :: r, S i' => do r' <- set_nth r i' v; Ok (x :: r')
  end.

(* Go map[int]int lookup: the zero value when absent.  Writes are prepended, so the first match is
   the last write *)
Fixpoint map_get (m : list (nat * nat)) (k : nat) : nat :=
  match m with
  | [] => O
  | (k', v) :: r => if (k' =? k)%nat then v else map_get r k
  end.

Section Entry.
  Variable H : bytes -> bytes.
  Variable encode_cv : cval -> res bytes.
  Variable decode_data : tcomp -> bytes -> Z -> res cval.
  Variable decode_elem : bytes -> tcomp -> Z -> Z -> res cval.
  Variable format_args : cval -> option (list bytes).

  (* Parameter.SignatureStringCtx *)
  Definition SignatureString (p : param) : res bytes :=
    match p_tc p with
    | None => Err EParse
    | Some tc => Ok (tc_string tc)
    end.

  (* Entry.SignatureCtx *)
  Fixpoint sig_inputs (i : nat) (l : list param) : res bytes :=
    match l with
    | [] => Ok []
    | p :: r =>
        do s <- SignatureString p;
        do rest <- sig_inputs (S i) r;
        Ok ((if (0 <? i)%nat then [ch_comma] else []) ++ s ++ rest)
    end.
  Definition Signature (e : entry) : res bytes :=
    do ps <- sig_inputs O (e_inputs e);
    Ok (e_name e ++ [ch_lparen] ++ ps ++ [ch_rparen]).

  (* Entry.GenerateFunctionSelectorCtx: k[0:4] *)
  Definition GenerateFunctionSelector (e : entry) : res bytes :=
    do sig <- Signature e;
    slice (H sig) 0 4.

  (* Entry.FunctionSelectorBytes: four zero bytes on error *)
  Definition FunctionSelectorBytes (e : entry) : res bytes :=
    match GenerateFunctionSelector e with
    | Ok id => Ok id
    | Err _ => Ok [x00; x00; x00; x00]
    | Panic => Panic
    end.

  (* Entry.SignatureHashCtx *)
  Definition SignatureHash (e : entry) : res bytes :=
    do sig <- Signature e;
    Ok (H sig).

  (* Entry.SignatureHashBytes: 32 zero bytes on error *)
  Definition SignatureHashBytes (e : entry) : bytes :=
    match SignatureHash e with
    | Ok sh => sh
    | _ => repeat x00 32
    end.

  (* ParameterArray.TypeComponentTreeCtx: a tuple component without key name *)
  Fixpoint tree_children (l : list param) : res (list tcomp) :=
    match l with
    | [] => Ok []
    | p :: r =>
        match p_tc p with
        | None => Err EParse
        | Some tc => do rest <- tree_children r; Ok (tc :: rest)
        end
    end.
  Definition TypeComponentTree (pa : list param) : res tcomp :=
    do cs <- tree_children pa; Ok (TCTuple cs []).

  (* ParameterArray.DecodeABIDataCtx *)
  Definition DecodeABIData_params (pa : list param) (b : bytes) (offset : Z) : res cval :=
    do component <- TypeComponentTree pa;
    decode_data component b offset.

  (* Entry.EncodeCallDataCtx: make(len(id)+len(cvData)); copy; copy *)
  Definition EncodeCallData (e : entry) (cv : cval) : res bytes :=
    do id <- GenerateFunctionSelector e;
    do cvData <- encode_cv cv;
    Ok (id ++ cvData).

  (* Entry.DecodeCallDataCtx *)
  Definition DecodeCallData (e : entry) (b : bytes) : res cval :=
    do id <- GenerateFunctionSelector e;
    if (length b <? 4)%nat then Err ENotEnoughSig else
    do b4 <- slice b 0 4;
    if negb (bytes_eqb id b4) then Err EBadSig else
    DecodeABIData_params (e_inputs e) b 4.

  (* Entry.topicToValue *)
  Definition raw_topic_value (topic : bytes) (input : tcomp) : cval :=
    CV (Some (TCElem EBytes [] 0 0 (tc_key input))) [] (GBytes topic).
  Definition topicToValue (topic : bytes) (input : tcomp) : res cval :=
    match input with
    | TCElem e _ _ _ _ =>
        if fixed32 e then decode_elem topic input 0 0          (* directly encoded into the topic *)
        else Ok (raw_topic_value topic input)
    | _ => Ok (raw_topic_value topic input)                     (* et == nil *)
    end.

  (* Entry.DecodeEventDataCtx: the loop over inputTypes.  State: index, topicIdx, valueTree.Children,
     dataArgs.tupleChildren, dataArgIndexMap *)
  Fixpoint event_walk (topics : list bytes) (inputs : list (tcomp * bool)) (idx topicIdx : nat)
           (children : list cval) (dataArgs : list tcomp) (dmap : list (nat * nat))
    : res (list cval * list tcomp * list (nat * nat)) :=
    match inputs with
    | [] => Ok (children, dataArgs, dmap)
    | (input, indexed) :: r =>
        if indexed then
          match nth_error topics topicIdx with
          | None => Err EInsufficientTopics                     (* topicIdx >= len(topics) *)
          | Some topic =>
              do v <- topicToValue topic input;
              do children' <- set_nth children idx v;
              event_walk topics r (S idx) (S topicIdx) children' dataArgs dmap
          end
        else
          event_walk topics r (S idx) topicIdx children
                     (dataArgs ++ [input]) ((length dataArgs, idx) :: dmap)
    end.

  (* "Map back to their original positions" *)
  Fixpoint event_fill (vs : list cval) (i : nat) (dmap : list (nat * nat)) (children : list cval)
    : res (list cval) :=
    match vs with
    | [] => Ok children
    | v :: r => do children' <- set_nth children (map_get dmap i) v; event_fill r (S i) dmap children'
    end.

  Fixpoint zip_inputs (cs : list tcomp) (pa : list param) : list (tcomp * bool) :=
    match cs, pa with
    | c :: cs', p :: pa' => (c, p_indexed p) :: zip_inputs cs' pa'
    | _, _ => []
    end.

  Definition DecodeEventData (e : entry) (topics : list bytes) (data : bytes) : res cval :=
    do inputTypes <- tree_children (e_inputs e);
    let typeTree := TCTuple inputTypes [] in          (* e.Inputs.TypeComponentTree() *)
    do topicIdx <-
       (if negb (e_anonymous e) then
          match topics with
          | [] => Err EInsufficientTopics
          | t0 :: _ => if negb (bytes_eqb t0 (SignatureHashBytes e)) then Err ESigMismatch else Ok 1%nat
          end
        else Ok O);
    do st <- event_walk topics (zip_inputs inputTypes (e_inputs e)) O topicIdx
                        (repeat CVNil (length inputTypes)) [] [];
    let '(children, dataArgs, dmap) := st in
    do children' <-
       (if (0 <? length dataArgs)%nat then
          do dataValueTree <- decode_data (TCTuple dataArgs []) data 0;
          match dataValueTree with
          | CVNil => Panic
          | CV _ vs _ => event_fill vs O dmap children
          end
        else Ok children);
    Ok (CV (Some typeTree) children' GNil).

  (* ABI.ParseErrorCtx: the default error first, then the entries in order; only Type == Error *)
  Definition default_error : entry :=
    mkEntry TyError [x45; x72; x72; x6f; x72] false                                   (* "Error" *)
            [mkParam (Some (TCElem EString [] 0 0 [x72; x65; x61; x73; x6f; x6e])) false].  (* reason string *)

  Fixpoint parse_error_loop (a : list entry) (revertData : bytes) : res (option (entry * cval)) :=
    match a with
    | [] => Ok None
    | e :: r =>
        if etype_eqb (e_type e) TyError then
          match DecodeCallData e revertData with
          | Ok cv => Ok (Some (e, cv))
          | Err _ => parse_error_loop r revertData
          | Panic => Panic
          end
        else parse_error_loop r revertData
    end.
  Definition ParseError (a : list entry) (revertData : bytes) : res (option (entry * cval)) :=
    parse_error_loop (default_error :: a) revertData.

  (* FormatErrorStringCtx: Name(arg,...) from the serialized arguments; "" when serialization fails *)
  Fixpoint join_args (i : nat) (l : list bytes) : bytes :=
    match l with
    | [] => []
    | c :: r => (if (0 <? i)%nat then [ch_comma] else []) ++ c ++ join_args (S i) r
    end.
  Definition FormatErrorString (e : entry) (cv : cval) : bytes :=
    match format_args cv with
    | Some parsed => e_name e ++ [ch_lparen] ++ join_args O parsed ++ [ch_rparen]
    | None => []
    end.

  (* ABI.ErrorStringCtx *)
  Definition ErrorString (a : list entry) (revertData : bytes) : res (bytes * bool) :=
    do r <- ParseError a revertData;
    match r with
    | Some (e, cv) =>
        let s := FormatErrorString e cv in
        Ok (s, match s with [] => false | _ => true end)
    | None => Ok ([], false)
    end.
End Entry.
