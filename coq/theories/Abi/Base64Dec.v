(* An independent base64 DECODER, written from RFC 4648 section 4 (table 1, padding rules, canonical
   form of section 3.5) and sharing no code with the encoder of Render.v ([b64_char], [base64_go],
   [base64]).  The round-trip theorem [base64_decode_encode] says that the text produced by the
   encoder denotes, for this reader, exactly the bytes that were encoded; the RFC section 10 test
   vectors pin both directions to the standard independently of each other. *)
From Coq Require Import List NArith ZArith Bool Lia String.
From Coq Require Import Init.Byte.
From FFS Require Import Base.Bytes Abi.Render.
Import ListNotations.

Local Open Scope N_scope.

(* value of a base64 alphabet character, RFC 4648 table 1 *)
Definition b64_val (c : byte) : option N :=
  let n := b2n c in
  if (65 <=? n) && (n <=? 90) then Some (n - 65)              (* 'A'..'Z' -> 0..25 *)
  else if (97 <=? n) && (n <=? 122) then Some (n - 97 + 26)   (* 'a'..'z' -> 26..51 *)
  else if (48 <=? n) && (n <=? 57) then Some (n - 48 + 52)    (* '0'..'9' -> 52..61 *)
  else if n =? 43 then Some 62                                (* '+' *)
  else if n =? 47 then Some 63                                (* '/' *)
  else None.

(* '=' *)
Definition b64_is_pad (c : byte) : bool := b2n c =? 61.

(* the three bytes carried by a full group of four 6-bit values *)
Definition b64_dec3 (va vb vc vd : N) : bytes :=
  [n2b (va * 4 + vb / 16); n2b ((vb mod 16) * 16 + vc / 4); n2b ((vc mod 4) * 64 + vd)].

(* the last group: "xx==" (one byte), "xxx=" (two bytes) or "xxxx" (three bytes); the unused low
   bits of a padded group must be zero *)
Definition b64_dec_last (va vb : N) (c d : byte) : option bytes :=
  if b64_is_pad c then
    if b64_is_pad d then
      if vb mod 16 =? 0 then Some [n2b (va * 4 + vb / 16)] else None
    else None
  else
    match b64_val c with
    | None => None
    | Some vc =>
        if b64_is_pad d then
          if vc mod 4 =? 0 then Some [n2b (va * 4 + vb / 16); n2b ((vb mod 16) * 16 + vc / 4)]
          else None
        else
          match b64_val d with
          | None => None
          | Some vd => Some (b64_dec3 va vb vc vd)
          end
    end.

(* strict reader: groups of four characters, padding only in the last group *)
Fixpoint base64_decode (t : bytes) : option bytes :=
  match t with
  | [] => Some []
  | a :: b :: c :: d :: r =>
      match b64_val a, b64_val b with
      | Some va, Some vb =>
          match r with
          | [] => b64_dec_last va vb c d
          | _ :: _ =>
              match b64_val c, b64_val d, base64_decode r with
              | Some vc, Some vd, Some t' => Some (b64_dec3 va vb vc vd ++ t')
              | _, _, _ => None
              end
          end
      | _, _ => None
      end
  | _ => None
  end.

(* ---------- the alphabet: finite checks over 0..63 ---------- *)
Definition n64 : list N := List.map N.of_nat (seq 0 64).

Lemma in_n64 n : n < 64 -> In n n64.
Proof.
  intros H. unfold n64. rewrite <- (N2Nat.id n). apply in_map. apply in_seq. lia.
Qed.

Lemma b64_val_char n : (n < 64)%N -> b64_val (b64_char n) = Some n.
Proof.
  intros H.
  assert (A : forallb (fun n => match b64_val (b64_char n) with
                                | Some m => m =? n | None => false end) n64 = true)
    by (vm_compute; reflexivity).
  rewrite forallb_forall in A. specialize (A n (in_n64 n H)).
  destruct (b64_val (b64_char n)) as [m|]; [|discriminate].
  apply N.eqb_eq in A. congruence.
Qed.

Lemma b64_char_is_pad n : n < 64 -> b64_is_pad (b64_char n) = false.
Proof.
  intros H.
  assert (A : forallb (fun n => negb (b64_is_pad (b64_char n))) n64 = true)
    by (vm_compute; reflexivity).
  rewrite forallb_forall in A. specialize (A n (in_n64 n H)).
  apply negb_true_iff in A. exact A.
Qed.

Lemma b64_char_not_pad n : (n < 64)%N -> b64_char n <> x3d.
Proof.
  intros H E. pose proof (b64_char_is_pad n H) as P. rewrite E in P. discriminate P.
Qed.

Lemma b64_is_pad_x3d : b64_is_pad x3d = true.
Proof. reflexivity. Qed.

(* ---------- the reader on one group ---------- *)
Lemma base64_decode_full a b c d r va vb vc vd :
  b64_val a = Some va -> b64_val b = Some vb -> b64_val c = Some vc -> b64_val d = Some vd ->
  b64_is_pad c = false -> b64_is_pad d = false ->
  base64_decode (a :: b :: c :: d :: r) =
  match base64_decode r with
  | Some t' => Some (b64_dec3 va vb vc vd ++ t')
  | None => None
  end.
Proof.
  intros Ha Hb Hc Hd Pc Pd.
  change (base64_decode (a :: b :: c :: d :: r)) with
    (match b64_val a, b64_val b with
     | Some va, Some vb =>
         match r with
         | [] => b64_dec_last va vb c d
         | _ :: _ =>
             match b64_val c, b64_val d, base64_decode r with
             | Some vc, Some vd, Some t' => Some (b64_dec3 va vb vc vd ++ t')
             | _, _, _ => None
             end
         end
     | _, _ => None
     end).
  rewrite Ha, Hb. destruct r as [|e r].
  - unfold b64_dec_last. rewrite Pc, Hc, Pd, Hd.
    unfold b64_dec3. reflexivity.
  - rewrite Hc, Hd. reflexivity.
Qed.

Lemma base64_decode_pad1 a b va vb :
  b64_val a = Some va -> b64_val b = Some vb -> vb mod 16 = 0 ->
  base64_decode [a; b; x3d; x3d] = Some [n2b (va * 4 + vb / 16)].
Proof.
  intros Ha Hb Z.
  change (base64_decode [a; b; x3d; x3d]) with
    (match b64_val a, b64_val b with
     | Some va, Some vb => b64_dec_last va vb x3d x3d
     | _, _ => None
     end).
  rewrite Ha, Hb. unfold b64_dec_last. rewrite b64_is_pad_x3d.
  apply N.eqb_eq in Z. rewrite Z. reflexivity.
Qed.

Lemma base64_decode_pad2 a b c va vb vc :
  b64_val a = Some va -> b64_val b = Some vb -> b64_val c = Some vc ->
  b64_is_pad c = false -> vc mod 4 = 0 ->
  base64_decode [a; b; c; x3d] =
  Some [n2b (va * 4 + vb / 16); n2b ((vb mod 16) * 16 + vc / 4)].
Proof.
  intros Ha Hb Hc Pc Z.
  change (base64_decode [a; b; c; x3d]) with
    (match b64_val a, b64_val b with
     | Some va, Some vb => b64_dec_last va vb c x3d
     | _, _ => None
     end).
  rewrite Ha, Hb. unfold b64_dec_last. rewrite Pc, Hc, b64_is_pad_x3d.
  apply N.eqb_eq in Z. rewrite Z. reflexivity.
Qed.

(* ---------- bit-packing arithmetic ---------- *)
Local Ltac Zify.zify_post_hook ::= Z.to_euclidean_division_equations.

Lemma pk_a x : x < 256 -> x / 4 < 64. Proof. lia. Qed.
Lemma pk_b x y : x < 256 -> y < 256 -> (x mod 4) * 16 + y / 16 < 64. Proof. lia. Qed.
Lemma pk_c y z : y < 256 -> z < 256 -> (y mod 16) * 4 + z / 64 < 64. Proof. lia. Qed.
Lemma pk_d z : z < 256 -> z mod 64 < 64. Proof. lia. Qed.
Lemma pk_b0 x : x < 256 -> (x mod 4) * 16 < 64. Proof. lia. Qed.
Lemma pk_c0 y : y < 256 -> (y mod 16) * 4 < 64. Proof. lia. Qed.

Lemma up_1 x y : x < 256 -> y < 256 -> (x / 4) * 4 + ((x mod 4) * 16 + y / 16) / 16 = x.
Proof. lia. Qed.
Lemma up_2 x y z : x < 256 -> y < 256 -> z < 256 ->
  (((x mod 4) * 16 + y / 16) mod 16) * 16 + ((y mod 16) * 4 + z / 64) / 4 = y.
Proof. lia. Qed.
Lemma up_3 y z : y < 256 -> z < 256 -> (((y mod 16) * 4 + z / 64) mod 4) * 64 + z mod 64 = z.
Proof. lia. Qed.

Lemma up_1_pad x : x < 256 -> (x / 4) * 4 + ((x mod 4) * 16) / 16 = x. Proof. lia. Qed.
Lemma up_1_zero x : x < 256 -> ((x mod 4) * 16) mod 16 = 0. Proof. lia. Qed.
Lemma up_2_pad x y : x < 256 -> y < 256 ->
  (((x mod 4) * 16 + y / 16) mod 16) * 16 + ((y mod 16) * 4) / 4 = y.
Proof. lia. Qed.
Lemma up_2_zero y : y < 256 -> ((y mod 16) * 4) mod 4 = 0. Proof. lia. Qed.

(* ---------- round trip ---------- *)
Lemma base64_decode_go : forall fuel b,
  (List.length b < fuel)%nat -> base64_decode (base64_go fuel b) = Some b.
Proof.
  induction fuel as [|f IH]; intros b H; [inversion H|].
  destruct b as [|a [|c [|d r]]].
  - reflexivity.
  - cbn [base64_go].
    pose proof (b2n_lt a) as Ha.
    rewrite (base64_decode_pad1 _ _ (b2n a / 4) ((b2n a mod 4) * 16)).
    + rewrite up_1_pad by exact Ha. rewrite n2b_b2n. reflexivity.
    + apply b64_val_char, pk_a, Ha.
    + apply b64_val_char, pk_b0, Ha.
    + apply up_1_zero, Ha.
  - cbn [base64_go].
    pose proof (b2n_lt a) as Ha. pose proof (b2n_lt c) as Hc.
    rewrite (base64_decode_pad2 _ _ _ (b2n a / 4) ((b2n a mod 4) * 16 + b2n c / 16)
               ((b2n c mod 16) * 4)).
    + rewrite up_1 by assumption. rewrite up_2_pad by assumption.
      rewrite !n2b_b2n. reflexivity.
    + apply b64_val_char, pk_a, Ha.
    + apply b64_val_char, pk_b; assumption.
    + apply b64_val_char, pk_c0, Hc.
    + apply b64_char_is_pad, pk_c0, Hc.
    + apply up_2_zero, Hc.
  - cbn [base64_go].
    pose proof (b2n_lt a) as Ha. pose proof (b2n_lt c) as Hc. pose proof (b2n_lt d) as Hd.
    rewrite (base64_decode_full _ _ _ _ _ (b2n a / 4) ((b2n a mod 4) * 16 + b2n c / 16)
               ((b2n c mod 16) * 4 + b2n d / 64) (b2n d mod 64)).
    + rewrite IH by (cbn [List.length] in H; lia).
      unfold b64_dec3.
      rewrite up_1, up_2, up_3 by assumption.
      rewrite !n2b_b2n. reflexivity.
    + apply b64_val_char, pk_a, Ha.
    + apply b64_val_char, pk_b; assumption.
    + apply b64_val_char, pk_c; assumption.
    + apply b64_val_char, pk_d, Hd.
    + apply b64_char_is_pad, pk_c; assumption.
    + apply b64_char_is_pad, pk_d, Hd.
Qed.

Theorem base64_decode_encode : forall b : bytes, base64_decode (base64 b) = Some b.
Proof. intros b. unfold base64. apply base64_decode_go. lia. Qed.

(* the encoder is injective: distinct byte strings have distinct base64 texts *)
Corollary base64_inj : forall b1 b2 : bytes, base64 b1 = base64 b2 -> b1 = b2.
Proof.
  intros b1 b2 E. pose proof (base64_decode_encode b1) as H1.
  rewrite E, base64_decode_encode in H1. congruence.
Qed.

(* ---------- RFC 4648 section 10 test vectors ---------- *)
Local Open Scope string_scope.

Example base64_decode_vectors :
  base64_decode (ascii_bytes "") = Some (ascii_bytes "") /\
  base64_decode (ascii_bytes "Zg==") = Some (ascii_bytes "f") /\
  base64_decode (ascii_bytes "Zm8=") = Some (ascii_bytes "fo") /\
  base64_decode (ascii_bytes "Zm9v") = Some (ascii_bytes "foo") /\
  base64_decode (ascii_bytes "Zm9vYg==") = Some (ascii_bytes "foob") /\
  base64_decode (ascii_bytes "Zm9vYmE=") = Some (ascii_bytes "fooba") /\
  base64_decode (ascii_bytes "Zm9vYmFy") = Some (ascii_bytes "foobar") /\
  (* rejected: non-zero unused bits, short group, bad padding, padding inside, foreign character *)
  base64_decode (ascii_bytes "Zh==") = None /\
  base64_decode (ascii_bytes "Zm9=") = None /\
  base64_decode (ascii_bytes "Zg=") = None /\
  base64_decode (ascii_bytes "Zg") = None /\
  base64_decode (ascii_bytes "Z===") = None /\
  base64_decode (ascii_bytes "====") = None /\
  base64_decode (ascii_bytes "Zg=v") = None /\
  base64_decode (ascii_bytes "Zg==Zg==") = None /\
  base64_decode (ascii_bytes "Zm8=Zm9v") = None /\
  base64_decode (ascii_bytes "Zm9-") = None /\
  base64_decode (ascii_bytes "Zm9v ") = None.
Proof. vm_compute. repeat split. Qed.

Example base64_encode_vectors :
  base64 (ascii_bytes "") = ascii_bytes "" /\
  base64 (ascii_bytes "f") = ascii_bytes "Zg==" /\
  base64 (ascii_bytes "fo") = ascii_bytes "Zm8=" /\
  base64 (ascii_bytes "foo") = ascii_bytes "Zm9v" /\
  base64 (ascii_bytes "foob") = ascii_bytes "Zm9vYg==" /\
  base64 (ascii_bytes "fooba") = ascii_bytes "Zm9vYmE=" /\
  base64 (ascii_bytes "foobar") = ascii_bytes "Zm9vYmFy".
Proof. vm_compute. repeat split. Qed.

Print Assumptions base64_decode_encode.
