(* C09, answers to the referee report, part 5 (ISSUE 3): the general relay statement composed with the
   processor — for a pass-through request and for the submission of an eth_sendTransaction alike, a JSON
   answer of the backend that decodes is relayed member for member (result; error with code, message
   and data; method; params), only the id being replaced by the caller's. *)
From Coq Require Import String.
From Coq Require Import List NArith ZArith Bool Arith Lia.
From Coq Require Import Init.Byte.
From FFS Require Import Base.Res Base.Bytes Rlp.Spec Tx.Spec Rpc.Json Rpc.Model Rpc.Spec
  Rpc.ProofsBatch Rpc.Proofs Rpc.ProofsHandler Rpc.RefReply Rpc.RefSend.
Import ListNotations.
Local Open Scope string_scope.
Local Open Scope list_scope.

Section Relay.
  Variable parse_int : bytes -> option Z.
  Variable accounts : list bytes.
  Variable sign_with : bytes -> transaction -> Z -> res bytes.
  Variable backend : frame -> backend_reply.
  Variable chain : Z.
  Notation processRPC := (processRPC parse_int accounts sign_with backend chain).

  Theorem relay_passthrough rq id s t r :
    rq_id rq = Some id -> special_method (rq_method rq) = false ->
    backend (mkFrame (rq_method rq) (rq_params rq)) = BHttp s (BJson t) -> (s =? 204)%N = false -> t <> JNull ->
    decode_response t zero_response = (r, false) ->
    (is_success s = true -> error_code_nonzero r = false ->
     processRPC (Some rq) = Ok (Some (fill_result (set_id r (Some id))), false, [mkFrame (rq_method rq) (rq_params rq)])) /\
    (is_success s || is_error s = true -> error_code_nonzero r = true ->
     processRPC (Some rq) = Ok (Some (set_id r (Some id)), true, [mkFrame (rq_method rq) (rq_params rq)])).
  Proof.
    intros Hi Hm Hb H204 Ht Hd.
    destruct (passthrough_spec parse_int accounts sign_with backend chain rq id Hi Hm) as (resp & err & E & _ & R).
    destruct (sync_relay_general backend rq s t r Hb H204 Ht Hd) as [A B]. split.
    - intros Hs Hn. rewrite (A Hs Hn) in R. cbn [fst] in R. injection R as -> ->. rewrite E, Hi. reflexivity.
    - intros Hs Hn. rewrite (B Hs Hn) in R. cbn [fst] in R. injection R as -> ->. rewrite E, Hi. reflexivity.
  Qed.

  Theorem relay_passthrough_error_data rq id status echo code_text code msg data :
    rq_id rq = Some id -> special_method (rq_method rq) = false ->
    backend (mkFrame (rq_method rq) (rq_params rq)) = error_reply_data status echo code_text msg data ->
    parse_int64 code_text = Some code -> code <> 0%Z ->
    (status =? 204)%N = false -> is_success status || is_error status = true ->
    processRPC (Some rq)
    = Ok (Some (mkResp (bs "2.0") (Some id) None (Some (mkErr code msg true (Some data))) [] None), true,
          [mkFrame (rq_method rq) (rq_params rq)]).
  Proof.
    intros Hi Hs Hb Hc Hnz H204 Hcls.
    destruct (passthrough_spec parse_int accounts sign_with backend chain rq id Hi Hs) as (resp & err & E & _ & R).
    rewrite (SyncRequest_error_data backend rq status echo code_text code msg data Hb Hc Hnz H204 Hcls) in R.
    cbn [fst] in R. injection R as -> ->. rewrite E, Hi. reflexivity.
  Qed.

  Theorem relay_send_tx rq id p0 rest tx f a nonce raw s t r :
    rq_id rq = Some id -> rq_method rq = bs "eth_sendTransaction" -> rq_params rq = p0 :: rest ->
    decode_transaction parse_int p0 = Ok tx -> tx_from tx = Some f -> dec_address f = Ok a ->
    nonce_decision parse_int backend tx a = Some nonce -> sign_with a (set_nonce tx nonce) chain = Ok raw ->
    backend (raw_frame raw) = BHttp s (BJson t) -> (s =? 204)%N = false -> t <> JNull ->
    decode_response t zero_response = (r, false) ->
    (is_success s = true -> error_code_nonzero r = false ->
     processRPC (Some rq) = Ok (Some (fill_result (set_id r (Some id))), false, pre_of tx a ++ [raw_frame raw])) /\
    (is_success s || is_error s = true -> error_code_nonzero r = true ->
     processRPC (Some rq) = Ok (Some (set_id r (Some id)), true, pre_of tx a ++ [raw_frame raw])).
  Proof.
    intros Hi Hm Hp Hd Hf Ha Hn Hs Hb H204 Ht Hdr.
    pose proof (send_tx_decided parse_int accounts sign_with backend chain rq id p0 rest tx f a Hi Hm Hp Hd Hf Ha) as D.
    rewrite Hn, Hs in D. destruct D as (resp & err & E & R).
    assert (Hb' : backend (frame_of (send_raw_request rq raw)) = BHttp s (BJson t)) by exact Hb.
    destruct (sync_relay_general backend (send_raw_request rq raw) s t r Hb' H204 Ht Hdr) as [A B]. split.
    - intros Hs' Hn'. rewrite (A Hs' Hn') in R. cbn [fst] in R. injection R as -> ->. rewrite E.
      unfold send_raw_request. cbn [rq_id]. rewrite Hi. reflexivity.
    - intros Hs' Hn'. rewrite (B Hs' Hn') in R. cbn [fst] in R. injection R as -> ->. rewrite E.
      unfold send_raw_request. cbn [rq_id]. rewrite Hi. reflexivity.
  Qed.
End Relay.
