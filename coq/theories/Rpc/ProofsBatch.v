(* C09, batch alignment: whatever the order in which the member goroutines complete, slot i of the
   reply holds the response computed for request i, and the HTTP status is 500 iff some member
   returned an error. *)
From Coq Require Import String.
From Coq Require Import List NArith ZArith Bool Arith Lia Permutation.
From Coq Require Import Init.Byte.
From FFS Require Import Base.Res Base.Bytes Rpc.Json Rpc.Model.
Import ListNotations.

Lemma set_nth_ok {A} (l : list A) i v :
  (i < length l)%nat ->
  exists l', set_nth l i v = Ok l' /\ length l' = length l /\
             (forall j, nth_error l' j = if (j =? i)%nat then Some v else nth_error l j).
Proof.
  revert i. induction l as [|x l IH]; intros i Hi; simpl in Hi; [lia|].
  destruct i as [|i]; simpl.
  - exists (v :: l). repeat split; auto. intros [|j]; reflexivity.
  - destruct (IH i ltac:(lia)) as (l' & E & L & N). rewrite E. simpl.
    exists (x :: l'). repeat split; simpl; auto. intros [|j]; simpl; auto.
Qed.

Lemma index_list_ok {A} (l : list A) i d : (i < length l)%nat -> index_list l i = Ok (nth i l d).
Proof.
  intros H. unfold index_list. rewrite (nth_error_nth' l d H). reflexivity.
Qed.

Definition o_resp (o : outcome) : option rpc_response := fst (fst o).
Definition o_err (o : outcome) : bool := snd (fst o).
Definition dflt : outcome := (None, false, []).

Lemma complete_spec (outs : list outcome) :
  forall order slots st,
    (forall k, In k order -> (k < length outs)%nat) ->
    length slots = length outs ->
    exists slots',
      complete outs order slots st = Ok (slots', if existsb (fun k => o_err (nth k outs dflt)) order then 500%N else st) /\
      length slots' = length outs /\
      (forall i, nth_error slots' i =
                 if existsb (Nat.eqb i) order then Some (o_resp (nth i outs dflt)) else nth_error slots i).
Proof.
  induction order as [|k rest IH]; intros slots st Hin Hlen.
  - exists slots. simpl. auto.
  - assert (Hk : (k < length outs)%nat) by (apply Hin; left; reflexivity).
    cbn [complete]. rewrite (index_list_ok outs k dflt Hk). cbn [bind].
    destruct (nth k outs dflt) as [[resp err] fr] eqn:Ek.
    destruct (set_nth_ok slots k resp ltac:(lia)) as (s1 & E1 & L1 & N1).
    rewrite E1. cbn [bind].
    destruct (IH s1 (if err then 500%N else st) (fun j Hj => Hin j (or_intror Hj)) ltac:(lia))
      as (s2 & E2 & L2 & N2).
    exists s2. split; [|split; [exact L2|]].
    + rewrite E2. f_equal. f_equal. cbn [existsb]. rewrite Ek. unfold o_err at 1. cbn [fst snd].
      destruct err; cbn [orb]; [|reflexivity].
      destruct (existsb _ rest); reflexivity.
    + intros i. rewrite N2. cbn [existsb].
      destruct (existsb (Nat.eqb i) rest) eqn:Er.
      * rewrite orb_true_r. reflexivity.
      * rewrite orb_false_r. rewrite N1.
        destruct (Nat.eqb_spec i k) as [->|Hne]; [|reflexivity].
        rewrite Ek. reflexivity.
Qed.

Lemma existsb_perm {A} (f : A -> bool) l l' : Permutation l l' -> existsb f l = existsb f l'.
Proof.
  induction 1; simpl; auto.
  - rewrite IHPermutation. reflexivity.
  - destruct (f x), (f y); reflexivity.
  - congruence.
Qed.

Lemma existsb_seq_nth {A} (f : A -> bool) (l : list A) d :
  existsb (fun k => f (nth k l d)) (seq 0 (length l)) = existsb f l.
Proof.
  enough (H : forall off pre, existsb (fun k => f (nth k (pre ++ l) d)) (seq (length pre) (length l)) = existsb f l)
    by (apply (H 0%nat [])).
  intros _. induction l as [|x l IH]; intros pre; [reflexivity|].
  simpl. rewrite app_nth2 by lia. rewrite Nat.sub_diag. simpl. f_equal.
  specialize (IH (pre ++ [x])). rewrite <- app_assoc in IH. simpl in IH.
  rewrite app_length in IH. simpl in IH. rewrite Nat.add_1_r in IH. exact IH.
Qed.

Lemma nth_error_eq_ext {A} (l l' : list A) : (forall i, nth_error l i = nth_error l' i) -> l = l'.
Proof.
  revert l'. induction l as [|x l IH]; intros [|y l'] H; auto.
  - specialize (H 0%nat). discriminate.
  - specialize (H 0%nat). discriminate.
  - pose proof (H 0%nat) as H0. simpl in H0. injection H0 as ->. f_equal.
    apply IH. intros i. exact (H (S i)).
Qed.

(* the permutation theorem on [complete] *)
Theorem complete_any_order (outs : list outcome) (order : list nat) :
  Permutation order (seq 0 (length outs)) ->
  complete outs order (map (fun _ => None) outs) 200%N
  = Ok (map o_resp outs, if existsb o_err outs then 500%N else 200%N).
Proof.
  intros P.
  destruct (complete_spec outs order (map (fun _ => None) outs) 200%N) as (s & E & L & N).
  - intros k Hk. apply (Permutation_in _ P) in Hk. apply in_seq in Hk. lia.
  - apply map_length.
  - rewrite E. f_equal. f_equal.
    + apply nth_error_eq_ext. intros i. rewrite N.
      destruct (Nat.lt_ge_cases i (length outs)) as [Hi|Hi].
      * assert (Hin : existsb (Nat.eqb i) order = true).
        { apply existsb_exists. exists i. split; [|apply Nat.eqb_refl].
          apply (Permutation_in _ (Permutation_sym P)). apply in_seq. lia. }
        rewrite Hin. rewrite nth_error_map. rewrite (nth_error_nth' outs dflt) by lia. reflexivity.
      * assert (Hin : existsb (Nat.eqb i) order = false).
        { destruct (existsb (Nat.eqb i) order) eqn:Ex; [|reflexivity].
          apply existsb_exists in Ex. destruct Ex as (k & Hk & Ek). apply Nat.eqb_eq in Ek. subst k.
          apply (Permutation_in _ P) in Hk. apply in_seq in Hk. lia. }
        rewrite Hin. rewrite !nth_error_map.
        assert (nth_error outs i = None) as -> by (apply nth_error_None; lia). reflexivity.
    + rewrite (existsb_perm _ _ _ P). rewrite (existsb_seq_nth o_err outs dflt). reflexivity.
Qed.

Lemma Forall2_len {A B} (R : A -> B -> Prop) l l' : Forall2 R l l' -> length l = length l'.
Proof. induction 1; simpl; auto. Qed.

Section Batch.
  Variable parse_int : bytes -> option Z.
  Variable lex : bytes -> option json.
  Variable accounts : list bytes.
  Variable sign_with : bytes -> transaction -> Z -> res bytes.
  Variable backend : frame -> backend_reply.
  Variable chain : Z.

  Notation processRPC := (processRPC parse_int accounts sign_with backend chain).
  Notation run_members := (run_members parse_int accounts sign_with backend chain).
  Notation handleRPCBatch := (handleRPCBatch parse_int lex accounts sign_with backend chain).

  Lemma run_members_spec members outs :
    run_members members = Ok outs -> Forall2 (fun m o => processRPC m = Ok o) members outs.
  Proof.
    revert outs. induction members as [|m ms IH]; intros outs H; cbn [Model.run_members] in H.
    - injection H as <-. constructor.
    - destruct (processRPC m) as [o| |] eqn:Eo; cbn [bind] in H; try discriminate.
      destruct (run_members ms) as [r| |] eqn:Er; cbn [bind] in H; try discriminate.
      injection H as <-. constructor; auto.
  Qed.

  (* For every completion order that is a permutation of the member indices the reply is the same:
     an array whose i-th element is the response processRPC computed for the i-th request, with
     status 500 iff some member returned an error. *)
  Theorem batch_alignment body t members outs order :
    lex body = Some t -> decode_batch t = Ok members -> members <> [] ->
    run_members members = Ok outs ->
    Permutation order (seq 0 (length members)) ->
    handleRPCBatch body order
    = Ok (if existsb o_err outs then 500%N else 200%N,
          JArr (map (fun o => response_opt_tree (o_resp o)) outs),
          map (fun o => snd o) outs)
    /\ Forall2 (fun m o => processRPC m = Ok o) members outs.
  Proof.
    intros Hl Hd Hne Hr P. split; [|apply run_members_spec; exact Hr].
    pose proof (run_members_spec _ _ Hr) as F. pose proof (Forall2_len _ _ _ F) as Len.
    unfold Model.handleRPCBatch. rewrite Hl, Hd.
    destruct members as [|m0 ms]; [congruence|].
    rewrite Hr. cbn [bind].
    replace (map (fun _ : option rpc_request => None) (m0 :: ms))
      with (map (fun _ : outcome => @None rpc_response) outs).
    2:{ clear -Len. revert Len. generalize (m0 :: ms). intros l. revert l.
        induction outs as [|o os IH]; intros [|x l] L; simpl in L; try discriminate; auto.
        simpl. f_equal. apply IH. lia. }
    rewrite complete_any_order by (rewrite <- Len; exact P).
    cbn [bind]. rewrite map_map. reflexivity.
  Qed.
End Batch.
