(* Evaluator for the correspondence check of C16: runs the handler model (Rpc/WfModel.v) and the
   specification oracles (Rpc/WfSpec.v) on the cases written by harness/cmd/c16 from the real ffsigner
   process, and reports where they differ.
   result codes: 0 agree; 1..9 the model differs from the implementation; >= 10 the implementation
   fails a property oracle on that body. *)
From Coq Require Import String.
From Coq Require Import List NArith ZArith Bool Lia.
From Coq Require Import Init.Byte.
From FFS Require Import Base.Res Base.Bytes Base.Lit Rpc.Body Rpc.WfModel Rpc.WfSpec.
Import ListNotations.

(* JSON trees as written by the harness: leaves in the byte-DSL; DNest n x = x wrapped in n singleton
   arrays; DNestO n k x = x wrapped in n one-member objects with key k; DRep n x (only as an array element) = n copies of x *)
Inductive djv :=
| DNull
| DBool (b : bool)
| DNum (d : bdsl)
| DStr (d : bdsl)
| DArr (l : list djv)
| DObj (kv : list (bdsl * djv))
| DNest (n : N) (x : djv)
| DNestO (n : N) (k : bdsl) (x : djv)
| DRep (n : N) (x : djv).

Fixpoint nest (n : nat) (v : jv) : jv := match n with O => v | S k => JArr [nest k v] end.
Fixpoint nest_obj (n : nat) (key : bytes) (v : jv) : jv :=
  match n with O => v | S k => JObj [(key, nest_obj k key v)] end.

Fixpoint expand (d : djv) : list jv :=
  match d with
  | DNull => [JNull]
  | DBool b => [JBool b]
  | DNum s => [JNum (bexpand s)]
  | DStr s => [JStr (bexpand s)]
  | DArr l =>
      [JArr ((fix go (l : list djv) : list jv :=
                match l with [] => [] | x :: t => expand x ++ go t end) l)]
  | DObj kv =>
      [JObj ((fix go (kv : list (bdsl * djv)) : list (bytes * jv) :=
                match kv with
                | [] => []
                | (k, x) :: t => map (fun v => (bexpand k, v)) (expand x) ++ go t
                end) kv)]
  | DNest n x => map (nest (N.to_nat n)) (expand x)
  | DNestO n k x => map (nest_obj (N.to_nat n) (bexpand k)) (expand x)
  | DRep n x => concat (repeat (expand x) (N.to_nat n))
  end.
Definition expand1 (d : djv) : jv := hd JNull (expand d).

Inductive dverdict := VSyntaxError | VTree (t : djv).
Definition expand_verdict (v : dverdict) : verdict :=
  match v with VSyntaxError => SyntaxError | VTree t => Tree (expand1 t) end.

(* projection of a reply of the process *)
Inductive oitem :=
| INull                       (* JSON null where a response object is required *)
| IOther                      (* any other non-object *)
| IObj (jsonrpc_2_0 : bool) (id : option djv) (has_result has_error error_wf : bool) (code : Z).
Definition irep (n : N) (it : oitem) : list oitem := repeat it (N.to_nat n).
Inductive obs :=
| ONoReply                    (* connection dropped / timed out *)
| OBadJson (status : N)       (* empty or not JSON *)
| OSingle (status : N) (it : oitem)
| OArray (status : N) (l : list oitem).

(* oracle table for the typed decoding of params[0] (pkg/ethsigner, pkg/ethtypes; outside C16's anchors) *)
Inductive tfrom := FAbsent | FBad | FAddr (which : N).
(* which: 0 not held, 1 held, 2 held and its nonce lookup fails, 3 held and the scripted backend refuses the
   eth_sendRawTransaction of this transaction (marker in its `to` address; round 3) *)
Inductive tinfo := TDecodeErr | TView (f : tfrom) (nonce : bool).

Inductive case := C16Case (body : bdsl) (v : dverdict) (table : list (djv * tinfo)) (o : obs).

(* ---- the instance of the Section variables that mirrors the harness's scripted world ---- *)
Definition FF : Type := N.    (* 0 unparsable, 1 address not held, 2 held, 3 held + nonce lookup fails, 4 held + sendRaw refused *)
Definition raw_ok : bytes := ascii_bytes "0xf86b".
Definition raw_refused : bytes := ascii_bytes "0xdead".

Definition lookup_txn (table : list (jv * tinfo)) (p0 : option jv) : option (txn_view FF) :=
  let key := match p0 with None => JNull | Some v => v end in
  match find (fun e => jv_eqb (fst e) key) table with
  | Some (_, TView f n) =>
      Some (mkView (match f with FAbsent => None | FBad => Some 0%N | FAddr k => Some (k + 1)%N end) n)
  | _ => None
  end.
Definition inst_parse_from (f : FF) : bool := negb (f =? 0)%N.
Definition inst_call_nonce (w : unit) (f : FF) : option rpc_error * unit :=
  (if (f =? 3)%N then Some (mkErr (-32005) some_text) else None, tt).
Definition inst_sign (w : unit) (t : txn_view FF) : option bytes * unit :=
  (match tv_from t with
   | Some f => if ((f =? 2) || (f =? 3))%N then Some raw_ok
               else if (f =? 4)%N then Some raw_refused else None
   | None => None
   end, tt).
Definition inst_accounts (w : unit) : option (list bytes) * unit := (Some [ascii_bytes "0x01"; ascii_bytes "0x02"], tt).

(* the scripted backend seen through SyncRequest (after f4f787a / 9edb119): class of the outcome per method *)
Definition script : list (string * Z) :=
  [("t_rpcerr", -32000); ("t_rpcerr_500", -32001); ("t_http500_empty", -32603); ("t_http502_text", -32603);
   ("t_drop", -32603); ("t_rawnull", -32603); ("t_slow_err", -32000)]%Z%string.
Definition is_refused_raw (q : request) : bool :=
  bytes_eqb (q_method q) m_eth_sendRawTransaction &&
  match q_params q with [Some (JStr h)] => bytes_eqb h raw_refused | _ => false end.
Definition inst_sync (w : unit) (q : request) : (option response * bool) * unit :=
  if is_refused_raw q then ((Some (mkResp v2_0 (q_id q) None (Some (mkErr (-32000) some_text))), true), tt) else
  match find (fun e => bytes_eqb (ascii_bytes (fst e)) (q_method q)) script with
  | Some (_, code) => ((Some (mkResp v2_0 (q_id q) None (Some (mkErr code some_text))), true), tt)
  | None => ((Some (mkResp v2_0 (q_id q) (Some JNull) None), false), tt)
  end.
Definition inst_sched (w : unit) (n : nat) : list nat := seq 0 n.

Definition run_handler (table : list (jv * tinfo)) (body : bytes) (v : verdict) : res (reply * unit) :=
  rpcHandler unit FF inst_sync inst_call_nonce inst_accounts inst_sign (lookup_txn table) inst_parse_from inst_sched
             tt body v.

(* ---- specification oracles on the observed reply (codes >= 10) ---- *)
Definition item_wf (it : oitem) : bool :=
  match it with
  | IObj j2 id hr he ewf _ => j2 && is_some id && xorb hr he && (negb he || ewf)
  | _ => false
  end.
Definition item_is_error (it : oitem) : bool :=
  match it with IObj _ _ hr he _ _ => he && negb hr | _ => false end.

Definition obs_wf (o : obs) : bool :=
  match o with
  | OSingle _ it => item_wf it
  | OArray _ l => negb (match l with [] => true | _ => false end) && forallb item_wf l
  | _ => false
  end.

(* a parseable batch of n is answered by an array of n; an array reply only answers an array body of that length *)
Definition shape_ok (v : verdict) (o : obs) : bool :=
  match parseable_batch v with
  | Some n => match o with OArray _ l => (length l =? n)%nat | _ => false end
  | None => true
  end &&
  match o with
  | OArray _ l => match v with Tree (JArr ms) => (length ms =? length l)%nat | _ => false end
  | _ => true
  end.

Fixpoint all2 {A B} (f : A -> B -> bool) (a : list A) (b : list B) : bool :=
  match a, b with
  | [], [] => true
  | x :: a', y :: b' => f x y && all2 f a' b'
  | _, _ => false
  end.

(* unprocessable requests are answered with an error object *)
Definition must_fail_ok (table : list (jv * tinfo)) (body : bytes) (v : verdict) (o : obs) : bool :=
  let mf := must_fail FF (lookup_txn table) inst_parse_from in
  match parseable_batch v, o with
  | Some _, OArray _ items =>
      match decode_batch v with
      | Ok reqs => all2 (fun q it => negb (mf q) || item_is_error it) reqs items
      | _ => true
      end
  | Some _, _ => true
  | None, OSingle _ it =>
      match v with
      | Tree (JArr _) | SyntaxError => item_is_error it
      | _ => match decode_single v with
             | Ok q => negb (mf (Some q)) || item_is_error it
             | _ => item_is_error it
             end
      end
  | None, _ => true
  end.

(* ---- model vs implementation (codes 1..9) ----
   Compared: single object vs array and its length, per slot null / result / error, the echoed id and the
   jsonrpc member.  Deliberately not compared (the property says nothing about them, so a change there is
   not an alarm): the HTTP status, the numeric error code, message texts, the result value. *)
Definition id_matches (m : option jv) (o : option djv) : bool :=
  match m, o with
  | None, Some d => jv_eqb (expand1 d) JNull
  | Some v, Some d => jv_eqb v (expand1 d)
  | _, None => false
  end.

Definition item_code (m : option response) (it : oitem) : N :=
  match m, it with
  | None, INull => 0
  | Some r, IObj j2 id hr he _ code =>
      if negb (Bool.eqb hr (is_some (r_result r)) && Bool.eqb he (is_some (r_error r))) then 3
      else if negb (id_matches (r_id r) id) then 5
      else if negb (Bool.eqb j2 (bytes_eqb (r_jsonrpc r) v2_0)) then 6
      else 0
  | _, _ => 3
  end%N.

Fixpoint items_code (ms : list (option response)) (its : list oitem) : N :=
  match ms, its with
  | [], [] => 0
  | m :: ms', it :: its' => let c := item_code m it in if (c =? 0)%N then items_code ms' its' else c
  | _, _ => 1
  end%N.

(* the lexer-oracle hypothesis of the theorems, checked on every case: an array tree's body starts, after
   JSON whitespace, with '[' *)
Definition coherent_b (body : bytes) (v : verdict) : bool :=
  match v with
  | Tree (JArr _) => match skip_json_ws body with c :: _ => byte_eqb c open_bracket | [] => false end
  | _ => true
  end.

Definition check_case (c : case) : N :=
  match c with
  | C16Case b dv dtable o =>
      let body := bexpand b in
      let v := expand_verdict dv in
      let table := map (fun e => (expand1 (fst e), snd e)) dtable in
      match o with
      | ONoReply | OBadJson _ => 10
      | _ =>
          if negb (obs_wf o) then 11
          else if negb (shape_ok v o) then 12
          else if negb (must_fail_ok table body v o) then 13
          else if negb (coherent_b body v) then 9
          else
            match run_handler table body v with
            | Panic => 7
            | Err _ => 8
            | Ok (rep, _) =>
                match body_of rep, o with
                | PSingle m, OSingle _ it => item_code m it
                | PBatch ms, OArray _ its => items_code ms its
                | _, _ => 1
                end
            end
      end
  end%N.

Fixpoint mismatches_go (i : N) (l : list case) : list (N * N) :=
  match l with
  | [] => []
  | c :: t => let r := check_case c in
              if (r =? 0)%N then mismatches_go (i + 1) t else (i, r) :: mismatches_go (i + 1) t
  end.
Definition mismatches (l : list case) : list (N * N) := firstn 20 (mismatches_go 0 l).
