(* C16 proofs, part 2 (builder b-c16): front-end lemmas -- the typed decoding succeeds exactly on the
   trees the specification calls parseable, and sniffing finds '[' behind any amount of whitespace. *)
From Coq Require Import String.
From Coq Require Import List NArith ZArith Bool Lia Permutation.
From Coq Require Import Init.Byte.
From FFS Require Import Base.Res Base.Bytes Rpc.Body Rpc.WfModel Rpc.WfSpec.
Import ListNotations.

(* ---- typed decoding vs. the kind table of the specification ---- *)
Lemma set_field_flag q f v : snd (set_field q f v) = negb (value_fits f v).
Proof. destruct f, v; reflexivity. Qed.

Lemma decode_members_flag kv : forall q bad,
  snd (decode_members kv q bad) = bad || negb (object_fits kv).
Proof.
  induction kv as [|[k v] t IH]; intros q bad; simpl.
  - rewrite orb_false_r. reflexivity.
  - unfold object_fits in *. simpl.
    destruct (field_of_key k) as [f|].
    + pose proof (set_field_flag q f v) as Hf. destruct (set_field q f v) as [q' b]. simpl in Hf. subst b.
      rewrite IH. destruct (value_fits f v); simpl.
      * rewrite orb_false_r. reflexivity.
      * rewrite !orb_true_r. reflexivity.
    + rewrite IH. reflexivity.
Qed.

Lemma decode_request_value_flag v :
  snd (decode_request_value v) = negb (match v with JNull => true | JObj kv => object_fits kv | _ => false end).
Proof.
  destruct v; try reflexivity. simpl. rewrite decode_members_flag. reflexivity.
Qed.

Lemma decode_member_flag v : snd (decode_member v) = negb (member_fits v).
Proof.
  destruct v; try reflexivity.
  unfold decode_member. pose proof (decode_request_value_flag (JObj kv)) as H.
  destruct (decode_request_value (JObj kv)) as [q b]. simpl in *. exact H.
Qed.

Lemma decode_member_list_spec l :
  snd (decode_member_list l) = negb (forallb member_fits l) /\ length (fst (decode_member_list l)) = length l.
Proof.
  induction l as [|v t [IH1 IH2]]; simpl; [split; reflexivity|].
  pose proof (decode_member_flag v) as Hv.
  destruct (decode_member v) as [m b]. destruct (decode_member_list t) as [ms bs]. simpl in *. subst.
  split; [|lia]. rewrite negb_andb. reflexivity.
Qed.

(* decode_batch succeeds with a non-empty list exactly on parseable batches, member for member *)
Lemma parseable_batch_decode v n :
  parseable_batch v = Some n -> exists reqs, decode_batch v = Ok reqs /\ length reqs = n /\ reqs <> [].
Proof.
  unfold parseable_batch, decode_batch. destruct v as [|t]; [discriminate|].
  destruct t as [| | | |l|]; try discriminate. destruct l as [|m ms]; [discriminate|].
  destruct (forallb member_fits (m :: ms)) eqn:E; [|discriminate]. intros H; injection H as <-.
  destruct (decode_member_list_spec (m :: ms)) as [H1 H2]. rewrite E in H1.
  destruct (decode_member_list (m :: ms)) as [reqs b]. simpl in H1, H2. subst b. simpl.
  exists reqs. split; [reflexivity|]. split; [simpl in H2; lia|].
  intros ->. simpl in H2. lia.
Qed.

Lemma decode_batch_ok v reqs : decode_batch v = Ok reqs -> reqs <> [] ->
  exists ms, v = Tree (JArr ms) /\ length ms = length reqs /\ parseable_batch v = Some (length reqs).
Proof.
  unfold decode_batch. destruct v as [|t]; [discriminate|].
  destruct t as [| | | |l|]; try discriminate.
  - intros H; injection H as <-. congruence.
  - destruct (decode_member_list_spec l) as [H1 H2].
    destruct (decode_member_list l) as [ms b]. simpl in H1, H2. destruct b; [discriminate|].
    intros H; injection H as <-. intros NE. exists l. split; [reflexivity|]. split; [lia|].
    unfold parseable_batch. destruct l as [|m l']; [simpl in H2; destruct ms; [congruence|discriminate]|].
    symmetry in H1. apply negb_false_iff in H1. rewrite H1. simpl in H2. f_equal. lia.
Qed.

Lemma decode_batch_unprocessable v :
  unprocessable_body v -> match decode_batch v with Ok [] | Err _ => True | _ => False end.
Proof.
  destruct v as [|t]; simpl; [trivial|].
  destruct t as [| | | |l|kv]; simpl; trivial.
  intros H. destruct (decode_member_list_spec l) as [H1 H2].
  destruct (decode_member_list l) as [ms b]. simpl in H1, H2. destruct b; [trivial|].
  destruct ms as [|m ms]; [trivial|].
  destruct l as [|x l']; [discriminate|]. symmetry in H1. apply negb_false_iff in H1.
  unfold parseable_batch in H. simpl in H, H1. rewrite H1 in H. discriminate.
Qed.

Lemma decode_single_unprocessable v :
  unprocessable_body v -> decode_single v = Ok zero_request \/ exists e, decode_single v = Err e.
Proof.
  destruct v as [|t]; simpl; [eauto|].
  destruct t as [| | | |l|kv]; simpl; eauto.
  intros H. pose proof (decode_members_flag kv zero_request false) as Hf.
  destruct (decode_members kv zero_request false) as [q b]. simpl in Hf. rewrite H in Hf. simpl in Hf. subst b. eauto.
Qed.

(* a request that decoded from an object or null: the batch path cannot take it for a batch *)
Lemma decode_single_not_batch v q : decode_single v = Ok q ->
  match decode_batch v with Ok [] | Err _ => True | _ => False end.
Proof.
  unfold decode_single, decode_batch. destruct v as [|t]; [discriminate|].
  destruct t; simpl; trivial. discriminate.
Qed.

(* ---- sniffing past any amount of whitespace ---- *)
Lemma json_space_is_go_space c : is_space_json c = true -> is_space_go c = true.
Proof.
  unfold is_space_json, is_space_go. set (n := b2n c).
  intros H. rewrite !orb_true_iff, !N.eqb_eq in H.
  destruct H as [[[H|H]|H]|H]; rewrite H; reflexivity.
Qed.

Lemma sniff_skip b : sniff_first_byte b = sniff_first_byte (skip_json_ws b).
Proof.
  induction b as [|c t IH]; [reflexivity|]. simpl.
  destruct (is_space_json c) eqn:E.
  - rewrite (json_space_is_go_space _ E). exact IH.
  - reflexivity.
Qed.

(* the repaired sniffFirstByte: however long the JSON whitespace in front of it, '[' is found *)
Lemma sniff_finds_bracket body v l :
  lexer_coherent body v -> v = Tree (JArr l) -> byte_eqb (sniff_first_byte body) open_bracket = true.
Proof.
  intros H E. destruct (H l E) as [rest Hr]. rewrite sniff_skip, Hr. reflexivity.
Qed.

Lemma sniff_any_whitespace (ws rest : bytes) :
  Forall (fun c => is_space_go c = true) ws -> sniff_first_byte (ws ++ open_bracket :: rest) = open_bracket.
Proof.
  induction 1 as [|c t Hc _ IH]; simpl; [reflexivity|]. rewrite Hc. exact IH.
Qed.
