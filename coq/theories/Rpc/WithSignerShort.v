(* C09 ∘ C08 ∘ C01 with the weakest size guard: the signer's law of Rpc/WithSigner.v with the field bounds
   (every integer field below 2^256, data of at most 2^31-1024 bytes, chain id at most 2^53) REPLACED by one
   guard on the result: the returned bytes are shorter than 2^64 bytes — which every Go slice is.

   C01's one-guard theorem (Tx/SignProofs5.sign_wire_format_one_guard) derives "the payload handed to the
   signer is the specification's preimage" from "the output is short" only for a signature whose V is already
   known to be 27/28; but here V's legality is a guard on the digest of the SPECIFICATION's preimage
   ([v_legacy_for]), which can be used only once the payload is known to be that preimage.  The circle is
   broken by C05's shape theorem: whatever SignDirect answers has V in {27,28,29,30}, and for such a V the
   output is at least as long as the payload ([out_ge_payload_auto], the proof of Tx/SignProofs5.out_ge_payload
   with the wider V range). *)
From Coq Require Import List NArith ZArith Bool Arith Lia.
From Coq Require Import ZifyN ZifyNat ZifyBool.
From Coq Require Import Init.Byte.
From FFS Require Import Base.Res Base.Bytes Crypto.Ecdsa Rlp.Model Rlp.Spec Rlp.Proofs.
From FFS Require Import Tx.Model Tx.Spec Tx.Norm Tx.SignProofs Tx.SignProofs2 Tx.SignProofs3 Tx.SignProofs4 Tx.SignProofs5.
From FFS Require Rpc.Json Rpc.Model Rpc.Spec Rpc.WithSigner.
From FFS Require Secp.Model Secp.Proofs.
Import ListNotations.

Module RJ := FFS.Rpc.Json.
Module RS := FFS.Rpc.Spec.
Module RW := FFS.Rpc.WithSigner.

(* what the automatic mode returns for a signature with V in 27..30 is at least as long as the payload *)
Lemma out_ge_payload_auto t chain v r s out :
  (27 <= v <= 30)%Z -> (0 <= chain)%Z -> finalize Auto t chain (v, r, s) = Ok out -> short out ->
  (length (sp_data (payload_of Auto t chain)) <= length out)%nat.
Proof.
  intros Hv Hc.
  assert (E155 : forall o, FinalizeLegacyEIP155WithSignature t (SignaturePayloadLegacyEIP155 t chain) (v, r, s) chain = Ok o ->
            short o -> (length (sp_data (SignaturePayloadLegacyEIP155 t chain)) <= length o)%nat).
  { intros o E Hs. unfold FinalizeLegacyEIP155WithSignature in E.
    cbn [SignaturePayloadLegacyEIP155 sp_list] in E. rewrite lslice_legacy6 in E. cbn [bind UpdateEIP155] in E.
    apply Ok_inj in E. subst o. cbn [SignaturePayloadLegacyEIP155 sp_data addSignature] in *.
    apply enc_list_len_mono; [|exact Hs].
    unfold AddEIP155HashValuesToRLPList. rewrite !flat_map_app, !app_length.
    set (V := (v + chain * 2 + (35 - 27))%Z) in *.
    assert (HV : (length (encode (WrapBig chain)) <= length (encode (WrapBig V)))%nat).
    { apply enc_WrapBig_mono; [subst V; lia|].
      assert (Hin : In (WrapBig V) (BuildLegacy t ++ [WrapBig V; WrapBig r; WrapBig s]))
        by (apply in_or_app; right; left; reflexivity).
      pose proof (short_elem _ _ Hs Hin) as Hse. rewrite WrapBig_Str in Hse.
      pose proof (encode_bytes_len_ge (bb V) false). cbn [encode] in Hse. lia. }
    cbn [flat_map]. rewrite !app_length. change (length (encode (WrapBig 0))) with 1%nat.
    pose proof (enc_len_pos (WrapBig r)). pose proof (enc_len_pos (WrapBig s)). cbn [length]. lia. }
  assert (E1559 : forall o, FinalizeEIP1559WithSignature t (SignaturePayloadEIP1559 t chain) (v, r, s) = Ok o ->
            short o -> (length (sp_data (SignaturePayloadEIP1559 t chain)) <= length o)%nat).
  { intros o E Hs. unfold FinalizeEIP1559WithSignature in E. apply Ok_inj in E. subst o.
    apply short_tail in Hs. cbn [SignaturePayloadEIP1559 sp_list sp_data length] in *.
    apply le_n_S. apply enc_list_len_mono; [|exact Hs].
    destruct (UpdateEIP2930 (v, r, s)) as [[v' r'] s']. cbn [addSignature].
    rewrite flat_map_app, app_length. lia. }
  cbn [finalize payload_of]; unfold SignaturePayload; destruct (wants1559 t); auto.
Qed.

Section SignerShort.
  Variable o : group_ops.
  Variable H : bytes -> bytes.
  Variable nonce : Z -> bytes -> nat -> Z.
  Variable fuel : nat.
  Hypothesis L : laws o.
  Hypothesis n_fits : (n o < Secp.Model.two256)%Z.
  Hypothesis H_len : forall x, length (H x) = 32%nat.

  (* the guards: key in [1, n-1], a non-negative chain id, V in {27,28} for the one digest signed *)
  Definition short_guards (d : N) (t : RJ.transaction) (chain : Z) : Prop :=
    (1 <= Z.of_N d < n o)%Z /\ (0 <= chain)%Z /\ RW.v_legacy_for o H nonce fuel d t chain.

  Theorem c01_signer_sound_short d t chain raw :
    short_guards d t chain ->
    RW.c01_sign o H nonce fuel d (t, chain) = Ok raw ->
    short raw ->
    RS.raw_recovers_to H (RW.secp_ecrecover o H) raw (Z.to_N chain) (RW.c01_addr o H d)
                       (RS.requested_format t) (RS.requested_fields t).
  Proof.
    intros (Hd & Hc & Hv) Hs Hshort. unfold RW.c01_sign in Hs. cbn [fst snd] in Hs.
    set (tt := RW.to_tx t) in *.
    set (f := KeyPairSign H (secp_sign_direct o nonce fuel) d) in *.
    change (Sign tt (Some f) chain) with (sign_mode Auto tt (Some f) chain) in Hs.
    rewrite sign_mode_unfold in Hs.
    set (pd := sp_data (payload_of Auto tt chain)) in *.
    destruct (f pd) as [[[v r] s]|e|] eqn:Ef; try discriminate. cbn [bind] in Hs.
    unfold f, KeyPairSign in Ef. pose proof (secp_SD_inv o nonce fuel _ _ _ _ _ Ef) as Esd.
    destruct (Secp.Proofs.SignDirect_shape o L n_fits nonce fuel _ _ _ Esd) as (Hvr & Hr & Hsr & _).
    cbn [Secp.Model.sV Secp.Model.sR Secp.Model.sS] in Hvr, Hr, Hsr.
    assert (Hv4 : (27 <= v <= 30)%Z) by lia.
    pose proof (out_ge_payload_auto tt chain v r s raw Hv4 Hc Hs Hshort) as Hge. fold pd in Hge.
    assert (Hpd : short pd) by (unfold short in *; lia).
    assert (Ec : Z.abs_N chain = Z.to_N chain) by lia.
    pose proof (payload_is_preimage Auto tt chain Hpd) as Epre. fold pd in Epre.
    unfold tt in Epre. rewrite RW.format_to_tx, RW.norm_to_tx, Ec in Epre.
    rewrite Epre in Esd, Ef.
    pose proof (Hv _ Esd) as Hleg. cbn [Secp.Model.sV] in Hleg.
    pose proof (finalize_is_spec Auto tt chain v r s raw Hleg Hc Hs Hshort) as Eraw.
    unfold tt in Eraw. rewrite RW.format_to_tx, RW.norm_to_tx, Ec in Eraw.
    exists (y_of v), (Z.to_N r), (Z.to_N s).
    split; [destruct Hleg as [-> | ->]; vm_compute; reflexivity|].
    split; [rewrite Eraw; f_equal; lia|].
    unfold RW.secp_ecrecover.
    assert (Ev : (27 + Z.of_N (y_of v))%Z = v) by (destruct Hleg as [-> | ->]; reflexivity).
    rewrite Ev, !Z2N.id by lia.
    assert (H0 : (0 <= 0 <= 2 ^ 53)%Z) by lia.
    destruct (secp_RD_inverts o L n_fits H H_len nonce fuel d 0%Z _ v r s Hd H0 Ef Hleg) as [-> _].
    reflexivity.
  Qed.

  (* the guards of Rpc/WithSigner.v (C01's: fields below 2^256, data of at most 2^31-1024 bytes, chain id at
     most 2^53) imply this file's: the bytes returned are at most 2^31-1 bytes long *)
  Lemma c01_guards_short d t chain raw :
    RW.c01_guards o H nonce fuel d t chain -> RW.c01_sign o H nonce fuel d (t, chain) = Ok raw ->
    short_guards d t chain /\ short raw.
  Proof.
    intros (Hd & Hc & Hto & Hf & Hv) Hs. split; [split; [exact Hd|]; split; [lia|exact Hv]|].
    unfold RW.c01_sign in Hs. cbn [fst snd] in Hs.
    pose proof (RW.in_range_to_tx t Hto Hf) as HR.
    set (tt := RW.to_tx t) in *.
    change (Sign tt (Some (KeyPairSign H (secp_sign_direct o nonce fuel) d)) chain)
      with (sign_mode Auto tt (Some (KeyPairSign H (secp_sign_direct o nonce fuel) d)) chain) in Hs.
    rewrite sign_mode_unfold in Hs.
    destruct (KeyPairSign H (secp_sign_direct o nonce fuel) d (sp_data (payload_of Auto tt chain)))
      as [[[v r] s]|e|] eqn:Ef; try discriminate.
    cbn [bind] in Hs. unfold KeyPairSign in Ef. apply secp_SD_inv in Ef.
    destruct (Secp.Proofs.SignDirect_shape o L n_fits nonce fuel _ _ _ Ef) as (Hvr & Hr & Hsr & _).
    cbn [Secp.Model.sV Secp.Model.sR Secp.Model.sS] in Hvr, Hr, Hsr.
    assert (n o < two256)%Z by (exact n_fits).
    assert (Hlen : (N.of_nat (length raw) <= maxInt32)%N)
      by (apply (finalize_small tt HR chain Hc Auto v r s raw); try lia; exact Hs).
    unfold short, maxInt32 in *. lia.
  Qed.
End SignerShort.
