(* C16 <-> C09 refinement, part 2 (builder b-c16): WfModel's Section variables instantiated by the
   definitions of b-c09's concrete model, and the forward simulation of the four shared functions.

   Instantiation (Section Inst; parse_int, lex, accounts, sign_with, backend, chain are Model.v's own
   Section variables and stay universally quantified):

     W             := option N        the memory cell txn.Nonce that CallRPC(ctx, &txn.Nonce, ...) writes and
                                      wallet.Sign(ctx, &txn, ...) reads (the only state that flows between two
                                      calls outside the handler in Model.v, which is otherwise stateless)
     F             := transaction * json   the decoded ethsigner.Transaction together with its raw `from`
     sync_request  := Model.SyncRequest backend   on [conc_req q], response through [abs_resp]
     call_nonce    := Json.dec_address + Model.CallRPC backend "eth_getTransactionCount" + Json.dec_hexint
     get_accounts  := map hex0x accounts                (fswallet.GetAccounts never fails)
     sign          := Model.wallet_Sign sign_with chain (with the looked-up nonce when none was supplied)
     decode_txn    := Json.decode_transaction parse_int (a nil parameter has no bytes: error)
     parse_from    := is_ok (Json.dec_address from)
     sched w n     := the completion order given to Model.rpcHandler (any function that yields [order]
                      for the batch the body decodes to: hypothesis [sched_agrees])

   Simulation (no hypothesis on the backend, the signer or the order): whenever the concrete function
   returns [Ok c], the abstract one, started in any world, returns [Ok] of the abstraction of [c]:
     processEthSendTransaction_sim, processRPC_sim, run_members_sim (any list of indices, in step with
     Model.complete), handleRPCBatch_sim, rpcHandler_sim.
   The concrete handler serialises its reply into a JSON tree; [cpayload] is the reply before
   serialisation ([cp_tree] the tree, [cp_abs] the WfModel payload). *)
From Coq Require Import String.
From Coq Require Import List NArith ZArith Bool Arith Lia Permutation.
From Coq Require Import Init.Byte.
From FFS Require Import Base.Res Base.Bytes.
From FFS Require Rpc.Body Rpc.WfModel Rpc.Json Rpc.Model Rpc.ProofsBatch.
From FFS Require Import Rpc.Refine.
Import ListNotations.

(* the reply of the concrete handler before json.Marshal *)
Inductive cpayload :=
| CSingle (o : option Json.rpc_response)
| CBatch (l : list (option Json.rpc_response)).

Definition cp_tree (c : cpayload) : Json.json :=
  match c with
  | CSingle o => Json.response_opt_tree o
  | CBatch l => Json.JArr (map Json.response_opt_tree l)
  end.
Definition cp_abs (c : cpayload) : WfModel.payload :=
  match c with
  | CSingle o => WfModel.PSingle (abs_oresp o)
  | CBatch l => WfModel.PBatch (map abs_oresp l)
  end.

Lemma set_nonce_same t : Model.set_nonce t (Json.tx_nonce t) = t.
Proof. destruct t; reflexivity. Qed.

Lemma set_slot_map {A B} (f : A -> B) (l : list A) : forall i v,
  WfModel.set_slot (map f l) i (f v) = rmap (map f) (Model.set_nth l i v).
Proof.
  induction l as [|x l IH]; intros i v; [reflexivity|].
  destruct i as [|i]; [reflexivity|]. simpl. rewrite IH. destruct (Model.set_nth l i v); reflexivity.
Qed.

Lemma sniff_eq body : Model.sniffFirstByte body = Body.sniff_first_byte body.
Proof. reflexivity. Qed.

Section Inst.
  Variable parse_int : bytes -> option Z.
  Variable lex : bytes -> option Json.json.
  Variable accounts : list bytes.
  Variable sign_with : bytes -> Json.transaction -> Z -> res bytes.
  Variable backend : Model.frame -> Model.backend_reply.
  Variable chain : Z.

  Definition W : Type := option N.
  Definition F : Type := (Json.transaction * Json.json)%type.

  Definition i_sync (w : W) (q : Body.request) : (option WfModel.response * bool) * W :=
    let '(res, err, _) := Model.SyncRequest backend (conc_req q) in ((Some (abs_resp res), err), w).

  Definition i_get_accounts (w : W) : option (list bytes) * W := (Some (map Json.hex0x accounts), w).

  Definition view_of (tx : Json.transaction) : WfModel.txn_view F :=
    WfModel.mkView (match Json.tx_from tx with Some f => Some (tx, f) | None => None end)
                   (match Json.tx_nonce tx with Some _ => true | None => false end).

  Definition i_decode_txn (p : option Body.jv) : option (WfModel.txn_view F) :=
    match p with
    | None => None
    | Some v => match Json.decode_transaction parse_int (v2j v) with
                | Ok tx => Some (view_of tx)
                | _ => None
                end
    end.

  Definition i_parse_from (f : F) : bool := is_ok (Json.dec_address (snd f)).

  Definition nonce_failed : WfModel.rpc_error := WfModel.mkErr WfModel.RPCCodeInternalError WfModel.some_text.

  Definition i_call_nonce (w : W) (f : F) : option WfModel.rpc_error * W :=
    match Json.dec_address (snd f) with
    | Ok from =>
        match Model.CallRPC backend (Json.bs "eth_getTransactionCount")
                            [Model.address_json from; Json.JStr (Json.bs "pending")] with
        | (inr _, _) => (Some nonce_failed, w)
        | (inl Json.JNull, _) => (None, None)
        | (inl v, _) => match Json.dec_hexint parse_int v with
                        | Ok n => (None, Some n)
                        | _ => (Some nonce_failed, w)
                        end
        end
    | _ => (Some nonce_failed, w)
    end.

  Definition i_sign (w : W) (tv : WfModel.txn_view F) : option bytes * W :=
    match WfModel.tv_from tv with
    | None => (None, w)
    | Some f =>
        match Model.wallet_Sign sign_with chain (if WfModel.tv_has_nonce tv then fst f else Model.set_nonce (fst f) w) with
        | Ok raw => (Some (Json.hex0x raw), w)
        | _ => (None, w)
        end
    end.

  Notation a_processEthSendTransaction := (WfModel.processEthSendTransaction W F i_sync i_call_nonce i_sign i_decode_txn i_parse_from).
  Notation a_processRPC := (WfModel.processRPC W F i_sync i_call_nonce i_get_accounts i_sign i_decode_txn i_parse_from).
  Notation a_run_members := (WfModel.run_members W F i_sync i_call_nonce i_get_accounts i_sign i_decode_txn i_parse_from).
  Notation c_processEthSendTransaction := (Model.processEthSendTransaction parse_int sign_with backend chain).
  Notation c_processRPC := (Model.processRPC parse_int accounts sign_with backend chain).
  Notation c_run_members := (Model.run_members parse_int accounts sign_with backend chain).

  Definition abs_out (o : Model.outcome) : option WfModel.response * bool :=
    (abs_oresp (fst (fst o)), snd (fst o)).

  Lemma decode_txn_sim p0 :
    i_decode_txn (abs_param p0)
    = match Json.decode_transaction parse_int p0 with Ok tx => Some (view_of tx) | _ => None end.
  Proof.
    destruct p0; try reflexivity.
    unfold abs_param. change (Body.param_of (j2v (Json.JObj m))) with (Some (j2v (Json.JObj m))).
    unfold i_decode_txn. rewrite v2j_j2v. reflexivity.
  Qed.

  (* sign, then submit the raw transaction *)
  Lemma sign_send_sim rq (tx0 : Json.transaction) (f : Json.json) (hn : bool) (w : W) tx fr (c : Model.outcome) :
    tx = (if hn then tx0 else Model.set_nonce tx0 w) ->
    match Model.wallet_Sign sign_with chain tx with
    | Panic => Panic
    | Err _ => Ok (Some (Model.RPCErrorResponse (Json.rq_id rq) Model.RPCCodeInternalError), true, fr)
    | Ok raw =>
        let '(res, err, frames') :=
          Model.SyncRequest backend (Json.mkReq (Json.rq_jsonrpc rq) (Json.rq_id rq) (Json.bs "eth_sendRawTransaction")
                                                [Json.JStr (Json.hex0x raw)]) in
        Ok (Some res, err, fr ++ frames')
    end = Ok c ->
    exists w',
      (let '(raw, w2) := i_sign w (WfModel.mkView (Some (tx0, f)) hn) in
       match raw with
       | None => WfModel.fail_with W w2 (Body.q_id (abs_req rq)) WfModel.RPCCodeInternalError
       | Some hexData =>
           Ok (i_sync w2 (Body.mkReq (Body.q_jsonrpc (abs_req rq)) (Body.q_id (abs_req rq))
                                     WfModel.m_eth_sendRawTransaction [Some (Body.JStr hexData)]))
       end) = Ok (abs_out c, w').
  Proof.
    intros Etx H. unfold i_sign. cbn [WfModel.tv_from WfModel.tv_has_nonce fst]. rewrite <- Etx.
    destruct (Model.wallet_Sign sign_with chain tx) as [raw|e|]; [| |discriminate].
    - unfold i_sync.
      match goal with |- context [Model.SyncRequest backend (conc_req ?q)] =>
        replace (conc_req q) with (Json.mkReq (Json.rq_jsonrpc rq) (Json.rq_id rq) (Json.bs "eth_sendRawTransaction")
                                              [Json.JStr (Json.hex0x raw)])
      end.
      2:{ unfold conc_req, abs_req. cbn [Body.q_jsonrpc Body.q_id Body.q_method Body.q_params map conc_param v2j].
          rewrite v2j_j2v_opt. reflexivity. }
      destruct (Model.SyncRequest backend _) as [[res err] fr'].
      injection H as <-. exists w. reflexivity.
    - injection H as <-. exists w. reflexivity.
  Qed.

  Lemma processEthSendTransaction_sim rq c : c_processEthSendTransaction rq = Ok c ->
    forall w, exists w', a_processEthSendTransaction w (abs_req rq) = Ok (abs_out c, w').
  Proof.
    intros H w. unfold Model.processEthSendTransaction in H. unfold WfModel.processEthSendTransaction.
    assert (Ep : Body.q_params (abs_req rq) = map abs_param (Json.rq_params rq)) by reflexivity.
    rewrite Ep. destruct (Json.rq_params rq) as [|p0 ps].
    { cbn in H |- *. injection H as <-. exists w. reflexivity. }
    cbn [map length Nat.ltb Nat.leb WfModel.index_list Model.index_list nth_error bind] in H |- *.
    rewrite decode_txn_sim.
    destruct (Json.decode_transaction parse_int p0) as [tx|e|]; [| |discriminate].
    2:{ injection H as <-. exists w. reflexivity. }
    unfold view_of at 1. cbn [WfModel.tv_from].
    destruct (Json.tx_from tx) as [f|] eqn:Ef.
    2:{ injection H as <-. exists w. reflexivity. }
    unfold view_of. rewrite Ef. cbn [WfModel.tv_has_nonce WfModel.tv_from].
    destruct (Json.tx_nonce tx) as [n|] eqn:En.
    { (* nonce supplied *)
      eapply sign_send_sim; [reflexivity|exact H]. }
    unfold i_parse_from, i_call_nonce. cbn [snd].
    destruct (Json.dec_address f) as [from|e|]; [| |discriminate].
    2:{ cbn [is_ok negb]. injection H as <-. exists w. reflexivity. }
    cbn [is_ok negb].
    destruct (Model.CallRPC backend _ _) as [[v|u] frames].
    2:{ injection H as <-. exists w. reflexivity. }
    destruct v;
      try (destruct (Json.dec_hexint parse_int _) as [n| |] eqn:Eh;
           [eapply sign_send_sim; [reflexivity|exact H]
           |injection H as <-; exists w; reflexivity
           |injection H as <-; exists w; reflexivity]).
    (* the lookup answered null: txn.Nonce stays nil *)
    eapply sign_send_sim; [|exact H]. cbn. rewrite <- En. symmetry. apply set_nonce_same.
  Qed.

  Lemma processRPC_sim m c : c_processRPC m = Ok c ->
    forall w, exists w', a_processRPC w (abs_oreq m) = Ok (abs_out c, w').
  Proof.
    intros H w. unfold Model.processRPC in H. unfold WfModel.processRPC.
    destruct m as [rq|]; cbn [abs_oreq option_map].
    2:{ injection H as <-. exists w. reflexivity. }
    cbn [WfModel.deref bind].
    assert (Ei : Body.q_id (abs_req rq) = j2v_opt (Json.rq_id rq)) by reflexivity.
    assert (Em : Body.q_method (abs_req rq) = Json.rq_method rq) by reflexivity.
    rewrite Em.
    destruct (Json.rq_id rq) as [id|] eqn:Eid.
    2:{ rewrite Ei. cbn [j2v_opt option_map]. injection H as <-. exists w. reflexivity. }
    rewrite Ei. cbn [j2v_opt option_map].
    change (Json.bs "eth_accounts") with WfModel.m_eth_accounts in H.
    change (Json.bs "personal_accounts") with WfModel.m_personal_accounts in H.
    change (Json.bs "eth_sendTransaction") with WfModel.m_eth_sendTransaction in H.
    destruct (bytes_eqb (Json.rq_method rq) WfModel.m_eth_accounts || bytes_eqb (Json.rq_method rq) WfModel.m_personal_accounts).
    { injection H as <-. exists w. unfold WfModel.processEthAccounts, i_get_accounts, Model.processEthAccounts, abs_out.
      cbn. unfold abs_resp. cbn. rewrite !map_map. reflexivity. }
    destruct (bytes_eqb (Json.rq_method rq) WfModel.m_eth_sendTransaction).
    { apply processEthSendTransaction_sim. exact H. }
    unfold i_sync. rewrite conc_abs_req.
    destruct (Model.SyncRequest backend rq) as [[res err] fr]. injection H as <-. exists w. reflexivity.
  Qed.

  Lemma Forall2_nth {A B} (R : A -> B -> Prop) l l' : Forall2 R l l' ->
    forall i b, nth_error l' i = Some b -> exists a, nth_error l i = Some a /\ R a b.
  Proof.
    induction 1 as [|a b0 l l' H0 _ IH]; intros [|i] b Hb; simpl in Hb; try discriminate.
    - injection Hb as <-. exists a. split; [reflexivity|exact H0].
    - apply IH. exact Hb.
  Qed.

  Definition stat (failed : bool) : N := if failed then 500%N else 200%N.

  (* the member goroutines, completing in the order [order] (any list of indices): WfModel runs member
     k when it completes, Model.v ran all of them beforehand ([outs]) and only stores; same slots, same status *)
  Lemma run_members_sim ms outs : Forall2 (fun m o => c_processRPC m = Ok o) ms outs ->
    forall order slots st slots' failed (w : W),
      Model.complete outs order slots (stat failed) = Ok (slots', st) ->
      exists failed' w',
        a_run_members w (map abs_oreq ms) order (map abs_oresp slots) failed = Ok (map abs_oresp slots', failed', w')
        /\ st = stat failed'.
  Proof.
    intros Hall. induction order as [|k rest IH]; intros slots st slots' failed w H.
    - cbn in H |- *. injection H as <- <-. eauto.
    - cbn [Model.complete] in H. cbn [WfModel.run_members].
      unfold Model.index_list in H. destruct (nth_error outs k) as [o|] eqn:Ek; [|discriminate].
      cbn [bind] in H. destruct o as [[resp err] fr].
      destruct (Forall2_nth _ _ _ Hall k _ Ek) as [m [Em Hm]].
      unfold WfModel.index_list. rewrite nth_error_map, Em. cbn [option_map bind].
      destruct (processRPC_sim _ _ Hm w) as [w1 E1]. rewrite E1. cbn [bind abs_out fst snd].
      destruct (Model.set_nth slots k resp) as [s1|e|] eqn:Es; [|discriminate|discriminate].
      cbn [bind] in H.
      unfold abs_oresp at 2. rewrite set_slot_map, Es. cbn [rmap bind].
      apply (IH s1 st slots' (failed || err) w1).
      rewrite <- H. f_equal. unfold stat. destruct failed, err; reflexivity.
  Qed.

  (* ---------- the handler ---------- *)
  Variable body : bytes.
  Variable order : list nat.
  Variable sched : W -> nat -> list nat.
  (* the abstract scheduler hands out the completion order the concrete handler was given *)
  Hypothesis sched_agrees : forall w t ms, lex body = Some t -> Json.decode_batch t = Ok ms -> sched w (length ms) = order.

  Notation a_handleRPCBatch := (WfModel.handleRPCBatch W F i_sync i_call_nonce i_get_accounts i_sign i_decode_txn i_parse_from sched).
  Notation a_rpcHandler := (WfModel.rpcHandler W F i_sync i_call_nonce i_get_accounts i_sign i_decode_txn i_parse_from sched).
  Notation c_handleRPCBatch := (Model.handleRPCBatch parse_int lex accounts sign_with backend chain).
  Notation c_rpcHandler := (Model.rpcHandler parse_int lex accounts sign_with backend chain).

  Definition parse_error_cp : cpayload :=
    CSingle (Some (Model.RPCErrorResponse (Some (Json.JNum (Json.bs "1"))) Model.RPCCodeInvalidRequest)).

  (* [hr] is the serialisation of a payload [cp] whose abstraction the abstract handler [f] replies from
     every world *)
  Definition sim_reply (hr : Model.http_reply) (f : W -> res (WfModel.reply * W)) : Prop :=
    exists cp, snd (fst hr) = cp_tree cp /\
               forall w, exists w', f w = Ok (WfModel.mkReply (fst (fst hr)) (cp_abs cp), w').

  Lemma parse_error_sim_reply (f : W -> res (WfModel.reply * W)) :
    (forall w, f w = Ok (WfModel.parse_error_reply, w)) -> sim_reply Model.replyRPCParseError f.
  Proof. intros Hf. exists parse_error_cp. split; [reflexivity|]. intros w. exists w. rewrite Hf. reflexivity. Qed.

  Lemma handleRPCBatch_sim hr : c_handleRPCBatch body order = Ok hr ->
    sim_reply hr (fun w => a_handleRPCBatch w (verdict_of (lex body))).
  Proof.
    intros H. unfold Model.handleRPCBatch in H.
    destruct (lex body) as [t|] eqn:El.
    2:{ injection H as <-. apply parse_error_sim_reply. intros w. unfold WfModel.handleRPCBatch.
        rewrite decode_batch_sim. reflexivity. }
    destruct (Json.decode_batch t) as [ms|e|] eqn:Ed; [| |discriminate].
    2:{ injection H as <-. apply parse_error_sim_reply. intros w. unfold WfModel.handleRPCBatch.
        rewrite decode_batch_sim, Ed. reflexivity. }
    destruct ms as [|m0 ms'].
    { injection H as <-. apply parse_error_sim_reply. intros w. unfold WfModel.handleRPCBatch.
      rewrite decode_batch_sim, Ed. reflexivity. }
    set (ms := m0 :: ms') in *.
    destruct (c_run_members ms) as [outs|e|] eqn:Er; [|discriminate|discriminate].
    cbn [bind] in H.
    destruct (Model.complete outs order (map (fun _ => None) ms) 200%N) as [[slots st]|e|] eqn:Ec; [|discriminate|discriminate].
    cbn [bind] in H. injection H as <-.
    exists (CBatch slots). split; [reflexivity|]. intros w.
    unfold WfModel.handleRPCBatch. rewrite decode_batch_sim, Ed. cbn [rmap].
    change (map abs_oreq ms) with (abs_oreq m0 :: map abs_oreq ms') at 1. cbv iota beta.
    change (abs_oreq m0 :: map abs_oreq ms') with (map abs_oreq ms).
    rewrite map_length. rewrite (sched_agrees w t ms eq_refl Ed).
    pose proof (Rpc.ProofsBatch.run_members_spec parse_int accounts sign_with backend chain _ _ Er) as Hall.
    destruct (run_members_sim ms outs Hall order (map (fun _ => None) ms) st slots false w Ec) as [failed' [w' [E Hst]]].
    replace (repeat None (length ms)) with (map abs_oresp (map (fun _ : option Json.rpc_request => @None Json.rpc_response) ms)).
    2:{ clear. induction ms as [|x l IH]; simpl; [reflexivity|]. f_equal. exact IH. }
    rewrite E. cbn [bind].
    exists w'. cbn [fst snd cp_abs]. rewrite Hst. reflexivity.
  Qed.

  (* the refinement: every reply of the concrete handler is the serialisation of a payload whose
     abstraction is what WfModel's handler, instantiated as above and started in any world, replies --
     same HTTP status, same single / batch shape, same response objects slot by slot *)
  Theorem rpcHandler_sim hr : c_rpcHandler body order = Ok hr ->
    sim_reply hr (fun w => a_rpcHandler w body (verdict_of (lex body))).
  Proof.
    intros H. unfold Model.rpcHandler in H. rewrite sniff_eq in H.
    assert (Esn : byte_eqb (Body.sniff_first_byte body) Body.open_bracket = (b2n (Body.sniff_first_byte body) =? 91)%N)
      by reflexivity.
    destruct (b2n (Body.sniff_first_byte body) =? 91)%N.
    { destruct (handleRPCBatch_sim hr H) as [cp [Et Ha]]. exists cp. split; [exact Et|].
      intros w. unfold WfModel.rpcHandler. rewrite Esn. apply Ha. }
    destruct (lex body) as [t|] eqn:El.
    2:{ injection H as <-. apply parse_error_sim_reply. intros w. unfold WfModel.rpcHandler.
        rewrite Esn, decode_single_sim. reflexivity. }
    destruct (Json.decode_request t) as [rq|e|] eqn:Ed; [| |discriminate].
    2:{ injection H as <-. apply parse_error_sim_reply. intros w. unfold WfModel.rpcHandler.
        rewrite Esn, decode_single_sim, Ed. reflexivity. }
    destruct (c_processRPC (Some rq)) as [o|e|] eqn:Ep; [|discriminate|discriminate].
    cbn [bind] in H. destruct o as [[resp err] frames]. injection H as <-.
    exists (CSingle resp). split; [reflexivity|]. intros w.
    unfold WfModel.rpcHandler. rewrite Esn, decode_single_sim, Ed. cbn [rmap].
    destruct (processRPC_sim _ _ Ep w) as [w' E]. cbn [abs_oreq option_map] in E. rewrite E.
    cbn [bind abs_out fst snd]. exists w'. reflexivity.
  Qed.
End Inst.
