(* C09 ∘ C08: the proxy model (Rpc/Model.v) run with the CONCRETE wallet it has in production, the
   file-system wallet of pkg/fswallet as modelled for property C08 (Wallet/Model.v).

   Rpc/Model.v is parametric in a wallet = (accounts : list bytes, sign_with : address -> transaction ->
   chain id -> res raw).  Here that pair is DEFINED from a state of the file-system wallet:

     fs_accounts s            = fswallet.GetAccounts                       (Wallet.Model.GetAccounts)
     fs_sign_with s a t chain = fswallet.getSignerForAddr(a) followed by   (Wallet.Model.GetWalletFile)
                                txn.Sign(keypair, chainID)                 (the external signer sign_tx of
                                                                            Wallet.Model.ext, at tx := transaction * Z)

   and the hypotheses C09's theorems make about the abstract wallet are DISCHARGED from C08's theorems,
   for every state [fs_state fs h] the wallet can be in: any initial file system [fs], any history [h] of
   wallet operations (scans, earlier requests, file-system changes, listener events, cache evictions):

     wallet_sound               from  GetWalletFile binds the address (C08_sign_binds_address), only listed
                                      addresses sign (C08_unlisted_address_refused)  + the signer's law
     sign_with <> Panic         from  C08's no-panic lemmas + the libraries' no-panic laws
     a signature for a is by the key of a
                                      [key_of_from]: the key is cached under a's string or was loaded from
                                      the file the directory scan associated with a, and its address is a

   What remains as explicit hypotheses: the signer's law [signer_sound] (ECDSA / C01: what key k signs
   is the EIP wire format of the requested fields and recovers to the address of k), the libraries do not
   panic ([ext_nopanic]: keystore reader C15, signers), the OS calls do not panic ([fs_nopanic], for the
   initial file system and every later one).  No proofs about the proxy or the wallet are redone here.

   Also here, because both models transcribe the same Go function (ethtypes.Address0xHex.SetString):
   the proxy model's parser of `from` and the wallet model's agree ([address_parsers_agree]), so that
   fs_sign_with at the parsed address IS Wallet.Model.Sign on the raw `from` ([fs_sign_is_Sign]). *)
From Coq Require Import String.
From Coq Require Import List NArith ZArith Bool Arith Lia Permutation.
From Coq Require Import Init.Byte.
From FFS Require Import Base.Res Base.Bytes Rlp.Spec Tx.Spec Rpc.Json Rpc.Model Rpc.Spec
  Rpc.ProofsBatch Rpc.Proofs Rpc.ProofsHandler Rpc.WfProofsC09.
From FFS Require Wallet.Model Wallet.Spec Wallet.Proofs Wallet.Proofs2 Wallet.Proofs3 Wallet.Proofs4.
Import ListNotations.
Local Open Scope string_scope.
Local Open Scope list_scope.

Module W := FFS.Wallet.Model.
Module WS := FFS.Wallet.Spec.
Module WP := FFS.Wallet.Proofs.
Module WP2 := FFS.Wallet.Proofs2.
Module WP3 := FFS.Wallet.Proofs3.
Module WP4 := FFS.Wallet.Proofs4.

(* ---------- the two transcriptions of Address0xHex.SetString agree ---------- *)

Lemma hex_val_same b : hex_val b = W.hexval b.
Proof. reflexivity. Qed.

Lemma hex_decode_same : forall l, Rpc.Json.hex_decode l = W.hex_decode l.
Proof.
  fix IH 1. intros [|a [|b t]]; [reflexivity|reflexivity|].
  cbn [Rpc.Json.hex_decode W.hex_decode]. rewrite <- (IH t).
  change (W.hexval a) with (hex_val a). change (W.hexval b) with (hex_val b).
  destruct (hex_val a) as [x|], (hex_val b) as [y|], (Rpc.Json.hex_decode t); try reflexivity.
  rewrite (N.mul_comm x 16). reflexivity.
Qed.

Lemma trim_0x_same s : trim_0x s = W.trim_prefix W.s_0x s.
Proof. rewrite WP.trim_0x_strip. destruct s as [|a [|b t]]; reflexivity. Qed.

(* Rpc.Json.address_of_string (proxy model) and Wallet.Model.parse_address (wallet model) *)
Lemma address_parsers_agree s :
  address_of_string s = match W.parse_address s with Some a => Ok a | None => Err EJson end.
Proof.
  unfold address_of_string, W.parse_address. rewrite trim_0x_same, hex_decode_same.
  destruct (W.hex_decode _) as [b|]; [|reflexivity]. destruct (length b =? 20)%nat; reflexivity.
Qed.

(* ================= the proxy's wallet, defined from the file-system wallet ================= *)

Section FsWallet.
  Context {key doc tsig : Type}.
  (* what the proxy hands to the signer: the decoded transaction and the chain id; it gets raw bytes *)
  Notation wtx := (transaction * Z)%type.
  Variable E : W.ext key wtx bytes doc tsig.
  Variable c : W.config.

  Notation wstate := (W.state key).
  Notation wop := (W.op wtx doc).
  Notation GetWalletFile := (W.GetWalletFile key wtx bytes doc tsig E c).
  Notation loadWalletFile := (W.loadWalletFile key wtx bytes doc tsig E c).
  Notation addr_of := (W.addr_of key wtx bytes doc tsig E).
  Notation sign_tx := (W.sign_tx key wtx bytes doc tsig E).
  Notation after := (W.after key wtx bytes doc tsig E c).
  Notation step := (W.step key wtx bytes doc tsig E c).
  Notation inv := (WP4.inv key wtx bytes doc tsig E).

  (* fswallet.GetAccounts *)
  Definition fs_accounts (s : wstate) : list bytes := W.GetAccounts key s.

  (* fswallet.Sign after the address has been parsed: getSignerForAddr, then txn.Sign(keypair, chainID).
     The wallet's state change (the signer cache) is not returned: see [fs_state] — the theorems hold in
     every state the wallet can reach, whatever earlier requests cached. *)
  Definition fs_sign_with (s : wstate) (a : bytes) (t : transaction) (chain : Z) : res bytes :=
    do k <- snd (GetWalletFile s a); sign_tx k (t, chain).

  (* every state of the wallet: a fresh wallet over any file system, then any history of operations *)
  Definition fs_state (fs : W.fsys) (h : list wop) : wstate := after (W.init_state key fs) h.

  (* "the key file owning a": k has address a, a is listed, and k is the entry cached under a's string
     or the key loadWalletFile reads from the file the directory scan associated with a *)
  Definition key_of_from (s : wstate) (a : bytes) (k : key) : Prop :=
    addr_of k = a /\ In a (fs_accounts s) /\
    (W.assoc_get (W.addr_string a) (W.st_cache key s) = Some k \/
     exists fn, W.assoc_get (W.addr_string a) (W.st_cache key s) = None /\
                W.assoc_get a (W.st_map key s) = Some fn /\
                loadWalletFile (W.st_fs key s) a (W.path_join key wtx bytes doc tsig E (W.c_path c) fn) = Ok k).

  Lemma fs_state_inv fs h : inv (fs_state fs h).
  Proof. apply WP4.reachable_inv. Qed.

  Lemma fs_state_app fs h ops : after (fs_state fs h) ops = fs_state fs (h ++ ops).
  Proof. unfold fs_state. symmetry. apply WP.after_app. Qed.

  Lemma GetWalletFile_key (s s' : wstate) a k :
    inv s -> GetWalletFile s a = (s', Ok k) -> key_of_from s a k.
  Proof.
    intros (Hc & [Hk _] & Hl). unfold W.GetWalletFile.
    destruct (W.assoc_get (W.addr_string a) (W.st_cache key s)) as [w|] eqn:Hg.
    { intros H; inversion H; subst w s'.
      pose proof (Hc _ _ Hg) as Hs. apply WP.addr_string_inj in Hs.
      split; [symmetry; exact Hs|]. split; [|left; exact Hg].
      rewrite Hs. unfold fs_accounts, W.GetAccounts. eapply Hl; eauto. }
    destruct (W.assoc_get a (W.st_map key s)) as [fn|] eqn:Hm; [|intros H; inversion H].
    destruct (loadWalletFile _ _ _) as [k'| |] eqn:Hload; try (intros H; inversion H; fail).
    destruct (bytes_eqb (addr_of k') a) eqn:Eq; simpl; intros H; inversion H; subst k'.
    apply WP.bytes_eqb_true in Eq. split; [exact Eq|]. split.
    - apply Hk. congruence.
    - right. exists fn. auto.
  Qed.

  (* a signature returned for address a is by the key of a *)
  Lemma fs_sign_key fs h a t chain raw :
    fs_sign_with (fs_state fs h) a t chain = Ok raw ->
    exists k, key_of_from (fs_state fs h) a k /\ sign_tx k (t, chain) = Ok raw.
  Proof.
    unfold fs_sign_with. destruct (GetWalletFile (fs_state fs h) a) as [s' r] eqn:Hw. simpl.
    destruct r as [k| |]; simpl; try discriminate. intros Hs. exists k. split; [|exact Hs].
    eapply GetWalletFile_key; [apply fs_state_inv|exact Hw].
  Qed.

  (* the wallet refuses: nothing is signed *)
  Lemma fs_refused (s : wstate) a chain :
    (forall k, snd (GetWalletFile s a) <> Ok k) -> forall t raw, fs_sign_with s a t chain <> Ok raw.
  Proof.
    intros Hr t raw. unfold fs_sign_with. destruct (snd (GetWalletFile s a)) as [k| |]; simpl; try discriminate.
    exfalso. eapply Hr; reflexivity.
  Qed.

  (* ... in particular for an address GetAccounts does not list (C08_unlisted_address_refused) ... *)
  Lemma fs_unlisted_refused fs h a :
    ~ In a (fs_accounts (fs_state fs h)) -> forall k, snd (GetWalletFile (fs_state fs h) a) <> Ok k.
  Proof.
    intros Hn k. unfold fs_state. rewrite (WP4.unlisted_refused key wtx bytes doc tsig E c fs h a Hn). discriminate.
  Qed.

  (* ... and for a listed address whose file holds another address's key (C08_foreign_key_refused) *)
  Lemma fs_foreign_key_refused (s : wstate) a fn k :
    W.assoc_get (W.addr_string a) (W.st_cache key s) = None ->
    W.assoc_get a (W.st_map key s) = Some fn ->
    loadWalletFile (W.st_fs key s) a (W.path_join key wtx bytes doc tsig E (W.c_path c) fn) = Ok k ->
    addr_of k <> a ->
    forall k', snd (GetWalletFile s a) <> Ok k'.
  Proof.
    intros H1 H2 H3 H4 k'. rewrite (WP.mismatch_refused key wtx bytes doc tsig E c s a fn k H1 H2 H3 H4). discriminate.
  Qed.

  (* ---------- the signer's law (ECDSA + wire format: property C01), kept as a hypothesis ---------- *)
  Section Sound.
    Variable H : bytes -> bytes.
    Variable ecrecover : bytes -> N -> N -> N -> option bytes.

    Definition signer_sound : Prop :=
      forall k t chain raw, sign_tx k (t, chain) = Ok raw ->
        raw_recovers_to H ecrecover raw (Z.to_N chain) (addr_of k) (requested_format t) (requested_fields t).

    (* the hypothesis [wallet_sound] of C09_send_tx / C09_nothing_on_failure, for the concrete wallet *)
    Theorem fs_wallet_sound :
      signer_sound -> forall fs h chain,
      wallet_sound H ecrecover (fs_accounts (fs_state fs h)) (fs_sign_with (fs_state fs h)) chain.
    Proof.
      intros Hs fs h chain a t raw Hsign.
      destruct (fs_sign_key fs h a t chain raw Hsign) as (k & (Ha & Hin & _) & Hk).
      split; [exact Hin|]. rewrite <- Ha. apply Hs; exact Hk.
    Qed.
  End Sound.

  (* ---------- no panic ---------- *)

  Definition ops_ok (h : list wop) : Prop := Forall (WP3.op_ok wtx doc) h.

  Lemma step_fs_nopanic (s : wstate) (o : wop) :
    WP3.fs_nopanic (W.st_fs key s) -> WP3.op_ok wtx doc o -> WP3.fs_nopanic (W.st_fs key (fst (step s o))).
  Proof.
    intros Hfs Ho. destruct o; simpl; try exact Hfs.
    - destruct (W.Refresh key wtx bytes doc tsig E c s) as [s' r] eqn:Hr.
      apply WP.Refresh_cache in Hr as [_ Hf]. simpl. rewrite Hf. exact Hfs.
    - unfold W.Sign, W.getSignerForJSONAccount, W.getSignerForAddr.
      destruct (W.parse_from _ _ _ _ _ E from_raw) as [a|]; [|exact Hfs].
      destruct (GetWalletFile s a) as [s' r] eqn:Hw. apply WP.GetWalletFile_inv in Hw as (Hf & _).
      simpl. rewrite Hf. exact Hfs.
    - unfold W.SignTypedDataV4, W.getSignerForAddr.
      destruct (GetWalletFile s from) as [s' r] eqn:Hw. apply WP.GetWalletFile_inv in Hw as (Hf & _).
      simpl. rewrite Hf. exact Hfs.
    - destruct (GetWalletFile s addr) as [s' r] eqn:Hw. apply WP.GetWalletFile_inv in Hw as (Hf & _).
      simpl. rewrite Hf. exact Hfs.
    - exact Ho.
    - destruct (W.notifyNewFiles key wtx bytes doc tsig E c s [(name, isdir)]) as [s'| |] eqn:Hn; simpl; try exact Hfs.
      apply WP.notifyNewFiles_cache in Hn as [_ Hf]. rewrite Hf. exact Hfs.
  Qed.

  Lemma after_fs_nopanic h : forall s : wstate,
    WP3.fs_nopanic (W.st_fs key s) -> ops_ok h -> WP3.fs_nopanic (W.st_fs key (after s h)).
  Proof.
    induction h as [|o h IH]; intros s Hfs Hh; [exact Hfs|].
    inversion Hh as [|? ? Ho Hrest]; subst. rewrite WP.after_cons. apply IH; [|exact Hrest].
    apply step_fs_nopanic; assumption.
  Qed.

  (* the hypothesis [sign_with <> Panic] of C09_send_tx and of C16's totality theorem, for the
     concrete wallet: the libraries and the OS calls do not panic, then the wallet does not *)
  Theorem fs_sign_nopanic fs h :
    WP3.ext_nopanic key wtx bytes doc tsig E -> WP3.fs_nopanic fs -> ops_ok h ->
    forall a t chain, fs_sign_with (fs_state fs h) a t chain <> Panic.
  Proof.
    intros Hext Hfs Hh a t chain. unfold fs_sign_with.
    apply bind_not_panic.
    - apply WP3.GetWalletFile_nopanic; [exact Hext|]. apply after_fs_nopanic; assumption.
    - intros k _. destruct Hext as (_ & Htx & _). apply Htx.
  Qed.

  (* ---------- fs_sign_with is fswallet.Sign on the raw `from` ---------- *)

  (* same class of result: equal values, or both an error, or both a panic (error numbers are per area) *)
  Definition res_same {A} (r1 r2 : res A) : Prop :=
    match r1, r2 with
    | Ok x, Ok y => x = y
    | Err _, Err _ => True
    | Panic, Panic => True
    | _, _ => False
    end.

  (* encoding/json decoding the raw text [raw] of the tree [f] into a Go string: a string gives its
     content, null leaves "", anything else is an UnmarshalTypeError *)
  Definition json_string_law (f : json) (raw : bytes) : Prop :=
    W.json_string key wtx bytes doc tsig E raw = match f with JStr s => Some s | JNull => Some [] | _ => None end.

  Lemma fs_sign_is_Sign (s : wstate) raw a t chain :
    W.parse_from key wtx bytes doc tsig E raw = Some a ->
    snd (W.Sign key wtx bytes doc tsig E c s raw (t, chain)) = fs_sign_with s a t chain.
  Proof.
    intros Hp. unfold W.Sign, W.getSignerForJSONAccount, W.getSignerForAddr, fs_sign_with. rewrite Hp.
    destruct (GetWalletFile s a) as [s' r]. reflexivity.
  Qed.

  (* the proxy model's wallet_Sign (parse `from` with the proxy model's parser, then sign_with) is the
     wallet model's Sign on the raw `from` (its own parser): the two models meet *)
  Theorem wallet_Sign_is_Sign (s : wstate) chain tx f raw :
    tx_from tx = Some f -> json_string_law f raw ->
    res_same (wallet_Sign (fs_sign_with s) chain tx)
             (snd (W.Sign key wtx bytes doc tsig E c s raw (tx, chain))).
  Proof.
    intros Hf Hj. unfold wallet_Sign. rewrite Hf.
    assert (Hd : dec_address f = match W.parse_from key wtx bytes doc tsig E raw with Some a => Ok a | None => Err EJson end).
    { unfold W.parse_from. rewrite Hj. destruct f; cbn [dec_address]; try reflexivity; apply address_parsers_agree. }
    rewrite Hd. destruct (W.parse_from key wtx bytes doc tsig E raw) as [a|] eqn:Hp; cbn [bind].
    - rewrite (fs_sign_is_Sign s raw a tx chain Hp). unfold res_same.
      destruct (fs_sign_with s a tx chain); auto.
    - unfold W.Sign, W.getSignerForJSONAccount. rewrite Hp. exact I.
  Qed.
End FsWallet.

(* ================= facts about the proxy model for ANY wallet (no wallet hypothesis) ================= *)

Lemma Forall2_In_r {A B} (R : A -> B -> Prop) l l' b :
  Forall2 R l l' -> In b l' -> exists a, In a l /\ R a b.
Proof.
  induction 1 as [|x y l l' Hxy _ IH]; intros Hin; [destruct Hin|].
  destruct Hin as [<-|Hin]; [exists x; split; [left; reflexivity|exact Hxy]|].
  destruct (IH Hin) as (a & Ha & HR). exists a. split; [right; exact Ha|exact HR].
Qed.

Section AnyWallet.
  Variable parse_int : bytes -> option Z.
  Variable lex : bytes -> option json.
  Variable accounts : list bytes.
  Variable sign_with : bytes -> transaction -> Z -> res bytes.
  Variable backend : frame -> backend_reply.
  Variable chain : Z.

  Notation processRPC := (processRPC parse_int accounts sign_with backend chain).
  Notation processEthSendTransaction := (processEthSendTransaction parse_int sign_with backend chain).
  Notation rpcHandler := (rpcHandler parse_int lex accounts sign_with backend chain).
  Notation run_members := (run_members parse_int accounts sign_with backend chain).

  Definition pre_frames (tx : transaction) (a : bytes) : list frame :=
    match tx_nonce tx with Some _ => [] | None => [count_frame a] end.

  Lemma pre_frames_not_raw tx a g : In g (pre_frames tx a) -> is_raw_frame g = false.
  Proof.
    unfold pre_frames. intros Hg. destruct (tx_nonce tx); [destruct Hg|]. destruct Hg as [<-|[]]. vm_compute. reflexivity.
  Qed.

  (* Rpc/Proofs.raw_only_if without the wallet contract: a raw-transaction frame of an
     eth_sendTransaction request is the hex of what sign_with returned for the parsed `from` *)
  Lemma raw_only_if_signed rq o fr :
    rq_method rq = bs "eth_sendTransaction" ->
    processRPC (Some rq) = Ok o -> In fr (o_frames o) -> is_raw_frame fr = true ->
    exists p0 rest tx f a nonce raw,
      rq_params rq = p0 :: rest /\ decode_transaction parse_int p0 = Ok tx /\
      tx_from tx = Some f /\ dec_address f = Ok a /\
      nonce_source parse_int backend tx a nonce (pre_frames tx a) /\
      sign_with a (set_nonce tx nonce) chain = Ok raw /\ fr = raw_frame raw.
  Proof.
    intros Hm Ho Hin Hraw.
    destruct (rq_id rq) as [id|] eqn:Hi.
    2:{ unfold Model.processRPC in Ho. rewrite Hi in Ho. injection Ho as <-. destruct Hin. }
    rewrite (processRPC_sendTx parse_int accounts sign_with backend chain rq id Hi Hm) in Ho.
    destruct (rq_params rq) as [|p0 rest] eqn:Hp.
    { destruct (sendTx_malformed parse_int sign_with backend chain rq (or_introl Hp)) as [code E]. rewrite E in Ho. injection Ho as <-. destruct Hin. }
    destruct (decode_transaction parse_int p0) as [tx|e|] eqn:Hd.
    2:{ destruct (sendTx_malformed parse_int sign_with backend chain rq) as [code E].
        { right. exists p0, rest. split; [exact Hp|]. left. eexists; exact Hd. }
        rewrite E in Ho. injection Ho as <-. destruct Hin. }
    2:{ unfold Model.processEthSendTransaction in Ho. rewrite Hp in Ho.
        cbn [length Nat.ltb Nat.leb index_list nth_error bind] in Ho. rewrite Hd in Ho. discriminate. }
    destruct (tx_from tx) as [f|] eqn:Hf.
    2:{ destruct (sendTx_malformed parse_int sign_with backend chain rq) as [code E].
        { right. exists p0, rest. split; [exact Hp|]. right. exists tx. split; [exact Hd|]. left. exact Hf. }
        rewrite E in Ho. injection Ho as <-. destruct Hin. }
    destruct (dec_address f) as [a|e|] eqn:Ha.
    2:{ destruct (sendTx_malformed parse_int sign_with backend chain rq) as [code E].
        { right. exists p0, rest. split; [exact Hp|]. right. exists tx. split; [exact Hd|]. right. exists f, e. auto. }
        rewrite E in Ho. injection Ho as <-. destruct Hin. }
    2:{ exfalso. exact (dec_address_not_panic f Ha). }
    destruct (sendTx_cases parse_int sign_with backend chain rq p0 rest tx f a Hp Hd Hf Ha) as [[_ Hpanic]|(resp & err & frames & E & C)].
    { rewrite Hpanic in Ho. discriminate. }
    rewrite E in Ho. injection Ho as <-. cbn [o_frames snd] in Hin. cbv zeta in C. fold (pre_frames tx a) in C.
    destruct C as [(nonce & raw & Hns & Hs & Hfr & Hre)|(Hfr & He & Hpe)].
    - subst frames. apply in_app_or in Hin. destruct Hin as [Hin|[<-|[]]].
      + rewrite (pre_frames_not_raw _ _ _ Hin) in Hraw. discriminate.
      + exists p0, rest, tx, f, a, nonce, raw. repeat split; auto.
    - subst frames. rewrite (pre_frames_not_raw _ _ _ Hin) in Hraw. discriminate.
  Qed.

  (* the wallet does not sign for the parsed `from`: nothing is submitted, error under the caller's id *)
  Lemma nothing_when_unsigned rq id o p0 rest tx f a :
    rq_id rq = Some id -> rq_method rq = bs "eth_sendTransaction" -> processRPC (Some rq) = Ok o ->
    rq_params rq = p0 :: rest -> decode_transaction parse_int p0 = Ok tx ->
    tx_from tx = Some f -> dec_address f = Ok a ->
    (forall t raw, sign_with a t chain <> Ok raw) ->
    o_frames o = pre_frames tx a /\ (forall fr, In fr (o_frames o) -> is_raw_frame fr = false) /\
    o_err o = true /\ exists resp, o_resp o = Some resp /\ is_proxy_error resp (Some id).
  Proof.
    intros Hi Hm Ho Hp Hd Hf Ha Hfail.
    rewrite (processRPC_sendTx parse_int accounts sign_with backend chain rq id Hi Hm) in Ho.
    destruct (sendTx_cases parse_int sign_with backend chain rq p0 rest tx f a Hp Hd Hf Ha) as [[_ Hpanic]|(resp & err & frames & E & C)].
    { rewrite Hpanic in Ho. discriminate. }
    rewrite E in Ho. injection Ho as <-. cbv zeta in C. fold (pre_frames tx a) in C.
    destruct C as [(nonce & raw & _ & Hs & _)|(Hfr & He & Hpe)]; [exfalso; exact (Hfail _ _ Hs)|].
    cbn [o_frames o_err o_resp fst snd]. subst frames. split; [reflexivity|].
    split; [apply pre_frames_not_raw|]. split; [exact He|]. exists resp. split; [reflexivity|].
    rewrite <- Hi. exact Hpe.
  Qed.

  (* where a raw-transaction frame can come from at all: an eth_sendTransaction request, or the caller's
     own eth_sendRawTransaction request relayed as it is *)
  Lemma raw_frame_origin rq o fr :
    processRPC (Some rq) = Ok o -> In fr (o_frames o) -> is_raw_frame fr = true ->
    rq_method rq = bs "eth_sendTransaction" \/
    (rq_method rq = bs "eth_sendRawTransaction" /\ fr = mkFrame (rq_method rq) (rq_params rq)).
  Proof.
    unfold Model.processRPC. destruct (rq_id rq); [|intros Ho; injection Ho as <-; intros []].
    destruct (_ || _); [intros Ho; injection Ho as <-; intros []|].
    destruct (bytes_eqb (rq_method rq) (bs "eth_sendTransaction")) eqn:Es; [intros _ _ _; left; apply bytes_eqb_eq; exact Es|].
    pose proof (SyncRequest_frames backend rq) as Fr.
    destruct (SyncRequest backend rq) as [[res err] frames]. cbn [snd] in Fr. subst frames.
    intros Ho; injection Ho as <-. cbn [o_frames snd]. intros [<-|[]] Hraw. right.
    split; [|reflexivity]. apply bytes_eqb_eq. exact Hraw.
  Qed.

  (* the requests a body consists of *)
  Definition members_of (body : bytes) : list (option rpc_request) :=
    match lex body with
    | None => []
    | Some t => if (b2n (sniffFirstByte body) =? 91)%N
                then match decode_batch t with Ok ms => ms | _ => [] end
                else match decode_request t with Ok rq => [Some rq] | _ => [] end
    end.

  (* every frame the handler reports was sent by processRPC for one of those requests *)
  Lemma handler_frames body order status tree traces frames fr :
    rpcHandler body order = Ok (status, tree, traces) -> In frames traces -> In fr frames ->
    exists rq o, In (Some rq) (members_of body) /\ processRPC (Some rq) = Ok o /\ In fr (o_frames o).
  Proof.
    unfold Model.rpcHandler, members_of. destruct (b2n (sniffFirstByte body) =? 91)%N.
    - unfold Model.handleRPCBatch. destruct (lex body) as [t|]; [|intros Hr; inversion Hr; subst; intros []].
      destruct (decode_batch t) as [ms|e|]; try discriminate; [|intros Hr; inversion Hr; subst; intros []].
      destruct ms as [|m0 ms']; [intros Hr; inversion Hr; subst; intros []|].
      intros Hr. apply bind_ok in Hr as (outs & Hrun & Hr). apply bind_ok in Hr as ([slots st] & _ & Hr).
      injection Hr as _ _ <-. intros Hin Hfr.
      apply in_map_iff in Hin as (o & <- & Ho).
      apply (run_members_spec parse_int accounts sign_with backend chain) in Hrun.
      destruct (Forall2_In_r _ _ _ _ Hrun Ho) as (m & Hm & Hp).
      destruct m as [rq|]; [exists rq, o; auto|].
      cbn [Model.processRPC] in Hp. injection Hp as <-. destruct Hfr.
    - destruct (lex body) as [t|]; [|intros Hr; inversion Hr; subst; intros []].
      destruct (decode_request t) as [rq|e|]; try discriminate; [|intros Hr; inversion Hr; subst; intros []].
      intros Hr. apply bind_ok in Hr as (o & Hp & Hr). destruct o as [[resp err] frames0].
      injection Hr as _ _ <-. intros [<-|[]] Hfr. exists rq, (resp, err, frames0). split; [left; reflexivity|]. auto.
  Qed.
End AnyWallet.

(* ================= the proxy with the file-system wallet ================= *)

Section ProxyWithFsWallet.
  Context {key doc tsig : Type}.
  Notation wtx := (transaction * Z)%type.
  Variable E : W.ext key wtx bytes doc tsig.
  Variable c : W.config.
  Variable parse_int : bytes -> option Z.
  Variable lex : bytes -> option json.
  Variable backend : frame -> backend_reply.
  Variable chain : Z.

  Notation wstate := (W.state key).
  Notation wop := (W.op wtx doc).
  Notation GetWalletFile := (W.GetWalletFile key wtx bytes doc tsig E c).
  Notation sign_tx := (W.sign_tx key wtx bytes doc tsig E).
  Notation after := (W.after key wtx bytes doc tsig E c).

  (* the proxy whose wallet is the file-system wallet in state s *)
  Definition fs_processRPC (s : wstate) : option rpc_request -> res outcome :=
    processRPC parse_int (fs_accounts s) (fs_sign_with E c s) backend chain.
  Definition fs_rpcHandler (s : wstate) : bytes -> list nat -> res http_reply :=
    rpcHandler parse_int lex (fs_accounts s) (fs_sign_with E c s) backend chain.

  (* the frame [fr] is the submission of a transaction that request [rq] asked for, signed by the key
     file owning its `from`: the first parameter decodes, `from` parses to a, the nonce is the supplied or
     the backend-reported one, and the bytes are what the external signer returned for the key k of a *)
  Definition signed_by_owner (s : wstate) (rq : rpc_request) (fr : frame) : Prop :=
    exists p0 rest tx f a nonce raw k,
      rq_params rq = p0 :: rest /\ decode_transaction parse_int p0 = Ok tx /\
      tx_from tx = Some f /\ dec_address f = Ok a /\
      nonce_source parse_int backend tx a nonce (pre_frames tx a) /\
      key_of_from E c s a k /\
      sign_tx k (set_nonce tx nonce, chain) = Ok raw /\ fr = raw_frame raw.

  (* 1. Only-if, per request, in every wallet state: no hypothesis at all. *)
  Theorem fs_raw_only_if_owner fs h rq o fr :
    let s := fs_state E c fs h in
    rq_method rq = bs "eth_sendTransaction" ->
    fs_processRPC s (Some rq) = Ok o -> In fr (o_frames o) -> is_raw_frame fr = true ->
    signed_by_owner s rq fr.
  Proof.
    intros s Hm Ho Hin Hraw.
    destruct (raw_only_if_signed parse_int _ _ backend chain rq o fr Hm Ho Hin Hraw)
      as (p0 & rest & tx & f & a & nonce & raw & Hp & Hd & Hf & Ha & Hns & Hs & Hfr).
    destruct (fs_sign_key E c fs h a _ chain raw Hs) as (k & Hk & Hsig).
    exists p0, rest, tx, f, a, nonce, raw, k. repeat split; auto; apply Hk.
  Qed.

  (* ... and with the signer's law the bytes are the EIP wire format of the requested fields and recover,
     under the chain id, to the requested `from` *)
  Theorem signed_by_owner_recovers H ecrecover s rq fr :
    signer_sound E H ecrecover -> signed_by_owner s rq fr ->
    exists p0 rest tx f a nonce raw,
      rq_params rq = p0 :: rest /\ decode_transaction parse_int p0 = Ok tx /\
      tx_from tx = Some f /\ dec_address f = Ok a /\ In a (fs_accounts s) /\ fr = raw_frame raw /\
      raw_recovers_to H ecrecover raw (Z.to_N chain) a (requested_format tx) (requested_fields (set_nonce tx nonce)).
  Proof.
    intros Hs (p0 & rest & tx & f & a & nonce & raw & k & Hp & Hd & Hf & Ha & _ & (Hk & Hin & _) & Hsig & Hfr).
    exists p0, rest, tx, f, a, nonce, raw.
    split; [exact Hp|]. split; [exact Hd|]. split; [exact Hf|]. split; [exact Ha|]. split; [exact Hin|].
    split; [exact Hfr|].
    rewrite <- Hk. rewrite <- (requested_format_set_nonce tx nonce). apply Hs. exact Hsig.
  Qed.

  (* 2. The wallet refuses (for whatever reason: not listed, file gone or unreadable, no or wrong
        password, not a key file, the file holds another address's key): nothing is submitted — only the
        pending-count query, if no nonce was supplied — and the reply is an error under the caller's id. *)
  Theorem fs_nothing_when_refused (s : wstate) rq id o p0 rest tx f a :
    rq_id rq = Some id -> rq_method rq = bs "eth_sendTransaction" -> fs_processRPC s (Some rq) = Ok o ->
    rq_params rq = p0 :: rest -> decode_transaction parse_int p0 = Ok tx ->
    tx_from tx = Some f -> dec_address f = Ok a ->
    (forall k, snd (GetWalletFile s a) <> Ok k) ->
    o_frames o = pre_frames tx a /\ (forall fr, In fr (o_frames o) -> is_raw_frame fr = false) /\
    o_err o = true /\ exists resp, o_resp o = Some resp /\ is_proxy_error resp (Some id).
  Proof.
    intros Hi Hm Ho Hp Hd Hf Ha Hr.
    eapply nothing_when_unsigned; eauto. apply fs_refused. exact Hr.
  Qed.

  Theorem fs_nothing_when_unlisted fs h rq id o p0 rest tx f a :
    let s := fs_state E c fs h in
    rq_id rq = Some id -> rq_method rq = bs "eth_sendTransaction" -> fs_processRPC s (Some rq) = Ok o ->
    rq_params rq = p0 :: rest -> decode_transaction parse_int p0 = Ok tx ->
    tx_from tx = Some f -> dec_address f = Ok a ->
    ~ In a (fs_accounts s) ->
    o_frames o = pre_frames tx a /\ (forall fr, In fr (o_frames o) -> is_raw_frame fr = false) /\
    o_err o = true /\ exists resp, o_resp o = Some resp /\ is_proxy_error resp (Some id).
  Proof.
    intros s Hi Hm Ho Hp Hd Hf Ha Hn.
    eapply fs_nothing_when_refused; eauto. apply fs_unlisted_refused. exact Hn.
  Qed.

  Theorem fs_nothing_when_foreign_key (s : wstate) rq id o p0 rest tx f a fn k :
    rq_id rq = Some id -> rq_method rq = bs "eth_sendTransaction" -> fs_processRPC s (Some rq) = Ok o ->
    rq_params rq = p0 :: rest -> decode_transaction parse_int p0 = Ok tx ->
    tx_from tx = Some f -> dec_address f = Ok a ->
    W.assoc_get (W.addr_string a) (W.st_cache key s) = None ->
    W.assoc_get a (W.st_map key s) = Some fn ->
    W.loadWalletFile key wtx bytes doc tsig E c (W.st_fs key s) a (W.path_join key wtx bytes doc tsig E (W.c_path c) fn) = Ok k ->
    W.addr_of key wtx bytes doc tsig E k <> a ->
    o_frames o = pre_frames tx a /\ (forall fr, In fr (o_frames o) -> is_raw_frame fr = false) /\
    o_err o = true /\ exists resp, o_resp o = Some resp /\ is_proxy_error resp (Some id).
  Proof.
    intros Hi Hm Ho Hp Hd Hf Ha H1 H2 H3 H4.
    eapply fs_nothing_when_refused; eauto. eapply fs_foreign_key_refused; eauto.
  Qed.

  (* 3. C09_send_tx with the wallet hypotheses discharged: what remains are the laws of what is not
        firefly-signer code. *)
  Theorem fs_send_tx H ecrecover fs h rq id p0 rest tx f a :
    let s := fs_state E c fs h in
    signer_sound E H ecrecover ->
    WP3.ext_nopanic key wtx bytes doc tsig E -> WP3.fs_nopanic fs -> ops_ok h ->
    rq_id rq = Some id -> rq_method rq = bs "eth_sendTransaction" -> rq_params rq = p0 :: rest ->
    decode_transaction parse_int p0 = Ok tx -> tx_from tx = Some f -> dec_address f = Ok a ->
    exists resp err frames,
      fs_processRPC s (Some rq) = Ok (Some resp, err, frames) /\
      rs_id resp = Some id /\
      ((exists nonce raw k,
          frames = pre_frames tx a ++ [raw_frame raw] /\
          nonce_source parse_int backend tx a nonce (pre_frames tx a) /\
          key_of_from E c s a k /\ sign_tx k (set_nonce tx nonce, chain) = Ok raw /\
          raw_recovers_to H ecrecover raw (Z.to_N chain) a (requested_format tx)
                          (requested_fields (set_nonce tx nonce)) /\
          (resp, err) = fst (SyncRequest backend (send_raw_request rq raw)))
       \/ (frames = pre_frames tx a /\ err = true /\ is_proxy_error resp (Some id))).
  Proof.
    intros s Hsound Hext Hfs Hops Hi Hm Hp Hd Hf Ha.
    pose proof (fs_sign_nopanic E c fs h Hext Hfs Hops) as Hnp.
    destruct (sendTx_spec parse_int (fs_sign_with E c s) backend chain rq p0 rest tx f a Hnp Hp Hd Hf Ha)
      as (resp & err & frames & Eq & C).
    exists resp, err, frames. unfold fs_processRPC.
    rewrite (processRPC_sendTx parse_int (fs_accounts s) (fs_sign_with E c s) backend chain rq id Hi Hm).
    split; [exact Eq|]. cbv zeta in C. fold (pre_frames tx a) in C.
    destruct C as [(nonce & raw & Hns & Hs & Hfr & Hre)|(Hfr & He & Hpe)].
    - destruct (fs_sign_key E c fs h a _ chain raw Hs) as (k & Hk & Hsig).
      split.
      + assert (R : resp = fst (fst (SyncRequest backend (send_raw_request rq raw)))) by (rewrite <- Hre; reflexivity).
        rewrite R, SyncRequest_id. exact Hi.
      + left. exists nonce, raw, k.
        split; [exact Hfr|]. split; [exact Hns|]. split; [exact Hk|]. split; [exact Hsig|].
        split; [|exact Hre].
        destruct Hk as (Hk & _). rewrite <- Hk. rewrite <- (requested_format_set_nonce tx nonce).
        apply Hsound. exact Hsig.
    - split.
      + destruct Hpe as [code ->]. exact Hi.
      + right. rewrite <- Hi. auto.
  Qed.

  (* 4. eth_accounts / personal_accounts answer with fswallet.GetAccounts: no duplicates, and on a wallet
        directory that does not change exactly the addresses named by the matching regular files. *)
  Theorem fs_accounts_reply fs h rq id :
    let s := fs_state E c fs h in
    rq_id rq = Some id ->
    rq_method rq = bs "eth_accounts" \/ rq_method rq = bs "personal_accounts" ->
    fs_processRPC s (Some rq)
    = Ok (Some (mkResp (bs "2.0") (Some id) (Some (JArr (map address_json (fs_accounts s)))) None [] None), false, [])
    /\ NoDup (fs_accounts s)
    /\ (forall files,
          WP2.regex_law key wtx bytes doc tsig E -> WP2.constructed key wtx bytes doc tsig E c ->
          W.fs_readdir fs (W.c_path c) = Ok files -> WP2.names_ok files -> WP2.static wtx doc h = true ->
          fs_accounts s = if WP2.refreshed wtx doc h then WS.spec_accounts (WP2.rule_of key wtx bytes doc tsig E c) files else []).
  Proof.
    intros s Hi Hm. split; [apply accounts_spec; assumption|]. split.
    - apply WP2.accounts_nodup.
    - intros files Hl Hc Hr Hn Hs. apply WP2.accounts_exact_static; assumption.
  Qed.

  (* 5. No panic, for every body. *)
  Definition order_ok (body : bytes) (order : list nat) : Prop :=
    forall t ms, lex body = Some t -> decode_batch t = Ok ms -> Permutation order (seq 0 (length ms)).

  Theorem fs_handler_total fs h body order :
    WP3.ext_nopanic key wtx bytes doc tsig E -> WP3.fs_nopanic fs -> ops_ok h ->
    order_ok body order ->
    fs_rpcHandler (fs_state E c fs h) body order <> Panic.
  Proof.
    intros Hext Hfs Hops Hord. unfold fs_rpcHandler.
    apply rpcHandler_total_concrete; [|exact Hord].
    apply fs_sign_nopanic; assumption.
  Qed.

  (* ================= request histories ================= *)

  (* One entry of a history: what happened to the wallet since the previous request — ANY list of wallet
     operations: the signer-cache fills of the earlier requests (OGetWalletFile / OSign), rescans, listener
     events, any change of the file system, cache evictions — then an HTTP body and, for a batch, the
     order in which its member goroutines complete.  [serve] threads the wallet state through the history
     and answers every request with the proxy model over the wallet in the state reached. *)
  Definition request := (list wop * bytes * list nat)%type.

  Fixpoint serve (s : wstate) (hist : list request) : list (wstate * bytes * res http_reply) :=
    match hist with
    | [] => []
    | (ops, body, order) :: rest =>
        let s1 := after s ops in
        (s1, body, fs_rpcHandler s1 body order) :: serve s1 rest
    end.

  Definition history_ok (hist : list request) : Prop :=
    Forall (fun r : request => let '(ops, body, order) := r in ops_ok ops /\ order_ok body order) hist.

  (* why a raw-transaction frame may be at the backend: the caller sent eth_sendRawTransaction itself (the
     frame is that request, unchanged), or it is the owner-signed submission of an eth_sendTransaction *)
  Definition raw_frame_justified (s : wstate) (body : bytes) (fr : frame) : Prop :=
    exists rq, In (Some rq) (members_of lex body) /\
      ((rq_method rq = bs "eth_sendRawTransaction" /\ fr = mkFrame (rq_method rq) (rq_params rq)) \/
       (rq_method rq = bs "eth_sendTransaction" /\ signed_by_owner s rq fr)).

  Definition reply_safe (fs : W.fsys) (x : wstate * bytes * res http_reply) : Prop :=
    let '(s, body, reply) := x in
    (exists h, s = fs_state E c fs h) /\
    reply <> Panic /\
    forall status tree traces frames fr,
      reply = Ok (status, tree, traces) -> In frames traces -> In fr frames -> is_raw_frame fr = true ->
      raw_frame_justified s body fr.

  Lemma fs_handler_frames_justified fs h body order status tree traces frames fr :
    let s := fs_state E c fs h in
    fs_rpcHandler s body order = Ok (status, tree, traces) -> In frames traces -> In fr frames ->
    is_raw_frame fr = true -> raw_frame_justified s body fr.
  Proof.
    intros s Hr Hin Hfr Hraw.
    destruct (handler_frames parse_int lex _ _ backend chain body order status tree traces frames fr Hr Hin Hfr)
      as (rq & o & Hmem & Hp & Ho).
    exists rq. split; [exact Hmem|].
    destruct (raw_frame_origin parse_int _ _ backend chain rq o fr Hp Ho Hraw) as [Hm|Hm]; [right|left; exact Hm].
    split; [exact Hm|]. exact (fs_raw_only_if_owner fs h rq o fr Hm Hp Ho Hraw).
  Qed.

  Lemma serve_safe fs hist : forall h0,
    WP3.ext_nopanic key wtx bytes doc tsig E -> WP3.fs_nopanic fs -> ops_ok h0 -> history_ok hist ->
    Forall (reply_safe fs) (serve (fs_state E c fs h0) hist).
  Proof.
    induction hist as [|[[ops body] order] rest IH]; intros h0 Hext Hfs Hh0 Hh; [constructor|].
    inversion Hh as [|? ? Hhd Hrest]; subst. change (ops_ok ops /\ order_ok body order) in Hhd.
    destruct Hhd as [Hops Hord]. cbn [serve].
    rewrite (fs_state_app E c fs h0 ops).
    assert (Hh1 : ops_ok (h0 ++ ops)) by (apply Forall_app; split; assumption).
    constructor; [|apply IH; assumption].
    split; [exists (h0 ++ ops); reflexivity|]. split.
    - apply fs_handler_total; assumption.
    - intros status tree traces frames fr Hr Hin Hfr Hraw.
      exact (fs_handler_frames_justified fs (h0 ++ ops) body order status tree traces frames fr Hr Hin Hfr Hraw).
  Qed.

  (* For EVERY history of requests against the proxy over a fresh file-system wallet: no request panics,
     and every eth_sendRawTransaction frame that reaches the backend is either a caller's own
     eth_sendRawTransaction relayed unchanged or the submission of an eth_sendTransaction signed by the
     key file owning its `from` in the wallet state the request met.  (Hence: when the wallet refuses —
     no key_of_from exists — nothing is submitted.) *)
  Theorem fs_history_safe fs hist :
    WP3.ext_nopanic key wtx bytes doc tsig E -> WP3.fs_nopanic fs -> history_ok hist ->
    Forall (reply_safe fs) (serve (W.init_state key fs) hist).
  Proof.
    intros Hext Hfs Hh. exact (serve_safe fs hist [] Hext Hfs (Forall_nil _) Hh).
  Qed.
End ProxyWithFsWallet.
