(* Executable model of the signing proxy: internal/rpcserver (rpchandler.go, rpcprocessor.go,
   server.go Start) and pkg/rpcbackend/backend.go (SyncRequest, CallRPC, buildRequest,
   RPCErrorResponse), as the code stands after the fix commits d674d82, de2dd34, e339dcc (rpcserver)
   and f4f787a, 9edb119 (rpcbackend).  One definition per Go function, same case order and guards.
   Every Go nil dereference / index is an explicit [Panic].  No proofs here.

   External behaviour enters as Section variables:
     parse_int  ethtypes.BigIntegerFromString                         (property C19)
     lex        the encoding/json lexer: body bytes -> tree | syntax error
     accounts   the wallet's address list (fswallet.GetAccounts)
     sign_with  fswallet.getSignerForAddr + Transaction.Sign          (properties C08, C01)
     backend    what the HTTP backend answers to the request it sees
     chain      rpcServer.chainID after Start

   Effects: a call returns its value together with the list of frames it sent to the backend, in
   program order.  Concurrency: handleRPCBatch takes the order in which the member goroutines
   complete as an argument ([order], a list of member indices); theorems quantify over every
   permutation. *)
From Coq Require Import String.
From Coq Require Import List NArith ZArith Bool Arith.
From Coq Require Import Init.Byte.
From FFS Require Import Base.Res Base.Bytes Rpc.Json.
Import ListNotations.
Local Open Scope string_scope.
Local Open Scope list_scope.

(* ---------- what the backend sees and answers ---------- *)

(* a request as received by the backend: jsonrpc is always "2.0" and the id is the proxy's own
   counter (property C18) — neither is part of the frame; an absent params member is the empty list *)
Record frame := mkFrame { f_method : bytes; f_params : list json }.

Definition frame_eqb (a b : frame) : bool :=
  bytes_eqb (f_method a) (f_method b) && json_eqb (JArr (f_params a)) (JArr (f_params b)).

Inductive http_body :=
| BJson (t : json)      (* Content-Type JSON and a body the lexer accepts *)
| BBadJson              (* Content-Type JSON, body not valid JSON (including the empty body) *)
| BNotJson.             (* any other Content-Type: resty does not parse the body *)

Inductive backend_reply :=
| BHttp (status : N) (body : http_body)
| BConnFail.            (* transport error: refused, reset, timeout *)

(* the well-behaved replies named in the property text, as special cases *)
Definition reply_result (echo_id result : json) : backend_reply :=
  BHttp 200 (BJson (JObj [(bs "jsonrpc", JStr (bs "2.0")); (bs "id", echo_id); (bs "result", result)])).
Definition reply_rpc_error (status : N) (echo_id : json) (code : Z) (msg : bytes) : backend_reply :=
  BHttp status (BJson (JObj [(bs "jsonrpc", JStr (bs "2.0")); (bs "id", echo_id);
                             (bs "error", JObj [(bs "code", JNum (dec_of_Z code)); (bs "message", JStr msg)])])).

(* JSON-RPC error codes (backend.go) *)
Definition RPCCodeParseError : Z := (-32700)%Z.
Definition RPCCodeInvalidRequest : Z := (-32600)%Z.
Definition RPCCodeInternalError : Z := (-32603)%Z.

(* error classes of the model (never message texts) *)
Definition EStart := 2%nat.       (* Start failed: the process does not come up *)
Definition ESign := 3%nat.        (* wallet refused / failed to sign *)

(* stands for every message text the proxy produces itself (i18n messages, wrapped Go errors) *)
Definition proxy_text : bytes := bs "<text produced by the proxy>".

(* Go pointer dereference *)
Definition deref {A} (p : option A) : res A := match p with Some a => Ok a | None => Panic end.
(* Go slice index *)
Definition index_list {A} (l : list A) (i : nat) : res A :=
  match nth_error l i with Some a => Ok a | None => Panic end.
(* slot assignment l[i] = v *)
Fixpoint set_nth {A} (l : list A) (i : nat) (v : A) : res (list A) :=
  match l, i with
  | [], _ => Panic
  | _ :: t, O => Ok (v :: t)
  | x :: t, S i' => do t' <- set_nth t i' v; Ok (x :: t')
  end.

(* unicode.IsSpace(rune(b)) for a byte: the Latin-1 space characters *)
Definition is_space (b : byte) : bool :=
  let n := b2n b in
  ((9 <=? n)%N && (n <=? 13)%N) || (n =? 32)%N || (n =? 133)%N || (n =? 160)%N.

Section Proxy.
  Variable parse_int : bytes -> option Z.
  Variable lex : bytes -> option json.
  Variable accounts : list bytes.
  Variable sign_with : bytes -> transaction -> Z -> res bytes.
  Variable backend : frame -> backend_reply.

  (* ================= pkg/rpcbackend/backend.go ================= *)

  (* RPCErrorResponse(err, id, code): the message text is the proxy's own — a marker in the model,
     never compared with the implementation's text *)
  Definition RPCErrorResponse (id : option json) (code : Z) : rpc_response :=
    mkResp (bs "2.0") id None (Some (mkErr code proxy_text false None)) [] None.

  Definition is_success (status : N) : bool := (199 <? status)%N && (status <? 300)%N.   (* resty IsSuccess *)
  Definition is_error (status : N) : bool := (399 <? status)%N.                          (* resty IsError *)

  (* resty: Post with SetResult(&rpcRes) / SetError(rpcRes) — what is left in rpcRes
     (None = the decoder set the pointer to nil) and whether Post returned an error *)
  Definition resty_exchange (rep : backend_reply) : option (N * (option rpc_response * bool)) :=
    match rep with
    | BConnFail => None
    | BHttp status body =>
        Some (status,
          if (status =? 204)%N then (Some zero_response, false)
          else match body with
               | BNotJson => (Some zero_response, false)
               | BBadJson => (Some zero_response, is_success status)
               | BJson t =>
                   if is_success status then
                     match t with
                     | JNull => (None, false)                       (* **RPCResponse: null nils the pointer *)
                     | _ => let '(r, bad) := decode_response t zero_response in (Some r, bad)
                     end
                   else if is_error status then
                     let '(r, _) := decode_response t zero_response in (Some r, false)   (* decode errors only logged *)
                   else (Some zero_response, false)
               end)
    end.

  Definition set_id (r : rpc_response) (id : option json) : rpc_response :=
    mkResp (rs_jsonrpc r) id (rs_result r) (rs_error r) (rs_method r) (rs_params r).
  Definition set_result (r : rpc_response) (v : option json) : rpc_response :=
    mkResp (rs_jsonrpc r) (rs_id r) v (rs_error r) (rs_method r) (rs_params r).

  Definition error_code_nonzero (r : rpc_response) : bool :=
    match rs_error r with Some e => negb (e_code e =? 0)%Z | None => false end.

  (* RPCClient.SyncRequest: (response, error returned?, frames sent).  The concurrency slots are
     not configured by the proxy (NewRPCClient). *)
  Definition SyncRequest (rq : rpc_request) : rpc_response * bool * list frame :=
    let fr := mkFrame (rq_method rq) (rq_params rq) in          (* beReq: jsonrpc "2.0", fresh id, params omitempty *)
    match resty_exchange (backend fr) with
    | None => (RPCErrorResponse (rq_id rq) RPCCodeInternalError, true, [fr])
    | Some (status, (ores, err)) =>
        let '(rpcRes, err) := match ores with
                              | None => (zero_response, true)       (* fix 9edb119: "null response" *)
                              | Some r => (r, err)
                              end in
        let rpcRes := set_id rpcRes (rq_id rq) in                   (* restore the original id *)
        if err then (RPCErrorResponse (rq_id rq) RPCCodeInternalError, true, [fr])
        else if is_error status || error_code_nonzero rpcRes then
          if error_code_nonzero rpcRes then (rpcRes, true, [fr])
          else (RPCErrorResponse (rq_id rq) RPCCodeInternalError, true, [fr])   (* fix f4f787a *)
        else
          (match rs_result rpcRes with
           | None => set_result rpcRes (Some JNull)
           | Some _ => rpcRes
           end, false, [fr])
    end.

  (* buildRequest + RPCClient.CallRPC up to the decoding of the result (which depends on the
     caller's target type): inl result tree | inr error *)
  Definition CallRPC (method : bytes) (params : list json) : (json + unit) * list frame :=
    let rq := mkReq (bs "2.0") None method params in
    let '(res, err, frames) := SyncRequest rq in
    if err then (inr tt, frames)
    else match rs_result res with
         | Some v => (inl v, frames)
         | None => (inl JNull, frames)        (* res.Result.Bytes() on nil is nil-safe; unreachable: SyncRequest fills it *)
         end.

  (* ================= internal/rpcserver/server.go ================= *)

  (* Start: chain id discovery.  json.Unmarshal(result, &interface{}(&HexInteger)): null leaves the
     zero value; a value that does not fit in int64 is refused (fix 0c95e98; before, Int64() truncated
     it), so that Int64() is the identity on what remains. *)
  Definition Start (configured : Z) : res Z * list frame :=
    if (configured <? 0)%Z then
      match CallRPC (bs "net_version") [] with
      | (inr _, frames) => (Err EStart, frames)
      | (inl JNull, frames) => (Ok 0%Z, frames)
      | (inl v, frames) => match dec_hexint parse_int v with
                           | Ok n => if (Z.of_N n <? 9223372036854775808)%Z              (* BigInt().IsInt64(), fix 0c95e98 *)
                                     then (Ok (wrap64 (Z.of_N n)), frames)
                                     else (Err EStart, frames)
                           | _ => (Err EStart, frames)
                           end
      end
    else (Ok configured, []).

  Variable chain : Z.

  (* ================= internal/rpcserver/rpcprocessor.go ================= *)

  (* what one call of processRPC yields: the response pointer (None = nil), whether err != nil, and
     the frames sent *)
  Definition outcome := (option rpc_response * bool * list frame)%type.

  Definition address_json (a : bytes) : json := JStr (hex0x a).      (* Address0xHex.MarshalJSON *)

  Definition processEthAccounts (rq : rpc_request) : outcome :=
    (Some (mkResp (bs "2.0") (rq_id rq) (Some (JArr (map address_json accounts))) None [] None), false, []).

  (* fswallet.Sign: parse txn.From as an address, then sign with that key *)
  Definition wallet_Sign (tx : transaction) : res bytes :=
    match tx_from tx with
    | None => Err ESign                       (* json.Unmarshal(nil) fails; unreachable from the proxy *)
    | Some f => do a <- dec_address f; sign_with a tx chain
    end.

  Definition set_nonce (t : transaction) (n : option N) : transaction :=
    mkTx (tx_from t) n (tx_gasPrice t) (tx_maxPriorityFeePerGas t) (tx_maxFeePerGas t) (tx_gas t) (tx_to t) (tx_value t) (tx_data t).

  Definition processEthSendTransaction (rq : rpc_request) : res outcome :=
    if (length (rq_params rq) <? 1)%nat then
      Ok (Some (RPCErrorResponse (rq_id rq) RPCCodeInvalidRequest), true, [])
    else
      do p0 <- index_list (rq_params rq) 0;
      match decode_transaction parse_int p0 with
      | Panic => Panic
      | Err _ => Ok (Some (RPCErrorResponse (rq_id rq) RPCCodeParseError), true, [])
      | Ok txn =>
          match tx_from txn with
          | None => Ok (Some (RPCErrorResponse (rq_id rq) RPCCodeInvalidRequest), true, [])
          | Some from_raw =>
              (* trivial nonce management: ask the backend when no nonce was supplied *)
              let nonce_step : res (transaction * list frame) + outcome :=
                match tx_nonce txn with
                | Some _ => inl (Ok (txn, []))
                | None =>
                    match dec_address from_raw with
                    | Panic => inl Panic
                    | Err _ => inr (Some (RPCErrorResponse (rq_id rq) RPCCodeParseError), true, [])     (* fix de2dd34 *)
                    | Ok from =>
                        match CallRPC (bs "eth_getTransactionCount") [address_json from; JStr (bs "pending")] with
                        | (inr _, frames) => inr (Some (RPCErrorResponse (rq_id rq) RPCCodeInternalError), true, frames)
                        | (inl JNull, frames) => inl (Ok (txn, frames))            (* null leaves txn.Nonce nil *)
                        | (inl v, frames) =>
                            match dec_hexint parse_int v with
                            | Ok n => inl (Ok (set_nonce txn (Some n), frames))
                            | _ => inr (Some (RPCErrorResponse (rq_id rq) RPCCodeInternalError), true, frames)
                            end
                        end
                    end
                end in
              match nonce_step with
              | inr o => Ok o
              | inl Panic => Panic
              | inl (Err e) => Err e
              | inl (Ok (txn, frames)) =>
                  match wallet_Sign txn with
                  | Panic => Panic
                  | Err _ => Ok (Some (RPCErrorResponse (rq_id rq) RPCCodeInternalError), true, frames)
                  | Ok raw =>
                      let rq' := mkReq (rq_jsonrpc rq) (rq_id rq) (bs "eth_sendRawTransaction") [JStr (hex0x raw)] in
                      let '(res, err, frames') := SyncRequest rq' in
                      Ok (Some res, err, frames ++ frames')
                  end
              end
          end
      end.

  Definition processRPC (orq : option rpc_request) : res outcome :=
    match orq with
    | None => Ok (Some (RPCErrorResponse None RPCCodeInvalidRequest), true, [])      (* fix d674d82 *)
    | Some rq =>
        match rq_id rq with
        | None => Ok (Some (RPCErrorResponse (rq_id rq) RPCCodeInvalidRequest), true, [])
        | Some _ =>
            if bytes_eqb (rq_method rq) (bs "eth_accounts") || bytes_eqb (rq_method rq) (bs "personal_accounts")
            then Ok (processEthAccounts rq)
            else if bytes_eqb (rq_method rq) (bs "eth_sendTransaction") then processEthSendTransaction rq
            else let '(res, err, frames) := SyncRequest rq in Ok (Some res, err, frames)
        end
    end.

  (* ================= internal/rpcserver/rpchandler.go ================= *)

  (* what the HTTP client gets: status and the body as a tree; and the frames each member sent *)
  Definition http_reply := (N * json * list (list frame))%type.

  Definition replyRPCParseError : http_reply :=
    (400%N, response_tree (RPCErrorResponse (Some (JNum (bs "1"))) RPCCodeInvalidRequest), []).

  Fixpoint sniffFirstByte (data : bytes) : byte :=
    match data with
    | [] => x00
    | b :: t => if is_space b then sniffFirstByte t else b
    end.

  (* the member goroutines: rpcResponses[i], err_i = processRPC(rpcArray[i]) *)
  Fixpoint run_members (l : list (option rpc_request)) : res (list outcome) :=
    match l with
    | [] => Ok []
    | m :: t => do o <- processRPC m; do r <- run_members t; Ok (o :: r)
    end.

  (* completion in the given order: member k stores into slot k, then sends its error on the channel;
     the handler receives len(rpcArray) times *)
  Fixpoint complete (outs : list outcome) (order : list nat) (slots : list (option rpc_response)) (status : N)
    : res (list (option rpc_response) * N) :=
    match order with
    | [] => Ok (slots, status)
    | k :: rest =>
        do o <- index_list outs k;
        let '(resp, err, _) := o in
        do slots' <- set_nth slots k resp;
        complete outs rest slots' (if err then 500%N else status)
    end.

  Definition handleRPCBatch (body : bytes) (order : list nat) : res http_reply :=
    match lex body with
    | None => Ok replyRPCParseError
    | Some t =>
        match decode_batch t with
        | Panic => Panic
        | Err _ => Ok replyRPCParseError
        | Ok [] => Ok replyRPCParseError
        | Ok members =>
            do outs <- run_members members;
            do (slots, status) <- complete outs order (map (fun _ => None) members) 200%N;
            Ok (status, JArr (map response_opt_tree slots), map (fun o => snd o) outs)
        end
    end.

  (* rpcHandler.  [order] is only consulted for a batch: the completion order of its members. *)
  Definition rpcHandler (body : bytes) (order : list nat) : res http_reply :=
    if (b2n (sniffFirstByte body) =? 91)%N then handleRPCBatch body order
    else
      match lex body with
      | None => Ok replyRPCParseError
      | Some t =>
          match decode_request t with
          | Panic => Panic
          | Err _ => Ok replyRPCParseError
          | Ok rq =>
              do o <- processRPC (Some rq);
              let '(resp, err, frames) := o in
              Ok (if err then 500%N else 200%N, response_opt_tree resp, [frames])
          end
      end.
End Proxy.
