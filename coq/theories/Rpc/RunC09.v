(* Evaluator for the correspondence check of C09: runs the proxy model on the cases the Go harness
   recorded at process level (request body, scripted backend, observed HTTP reply and backend
   frames) and reports where model and implementation differ, plus the property oracles evaluated on
   the implementation's own observables.

   Instances of the model's Section variables used here (about which no law is claimed):
     lex        the tree the harness serialised (or None for a body that is not JSON)
     parse_int  decimal / 0x-hex integer texts only (the harness stays inside that region; the rest
                of BigIntegerFromString is property C19's)
     backend    a finite table: every frame the scripted backend saw in that case with the reply it gave
     sign_with  searches the raw transactions observed at the backend for one that *meets the
                wallet contract* for the requested address and fields: exact EIP-155/EIP-1559 wire
                format (Tx/Spec.v) and signer recovered by Crypto/Secp256k1Exec.v (independent of
                btcec) from the Keccak-256 (Base/Keccak.v) of the signing pre-image.  None found =
                the wallet "failed", so an implementation that signs with the wrong key or fields
                shows up as a frame the model never sends. *)
From Coq Require Import String.
From Coq Require Import List NArith ZArith Bool Arith.
From Coq Require Import Init.Byte.
From FFS Require Import Base.Res Base.Bytes Base.Lit Base.Keccak Rlp.Model Rlp.Spec Tx.Spec
  Crypto.Secp256k1Exec Rpc.Json Rpc.Model Rpc.Spec Rpc.BatchMachine.
Import ListNotations.
Local Open Scope string_scope.
Local Open Scope list_scope.

(* ---------- trees as written by the harness ---------- *)
Inductive djson :=
| DNull | DBool (b : bool) | DNum (t : bdsl) | DStr (s : bdsl)
| DArr (l : list djson) | DObj (m : list (bdsl * djson)).

Fixpoint jx (d : djson) : json :=
  match d with
  | DNull => JNull
  | DBool b => JBool b
  | DNum t => JNum (bexpand t)
  | DStr s => JStr (bexpand s)
  | DArr l => JArr (map jx l)
  | DObj m => JObj (map (fun kv => (bexpand (fst kv), jx (snd kv))) m)
  end.

Definition dframe := (bdsl * list djson)%type.
Definition fx (f : dframe) : frame := mkFrame (bexpand (fst f)) (map jx (snd f)).

(* body kind: 0 JSON (tree given), 1 JSON content type but invalid, 2 not a JSON content type *)
Inductive dreply := DHttp (status : N) (kind : nat) (t : djson) | DFail.
Definition rx (r : dreply) : backend_reply :=
  match r with
  | DFail => BConnFail
  | DHttp st O t => BHttp st (BJson (jx t))
  | DHttp st 1%nat _ => BHttp st BBadJson
  | DHttp st _ _ => BHttp st BNotJson
  end.

(* ---------- instances ---------- *)

Fixpoint hex_digits (l : bytes) (acc : N) : option N :=
  match l with
  | [] => Some acc
  | b :: t => match hex_val b with Some v => hex_digits t (acc * 16 + v)%N | None => None end
  end.

Definition parse_int_run (s : bytes) : option Z :=
  let '(neg, r) := match s with
                   | b :: t => if (b2n b =? 45)%N then (true, t) else if (b2n b =? 43)%N then (false, t) else (false, s)
                   | [] => (false, [])
                   end in
  let mag := match r with
             | a :: b :: (_ :: _) as t =>
                 if (b2n a =? 48)%N && ((b2n b =? 120)%N || (b2n b =? 88)%N) then hex_digits (skipn 2 r) 0
                 else dec_digits r 0
             | [] => None
             | _ => dec_digits r 0
             end in
  match mag with Some n => Some (if neg then (- Z.of_N n)%Z else Z.of_N n) | None => None end.

Definition backend_table (tbl : list (frame * backend_reply)) (f : frame) : backend_reply :=
  match find (fun e => frame_eqb (fst e) f) tbl with
  | Some e => snd e
  | None => BConnFail
  end.

(* the last three items of the signed list as numbers *)
Definition raw_sig (raw : bytes) (fm : format) : option (N * N * N) :=
  let body := match fm with Eip1559 => skipn 1 raw | _ => raw end in
  match Decode body with
  | Ok (Some (Lst l), _) =>
      match rev l with
      | Str s :: Str r :: Str v :: _ => Some (of_be v, of_be r, of_be s)
      | _ => None
      end
  | _ => None
  end.

Definition parity_of (fm : format) (chain v : N) : option N :=
  match fm with
  | Eip1559 => if (v <? 2)%N then Some v else None
  | Eip155 => let base := (chain * 2 + 35)%N in
              if (base <=? v)%N && (v <? base + 2)%N then Some (v - base)%N else None
  | Original => None
  end.

Definition ecrecover_run (digest : bytes) (y r s : N) : option bytes :=
  match exec_recover (be_to_z digest) (Z.of_N r) (Z.of_N s) (y =? 1)%N with
  | Some P => Some (exec_address P)
  | None => None
  end.

(* does [raw] meet the wallet contract for (from, tx) under [chain]? *)
Definition check_raw (chain : Z) (from : bytes) (t : transaction) (raw : bytes) : bool :=
  let fm := requested_format t in
  let f := requested_fields t in
  let c := Z.to_N chain in
  match raw_sig raw fm with
  | Some (v, r, s) =>
      match parity_of fm c v with
      | Some y =>
          if bytes_eqb raw (spec_signed fm f c y r s) then
            match ecrecover_run (keccak256 (spec_preimage fm f c)) y r s with
            | Some a => bytes_eqb a from
            | None => false
            end
          else false
      | None => false
      end
  | None => false
  end.

Definition sign_run (accounts : list bytes) (raws : list bytes) (a : bytes) (t : transaction) (chain : Z) : res bytes :=
  if existsb (bytes_eqb a) accounts then
    match find (check_raw chain a t) raws with
    | Some raw => Ok raw
    | None => Err ESign
    end
  else Err ESign.

(* a wallet that always signs for a held address (with bytes that mean nothing): used only to COUNT
   the raw-transaction frames the request demands of a working wallet.  [accounts] here is the list
   of SIGNABLE addresses: those for which the key directory holds a decryptable key file, under the
   address's own name, whose key owns that address.  The directory of the harness also lists
   addresses (returned by eth_accounts) whose file holds another address's key, has a wrong / missing
   password file, is not a key file or has been deleted: for those the wallet must fail (C08), so
   nothing may be submitted — whatever was asked of the same process before (round 3: state kept
   across requests, e.g. a signer cache filled before the address check). *)
Definition sign_dummy (accounts : list bytes) (a : bytes) (t : transaction) (chain : Z) : res bytes :=
  if existsb (bytes_eqb a) accounts then Ok [] else Err ESign.

(* the raw transactions submitted to the backend *)
Definition raws_of (frames : list frame) : list bytes :=
  flat_map (fun f => if bytes_eqb (f_method f) (bs "eth_sendRawTransaction") then
                       match f_params f with
                       | [JStr h] => match hex_decode (trim_0x h) with Some b => [b] | None => [] end
                       | _ => []
                       end
                     else []) frames.

(* ---------- comparison ---------- *)

(* model tree against observed tree: equal, except that the proxy's own message texts match any string *)
Fixpoint tree_match (m o : json) : bool :=
  match m, o with
  | JNull, JNull => true
  | JBool x, JBool y => Bool.eqb x y
  | JNum x, JNum y => bytes_eqb x y
  | JStr x, JStr y => bytes_eqb x proxy_text || bytes_eqb x y
  | JArr x, JArr y =>
      (fix go (x y : list json) : bool :=
         match x, y with
         | [], [] => true
         | a :: x', b :: y' => tree_match a b && go x' y'
         | _, _ => false
         end) x y
  | JObj x, JObj y =>
      (fix go (x y : list (bytes * json)) : bool :=
         match x, y with
         | [], [] => true
         | (k, a) :: x', (k', b) :: y' => bytes_eqb k k' && tree_match a b && go x' y'
         | _, _ => false
         end) x y
  | _, _ => false
  end.

Fixpoint remove_frame (f : frame) (l : list frame) : option (list frame) :=
  match l with
  | [] => None
  | g :: t => if frame_eqb f g then Some t
              else match remove_frame f t with Some t' => Some (g :: t') | None => None end
  end.
Fixpoint multiset_eq (a b : list frame) : bool :=
  match a with
  | [] => match b with [] => true | _ => false end
  | f :: t => match remove_frame f b with Some b' => multiset_eq t b' | None => false end
  end.

Fixpoint first_index (f : frame) (l : list frame) (i : nat) : option nat :=
  match l with [] => None | g :: t => if frame_eqb f g then Some i else first_index f t (S i) end.
Definition last_index (f : frame) (l : list frame) : option nat :=
  match first_index f (rev l) 0 with Some i => Some (length l - 1 - i)%nat | None => None end.

(* within one member the frames arrive in program order: the first arrival of an earlier frame
   precedes the last arrival of a later one *)
Fixpoint ordered_in (tr : list frame) (obs : list frame) : bool :=
  match tr with
  | f :: ((g :: _) as t) =>
      match first_index f obs 0, last_index g obs with
      | Some i, Some j => (i <? j)%nat && ordered_in t obs
      | _, _ => false
      end
  | _ => true
  end.

(* ---------- property oracles on the implementation's observables alone ---------- *)

Definition member_list (t : json) : list json := match t with JArr l => l | _ => [t] end.
Definition get_member (k : String.string) (t : json) : option json :=
  match t with
  | JObj m => match find (fun kv => bytes_eqb (fst kv) (bs k)) m with Some kv => Some (snd kv) | None => None end
  | _ => None
  end.
Definition plain_request (t : json) : bool :=      (* an object with exactly the lower-case keys, each at most once *)
  match t with
  | JObj m => forallb (fun kv => existsb (bytes_eqb (fst kv)) [bs "jsonrpc"; bs "id"; bs "method"; bs "params"]) m
              && (length (filter (fun kv => bytes_eqb (fst kv) (bs "id")) m) <=? 1)%nat
              && (length (filter (fun kv => bytes_eqb (fst kv) (bs "method")) m) <=? 1)%nat
              && (length (filter (fun kv => bytes_eqb (fst kv) (bs "params")) m) <=? 1)%nat
  | _ => false
  end.

(* a well-formed JSON-RPC request object (the property's quantifier): plain keys, a non-null id,
   jsonrpc absent or a string, a string method, params absent or an array *)
Definition wellformed_member (t : json) : bool :=
  plain_request t
  && match get_member "id" t with Some JNull | None => false | Some _ => true end
  && match get_member "jsonrpc" t with None | Some (JStr _) => true | _ => false end
  && match get_member "method" t with Some (JStr _) => true | _ => false end
  && match get_member "params" t with None | Some (JArr _) => true | _ => false end.
Definition wellformed_request (req : json) : bool :=
  forallb wellformed_member (member_list req) && negb (match req with JArr [] => true | _ => false end).

(* ids: the reply to a well-formed request has the same shape and member i carries the id of
   request member i *)
Definition ids_oracle (req resp : json) : bool :=
  let ms := member_list req in
  if wellformed_request req then
    let rs := member_list resp in
    (match req, resp with JArr _, JArr _ => true | JArr _, _ => false | _, JArr _ => false | _, _ => true end)
    && (length ms =? length rs)%nat
    && forallb (fun p => match get_member "id" (fst p), get_member "id" (snd p) with
                         | Some a, Some b => json_eqb a b
                         | _, _ => false
                         end) (combine ms rs)
  else true.

(* every member of the reply to a well-formed request is an object carrying a result or an error *)
Definition result_or_error_oracle (req resp : json) : bool :=
  if wellformed_request req then
    forallb (fun r => match get_member "result" r, get_member "error" r with
                      | None, None => false
                      | _, _ => true
                      end) (member_list resp)
  else true.

Definition special_method (m : bytes) : bool :=
  bytes_eqb m (bs "eth_accounts") || bytes_eqb m (bs "personal_accounts") || bytes_eqb m (bs "eth_sendTransaction").

(* pass-through: every plain member with a non-null id, a string method other than the three
   special ones and params absent or an array reaches the backend with that method and those params *)
Definition passthrough_oracle (req : json) (frames : list frame) : bool :=
  let ms := member_list req in
  if wellformed_request req then
    forallb (fun m =>
      match get_member "id" m, get_member "method" m with
      | Some JNull, _ | None, _ => true
      | Some _, Some (JStr meth) =>
          if special_method meth then true
          else match get_member "params" m with
               | None | Some JNull => existsb (frame_eqb (mkFrame meth [])) frames
               | Some (JArr ps) => existsb (frame_eqb (mkFrame meth ps)) frames
               | Some _ => true
               end
      | Some _, _ => true
      end) ms
  else true.

(* accounts: a plain eth_accounts / personal_accounts member is answered with the wallet's addresses *)
Definition accounts_oracle (accounts : list bytes) (req resp : json) : bool :=
  let ms := member_list req in
  let rs := member_list resp in
  if wellformed_request req && (length ms =? length rs)%nat then
    forallb (fun p =>
      match get_member "id" (fst p), get_member "method" (fst p), get_member "params" (fst p) with
      | Some JNull, _, _ | None, _, _ => true
      | Some _, Some (JStr meth), (None | Some JNull | Some (JArr _)) =>
          if bytes_eqb meth (bs "eth_accounts") || bytes_eqb meth (bs "personal_accounts") then
            match get_member "result" (snd p) with
            | Some r => json_eqb r (JArr (map address_json accounts))
            | None => false
            end
          else true
      | _, _, _ => true
      end) (combine ms rs)
  else true.

(* ---------- cases ---------- *)

Inductive case :=
(* process start: configured chain id (< 0: discover), backend table, did the process come up?, frames seen *)
| CStart (configured : Z) (tbl : list (dframe * dreply)) (started : bool) (frames : list dframe)
(* one POST: configured chain id, the backend's answers while the process started (the net_version
   entry when discovered), the backend table of this case, the wallet's addresses (eth_accounts, listing order), the
   signable addresses among them (see [sign_dummy]), the leading bytes of the body (through the first non-space byte), the tree the
   body denotes (None: not JSON), the forced completion order, and what was observed: status (0 = no
   HTTP reply), reply tree (None = not JSON / none), frames in arrival order *)
| CReq (configured : Z) (stbl : list (dframe * dreply)) (tbl : list (dframe * dreply)) (accounts : list bdsl) (signable : list bdsl) (body_prefix : bdsl)
       (tree : option djson) (order : list nat)
       (status : N) (reply : option djson) (frames : list dframe).

Definition count_raw (fs : list frame) : nat :=
  length (filter (fun f => bytes_eqb (f_method f) (bs "eth_sendRawTransaction")) fs).

(* result codes: 0 agree; 1-9 model differs from implementation; >= 10 implementation fails an oracle *)
Definition check_case (c : case) : N :=
  match c with
  | CStart configured tbl started frames =>
      let tb := map (fun e => (fx (fst e), rx (snd e))) tbl in
      let '(r, fs) := Start parse_int_run (backend_table tb) configured in
      if negb (multiset_eq fs (map fx frames)) then 6
      else match r, started with
           | Ok _, true => 0
           | Err _, false => 0
           | _, _ => 7
           end
  | CReq configured stbl tbl accts sgn prefix tree order status reply frames =>
      let stb := map (fun e => (fx (fst e), rx (snd e))) stbl in
      let tb := map (fun e => (fx (fst e), rx (snd e))) tbl in
      let accounts := map bexpand accts in
      let signable := map bexpand sgn in
      let obs := map fx frames in
      let req := option_map jx tree in
      let rep := option_map jx reply in
      match fst (Start parse_int_run (backend_table stb) configured) with
      | Ok chain =>
          (* oracles on the implementation alone *)
          if (status =? 0)%N then 16
          else if match req, rep with
             | Some q, Some p => negb (result_or_error_oracle q p)
             | Some q, None => negb (result_or_error_oracle q JNull)
             | _, _ => false
             end then 15
          else if match req, rep with
             | Some q, Some p => negb (ids_oracle q p)
             | Some q, None => negb (ids_oracle q JNull)
             | _, _ => false
             end then 11
          else if match req with Some q => negb (passthrough_oracle q obs) | None => false end then 12
          else if match req, rep with Some q, Some p => negb (accounts_oracle accounts q p) | _, _ => false end then 13
          else
          if match rpcHandler parse_int_run (fun _ => req) accounts (sign_dummy signable)
                             (backend_table tb) chain (bexpand prefix) order with
             | Ok (_, _, traces) => negb (count_raw (concat traces) =? count_raw obs)%nat
             | _ => false
             end then 10          (* a raw transaction was submitted that must not be, or one is missing *)
          else
          match rpcHandler parse_int_run (fun _ => req) accounts (sign_run signable (raws_of obs))
                           (backend_table tb) chain (bexpand prefix) order with
          | Ok (st, body, traces) =>
              let sent := concat traces in
              if negb (count_raw sent =? count_raw obs)%nat then 10           (* a submitted raw transaction does not recover to the requested from / fields / nonce / chain id *)           (* a raw transaction submitted that must not be, or one missing / not recovering *)
              else if negb (st =? status)%N then 1
              else if negb (match rep with Some p => tree_match body p | None => false end) then 2
              else if negb (multiset_eq sent obs) then 3
              else if negb (forallb (fun tr => ordered_in tr obs) traces) then 14
              else if (b2n (sniffFirstByte (bexpand prefix)) =? 91)%N
                      && negb (match rpcHandler_m parse_int_run (fun _ => req) accounts (sign_run signable (raws_of obs))
                                                  (backend_table tb) chain real_prog (bexpand prefix) (sched_of_order order) with
                               | Ok (st2, body2, _) =>
                                   (st2 =? status)%N && match rep with Some p => tree_match body2 p | None => false end
                               | _ => false
                               end)
                   then 8       (* wave 6: the interleaving machine with the explicit slot array (Rpc/BatchMachine.v), run under a
                                   schedule with the forced completion order, differs from the implementation *)
              else 0
          | Err _ => 5
          | Panic => 5
          end
      | _ => 4
      end
  end.

Fixpoint mismatches_go (i : N) (l : list case) : list (N * N) :=
  match l with
  | [] => []
  | c :: t => let r := check_case c in
              if (r =? 0)%N then mismatches_go (i + 1) t else (i, r) :: mismatches_go (i + 1) t
  end.
Definition mismatches (l : list case) : list (N * N) := firstn 20 (mismatches_go 0 l).

(* ---------- diagnosis helper (development only): indices of the reply members on which model and
   implementation differ, and the model's status ---------- *)
Definition diag (c : case) : N * list nat :=
  match c with
  | CStart _ _ _ _ => (0%N, [])
  | CReq configured stbl tbl accts sgn prefix tree order status reply frames =>
      let stb := map (fun e => (fx (fst e), rx (snd e))) stbl in
      let tb := map (fun e => (fx (fst e), rx (snd e))) tbl in
      let accounts := map bexpand accts in
      let signable := map bexpand sgn in
      let obs := map fx frames in
      let req := option_map jx tree in
      match fst (Start parse_int_run (backend_table stb) configured) with
      | Ok chain =>
          match rpcHandler parse_int_run (fun _ => req) accounts (sign_run signable (raws_of obs))
                           (backend_table tb) chain (bexpand prefix) order, option_map jx reply with
          | Ok (st, JArr ms, _), Some (JArr os) =>
              (st, flat_map (fun p => if tree_match (fst (snd p)) (snd (snd p)) then [] else [fst p])
                            (combine (seq 0 (length ms)) (combine ms os)))
          | Ok (st, m, _), Some o => (st, if tree_match m o then [] else [0%nat])
          | _, _ => (999%N, [])
          end
      | _ => (998%N, [])
      end
  end.
