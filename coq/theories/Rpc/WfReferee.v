(* C16, answers to the statement review (design/reviews/C16.md), abstract handler model Rpc/WfModel.v.

   I3  [serve_history_any]: C16_history without the (unused) lexer-coherence hypothesis on the history.
   I4  [unprocessable_exact], [null_body_exact]: what the handler returns, by name, for every body that is
       not a request -- in particular for an array with a member that is neither null nor a well-kinded
       object: exactly ONE error object (replyRPCParseError: HTTP 400, id 1, -32600), never an array, no
       slot per member; the world is untouched (nothing reaches the backend or the wallet).
   I5  the model CAN panic: [run_members] / [set_slot] under a scheduler that names a goroutine that does
       not exist, and the pre-fix [processRPC] (d674d82 reverted) on a null batch member.  The permutation
       hypothesis of C16_total is necessary: [sched_out_of_range_panics]. *)
From Coq Require Import String.
From Coq Require Import List NArith ZArith Bool Lia Permutation.
From Coq Require Import Init.Byte.
From FFS Require Import Base.Res Base.Bytes Rpc.Body Rpc.WfModel Rpc.WfSpec Rpc.WfProofs Rpc.WfProofs2 Rpc.WfProofs3.
Import ListNotations.

Section Answers.
  Variable W F : Type.
  Variable sync_request : W -> request -> (option response * bool) * W.
  Variable call_nonce : W -> F -> option rpc_error * W.
  Variable get_accounts : W -> option (list bytes) * W.
  Variable sign : W -> txn_view F -> option bytes * W.
  Variable decode_txn : option jv -> option (txn_view F).
  Variable parse_from : F -> bool.
  Variable sched : W -> nat -> list nat.

  Notation processRPC := (processRPC W F sync_request call_nonce get_accounts sign decode_txn parse_from).
  Notation run_members := (run_members W F sync_request call_nonce get_accounts sign decode_txn parse_from).
  Notation handleRPCBatch := (handleRPCBatch W F sync_request call_nonce get_accounts sign decode_txn parse_from sched).
  Notation rpcHandler := (rpcHandler W F sync_request call_nonce get_accounts sign decode_txn parse_from sched).
  Notation serve := (serve W F sync_request call_nonce get_accounts sign decode_txn parse_from sched).

  (* ---- I4: bodies that are not a request get exactly replyRPCParseError ---- *)
  Lemma decode_single_unprocessable_err v :
    unprocessable_body v -> v <> Tree JNull -> exists e, decode_single v = Err e.
  Proof.
    intros U N. destruct v as [|t]; simpl; [eauto|].
    destruct t as [| | | |l|kv]; simpl; eauto; [congruence|].
    simpl in U. pose proof (decode_members_flag kv zero_request false) as Hf.
    destruct (decode_members kv zero_request false) as [q b]. simpl in Hf. rewrite U in Hf. simpl in Hf. subst b. eauto.
  Qed.

  Theorem unprocessable_exact w body v :
    unprocessable_body v -> v <> Tree JNull -> rpcHandler w body v = Ok (parse_error_reply, w).
  Proof.
    intros U N. unfold WfModel.rpcHandler.
    destruct (byte_eqb (sniff_first_byte body) open_bracket).
    - unfold WfModel.handleRPCBatch. pose proof (decode_batch_unprocessable v U) as H.
      destruct (decode_batch v) as [[|r rs]|e|]; try contradiction; reflexivity.
    - destruct (decode_single_unprocessable_err v U N) as [e ->]. reflexivity.
  Qed.

  (* the array case on its own: an array body that is not a parseable batch (empty, or with a member that
     is a number / string / bool / array / an object with an ill-kinded request field), whatever the
     sniffed byte: one error object for the whole body *)
  Corollary unparseable_array_one_error w body l :
    parseable_batch (Tree (JArr l)) = None -> rpcHandler w body (Tree (JArr l)) = Ok (parse_error_reply, w).
  Proof. intros H. apply unprocessable_exact; [exact H|discriminate]. Qed.

  (* the body `null`: the zero request -> the missing-id error (HTTP 500, id null) on the single path,
     the empty batch -> replyRPCParseError on the batch path (only for an incoherent lexer verdict) *)
  Theorem null_body_exact w body :
    rpcHandler w body (Tree JNull) =
    Ok (if byte_eqb (sniff_first_byte body) open_bracket then parse_error_reply
        else mkReply 500 (PSingle (Some (RPCErrorResponse None RPCCodeInvalidRequest))), w).
  Proof. unfold WfModel.rpcHandler. destruct (byte_eqb (sniff_first_byte body) open_bracket); reflexivity. Qed.

  (* ---- I5: the permutation hypothesis of C16_total is necessary ---- *)
  Lemma run_members_out_of_range w reqs i rest slots failed :
    (length reqs <= i)%nat -> run_members w reqs (i :: rest) slots failed = Panic.
  Proof.
    intros H. simpl. unfold index_list. apply nth_error_None in H. rewrite H. reflexivity.
  Qed.

  (* a scheduler that names, first, a goroutine that does not exist: the handler panics on every
     decodable non-empty batch *)
  Theorem sched_out_of_range_panics w body v reqs i rest :
    byte_eqb (sniff_first_byte body) open_bracket = true ->
    decode_batch v = Ok reqs -> reqs <> [] ->
    sched w (length reqs) = i :: rest -> (length reqs <= i)%nat ->
    rpcHandler w body v = Panic.
  Proof.
    intros ES Ed NE Es Hi. unfold WfModel.rpcHandler. rewrite ES. unfold WfModel.handleRPCBatch. rewrite Ed.
    destruct reqs as [|r0 rs]; [congruence|]. rewrite Es.
    rewrite run_members_out_of_range; [reflexivity|exact Hi].
  Qed.

  Hypothesis sched_perm : forall w n, Permutation (sched w n) (seq 0 n).

  (* ---- I3: histories, without the coherence hypothesis (it was never used: coherence is a premise
     inside wellformed_reply / never_null_reply) ---- *)
  Theorem serve_history_any (sync_ok : sync_wf sync_request) h : forall w,
    exists reps w', serve w h = Ok (reps, w') /\
      Forall2 (fun bv rep => wellformed_reply (fst bv) (snd bv) rep /\
                             never_null_reply F decode_txn parse_from (fst bv) (snd bv) rep) h reps.
  Proof.
    induction h as [|[b v] t IH]; intros w; simpl.
    - eexists _, _. split; [reflexivity|constructor].
    - destruct (rpcHandler_returns W F sync_request call_nonce get_accounts sign decode_txn parse_from sched sched_perm w b v)
        as [rep [w1 E]].
      rewrite E. simpl. destruct (IH w1) as [reps [w2 [E2 F2]]]. rewrite E2. simpl.
      eexists _, _. split; [reflexivity|]. constructor; [|exact F2]. simpl. split.
      + eapply rpcHandler_wellformed; eassumption.
      + eapply rpcHandler_never_null; eassumption.
  Qed.

  (* never-null for histories needs no backend hypothesis at all *)
  Theorem serve_history_never_null h : forall w,
    exists reps w', serve w h = Ok (reps, w') /\
      Forall2 (fun bv rep => never_null_reply F decode_txn parse_from (fst bv) (snd bv) rep) h reps.
  Proof.
    induction h as [|[b v] t IH]; intros w; simpl.
    - eexists _, _. split; [reflexivity|constructor].
    - destruct (rpcHandler_returns W F sync_request call_nonce get_accounts sign decode_txn parse_from sched sched_perm w b v)
        as [rep [w1 E]].
      rewrite E. simpl. destruct (IH w1) as [reps [w2 [E2 F2]]]. rewrite E2. simpl.
      eexists _, _. split; [reflexivity|]. constructor; [|exact F2]. simpl.
      eapply rpcHandler_never_null; eassumption.
  Qed.
End Answers.

(* ---- I5: the handler as it was before fix d674d82: processRPC dereferences its argument first ---- *)
Section PreFix.
  Variable W F : Type.
  Variable sync_request : W -> request -> (option response * bool) * W.
  Variable call_nonce : W -> F -> option rpc_error * W.
  Variable get_accounts : W -> option (list bytes) * W.
  Variable sign : W -> txn_view F -> option bytes * W.
  Variable decode_txn : option jv -> option (txn_view F).
  Variable parse_from : F -> bool.
  Variable sched : W -> nat -> list nat.

  (* processRPC without the nil guard: `if rpcReq.ID == nil` on a nil *RPCRequest *)
  Definition processRPC_prefix (w : W) (rpcReq : option request) : res (outcome W) :=
    do q <- deref rpcReq;
    processRPC W F sync_request call_nonce get_accounts sign decode_txn parse_from w (Some q).

  Fixpoint run_members_prefix (w : W) (reqs : list (option request)) (order : list nat)
           (slots : list (option response)) (failed : bool) : res (list (option response) * bool * W) :=
    match order with
    | [] => Ok (slots, failed, w)
    | i :: rest =>
        do r <- index_list reqs i;
        do o <- processRPC_prefix w r;
        let '((resp, err), w1) := o in
        do slots1 <- set_slot slots i resp;
        run_members_prefix w1 reqs rest slots1 (failed || err)
    end.

  Definition handleRPCBatch_prefix (w : W) (v : verdict) : res (reply * W) :=
    match decode_batch v with
    | Err _ => Ok (parse_error_reply, w)
    | Panic => Panic
    | Ok [] => Ok (parse_error_reply, w)
    | Ok reqs =>
        let n := length reqs in
        do out <- run_members_prefix w reqs (sched w n) (repeat None n) false;
        let '(slots, failed, w1) := out in
        Ok (mkReply (if failed then 500 else 200) (PBatch slots), w1)
    end.

  (* whatever the world and the (permutation) scheduler: a batch whose members are all null kills it *)
  Theorem prefix_panics_on_null_member w n :
    Permutation (sched w (S n)) (seq 0 (S n)) ->
    handleRPCBatch_prefix w (Tree (JArr (repeat JNull (S n)))) = Panic.
  Proof.
    intros HP. unfold handleRPCBatch_prefix.
    assert (Ed : decode_batch (Tree (JArr (repeat JNull (S n)))) = Ok (repeat None (S n))).
    { unfold decode_batch. assert (H : decode_member_list (repeat JNull (S n)) = (repeat None (S n), false)).
      { generalize (S n) as k. induction k as [|k IH]; [reflexivity|]. simpl. simpl in IH. rewrite IH. reflexivity. }
      rewrite H. reflexivity. }
    rewrite Ed. cbn [repeat]. fold (repeat (@None request) n). change (None :: repeat None n) with (repeat (@None request) (S n)).
    rewrite repeat_length.
    destruct (sched w (S n)) as [|i rest] eqn:Es.
    { apply Permutation_nil in HP. discriminate. }
    assert (Hi : (i < S n)%nat).
    { assert (In i (seq 0 (S n))) by (apply (Permutation_in _ HP); left; reflexivity). apply in_seq in H. lia. }
    cbn [run_members_prefix]. unfold index_list.
    assert (Hn : nth_error (repeat (@None request) (S n)) i = Some None).
    { apply nth_error_repeat. exact Hi. }
    rewrite Hn. reflexivity.
  Qed.
End PreFix.
