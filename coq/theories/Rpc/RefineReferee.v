(* C16, answers to the statement review (design/reviews/C16.md), concrete model (b-c09's Rpc/Model.v).

   I1  [wellformed_conforming], [history_conforming]: the concrete well-formedness theorems stated under the
       hypothesis on the *backend* (every reply is [RefineBackend.reply_wf]: a JSON-RPC 2.0 result object, an
       error object with a non-zero code, an HTTP error without a JSON-RPC body, or no reply) instead of the
       derived guard [sync_wf_c] on SyncRequest's output.
       [sync_wf_c_jsonrpc1_refuted]: the second way the guard fails -- a backend answering
       {"jsonrpc":"1.0","id":1,"result":"0x1"} is relayed with "jsonrpc":"1.0".
       [code0_reply_not_wellformed]: ... and the failure reaches the proxy's own reply: the tree the handler
       serialises for that backend is NOT a JSON-RPC 2.0 response object (it has both result and error). *)
From Coq Require Import String.
From Coq Require Import List NArith ZArith Bool Arith Lia Permutation.
From Coq Require Import Init.Byte.
From FFS Require Import Base.Res Base.Bytes.
From FFS Require Rpc.Body Rpc.WfModel Rpc.WfSpec.
From FFS Require Rpc.Json Rpc.Model.
From FFS Require Import Rpc.Refine Rpc.RefineSim Rpc.RefineThms Rpc.RefineBackend.
Import ListNotations.

Section Conforming.
  Variable parse_int : bytes -> option Z.
  Variable lex : bytes -> option Json.json.
  Variable accounts : list bytes.
  Variable sign_with : bytes -> Json.transaction -> Z -> res bytes.
  Variable backend : Model.frame -> Model.backend_reply.
  Variable chain : Z.
  Hypothesis sign_returns : forall a t c, sign_with a t c <> Panic.
  Hypothesis conforming : forall fr, reply_wf (backend fr).

  Theorem wellformed_conforming body order :
    (forall t ms, lex body = Some t -> Json.decode_batch t = Ok ms -> Permutation order (seq 0 (length ms))) ->
    exists status tree traces,
      Model.rpcHandler parse_int lex accounts sign_with backend chain body order = Ok (status, tree, traces) /\
      wellformed_tree body (verdict_of (lex body)) tree.
  Proof.
    intros Hord.
    exact (wellformed_concrete parse_int lex accounts sign_with backend chain sign_returns body order Hord
             (reply_wf_sync_wf backend conforming)).
  Qed.

  Theorem history_conforming (h : list (bytes * list nat)) :
    Forall (fun bo => forall t ms, lex (fst bo) = Some t -> Json.decode_batch t = Ok ms ->
                                   Permutation (snd bo) (seq 0 (length ms))) h ->
    exists reps,
      serve_c parse_int lex accounts sign_with backend chain h = Ok reps /\
      Forall2 (fun bo hr => wellformed_tree (fst bo) (verdict_of (lex (fst bo))) (reply_tree_of hr) /\
                            id_echo_tree lex (fst bo) (reply_tree_of hr)) h reps.
  Proof.
    intros HF.
    exact (history_concrete parse_int lex accounts sign_with backend chain sign_returns h HF
             (reply_wf_sync_wf backend conforming)).
  Qed.
End Conforming.

(* a backend that labels its answers "1.0" *)
Definition jsonrpc1_backend (_ : Model.frame) : Model.backend_reply :=
  Model.BHttp 200 (Model.BJson (Json.JObj [(Json.bs "jsonrpc", Json.JStr (Json.bs "1.0")); (Json.bs "id", Json.JNum (Json.bs "1"));
                                          (Json.bs "result", Json.JStr (Json.bs "0x1"))])).

Definition probe_rq : Json.rpc_request :=
  Json.mkReq (Json.bs "2.0") (Some (Json.JNum (Json.bs "7"))) (Json.bs "eth_call") [].

Theorem sync_wf_c_jsonrpc1_refuted :
  let '(res, err, _) := Model.SyncRequest jsonrpc1_backend probe_rq in
  err = false /\ Json.rs_jsonrpc res = Json.bs "1.0" /\ ~ sync_wf_c jsonrpc1_backend.
Proof.
  destruct (Model.SyncRequest jsonrpc1_backend probe_rq) as [[res err] fr] eqn:E.
  vm_compute in E. injection E as <- <- <-.
  split; [reflexivity|]. split; [reflexivity|].
  intros Hwf. specialize (Hwf probe_rq). destruct Hwf as [Hj _]. vm_compute in Hj. discriminate.
Qed.

(* the body {"id":7,"method":"eth_call"} relayed to the code-0 backend: what the handler itself replies *)
Definition probe_tree : Json.json :=
  Json.JObj [(Json.bs "id", Json.JNum (Json.bs "7")); (Json.bs "method", Json.JStr (Json.bs "eth_call"))].

Theorem code0_reply_not_wellformed :
  exists tree traces,
    Model.rpcHandler (fun _ => None) (fun _ => Some probe_tree) [] (fun _ _ _ => Err 3%nat) code0_backend 1%Z
                     (Json.bs "{}") [] = Ok (200%N, tree, traces) /\
    (exists v, tree_member "result" tree = Some v) /\ (exists e, tree_member "error" tree = Some e) /\
    ~ reply_tree_ok tree.
Proof.
  eexists _, _. split; [vm_compute; reflexivity|].
  split; [eexists; vm_compute; reflexivity|]. split; [eexists; vm_compute; reflexivity|].
  intros [H|[slots [H _]]]; [|discriminate].
  destruct H as [_ [_ [_ [[_ He]|[Hr _]]]]].
  - vm_compute in He. discriminate.
  - vm_compute in Hr. discriminate.
Qed.

Theorem jsonrpc1_reply_not_wellformed :
  exists tree traces,
    Model.rpcHandler (fun _ => None) (fun _ => Some probe_tree) [] (fun _ _ _ => Err 3%nat) jsonrpc1_backend 1%Z
                     (Json.bs "{}") [] = Ok (200%N, tree, traces) /\
    tree_member "jsonrpc" tree = Some (Json.JStr (Json.bs "1.0")) /\ ~ reply_tree_ok tree.
Proof.
  eexists _, _. split; [vm_compute; reflexivity|]. split; [vm_compute; reflexivity|].
  intros [H|[slots [H _]]]; [|discriminate].
  destruct H as [_ [Hj _]]. vm_compute in Hj. discriminate.
Qed.

(* ---- I2: the bytes on the wire ----
   rpchandler.go replyRPC:   b, _ := json.Marshal(result); Content-Length = len(b); w.Write(b)
   -- the error of json.Marshal is DROPPED, so a failing Marshal is an empty body.  encoding/json is not
   firefly-signer code: it enters as the Section variable [marshal] (None = Marshal returned an error), and
   "the text b is JSON denoting the value t" as the relation [denotes] (what a client's parser reads); the
   three laws are explicit hypotheses, NOT proved here (there is no serialiser / parser model): Marshal
   succeeds on every reply value (every *JSONAny held by a response came out of json.Unmarshal, so its raw
   text is valid JSON), what it writes denotes the value, the empty text denotes nothing.  Under them the
   body of every reply is non-empty and denotes the handler's reply tree (for every backend), which is
   well-formed for a conforming backend.  [wire_empty_iff]: the laws carry the whole clause -- the body is
   empty exactly when Marshal fails or writes nothing. *)
Section Wire.
  Variable marshal : Json.json -> option bytes.
  Variable denotes : bytes -> Json.json -> Prop.

  Definition replyRPC_body (result : Json.json) : bytes :=
    match marshal result with Some b => b | None => [] end.

  Lemma wire_empty_iff t : replyRPC_body t = [] <-> marshal t = None \/ marshal t = Some [].
  Proof.
    unfold replyRPC_body. destruct (marshal t) as [b|]; split; intros H; auto.
    - right. rewrite H. reflexivity.
    - destruct H as [H|H]; [discriminate|]. injection H as ->. reflexivity.
  Qed.

  Definition marshal_laws : Prop :=
    (forall t, exists b, marshal t = Some b) /\
    (forall t b, marshal t = Some b -> denotes b t) /\
    (forall t, ~ denotes [] t).

  Hypothesis laws : marshal_laws.

  Lemma wire_body t : replyRPC_body t <> [] /\ denotes (replyRPC_body t) t.
  Proof.
    destruct laws as [L1 [L2 L3]].
    unfold replyRPC_body. destruct (L1 t) as [b E]. rewrite E.
    pose proof (L2 t b E) as P. split; [|exact P].
    intros ->. exact (L3 t P).
  Qed.

  Variable parse_int : bytes -> option Z.
  Variable lex : bytes -> option Json.json.
  Variable accounts : list bytes.
  Variable sign_with : bytes -> Json.transaction -> Z -> res bytes.
  Variable backend : Model.frame -> Model.backend_reply.
  Variable chain : Z.
  Hypothesis sign_returns : forall a t c, sign_with a t c <> Panic.

  (* every backend: the body is never empty and is JSON text denoting the handler's reply tree, which is
     an object / an array with one object per member carrying the request ids (never null) *)
  Theorem wire_reply_any_backend body order :
    (forall t ms, lex body = Some t -> Json.decode_batch t = Ok ms -> Permutation order (seq 0 (length ms))) ->
    exists status tree traces,
      Model.rpcHandler parse_int lex accounts sign_with backend chain body order = Ok (status, tree, traces) /\
      replyRPC_body tree <> [] /\ denotes (replyRPC_body tree) tree /\ id_echo_tree lex body tree.
  Proof.
    intros Hord.
    destruct (id_echo_concrete parse_int lex accounts sign_with backend chain sign_returns body order Hord)
      as [st [tree [tr [E Hi]]]].
    exists st, tree, tr. destruct (wire_body tree) as [H1 H2]. auto.
  Qed.

  (* conforming backend: ... and what the client reads is a JSON-RPC 2.0 response object or a non-empty
     array of them, of the batch's length *)
  Theorem wire_reply_wellformed body order :
    (forall fr, reply_wf (backend fr)) ->
    (forall t ms, lex body = Some t -> Json.decode_batch t = Ok ms -> Permutation order (seq 0 (length ms))) ->
    exists status tree traces,
      Model.rpcHandler parse_int lex accounts sign_with backend chain body order = Ok (status, tree, traces) /\
      replyRPC_body tree <> [] /\ denotes (replyRPC_body tree) tree /\
      wellformed_tree body (verdict_of (lex body)) tree.
  Proof.
    intros Hc Hord.
    destruct (wellformed_conforming parse_int lex accounts sign_with backend chain sign_returns Hc body order Hord)
      as [st [tree [tr [E Hw]]]].
    exists st, tree, tr. destruct (wire_body tree) as [H1 H2]. auto.
  Qed.
End Wire.

(* an instance of the laws (non-vacuity only; NOT a model of encoding/json: no string escaping): a compact
   renderer, "b denotes t" := b is the rendering of t *)
Fixpoint render (t : Json.json) : bytes :=
  match t with
  | Json.JNull => Json.bs "null"
  | Json.JBool true => Json.bs "true"
  | Json.JBool false => Json.bs "false"
  | Json.JNum x => x20 :: x
  | Json.JStr s => x22 :: s ++ [x22]
  | Json.JArr l =>
      x5b :: (fix go (l : list Json.json) : bytes :=
                match l with [] => [] | [x] => render x | x :: r => render x ++ x2c :: go r end) l ++ [x5d]
  | Json.JObj m =>
      x7b :: (fix go (m : list (bytes * Json.json)) : bytes :=
                match m with
                | [] => []
                | [(k, v)] => x22 :: k ++ x22 :: x3a :: render v
                | (k, v) :: r => x22 :: k ++ x22 :: x3a :: render v ++ x2c :: go r
                end) m ++ [x7d]
  end.

Lemma render_nonempty t : render t <> [].
Proof. destruct t as [|[|]| | | |]; discriminate. Qed.

Lemma render_laws : marshal_laws (fun t => Some (render t)) (fun b t => b = render t).
Proof.
  split; [intros t; eexists; reflexivity|]. split.
  - intros t b H. injection H as <-. reflexivity.
  - intros t H. symmetry in H. exact (render_nonempty t H).
Qed.
