(* C16 <-> C09 refinement, part 4 (builder b-c16): the guard of the concrete well-formedness theorem,
   [RefineThms.sync_wf_c backend], in terms of what the backend answers.

   [reply_wf]: the replies of a backend that speaks JSON-RPC 2.0 over HTTP -- a result object, an error
   object with a non-zero code (on HTTP 2xx or >= 400), an HTTP error (>= 400) whose body is not JSON-RPC,
   or no reply at all (connection refused / reset / timeout).  [reply_wf_sync_wf]: for such a backend
   every response SyncRequest returns has jsonrpc "2.0" and exactly one of result / error.
   [sync_wf_c_code0_refuted]: the guard is needed -- a backend answering HTTP 200 with
   {"jsonrpc":"2.0","id":1,"error":{"code":0,"message":"x"}} makes SyncRequest return (without error) a
   response that carries both "result":null and the error object, because only a non-zero code counts
   as an error (backend.go: `rpcRes.Error != nil && rpcRes.Error.Code != 0`).
   Uses b-c09's Rpc/Proofs.v (SyncRequest_result, SyncRequest_error). *)
From Coq Require Import String.
From Coq Require Import List NArith ZArith Bool Arith Lia.
From Coq Require Import Init.Byte.
From FFS Require Import Base.Res Base.Bytes.
From FFS Require Rpc.Json Rpc.Model Rpc.Proofs.
From FFS Require Import Rpc.Refine Rpc.RefineSim Rpc.RefineThms.
Import ListNotations.

Inductive reply_wf : Model.backend_reply -> Prop :=
| wf_no_reply : reply_wf Model.BConnFail
| wf_http_error status body :
    Model.is_error status = true -> body = Model.BBadJson \/ body = Model.BNotJson ->
    reply_wf (Model.BHttp status body)
| wf_result echo v : reply_wf (Model.reply_result echo v)
| wf_error status echo code_text code msg :
    Json.parse_int64 code_text = Some code -> code <> 0%Z ->
    (status =? 204)%N = false -> Model.is_success status || Model.is_error status = true ->
    reply_wf (Rpc.Proofs.error_reply status echo code_text msg).

Lemma error_response_ok_c id code : resp_ok_c (Model.RPCErrorResponse id code).
Proof. split; [reflexivity|]. right. split; [reflexivity|]. eexists. reflexivity. Qed.

Theorem reply_wf_sync_wf backend : (forall fr, reply_wf (backend fr)) -> sync_wf_c backend.
Proof.
  intros H rq. specialize (H (Model.mkFrame (Json.rq_method rq) (Json.rq_params rq))).
  inversion H as [E|status body He Hb E|echo v E|status echo code_text code msg Hc Hnz H204 Hcls E].
  - unfold Model.SyncRequest. rewrite <- E. cbn. apply error_response_ok_c.
  - unfold Model.SyncRequest. rewrite <- E. unfold Model.resty_exchange.
    assert (H204 : (status =? 204)%N = false).
    { unfold Model.is_error in He. apply N.ltb_lt in He. apply N.eqb_neq. lia. }
    rewrite H204, He.
    destruct Hb as [-> | ->].
    + destruct (Model.is_success status); cbn; apply error_response_ok_c.
    + cbn. apply error_response_ok_c.
  - symmetry in E. rewrite (Rpc.Proofs.SyncRequest_result backend rq echo v E). cbn [fst].
    split; [reflexivity|]. left. split; [eexists; reflexivity|reflexivity].
  - symmetry in E. rewrite (Rpc.Proofs.SyncRequest_error backend rq status echo code_text code msg E Hc Hnz H204 Hcls).
    cbn [fst]. split; [reflexivity|]. right. split; [reflexivity|]. eexists. reflexivity.
Qed.

(* the backend of the difference: an error object with code 0 *)
Definition code0_backend (_ : Model.frame) : Model.backend_reply :=
  Model.BHttp 200 (Model.BJson (Json.JObj [(Json.bs "jsonrpc", Json.JStr (Json.bs "2.0")); (Json.bs "id", Json.JNum (Json.bs "1"));
                                          (Json.bs "error", Json.JObj [(Json.bs "code", Json.JNum (Json.bs "0"));
                                                                       (Json.bs "message", Json.JStr (Json.bs "x"))])])).

Theorem sync_wf_c_code0_refuted :
  let rq := Json.mkReq (Json.bs "2.0") (Some (Json.JNum (Json.bs "7"))) (Json.bs "eth_call") [] in
  let '(res, err, _) := Model.SyncRequest code0_backend rq in
  err = false /\ Json.rs_result res = Some Json.JNull /\ (exists e, Json.rs_error res = Some e /\ Json.e_code e = 0%Z) /\
  ~ sync_wf_c code0_backend.
Proof.
  cbv zeta.
  destruct (Model.SyncRequest code0_backend _) as [[res err] fr] eqn:E.
  vm_compute in E. injection E as <- <- <-.
  split; [reflexivity|]. split; [reflexivity|]. split; [eexists; split; reflexivity|].
  intros Hwf. specialize (Hwf (Json.mkReq (Json.bs "2.0") (Some (Json.JNum (Json.bs "7"))) (Json.bs "eth_call") [])).
  destruct Hwf as [_ [[_ He]|[Hr _]]].
  - vm_compute in He. discriminate.
  - vm_compute in Hr. discriminate.
Qed.
