(* C09, answers to the referee report, part 4 (ISSUE 8): over the concrete file-system wallet, and over
   the wallet with C01's signer, every request of every history is answered with Ok — not merely
   "does not panic" (Err is not a possible outcome of the handler either). *)
From Coq Require Import String.
From Coq Require Import List NArith ZArith Bool Arith Lia Permutation.
From Coq Require Import Init.Byte.
From FFS Require Import Base.Res Base.Bytes Rlp.Spec Tx.Spec Crypto.Ecdsa Rpc.Json Rpc.Model Rpc.Spec
  Rpc.ProofsBatch Rpc.Proofs Rpc.ProofsHandler Rpc.WfProofsC09 Rpc.WithWallet Rpc.WithSigner Rpc.WithSignerE2E
  Rpc.RefWire.
Import ListNotations.

Section FsOk.
  Context {key doc tsig : Type}.
  Notation wtx := (transaction * Z)%type.
  Variable E : W.ext key wtx bytes doc tsig.
  Variable c : W.config.
  Variable parse_int : bytes -> option Z.
  Variable lex : bytes -> option json.
  Variable backend : frame -> backend_reply.
  Variable chain : Z.

  Theorem fs_handler_ok fs h body order :
    WP3.ext_nopanic key wtx bytes doc tsig E -> WP3.fs_nopanic fs -> ops_ok h ->
    order_ok lex body order ->
    exists r, fs_rpcHandler E c parse_int lex backend chain (fs_state E c fs h) body order = Ok r.
  Proof.
    intros Hext Hfs Hops Hord. unfold fs_rpcHandler.
    apply rpcHandler_ok; [|exact Hord].
    apply fs_sign_nopanic; assumption.
  Qed.

  Lemma serve_ok fs hist : forall h0,
    WP3.ext_nopanic key wtx bytes doc tsig E -> WP3.fs_nopanic fs -> ops_ok h0 -> history_ok lex hist ->
    Forall (fun x : W.state key * bytes * res http_reply => exists r, snd x = Ok r)
           (serve E c parse_int lex backend chain (fs_state E c fs h0) hist).
  Proof.
    induction hist as [|[[ops body] order] rest IH]; intros h0 Hext Hfs Hh0 Hh; [constructor|].
    inversion Hh as [|? ? Hhd Hrest]; subst. change (ops_ok ops /\ order_ok lex body order) in Hhd.
    destruct Hhd as [Hops Hord]. cbn [serve].
    rewrite (fs_state_app E c fs h0 ops).
    assert (Hh1 : ops_ok (h0 ++ ops)) by (apply Forall_app; split; assumption).
    constructor; [|apply IH; assumption].
    cbn [snd]. apply fs_handler_ok; assumption.
  Qed.

  Theorem fs_history_ok fs hist :
    WP3.ext_nopanic key wtx bytes doc tsig E -> WP3.fs_nopanic fs -> history_ok lex hist ->
    Forall (fun x : W.state key * bytes * res http_reply => exists r, snd x = Ok r)
           (serve E c parse_int lex backend chain (W.init_state key fs) hist).
  Proof. intros Hext Hfs Hh. exact (serve_ok fs hist [] Hext Hfs (Forall_nil _) Hh). Qed.
End FsOk.

Section E2EOk.
  Context {doc tsig : Type}.
  Variable o : group_ops.
  Variable H : bytes -> bytes.
  Variable nonce : Z -> bytes -> nat -> Z.
  Variable fuel : nat.
  Notation wtx := (transaction * Z)%type.
  Variable E0 : W.ext N wtx bytes doc tsig.

  Theorem end_to_end_ok c parse_int lex backend chain fs hist :
    WP3.ext_nopanic N wtx bytes doc tsig E0 -> WP3.fs_nopanic fs -> history_ok lex hist ->
    Forall (fun x : W.state N * bytes * res http_reply => exists r, snd x = Ok r)
           (serve (with_signer o H nonce fuel E0) c parse_int lex backend chain (W.init_state N fs) hist).
  Proof.
    intros Hext Hfs Hh.
    exact (fs_history_ok (with_signer o H nonce fuel E0) c parse_int lex backend chain fs hist
             (with_signer_nopanic o H nonce fuel E0 Hext) Hfs Hh).
  Qed.
End E2EOk.

(* The hash instantiated: C09_end_to_end with H := the executable Keccak-256 of Base/Keccak.v, whose
   32-byte length law is a theorem (keccak256_length) — one hypothesis fewer. *)
From FFS Require Import Base.Keccak.
From FFS Require Secp.Model.

Theorem end_to_end_keccak (doc tsig : Type) (o : group_ops) (nonce : Z -> bytes -> nat -> Z) (fuel : nat)
        (E0 : W.ext N (transaction * Z) bytes doc tsig) (c : W.config) parse_int lex backend chain :
  laws o -> (n o < Secp.Model.two256)%Z -> (0 <= chain)%Z ->
  reader_yields (with_signer o keccak256 nonce fuel E0) (key_in_range o) ->
  forall fs (hist : list request),
    let E := with_signer o keccak256 nonce fuel E0 in
    Forall (fun x : W.state N * bytes * res http_reply =>
              let '(s, body, reply) := x in
              (exists h, s = fs_state E c fs h) /\
              forall status tree traces frames fr,
                reply = Ok (status, tree, traces) -> In frames traces -> In fr frames -> is_raw_frame fr = true ->
                exists rq, In (Some rq) (members_of lex body) /\
                  ((rq_method rq = bs "eth_sendRawTransaction" /\ fr = mkFrame (rq_method rq) (rq_params rq)) \/
                   (rq_method rq = bs "eth_sendTransaction" /\
                    submission_specified o keccak256 nonce fuel E0 c parse_int backend chain s rq fr)))
           (serve E c parse_int lex backend chain (W.init_state N fs) hist).
Proof.
  intros L nf Hc Hr.
  exact (@end_to_end doc tsig o keccak256 nonce fuel E0 c parse_int lex backend chain L nf keccak256_length Hc Hr).
Qed.
