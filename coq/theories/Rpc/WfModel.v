(* C16 handler model (builder b-c16): internal/rpcserver rpchandler.go + rpcprocessor.go on /repo main
   (with the fix commits d674d82, de2dd34, e339dcc), reduced to what decides whether the process
   survives and what *shape* the reply has.

   One Gallina definition per Go function, same order of checks.  Go's partial operations (nil
   dereference, slice index, index-addressed slot write) are explicit [Panic]s.  Everything outside
   C16's anchors enters as Section variables over an abstract world state [W] (the backend client with
   its request counter and connections, the wallet with its caches, whatever the backend remembers):
     Backend.SyncRequest, RPC.CallRPC (eth_getTransactionCount), Wallet.GetAccounts, Wallet.Sign,
     json.Unmarshal into ethsigner.Transaction / ethtypes.Address0xHex,
   and the order in which the per-member goroutines of a batch run ([sched]).
   No proofs here. *)
From Coq Require Import String.
From Coq Require Import List NArith ZArith Bool Lia.
From Coq Require Import Init.Byte.
From FFS Require Import Base.Res Base.Bytes Rpc.Body.
Import ListNotations.

(* type RPCError struct { Code int64; Message string; Data JSONAny (omitempty) } -- both code and message
   are always serialised *)
Record rpc_error := mkErr { e_code : Z; e_message : bytes }.

(* type RPCResponse struct { JSONRpc string; ID *JSONAny; Result *JSONAny (omitempty); Error *RPCError (omitempty) }
   "jsonrpc" and "id" are always serialised (a nil ID as null); result / error only when non-nil *)
Record response := mkResp {
  r_jsonrpc : bytes;
  r_id : option jv;
  r_result : option jv;
  r_error : option rpc_error
}.

Definition v2_0 : bytes := ascii_bytes "2.0".
Definition RPCCodeParseError : Z := (-32700)%Z.
Definition RPCCodeInvalidRequest : Z := (-32600)%Z.
Definition RPCCodeInternalError : Z := (-32603)%Z.

(* the text of an error message is never compared *)
Definition some_text : bytes := ascii_bytes "FF22xxx".

(* rpcbackend.RPCErrorResponse(err, id, code) *)
Definition RPCErrorResponse (id : option jv) (code : Z) : response :=
  mkResp v2_0 id None (Some (mkErr code some_text)).

(* what replyRPC serialises: one *RPCResponse, or the []*RPCResponse of a batch (nil = JSON null) *)
Inductive payload :=
| PSingle (r : option response)
| PBatch (l : list (option response)).

Record reply := mkReply { status : N; body_of : payload }.

(* Go partial operations *)
Definition deref {A} (p : option A) : res A := match p with Some a => Ok a | None => Panic end.
Definition index_list {A} (l : list A) (i : nat) : res A :=
  match nth_error l i with Some a => Ok a | None => Panic end.
Fixpoint set_slot {A} (l : list A) (i : nat) (v : A) : res (list A) :=
  match l, i with
  | [], _ => Panic
  | _ :: t, O => Ok (v :: t)
  | x :: t, S i' => do t' <- set_slot t i' v; Ok (x :: t')
  end.

(* the typed view of params[0] that processEthSendTransaction looks at: txn.From (json.RawMessage,
   nil when absent) and whether txn.Nonce is nil.  [F] is whatever the raw `from` message is. *)
Record txn_view (F : Type) := mkView { tv_from : option F; tv_has_nonce : bool }.
Arguments mkView {F}. Arguments tv_from {F}. Arguments tv_has_nonce {F}.

Definition m_eth_accounts : bytes := ascii_bytes "eth_accounts".
Definition m_personal_accounts : bytes := ascii_bytes "personal_accounts".
Definition m_eth_sendTransaction : bytes := ascii_bytes "eth_sendTransaction".
Definition m_eth_sendRawTransaction : bytes := ascii_bytes "eth_sendRawTransaction".

Section Handler.
  Variable W : Type.                 (* state of the world outside the handler *)
  Variable F : Type.                 (* raw `from` member of the transaction *)
  (* s.backend.SyncRequest(ctx, rpcReq): (ptr RPCResponse, err != nil) *)
  Variable sync_request : W -> request -> (option response * bool) * W.
  (* s.backend.CallRPC(ctx, &txn.Nonce, "eth_getTransactionCount", &from, "pending"): nil or *RPCError *)
  Variable call_nonce : W -> F -> option rpc_error * W.
  (* s.wallet.GetAccounts(ctx): None = error *)
  Variable get_accounts : W -> option (list bytes) * W.
  (* s.wallet.Sign(ctx, &txn, s.chainID): None = error, Some raw = the signed transaction *)
  Variable sign : W -> txn_view F -> option bytes * W.
  (* json.Unmarshal(rpcReq.Params[0].Bytes(), &txn): None = error ; the argument is the JSONAny pointer *)
  Variable decode_txn : option jv -> option (txn_view F).
  (* json.Unmarshal(txn.From, &from) == nil  for  var from ethtypes.Address0xHex *)
  Variable parse_from : F -> bool.
  (* completion order of the member goroutines of a batch of n *)
  Variable sched : W -> nat -> list nat.

  Definition outcome : Type := (option response * bool) * W.     (* (ptr RPCResponse, err != nil), world *)

  Definition fail_with (w : W) (id : option jv) (code : Z) : res outcome :=
    Ok ((Some (RPCErrorResponse id code), true), w).

  (* func (s *rpcServer) processEthAccounts *)
  Definition processEthAccounts (w : W) (q : request) : res outcome :=
    let '(acc, w1) := get_accounts w in
    match acc with
    | None => fail_with w1 (q_id q) RPCCodeInternalError
    | Some l => Ok ((Some (mkResp v2_0 (q_id q) (Some (JArr (map JStr l))) None), false), w1)
    end.

  (* func (s *rpcServer) processEthSendTransaction *)
  Definition processEthSendTransaction (w : W) (q : request) : res outcome :=
    if (length (q_params q) <? 1)%nat then fail_with w (q_id q) RPCCodeInvalidRequest
    else
      do p0 <- index_list (q_params q) 0;
      match decode_txn p0 with
      | None => fail_with w (q_id q) RPCCodeParseError
      | Some txn =>
          match tv_from txn with
          | None => fail_with w (q_id q) RPCCodeInvalidRequest
          | Some from =>
              let signed_and_sent (w1 : W) : res outcome :=
                let '(raw, w2) := sign w1 txn in
                match raw with
                | None => fail_with w2 (q_id q) RPCCodeInternalError
                | Some hexData =>
                    Ok (sync_request w2 (mkReq (q_jsonrpc q) (q_id q) m_eth_sendRawTransaction [Some (JStr hexData)]))
                end in
              if tv_has_nonce txn then signed_and_sent w
              else if negb (parse_from from) then fail_with w (q_id q) RPCCodeParseError   (* fix de2dd34; was (nil, err) *)
              else
                let '(rpcErr, w1) := call_nonce w from in
                match rpcErr with
                | Some _ => fail_with w1 (q_id q) RPCCodeInternalError
                | None => signed_and_sent w1
                end
          end
      end.

  (* func (s *rpcServer) processRPC(ctx, rpcReq *rpcbackend.RPCRequest) *)
  Definition processRPC (w : W) (rpcReq : option request) : res outcome :=
    match rpcReq with
    | None => fail_with w None RPCCodeInvalidRequest                                  (* fix d674d82 *)
    | Some _ =>
        do q <- deref rpcReq;
        match q_id q with
        | None => fail_with w (q_id q) RPCCodeInvalidRequest
        | Some _ =>
            if bytes_eqb (q_method q) m_eth_accounts || bytes_eqb (q_method q) m_personal_accounts
            then processEthAccounts w q
            else if bytes_eqb (q_method q) m_eth_sendTransaction then processEthSendTransaction w q
            else Ok (sync_request w q)
        end
    end.

  (* replyRPCParseError: id is the literal 1, code -32600, HTTP 400 *)
  Definition parse_error_reply : reply :=
    mkReply 400 (PSingle (Some (RPCErrorResponse (Some (JNum (ascii_bytes "1"))) RPCCodeInvalidRequest))).

  (* the goroutines of handleRPCBatch in completion order [order]: each runs processRPC on its own
     member and writes slot [i] of rpcResponses; a panic on any of them ends the process *)
  Fixpoint run_members (w : W) (reqs : list (option request)) (order : list nat)
           (slots : list (option response)) (failed : bool) : res (list (option response) * bool * W) :=
    match order with
    | [] => Ok (slots, failed, w)
    | i :: rest =>
        do r <- index_list reqs i;
        do o <- processRPC w r;
        let '((resp, err), w1) := o in
        do slots1 <- set_slot slots i resp;
        run_members w1 reqs rest slots1 (failed || err)
    end.

  (* func (s *rpcServer) handleRPCBatch *)
  Definition handleRPCBatch (w : W) (v : verdict) : res (reply * W) :=
    match decode_batch v with
    | Err _ => Ok (parse_error_reply, w)
    | Panic => Panic
    | Ok [] => Ok (parse_error_reply, w)
    | Ok reqs =>
        let n := length reqs in
        do out <- run_members w reqs (sched w n) (repeat None n) false;
        let '(slots, failed, w1) := out in
        Ok (mkReply (if failed then 500 else 200) (PBatch slots), w1)
    end.

  (* func (s *rpcServer) rpcHandler *)
  Definition rpcHandler (w : W) (body : bytes) (v : verdict) : res (reply * W) :=
    if byte_eqb (sniff_first_byte body) open_bracket then handleRPCBatch w v
    else
      match decode_single v with
      | Err _ => Ok (parse_error_reply, w)
      | Panic => Panic
      | Ok q =>
          do o <- processRPC w (Some q);
          let '((resp, err), w1) := o in
          Ok (mkReply (if err then 500 else 200) (PSingle resp), w1)
      end.

  (* a history: the bodies (with their lexer verdicts) served one after the other by one process *)
  Fixpoint serve (w : W) (h : list (bytes * verdict)) : res (list reply * W) :=
    match h with
    | [] => Ok ([], w)
    | (b, v) :: t =>
        do r <- rpcHandler w b v;
        let '(rep, w1) := r in
        do rest <- serve w1 t;
        let '(reps, w2) := rest in
        Ok (rep :: reps, w2)
    end.
End Handler.
