(* C16, wave 6: histories in which EVERY request has its own scheduler (closes `partial` "I3 scheduler").

   WfModel.serve threads ONE function [sched : W -> nat -> list nat] through a whole history, so two
   batches of equal size served from the same world state complete in the same order, and
   C16_history_refines_C09 covered only the concrete histories with that regularity.  Here a history
   entry carries its own scheduler ([serve_each]; the handler itself, WfModel.rpcHandler, is unchanged):

   * [serve_each_const]: WfModel.serve is the special case "the same scheduler in every entry";
   * [serve_each_history] / [serve_each_never_null] / [serve_each_ids]: the history theorems
     (C16_history_any, C16_history_never_null, C16_history_id_echo) for independently scheduled requests --
     every entry's scheduler is a permutation of the members, nothing relates two entries;
   * [serve_each_sim]: forward simulation from EVERY concrete history (list of (body, completion order)
     pairs, C09's Model.rpcHandler) with no hypothesis at all: entry i is scheduled by the constant
     function [fun _ _ => order_i];
   * [serve_each_refines]: the total version (the signer returns, every order is a permutation of the
     members its body decodes to): the concrete history is served to its end and the abstract one, with
     the permutation schedulers [i_sched order_i], yields the abstraction of the same replies. *)
From Coq Require Import String.
From Coq Require Import List NArith ZArith Bool Lia Permutation.
From Coq Require Import Init.Byte.
From FFS Require Import Base.Res Base.Bytes Rpc.Body Rpc.WfModel Rpc.WfSpec Rpc.WfProofs Rpc.WfProofs2 Rpc.WfProofs3 Rpc.WfProofs4.
From FFS Require Rpc.Json Rpc.Model.
From FFS Require Import Rpc.WfReferee.
From FFS Require Import Rpc.Refine Rpc.RefineSim Rpc.RefineThms.
Import ListNotations.

Section Each.
  Variable W F : Type.
  Variable sync_request : W -> request -> (option response * bool) * W.
  Variable call_nonce : W -> F -> option rpc_error * W.
  Variable get_accounts : W -> option (list bytes) * W.
  Variable sign : W -> txn_view F -> option bytes * W.
  Variable decode_txn : option jv -> option (txn_view F).
  Variable parse_from : F -> bool.

  Notation rpcHandler := (rpcHandler W F sync_request call_nonce get_accounts sign decode_txn parse_from).
  Notation serve := (serve W F sync_request call_nonce get_accounts sign decode_txn parse_from).

  (* a history entry: the body, its lexer verdict, and the completion order of ITS member goroutines *)
  Definition entry : Type := (bytes * verdict) * (W -> nat -> list nat).

  Fixpoint serve_each (w : W) (h : list entry) : res (list reply * W) :=
    match h with
    | [] => Ok ([], w)
    | ((b, v), s) :: t =>
        do r <- rpcHandler s w b v;
        let '(rep, w1) := r in
        do rest <- serve_each w1 t;
        let '(reps, w2) := rest in
        Ok (rep :: reps, w2)
    end.

  Definition sched_ok (s : W -> nat -> list nat) : Prop := forall w n, Permutation (s w n) (seq 0 n).

  (* WfModel.serve = the same scheduler in every entry *)
  Lemma serve_each_const sched h : forall w,
    serve_each w (map (fun bv => (bv, sched)) h) = serve sched w h.
  Proof.
    induction h as [|[b v] t IH]; intros w; [reflexivity|].
    cbn [map serve_each WfModel.serve].
    destruct (rpcHandler sched w b v) as [[rep w1]|e|]; cbn [bind]; [|reflexivity|reflexivity].
    rewrite IH. reflexivity.
  Qed.

  Lemma serve_each_step (P : entry -> reply -> Prop) h :
    Forall (fun e => sched_ok (snd e)) h ->
    (forall b v s w rep w', sched_ok s -> rpcHandler s w b v = Ok (rep, w') -> P ((b, v), s) rep) ->
    forall w, exists reps w', serve_each w h = Ok (reps, w') /\ Forall2 P h reps.
  Proof.
    intros HF HP. induction h as [|[[b v] s] t IH]; intros w; cbn [serve_each].
    - eexists _, _. split; [reflexivity|constructor].
    - inversion HF as [|? ? Hs HT]; subst. cbn [snd] in Hs.
      destruct (rpcHandler_returns W F sync_request call_nonce get_accounts sign decode_txn parse_from s Hs w b v)
        as [rep [w1 E]].
      rewrite E. cbn [bind]. destruct (IH HT w1) as [reps [w2 [E2 F2]]]. rewrite E2. cbn [bind].
      eexists _, _. split; [reflexivity|]. constructor; [|exact F2]. eapply HP; eassumption.
  Qed.

  (* C16_history_any for independently scheduled requests *)
  Theorem serve_each_history (sync_ok : sync_wf sync_request) h :
    Forall (fun e => sched_ok (snd e)) h ->
    forall w, exists reps w', serve_each w h = Ok (reps, w') /\
      Forall2 (fun (e : entry) rep => wellformed_reply (fst (fst e)) (snd (fst e)) rep /\
                             never_null_reply F decode_txn parse_from (fst (fst e)) (snd (fst e)) rep) h reps.
  Proof.
    intros HF. apply serve_each_step; [exact HF|]. intros b v s w rep w' Hs E. cbn [fst snd]. split.
    - eapply rpcHandler_wellformed; eassumption.
    - eapply rpcHandler_never_null; eassumption.
  Qed.

  (* C16_history_never_null: no hypothesis on the backend *)
  Theorem serve_each_never_null h :
    Forall (fun e => sched_ok (snd e)) h ->
    forall w, exists reps w', serve_each w h = Ok (reps, w') /\
      Forall2 (fun (e : entry) rep =>
                 never_null_reply F decode_txn parse_from (fst (fst e)) (snd (fst e)) rep) h reps.
  Proof.
    intros HF. apply serve_each_step; [exact HF|]. intros b v s w rep w' Hs E. cbn [fst snd].
    eapply rpcHandler_never_null; eassumption.
  Qed.

  (* C16_history_id_echo *)
  Theorem serve_each_ids (echo : sync_echo sync_request) h :
    Forall (fun e => sched_ok (snd e)) h ->
    forall w, exists reps w', serve_each w h = Ok (reps, w') /\
      Forall2 (fun (e : entry) rep => id_echo_reply (fst (fst e)) (snd (fst e)) rep) h reps.
  Proof.
    intros HF. apply serve_each_step; [exact HF|]. intros b v s w rep w' Hs E. cbn [fst snd].
    eapply rpcHandler_id_echo; [exact echo|exact Hs|exact E].
  Qed.

  (* the permutation hypothesis is per entry and is needed for each: one entry whose scheduler names a
     goroutine that does not exist kills the process, whatever the other entries are *)
  Theorem serve_each_bad_entry_panics pre b v s post w reqs i rest :
    Forall (fun e => sched_ok (snd e)) pre ->
    byte_eqb (sniff_first_byte b) open_bracket = true ->
    decode_batch v = Ok reqs -> reqs <> [] ->
    (forall w1, s w1 (length reqs) = i :: rest) -> (length reqs <= i)%nat ->
    serve_each w (pre ++ ((b, v), s) :: post) = Panic.
  Proof.
    intros HF ES Ed NE Es Hi. revert w. induction pre as [|[[b0 v0] s0] t IH]; intros w.
    - cbn [app serve_each].
      rewrite (WfReferee.sched_out_of_range_panics W F sync_request call_nonce get_accounts sign decode_txn parse_from
                 s w b v reqs i rest ES Ed NE (Es w) Hi). reflexivity.
    - inversion HF as [|? ? Hs HT]; subst. cbn [snd] in Hs. cbn [app serve_each].
      destruct (rpcHandler_returns W F sync_request call_nonce get_accounts sign decode_txn parse_from s0 Hs w b0 v0)
        as [rep [w1 E]].
      rewrite E. cbn [bind]. rewrite (IH HT w1). reflexivity.
  Qed.
End Each.

Section EachConcrete.
  Variable parse_int : bytes -> option Z.
  Variable lex : bytes -> option Json.json.
  Variable accounts : list bytes.
  Variable sign_with : bytes -> Json.transaction -> Z -> res bytes.
  Variable backend : Model.frame -> Model.backend_reply.
  Variable chain : Z.

  Notation a_serve_each :=
    (serve_each W F (i_sync backend) (i_call_nonce parse_int backend) (i_get_accounts accounts)
                (i_sign sign_with chain) (i_decode_txn parse_int) i_parse_from).
  Notation c_serve := (serve_c parse_int lex accounts sign_with backend chain).

  (* the abstract history of a concrete one, for a choice of scheduler per completion order *)
  Definition abs_history (mk : list nat -> W -> nat -> list nat) (h : list (bytes * list nat)) : list (entry W) :=
    map (fun bo => ((fst bo, verdict_of (lex (fst bo))), mk (snd bo))) h.

  Definition abs_replies (reps : list Model.http_reply) (cps : list cpayload) : list reply :=
    map (fun x => WfModel.mkReply (fst (fst (fst x))) (cp_abs (snd x))) (combine reps cps).

  (* generic step: any family of schedulers that hands out, for entry (b, o), the order o for the batch b
     decodes to *)
  Lemma serve_each_sim_gen (mk : list nat -> W -> nat -> list nat) h :
    (forall b o, In (b, o) h ->
       forall w t ms, lex b = Some t -> Json.decode_batch t = Ok ms -> mk o w (length ms) = o) ->
    forall reps, c_serve h = Ok reps ->
    exists cps, Forall2 (fun hr cp => reply_tree_of hr = cp_tree cp) reps cps /\
      forall w : W, exists w', a_serve_each w (abs_history mk h) = Ok (abs_replies reps cps, w').
  Proof.
    induction h as [|[b o] t IH]; intros Hs reps H.
    - injection H as <-. exists []. split; [constructor|]. intros w. exists w. reflexivity.
    - simpl in H.
      destruct (Model.rpcHandler parse_int lex accounts sign_with backend chain b o) as [hr|e|] eqn:E; try discriminate.
      cbn [bind] in H.
      destruct (c_serve t) as [rest|e|] eqn:Et; try discriminate. cbn [bind] in H. injection H as <-.
      destruct (rpcHandler_sim parse_int lex accounts sign_with backend chain b o (mk o)
                  (Hs b o (or_introl eq_refl)) hr E) as [cp [Etree Ha]].
      destruct (IH (fun b' o' Hin => Hs b' o' (or_intror Hin)) rest eq_refl) as [cps [F2 Hb]].
      exists (cp :: cps). split; [constructor; [exact Etree|exact F2]|].
      intros w. destruct (Ha w) as [w1 E1]. destruct (Hb w1) as [w2 E2]. exists w2.
      unfold abs_history. cbn [map fst snd serve_each]. rewrite E1. cbn [bind].
      unfold abs_history in E2. rewrite E2. reflexivity.
  Qed.

  (* EVERY concrete history, no hypothesis: entry i scheduled by the constant function of its order *)
  Theorem serve_each_sim h :
    forall reps, c_serve h = Ok reps ->
    exists cps, Forall2 (fun hr cp => reply_tree_of hr = cp_tree cp) reps cps /\
      forall w : W, exists w',
        a_serve_each w (abs_history (fun o _ _ => o) h) = Ok (abs_replies reps cps, w').
  Proof. apply serve_each_sim_gen. intros. reflexivity. Qed.

  (* total version: the signer returns, every order is a permutation of its body's members -> the concrete
     history is served to its end, and the abstract one under the permutation schedulers [i_sched order_i]
     (which meet [sched_ok], so serve_each_history / _never_null / _ids apply to it) gives the same replies *)
  Hypothesis sign_returns : forall a t c, sign_with a t c <> Panic.

  Lemma abs_history_sched_ok h : Forall (fun e : entry W => sched_ok W (snd e)) (abs_history i_sched h).
  Proof.
    unfold abs_history. apply Forall_forall. intros e Hin. apply in_map_iff in Hin. destruct Hin as [bo [<- _]].
    cbn [snd]. intros w n. apply i_sched_perm.
  Qed.

  Theorem serve_each_refines h :
    Forall (fun bo => order_ok lex (fst bo) (snd bo)) h ->
    exists reps cps,
      c_serve h = Ok reps /\
      Forall2 (fun hr cp => reply_tree_of hr = cp_tree cp) reps cps /\
      Forall (fun e : entry W => sched_ok W (snd e)) (abs_history i_sched h) /\
      forall w : W, exists w', a_serve_each w (abs_history i_sched h) = Ok (abs_replies reps cps, w').
  Proof.
    intros HF.
    assert (Hret : exists reps, c_serve h = Ok reps).
    { induction h as [|[b o] t IH]; [exists []; reflexivity|].
      inversion HF as [|? ? Hbo HT]; subst. cbn [fst snd] in Hbo.
      destruct (rpcHandler_ok_concrete parse_int lex accounts sign_with backend chain sign_returns b o Hbo) as [hr E].
      destruct (IH HT) as [rest Er]. exists (hr :: rest). simpl. rewrite E. cbn [bind]. rewrite Er. reflexivity. }
    destruct Hret as [reps Er].
    destruct (serve_each_sim_gen i_sched h) with (reps := reps) as [cps [F2 Ha]]; [|exact Er|].
    - intros b o Hin. rewrite Forall_forall in HF. specialize (HF (b, o) Hin). cbn [fst snd] in HF.
      apply (i_sched_agrees lex b o HF).
    - exists reps, cps. split; [exact Er|]. split; [exact F2|]. split; [apply abs_history_sched_ok|exact Ha].
  Qed.
End EachConcrete.
