(* C16 front end (builder b-c16): a request body as the proxy sees it.

   - the body is a byte string; what encoding/json's lexer makes of it enters as an oracle verdict
     [SyntaxError | Tree t] (object members in source order with duplicates kept, numbers as text,
     strings decoded) -- the lexer itself is not modelled;
   - [sniff_first_byte]  mirrors internal/rpcserver/rpchandler.go sniffFirstByte (after fix e339dcc:
     the whole body is scanned, unicode.IsSpace(rune(b)) per byte);
   - the typed decoding json.Unmarshal(b, &rpcbackend.RPCRequest{}) / (b, &[]*rpcbackend.RPCRequest{})
     on a tree: encoding/json's field matching (exact, else case-folded with the two non-ASCII folds
     U+017F -> S, U+212A -> K), later duplicates overwrite, null resets a pointer / slice and leaves a
     string alone, a kind mismatch is an UnmarshalTypeError (decoding continues, the call fails).
   No proofs here. *)
From Coq Require Import String.
From Coq Require Import List NArith ZArith Bool Lia.
From Coq Require Import Init.Byte.
From FFS Require Import Base.Res Base.Bytes.
Import ListNotations.

Inductive jv :=
| JNull
| JBool (b : bool)
| JNum (txt : bytes)
| JStr (s : bytes)
| JArr (l : list jv)
| JObj (kv : list (bytes * jv)).

Inductive verdict := SyntaxError | Tree (t : jv).

Fixpoint jv_eqb (a b : jv) : bool :=
  match a, b with
  | JNull, JNull => true
  | JBool x, JBool y => Bool.eqb x y
  | JNum x, JNum y => bytes_eqb x y
  | JStr x, JStr y => bytes_eqb x y
  | JArr x, JArr y =>
      (fix go (x y : list jv) : bool :=
         match x, y with
         | [], [] => true
         | a :: x', b :: y' => jv_eqb a b && go x' y'
         | _, _ => false
         end) x y
  | JObj x, JObj y =>
      (fix go (x y : list (bytes * jv)) : bool :=
         match x, y with
         | [], [] => true
         | (k, a) :: x', (k', b) :: y' => bytes_eqb k k' && jv_eqb a b && go x' y'
         | _, _ => false
         end) x y
  | _, _ => false
  end.

(* ---- sniffing ------------------------------------------------------------------------------ *)

(* unicode.IsSpace(rune(b)) for a single byte (Latin-1 range): \t \n \v \f \r, space, NEL 0x85, NBSP 0xA0 *)
Definition is_space_go (b : byte) : bool :=
  let n := b2n b in
  ((9 <=? n) && (n <=? 13) || (n =? 32) || (n =? 133) || (n =? 160))%N.

(* JSON's own whitespace (RFC 8259): space, \t, \n, \r *)
Definition is_space_json (b : byte) : bool :=
  let n := b2n b in ((n =? 32) || (n =? 9) || (n =? 10) || (n =? 13))%N.

(* func (s *rpcServer) sniffFirstByte(data []byte) byte *)
Fixpoint sniff_first_byte (data : bytes) : byte :=
  match data with
  | [] => x00
  | b :: t => if is_space_go b then sniff_first_byte t else b
  end.

Definition open_bracket : byte := x5b.   (* '[' *)

(* ---- typed decoding of rpcbackend.RPCRequest ------------------------------------------------ *)

(* type RPCRequest struct { JSONRpc string; ID *fftypes.JSONAny; Method string; Params []*fftypes.JSONAny } *)
Record request := mkReq {
  q_jsonrpc : bytes;
  q_id : option jv;                 (* nil pointer = None *)
  q_method : bytes;
  q_params : list (option jv)       (* a JSON null element is a nil *JSONAny *)
}.
Definition zero_request : request := mkReq [] None [] [].

Definition upper (b : byte) : byte :=
  let n := b2n b in if ((97 <=? n) && (n <=? 122))%N then n2b (n - 32) else b.

(* encoding/json foldName: ASCII letters upper-cased; a multi-byte rune is replaced by the smallest
   rune of its simple-fold orbit, which is ASCII only for U+017F (c5 bf -> 'S') and U+212A (e2 84 aa -> 'K') *)
Fixpoint fold_key (k : bytes) : bytes :=
  match k with
  | [] => []
  | a :: t =>
      match t with
      | b :: t1 =>
          if ((b2n a =? 197) && (b2n b =? 191))%N then x53 :: fold_key t1
          else match t1 with
               | c :: t2 =>
                   if ((b2n a =? 226) && (b2n b =? 132) && (b2n c =? 170))%N then x4b :: fold_key t2
                   else upper a :: fold_key t
               | [] => upper a :: fold_key t
               end
      | [] => [upper a]
      end
  end.

Inductive field := FJsonrpc | FId | FMethod | FParams.

Definition name_jsonrpc : bytes := ascii_bytes "JSONRPC".
Definition name_id : bytes := ascii_bytes "ID".
Definition name_method : bytes := ascii_bytes "METHOD".
Definition name_params : bytes := ascii_bytes "PARAMS".

(* exact match first, then folded match: both amount to comparing the folded key with the folded tag *)
Definition field_of_key (k : bytes) : option field :=
  let f := fold_key k in
  if bytes_eqb f name_jsonrpc then Some FJsonrpc
  else if bytes_eqb f name_id then Some FId
  else if bytes_eqb f name_method then Some FMethod
  else if bytes_eqb f name_params then Some FParams
  else None.

Definition param_of (v : jv) : option jv := match v with JNull => None | _ => Some v end.

(* one member of the object into the struct; the boolean says "UnmarshalTypeError recorded" *)
Definition set_field (q : request) (f : field) (v : jv) : request * bool :=
  match f, v with
  | FJsonrpc, JStr s => (mkReq s (q_id q) (q_method q) (q_params q), false)
  | FJsonrpc, JNull => (q, false)
  | FJsonrpc, _ => (q, true)
  | FMethod, JStr s => (mkReq (q_jsonrpc q) (q_id q) s (q_params q), false)
  | FMethod, JNull => (q, false)
  | FMethod, _ => (q, true)
  | FId, JNull => (mkReq (q_jsonrpc q) None (q_method q) (q_params q), false)
  | FId, _ => (mkReq (q_jsonrpc q) (Some v) (q_method q) (q_params q), false)
  | FParams, JNull => (mkReq (q_jsonrpc q) (q_id q) (q_method q) [], false)
  | FParams, JArr l => (mkReq (q_jsonrpc q) (q_id q) (q_method q) (map param_of l), false)
  | FParams, _ => (q, true)
  end.

Fixpoint decode_members (kv : list (bytes * jv)) (q : request) (bad : bool) : request * bool :=
  match kv with
  | [] => (q, bad)
  | (k, v) :: t =>
      match field_of_key k with
      | None => decode_members t q bad
      | Some f => let '(q', b) := set_field q f v in decode_members t q' (bad || b)
      end
  end.

(* a JSON value into a (zero) RPCRequest struct *)
Definition decode_request_value (v : jv) : request * bool :=
  match v with
  | JObj kv => decode_members kv zero_request false
  | JNull => (zero_request, false)
  | _ => (zero_request, true)
  end.

Definition EParse : nat := 1.   (* json.Unmarshal returned an error (syntax or type) *)

(* json.Unmarshal(b, &rpcRequest) *)
Definition decode_single (v : verdict) : res request :=
  match v with
  | SyntaxError => Err EParse
  | Tree t => let '(q, bad) := decode_request_value t in if bad then Err EParse else Ok q
  end.

(* one element of the array into a *RPCRequest *)
Definition decode_member (v : jv) : option request * bool :=
  match v with
  | JNull => (None, false)
  | _ => let '(q, bad) := decode_request_value v in (Some q, bad)
  end.

Fixpoint decode_member_list (l : list jv) : list (option request) * bool :=
  match l with
  | [] => ([], false)
  | v :: t => let '(m, b) := decode_member v in
              let '(ms, bs) := decode_member_list t in (m :: ms, b || bs)
  end.

(* json.Unmarshal(batchBytes, &rpcArray)  with  var rpcArray []*rpcbackend.RPCRequest *)
Definition decode_batch (v : verdict) : res (list (option request)) :=
  match v with
  | SyntaxError => Err EParse
  | Tree (JArr l) => let '(ms, bad) := decode_member_list l in if bad then Err EParse else Ok ms
  | Tree JNull => Ok []
  | Tree _ => Err EParse
  end.
