(* C09: what reaches the backend and what comes back, for every request, backend and wallet. *)
From Coq Require Import String.
From Coq Require Import List NArith ZArith Bool Arith Lia Permutation.
From Coq Require Import Init.Byte.
From FFS Require Import Base.Res Base.Bytes Rlp.Spec Tx.Spec Rpc.Json Rpc.Model Rpc.Spec Rpc.ProofsBatch.
Import ListNotations.
Local Open Scope string_scope.
Local Open Scope list_scope.

Definition count_frame (a : bytes) : frame :=
  mkFrame (bs "eth_getTransactionCount") [address_json a; JStr (bs "pending")].
Definition raw_frame (raw : bytes) : frame :=
  mkFrame (bs "eth_sendRawTransaction") [JStr (hex0x raw)].
Definition is_raw_frame (f : frame) : bool := bytes_eqb (f_method f) (bs "eth_sendRawTransaction").
Definition o_frames (o : outcome) : list frame := snd o.

(* an error response produced by the proxy itself for request id [id] *)
Definition is_proxy_error (r : rpc_response) (id : option json) : Prop :=
  exists code, r = RPCErrorResponse id code.

Lemma bytes_eqb_refl b : bytes_eqb b b = true.
Proof. destruct (bytes_eqb_spec b b); congruence. Qed.
Lemma bytes_eqb_eq a b : bytes_eqb a b = true -> a = b.
Proof. destruct (bytes_eqb_spec a b); congruence. Qed.

Section Backend.
  Variable backend : frame -> backend_reply.
  Notation SyncRequest := (SyncRequest backend).
  Notation CallRPC := (CallRPC backend).

  (* ---------- SyncRequest: one frame, the caller's id on every path ---------- *)

  Lemma SyncRequest_frames rq : snd (SyncRequest rq) = [mkFrame (rq_method rq) (rq_params rq)].
  Proof.
    unfold Model.SyncRequest.
    destruct (resty_exchange _) as [[status [ores err]]|]; [|reflexivity].
    destruct ores as [r|]; destruct err; cbn [snd]; try reflexivity;
      repeat match goal with |- context [if ?c then _ else _] => destruct c end; reflexivity.
  Qed.

  Lemma SyncRequest_id rq : rs_id (fst (fst (SyncRequest rq))) = rq_id rq.
  Proof.
    unfold Model.SyncRequest.
    destruct (resty_exchange _) as [[status [ores err]]|]; [|reflexivity].
    destruct ores as [r|]; destruct err; cbn [fst snd]; try reflexivity;
      repeat match goal with |- context [if ?c then _ else _] => destruct c end; cbn [fst]; try reflexivity;
      match goal with |- context [match ?x with _ => _ end] => destruct x end; reflexivity.
  Qed.

  (* the well-behaved replies of the property text *)

  (* HTTP 200 with a JSON-RPC result: relayed unchanged, whatever id the backend echoed *)
  Lemma SyncRequest_result rq echo v :
    backend (mkFrame (rq_method rq) (rq_params rq)) = reply_result echo v ->
    SyncRequest rq =
      (mkResp (bs "2.0") (rq_id rq) (Some v) None [] None, false, [mkFrame (rq_method rq) (rq_params rq)]).
  Proof.
    intros Hb. unfold Model.SyncRequest. rewrite Hb. unfold reply_result, resty_exchange.
    change (200 =? 204)%N with false. change (is_success 200) with true. cbv iota.
    (* decode the reply object *)
    unfold decode_response. cbn [fold_left].
    assert (E1 : response_member (bs "jsonrpc", JStr (bs "2.0")) (zero_response, false)
                 = (mkResp (bs "2.0") None None None [] None, false)) by reflexivity.
    rewrite E1.
    assert (E2 : response_member (bs "id", echo) (mkResp (bs "2.0") None None None [] None, false)
                 = (mkResp (bs "2.0") (dec_anyptr echo) None None [] None, false)) by reflexivity.
    rewrite E2.
    assert (E3 : response_member (bs "result", v) (mkResp (bs "2.0") (dec_anyptr echo) None None [] None, false)
                 = (mkResp (bs "2.0") (dec_anyptr echo) (dec_anyptr v) None [] None, false)) by reflexivity.
    rewrite E3. cbv beta iota. cbn [set_id rs_jsonrpc rs_result rs_error rs_method rs_params].
    unfold error_code_nonzero. cbn [rs_error]. change (is_error 200) with false. cbn [orb].
    cbn [rs_result set_result rs_jsonrpc rs_id rs_error rs_method rs_params].
    destruct v; reflexivity.
  Qed.

  (* a JSON-RPC error object with a non-zero code, on HTTP 2xx or >= 400: relayed with the caller's id *)
  Definition error_reply (status : N) (echo : json) (code_text msg : bytes) : backend_reply :=
    BHttp status (BJson (JObj [(bs "jsonrpc", JStr (bs "2.0")); (bs "id", echo);
                               (bs "error", JObj [(bs "code", JNum code_text); (bs "message", JStr msg)])])).

  Lemma SyncRequest_error rq status echo code_text code msg :
    backend (mkFrame (rq_method rq) (rq_params rq)) = error_reply status echo code_text msg ->
    parse_int64 code_text = Some code -> code <> 0%Z ->
    (status =? 204)%N = false -> is_success status || is_error status = true ->
    SyncRequest rq =
      (mkResp (bs "2.0") (rq_id rq) None (Some (mkErr code msg true None)) [] None, true,
       [mkFrame (rq_method rq) (rq_params rq)]).
  Proof.
    intros Hb Hc Hnz H204 Hcls. unfold Model.SyncRequest. rewrite Hb. unfold error_reply, resty_exchange.
    rewrite H204.
    assert (D : decode_response
                  (JObj [(bs "jsonrpc", JStr (bs "2.0")); (bs "id", echo);
                         (bs "error", JObj [(bs "code", JNum code_text); (bs "message", JStr msg)])]) zero_response
                = (mkResp (bs "2.0") (dec_anyptr echo) None (Some (mkErr code msg true None)) [] None, false)).
    { unfold decode_response. cbn [fold_left].
      assert (E1 : response_member (bs "jsonrpc", JStr (bs "2.0")) (zero_response, false)
                   = (mkResp (bs "2.0") None None None [] None, false)) by reflexivity.
      rewrite E1.
      assert (E2 : response_member (bs "id", echo) (mkResp (bs "2.0") None None None [] None, false)
                   = (mkResp (bs "2.0") (dec_anyptr echo) None None [] None, false)) by reflexivity.
      rewrite E2.
      assert (E3 : forall ev, response_member (bs "error", ev) (mkResp (bs "2.0") (dec_anyptr echo) None None [] None, false)
                   = (let '(e, b) := dec_errorptr ev None in
                      (mkResp (bs "2.0") (dec_anyptr echo) None e [] None, false || b))) by reflexivity.
      rewrite E3. unfold dec_errorptr. cbn [fold_left].
      assert (E4 : error_member (bs "code", JNum code_text) (zero_error, false) = (mkErr code [] true None, false)).
      { change (error_member (bs "code", JNum code_text) (zero_error, false))
          with (match parse_int64 code_text with
                | Some z => (mkErr z (e_message zero_error) true (e_data zero_error), false)
                | None => (zero_error, true) end).
        rewrite Hc. reflexivity. }
      rewrite E4.
      assert (E5 : error_member (bs "message", JStr msg) (mkErr code [] true None, false)
                   = (mkErr code msg true None, false)) by reflexivity.
      rewrite E5. reflexivity. }
    assert (NZ : error_code_nonzero (set_id (mkResp (bs "2.0") (dec_anyptr echo) None (Some (mkErr code msg true None)) [] None) (rq_id rq)) = true).
    { unfold error_code_nonzero. cbn. destruct (Z.eqb_spec code 0); [contradiction|reflexivity]. }
    destruct (is_success status) eqn:Es.
    - rewrite D. cbv beta iota. rewrite NZ. rewrite orb_true_r. reflexivity.
    - cbn [orb] in Hcls. rewrite Hcls. rewrite D. cbv beta iota. rewrite NZ. rewrite orb_true_r. reflexivity.
  Qed.

  (* ---------- CallRPC ---------- *)
  Lemma CallRPC_frames m ps : snd (CallRPC m ps) = [mkFrame m ps].
  Proof.
    unfold Model.CallRPC.
    pose proof (SyncRequest_frames (mkReq (bs "2.0") None m ps)) as F.
    destruct (SyncRequest _) as [[res err] frames]. cbn [snd] in F. subst frames.
    destruct err; [reflexivity|]. destruct (rs_result res); reflexivity.
  Qed.

  Lemma CallRPC_result m ps echo v :
    backend (mkFrame m ps) = reply_result echo v -> CallRPC m ps = (inl v, [mkFrame m ps]).
  Proof.
    intros Hb. unfold Model.CallRPC.
    rewrite (SyncRequest_result (mkReq (bs "2.0") None m ps) echo v Hb). reflexivity.
  Qed.
End Backend.

Lemma set_nonce_same t : set_nonce t (tx_nonce t) = t.
Proof. destruct t; reflexivity. Qed.
Lemma requested_format_set_nonce t n : requested_format (set_nonce t n) = requested_format t.
Proof. reflexivity. Qed.
Lemma requested_nonce_set_nonce t n : f_nonce (requested_fields (set_nonce t n)) = nz n.
Proof. reflexivity. Qed.

Section Processor.
  Variable parse_int : bytes -> option Z.
  Variable accounts : list bytes.
  Variable sign_with : bytes -> transaction -> Z -> res bytes.
  Variable backend : frame -> backend_reply.
  Variable chain : Z.

  Notation SyncRequest := (SyncRequest backend).
  Notation CallRPC := (CallRPC backend).
  Notation processEthSendTransaction := (processEthSendTransaction parse_int sign_with backend chain).
  Notation processRPC := (processRPC parse_int accounts sign_with backend chain).

  (* where the nonce that gets signed comes from: the request, or the backend's answer to
     eth_getTransactionCount(from, "pending") (a JSON null leaves it unset, i.e. zero) *)
  Inductive nonce_source (tx : transaction) (a : bytes) : option N -> list frame -> Prop :=
  | NsSupplied n : tx_nonce tx = Some n -> nonce_source tx a (Some n) []
  | NsNull : tx_nonce tx = None ->
             fst (CallRPC (bs "eth_getTransactionCount") [address_json a; JStr (bs "pending")]) = inl JNull ->
             nonce_source tx a None [count_frame a]
  | NsReported v n : tx_nonce tx = None ->
             fst (CallRPC (bs "eth_getTransactionCount") [address_json a; JStr (bs "pending")]) = inl v ->
             v <> JNull -> dec_hexint parse_int v = Ok n ->
             nonce_source tx a (Some n) [count_frame a].

  Definition send_raw_request (rq : rpc_request) (raw : bytes) : rpc_request :=
    mkReq (rq_jsonrpc rq) (rq_id rq) (bs "eth_sendRawTransaction") [JStr (hex0x raw)].

  (* the complete behaviour of a decodable eth_sendTransaction whose from parses *)
  Lemma sendTx_cases rq p0 rest tx f a :
    rq_params rq = p0 :: rest ->
    decode_transaction parse_int p0 = Ok tx -> tx_from tx = Some f -> dec_address f = Ok a ->
    ((exists t, sign_with a t chain = Panic) /\ processEthSendTransaction rq = Panic) \/
    exists resp err frames,
      processEthSendTransaction rq = Ok (Some resp, err, frames) /\
      let pre := match tx_nonce tx with Some _ => [] | None => [count_frame a] end in
      ((exists nonce raw,
          nonce_source tx a nonce pre /\
          sign_with a (set_nonce tx nonce) chain = Ok raw /\
          frames = pre ++ [raw_frame raw] /\
          (resp, err) = fst (SyncRequest (send_raw_request rq raw)))
       \/ (frames = pre /\ err = true /\ is_proxy_error resp (rq_id rq))).
  Proof.
    intros Hp Hd Hf Ha.
    unfold Model.processEthSendTransaction. rewrite Hp. cbn [length Nat.ltb Nat.leb index_list nth_error bind].
    rewrite Hd, Hf.
    destruct (tx_nonce tx) as [n|] eqn:En.
    - (* nonce supplied *)
      unfold wallet_Sign. rewrite Hf, Ha. cbn [bind].
      destruct (sign_with a tx chain) as [raw|e|] eqn:Es.
      + pose proof (SyncRequest_frames backend (send_raw_request rq raw)) as Fr.
        unfold send_raw_request in *.
        destruct (SyncRequest _) as [[res err] frames'] eqn:Esr. cbn [snd] in Fr. subst frames'.
        right. exists res, err, ([] ++ [raw_frame raw]). split; [reflexivity|].
        left. exists (Some n), raw.
        split; [constructor; exact En|].
        split; [rewrite <- En, set_nonce_same; exact Es|].
        split; [reflexivity|]. unfold send_raw_request. rewrite Esr. reflexivity.
      + right. exists (RPCErrorResponse (rq_id rq) RPCCodeInternalError), true, []. split; [reflexivity|].
        right. split; [reflexivity|]. split; [reflexivity|]. eexists; reflexivity.
      + left. split; [eexists; exact Es|reflexivity].
    - (* nonce absent: ask the backend *)
      rewrite Ha.
      pose proof (CallRPC_frames backend (bs "eth_getTransactionCount") [address_json a; JStr (bs "pending")]) as Fc.
      destruct (CallRPC _ _) as [[v|u] cf] eqn:Ec; cbn [snd] in Fc; subst cf.
      2:{ right. exists (RPCErrorResponse (rq_id rq) RPCCodeInternalError), true, [count_frame a]. split; [reflexivity|].
          right. split; [reflexivity|]. split; [reflexivity|]. eexists; reflexivity. }
      assert (Sign : forall nonce,
                 nonce_source tx a nonce [count_frame a] ->
                 ((exists t, sign_with a t chain = Panic) /\
                  match wallet_Sign sign_with chain (set_nonce tx nonce) with
                   | Ok raw => let '(res, err, frames') := SyncRequest (mkReq (rq_jsonrpc rq) (rq_id rq) (bs "eth_sendRawTransaction") [JStr (hex0x raw)]) in
                               Ok (Some res, err, [count_frame a] ++ frames')
                   | Err _ => Ok (Some (RPCErrorResponse (rq_id rq) RPCCodeInternalError), true, [count_frame a])
                   | Panic => Panic
                   end = Panic) \/
                 exists resp err frames,
                   match wallet_Sign sign_with chain (set_nonce tx nonce) with
                   | Ok raw => let '(res, err, frames') := SyncRequest (mkReq (rq_jsonrpc rq) (rq_id rq) (bs "eth_sendRawTransaction") [JStr (hex0x raw)]) in
                               Ok (Some res, err, [count_frame a] ++ frames')
                   | Err _ => Ok (Some (RPCErrorResponse (rq_id rq) RPCCodeInternalError), true, [count_frame a])
                   | Panic => Panic
                   end = Ok (Some resp, err, frames) /\
                   ((exists nonce raw,
                       nonce_source tx a nonce [count_frame a] /\
                       sign_with a (set_nonce tx nonce) chain = Ok raw /\
                       frames = [count_frame a] ++ [raw_frame raw] /\
                       (resp, err) = fst (SyncRequest (send_raw_request rq raw)))
                    \/ (frames = [count_frame a] /\ err = true /\ is_proxy_error resp (rq_id rq)))).
      { intros nonce Hns. unfold wallet_Sign. cbn [tx_from set_nonce]. rewrite Hf, Ha. cbn [bind].
        destruct (sign_with a (set_nonce tx nonce) chain) as [raw|e|] eqn:Es.
        - pose proof (SyncRequest_frames backend (send_raw_request rq raw)) as Fr.
          unfold send_raw_request in *.
          destruct (SyncRequest _) as [[res err] frames'] eqn:Esr. cbn [snd] in Fr. subst frames'.
          right. exists res, err, ([count_frame a] ++ [raw_frame raw]). split; [reflexivity|].
          left. exists nonce, raw.
          split; [exact Hns|]. split; [exact Es|]. split; [reflexivity|].
          unfold send_raw_request. rewrite Esr. reflexivity.
        - right. exists (RPCErrorResponse (rq_id rq) RPCCodeInternalError), true, [count_frame a]. split; [reflexivity|].
          right. split; [reflexivity|]. split; [reflexivity|]. eexists; reflexivity.
        - left. split; [eexists; exact Es|reflexivity]. }
      assert (Hfst : fst (CallRPC (bs "eth_getTransactionCount") [address_json a; JStr (bs "pending")]) = inl v)
        by (rewrite Ec; reflexivity).
      assert (NonNull : v <> JNull ->
                ((exists t, sign_with a t chain = Panic) /\
                  match (match dec_hexint parse_int v with
                         | Ok n => inl (Ok (set_nonce tx (Some n), [count_frame a]))
                         | _ => inr (Some (RPCErrorResponse (rq_id rq) RPCCodeInternalError), true, [count_frame a])
                         end : res (transaction * list frame) + outcome) with
                  | inr o => Ok o
                  | inl Panic => Panic
                  | inl (Err e) => Err e
                  | inl (Ok (txn, frames)) =>
                      match wallet_Sign sign_with chain txn with
                      | Panic => Panic
                      | Err _ => Ok (Some (RPCErrorResponse (rq_id rq) RPCCodeInternalError), true, frames)
                      | Ok raw =>
                          let '(res, err, frames') := SyncRequest (mkReq (rq_jsonrpc rq) (rq_id rq) (bs "eth_sendRawTransaction") [JStr (hex0x raw)]) in
                          Ok (Some res, err, frames ++ frames')
                      end
                  end = Panic) \/
                exists resp err frames,
                  match (match dec_hexint parse_int v with
                         | Ok n => inl (Ok (set_nonce tx (Some n), [count_frame a]))
                         | _ => inr (Some (RPCErrorResponse (rq_id rq) RPCCodeInternalError), true, [count_frame a])
                         end : res (transaction * list frame) + outcome) with
                  | inr o => Ok o
                  | inl Panic => Panic
                  | inl (Err e) => Err e
                  | inl (Ok (txn, frames)) =>
                      match wallet_Sign sign_with chain txn with
                      | Panic => Panic
                      | Err _ => Ok (Some (RPCErrorResponse (rq_id rq) RPCCodeInternalError), true, frames)
                      | Ok raw =>
                          let '(res, err, frames') := SyncRequest (mkReq (rq_jsonrpc rq) (rq_id rq) (bs "eth_sendRawTransaction") [JStr (hex0x raw)]) in
                          Ok (Some res, err, frames ++ frames')
                      end
                  end = Ok (Some resp, err, frames) /\
                  ((exists nonce raw,
                      nonce_source tx a nonce [count_frame a] /\
                      sign_with a (set_nonce tx nonce) chain = Ok raw /\
                      frames = [count_frame a] ++ [raw_frame raw] /\
                      (resp, err) = fst (SyncRequest (send_raw_request rq raw)))
                   \/ (frames = [count_frame a] /\ err = true /\ is_proxy_error resp (rq_id rq)))).
      { intros Hv. destruct (dec_hexint parse_int v) as [n|e|] eqn:Eh.
        - apply (Sign (Some n)). eapply NsReported; eauto.
        - right. exists (RPCErrorResponse (rq_id rq) RPCCodeInternalError), true, [count_frame a]. split; [reflexivity|].
          right. split; [reflexivity|]. split; [reflexivity|]. eexists; reflexivity.
        - right. exists (RPCErrorResponse (rq_id rq) RPCCodeInternalError), true, [count_frame a]. split; [reflexivity|].
          right. split; [reflexivity|]. split; [reflexivity|]. eexists; reflexivity. }
      destruct v; try (apply NonNull; discriminate).
      (* null *)
      assert (E0 : set_nonce tx None = tx) by (rewrite <- En; apply set_nonce_same).
      pose proof (Sign None (NsNull tx a En Hfst)) as S. rewrite E0 in S. exact S.
  Qed.

  Lemma sendTx_spec rq p0 rest tx f a :
    (forall a t c, sign_with a t c <> Panic) ->
    rq_params rq = p0 :: rest ->
    decode_transaction parse_int p0 = Ok tx -> tx_from tx = Some f -> dec_address f = Ok a ->
    exists resp err frames,
      processEthSendTransaction rq = Ok (Some resp, err, frames) /\
      let pre := match tx_nonce tx with Some _ => [] | None => [count_frame a] end in
      ((exists nonce raw,
          nonce_source tx a nonce pre /\
          sign_with a (set_nonce tx nonce) chain = Ok raw /\
          frames = pre ++ [raw_frame raw] /\
          (resp, err) = fst (SyncRequest (send_raw_request rq raw)))
       \/ (frames = pre /\ err = true /\ is_proxy_error resp (rq_id rq))).
  Proof.
    intros Hnp Hp Hd Hf Ha.
    destruct (sendTx_cases rq p0 rest tx f a Hp Hd Hf Ha) as [[[t Ht] _]|Hc]; [exfalso; eapply Hnp; eauto|exact Hc].
  Qed.

  (* ---------- failure shapes: nothing is sent at all ---------- *)

  Lemma address_of_string_not_panic s : address_of_string s <> Panic.
  Proof. unfold address_of_string. destruct (hex_decode _); [destruct (_ =? _)%nat|]; discriminate. Qed.
  Lemma dec_address_not_panic f : dec_address f <> Panic.
  Proof. destruct f; cbn [dec_address]; try discriminate; apply address_of_string_not_panic. Qed.

  Lemma sendTx_malformed rq :
    (rq_params rq = []
     \/ exists p0 rest, rq_params rq = p0 :: rest /\
          ((exists e, decode_transaction parse_int p0 = Err e)
           \/ exists tx, decode_transaction parse_int p0 = Ok tx /\
                (tx_from tx = None \/ exists f e, tx_from tx = Some f /\ dec_address f = Err e))) ->
    exists code, processEthSendTransaction rq = Ok (Some (RPCErrorResponse (rq_id rq) code), true, []).
  Proof.
    intros [Hp|(p0 & rest & Hp & Hc)]; unfold Model.processEthSendTransaction; rewrite Hp.
    - eexists; reflexivity.
    - cbn [length Nat.ltb Nat.leb index_list nth_error bind].
      destruct Hc as [[e He]|(tx & Hd & Hc)].
      + rewrite He. eexists; reflexivity.
      + rewrite Hd. destruct Hc as [Hf|(f & e & Hf & Ha)]; rewrite Hf; [eexists; reflexivity|].
        destruct (tx_nonce tx) as [n|].
        * unfold wallet_Sign. rewrite Hf, Ha. cbn [bind]. eexists; reflexivity.
        * rewrite Ha. eexists; reflexivity.
  Qed.

  (* ---------- dispatch ---------- *)
  Lemma neq_accounts : bytes_eqb (bs "eth_sendTransaction") (bs "eth_accounts") = false.
  Proof. vm_compute. reflexivity. Qed.
  Lemma neq_personal : bytes_eqb (bs "eth_sendTransaction") (bs "personal_accounts") = false.
  Proof. vm_compute. reflexivity. Qed.

  Lemma processRPC_sendTx rq id :
    rq_id rq = Some id -> rq_method rq = bs "eth_sendTransaction" ->
    processRPC (Some rq) = processEthSendTransaction rq.
  Proof.
    intros Hi Hm. unfold Model.processRPC. rewrite Hi, Hm, neq_accounts, neq_personal, bytes_eqb_refl. reflexivity.
  Qed.

  Definition special_method (m : bytes) : bool :=
    bytes_eqb m (bs "eth_accounts") || bytes_eqb m (bs "personal_accounts") || bytes_eqb m (bs "eth_sendTransaction").

  (* ---------- the theorems ---------- *)
  Section WithWallet.
    Variable H : bytes -> bytes.
    Variable ecrecover : bytes -> N -> N -> N -> option bytes.
    Hypothesis wallet_ok : wallet_sound H ecrecover accounts sign_with chain.

    (* C09_send_tx *)
    Theorem send_tx rq id p0 rest tx f a :
      (forall a t c, sign_with a t c <> Panic) ->
      rq_id rq = Some id -> rq_method rq = bs "eth_sendTransaction" -> rq_params rq = p0 :: rest ->
      decode_transaction parse_int p0 = Ok tx -> tx_from tx = Some f -> dec_address f = Ok a ->
      exists resp err frames,
        processRPC (Some rq) = Ok (Some resp, err, frames) /\ rs_id resp = Some id /\
        let pre := match tx_nonce tx with Some _ => [] | None => [count_frame a] end in
        ((exists nonce raw,
            frames = pre ++ [raw_frame raw] /\
            nonce_source tx a nonce pre /\
            In a accounts /\
            raw_recovers_to H ecrecover raw (Z.to_N chain) a (requested_format tx)
                            (requested_fields (set_nonce tx nonce)) /\
            (resp, err) = fst (SyncRequest (send_raw_request rq raw)))
         \/ (frames = pre /\ err = true /\ is_proxy_error resp (Some id))).
    Proof.
      intros Hnp Hi Hm Hp Hd Hf Ha.
      destruct (sendTx_spec rq p0 rest tx f a Hnp Hp Hd Hf Ha) as (resp & err & frames & E & C).
      exists resp, err, frames. rewrite (processRPC_sendTx rq id Hi Hm). split; [exact E|].
      cbv zeta in C. destruct C as [(nonce & raw & Hns & Hs & Hfr & Hre)|(Hfr & He & Hpe)].
      - destruct (wallet_ok _ _ _ Hs) as [Hin Hrec].
        split.
        + assert (R : resp = fst (fst (SyncRequest (send_raw_request rq raw)))) by (rewrite <- Hre; reflexivity).
          rewrite R, SyncRequest_id. exact Hi.
        + left. exists nonce, raw. repeat split; auto.
      - split.
        + destruct Hpe as [code ->]. exact Hi.
        + right. rewrite <- Hi. auto.
    Qed.

    (* C09_nothing_on_failure, strongest form: a raw transaction reaches the backend for an
       eth_sendTransaction request ONLY IF the parameter decoded, from parsed to an address the
       wallet holds, the wallet signed, and the bytes sent recover to that address with the
       requested fields (and the nonce in effect) *)
    Theorem raw_only_if rq o fr :
      rq_method rq = bs "eth_sendTransaction" ->
      processRPC (Some rq) = Ok o -> In fr (o_frames o) -> is_raw_frame fr = true ->
      exists p0 rest tx f a nonce raw,
        rq_params rq = p0 :: rest /\ decode_transaction parse_int p0 = Ok tx /\
        tx_from tx = Some f /\ dec_address f = Ok a /\ In a accounts /\
        nonce_source tx a nonce (match tx_nonce tx with Some _ => [] | None => [count_frame a] end) /\
        sign_with a (set_nonce tx nonce) chain = Ok raw /\ fr = raw_frame raw /\
        raw_recovers_to H ecrecover raw (Z.to_N chain) a (requested_format tx) (requested_fields (set_nonce tx nonce)).
    Proof.
      intros Hm Ho Hin Hraw.
      destruct (rq_id rq) as [id|] eqn:Hi.
      2:{ unfold Model.processRPC in Ho. rewrite Hi in Ho. injection Ho as <-. destruct Hin. }
      rewrite (processRPC_sendTx rq id Hi Hm) in Ho.
      destruct (rq_params rq) as [|p0 rest] eqn:Hp.
      { destruct (sendTx_malformed rq (or_introl Hp)) as [code E]. rewrite E in Ho. injection Ho as <-. destruct Hin. }
      destruct (decode_transaction parse_int p0) as [tx|e|] eqn:Hd.
      2:{ destruct (sendTx_malformed rq) as [code E].
          { right. exists p0, rest. split; [exact Hp|]. left. eexists; exact Hd. }
          rewrite E in Ho. injection Ho as <-. destruct Hin. }
      2:{ unfold Model.processEthSendTransaction in Ho. rewrite Hp in Ho.
          cbn [length Nat.ltb Nat.leb index_list nth_error bind] in Ho. rewrite Hd in Ho. discriminate. }
      destruct (tx_from tx) as [f|] eqn:Hf.
      2:{ destruct (sendTx_malformed rq) as [code E].
          { right. exists p0, rest. split; [exact Hp|]. right. exists tx. split; [exact Hd|]. left. exact Hf. }
          rewrite E in Ho. injection Ho as <-. destruct Hin. }
      destruct (dec_address f) as [a|e|] eqn:Ha.
      2:{ destruct (sendTx_malformed rq) as [code E].
          { right. exists p0, rest. split; [exact Hp|]. right. exists tx. split; [exact Hd|]. right. exists f, e. auto. }
          rewrite E in Ho. injection Ho as <-. destruct Hin. }
      2:{ exfalso. exact (dec_address_not_panic f Ha). }
      destruct (sendTx_cases rq p0 rest tx f a Hp Hd Hf Ha) as [[_ Hpanic]|(resp & err & frames & E & C)].
      { rewrite Hpanic in Ho. discriminate. }
      rewrite E in Ho. injection Ho as <-. cbn [o_frames snd] in Hin. cbv zeta in C.
      assert (Hpre : forall g, In g (match tx_nonce tx with Some _ => [] | None => [count_frame a] end) -> is_raw_frame g = false).
      { intros g Hg. destruct (tx_nonce tx); [destruct Hg|]. destruct Hg as [<-|[]]. vm_compute. reflexivity. }
      destruct C as [(nonce & raw & Hns & Hs & Hfr & Hre)|(Hfr & He & Hpe)].
      - subst frames. apply in_app_or in Hin. destruct Hin as [Hin|[<-|[]]].
        + rewrite (Hpre _ Hin) in Hraw. discriminate.
        + destruct (wallet_ok _ _ _ Hs) as [Hacc Hrec].
          exists p0, rest, tx, f, a, nonce, raw. repeat split; auto.
      - subst frames. rewrite (Hpre _ Hin) in Hraw. discriminate.
    Qed.

    (* the cases the property text names: from not held, from unparsable, signing fails *)
    Theorem nothing_on_failure rq id o :
      rq_id rq = Some id -> rq_method rq = bs "eth_sendTransaction" -> processRPC (Some rq) = Ok o ->
      (rq_params rq = []
       \/ exists p0 rest, rq_params rq = p0 :: rest /\
            ((exists e, decode_transaction parse_int p0 = Err e)
             \/ exists tx, decode_transaction parse_int p0 = Ok tx /\
                  (tx_from tx = None
                   \/ exists f, tx_from tx = Some f /\
                        ((exists e, dec_address f = Err e)
                         \/ exists a, dec_address f = Ok a /\
                              (~ In a accounts \/ forall t raw, sign_with a t chain <> Ok raw))))) ->
      (forall fr, In fr (o_frames o) -> is_raw_frame fr = false) /\
      o_err o = true /\ exists resp, o_resp o = Some resp /\ is_proxy_error resp (Some id).
    Proof.
      intros Hi Hm Ho Hc.
      assert (NoRaw : forall fr, In fr (o_frames o) -> is_raw_frame fr = false).
      { intros fr Hin. destruct (is_raw_frame fr) eqn:Er; [|reflexivity]. exfalso.
        destruct (raw_only_if rq o fr Hm Ho Hin Er) as (p0 & rest & tx & f & a & nonce & raw & Hp & Hd & Hf & Ha & Hacc & _ & Hs & _).
        destruct Hc as [Hc|(p0' & rest' & Hp' & Hc)]; [congruence|].
        rewrite Hp in Hp'. injection Hp' as <- <-.
        destruct Hc as [[e He]|(tx' & Hd' & Hc)]; [congruence|].
        rewrite Hd in Hd'. injection Hd' as <-.
        destruct Hc as [Hc|(f' & Hf' & Hc)]; [congruence|].
        rewrite Hf in Hf'. injection Hf' as <-.
        destruct Hc as [[e He]|(a' & Ha' & Hc)]; [congruence|].
        rewrite Ha in Ha'. injection Ha' as <-.
        destruct Hc as [Hc|Hc]; [contradiction|]. exact (Hc _ _ Hs). }
      split; [exact NoRaw|].
      rewrite (processRPC_sendTx rq id Hi Hm) in Ho.
      (* malformed shapes: direct *)
      assert (Mal : (exists code, processEthSendTransaction rq = Ok (Some (RPCErrorResponse (rq_id rq) code), true, [])) ->
                    o_err o = true /\ exists resp, o_resp o = Some resp /\ is_proxy_error resp (Some id)).
      { intros [code E]. rewrite E in Ho. injection Ho as <-. split; [reflexivity|].
        eexists. split; [reflexivity|]. rewrite <- Hi. eexists; reflexivity. }
      destruct Hc as [Hc|(p0 & rest & Hp & Hc)]; [apply Mal, sendTx_malformed; left; exact Hc|].
      destruct Hc as [He|(tx & Hd & Hc)].
      { apply Mal, sendTx_malformed. right. exists p0, rest. split; [exact Hp|]. left. exact He. }
      destruct Hc as [Hf|(f & Hf & Hc)].
      { apply Mal, sendTx_malformed. right. exists p0, rest. split; [exact Hp|]. right. exists tx. auto. }
      destruct Hc as [[e He]|(a & Ha & Hc)].
      { apply Mal, sendTx_malformed. right. exists p0, rest. split; [exact Hp|]. right. exists tx. split; [exact Hd|].
        right. exists f, e. auto. }
      (* from parses but is not held / signing fails *)
      assert (Hfail : forall t raw, sign_with a t chain <> Ok raw).
      { destruct Hc as [Hn|Hs]; [|exact Hs]. intros t raw Hs. destruct (wallet_ok _ _ _ Hs) as [Hin _]. contradiction. }
      destruct (sendTx_cases rq p0 rest tx f a Hp Hd Hf Ha) as [[_ Hpanic]|(resp & err & frames & E & C)].
      { rewrite Hpanic in Ho. discriminate. }
      rewrite E in Ho. injection Ho as <-. cbv zeta in C.
      destruct C as [(nonce & raw & _ & Hs & _)|(Hfr & He & Hpe)]; [exfalso; exact (Hfail _ _ Hs)|].
      split; [exact He|]. exists resp. split; [reflexivity|]. rewrite <- Hi. exact Hpe.
    Qed.
  End WithWallet.

  (* the success path, fully determined: a held from, a wallet that signs, and (when no nonce is
     supplied) a backend that reports a pending count *)
  Theorem send_tx_exact rq id p0 rest tx f a :
    rq_id rq = Some id -> rq_method rq = bs "eth_sendTransaction" -> rq_params rq = p0 :: rest ->
    decode_transaction parse_int p0 = Ok tx -> tx_from tx = Some f -> dec_address f = Ok a ->
    (* nonce supplied *)
    (forall n raw,
       tx_nonce tx = Some n -> sign_with a tx chain = Ok raw ->
       exists resp err,
         processRPC (Some rq) = Ok (Some resp, err, [raw_frame raw]) /\
         (resp, err) = fst (SyncRequest (send_raw_request rq raw))) /\
    (* nonce reported by the backend *)
    (forall echo v n raw,
       tx_nonce tx = None -> backend (count_frame a) = reply_result echo v -> v <> JNull ->
       dec_hexint parse_int v = Ok n -> sign_with a (set_nonce tx (Some n)) chain = Ok raw ->
       exists resp err,
         processRPC (Some rq) = Ok (Some resp, err, [count_frame a; raw_frame raw]) /\
         (resp, err) = fst (SyncRequest (send_raw_request rq raw))).
  Proof.
    intros Hi Hm Hp Hd Hf Ha. rewrite (processRPC_sendTx rq id Hi Hm). split.
    - intros n raw En Hs. unfold Model.processEthSendTransaction. rewrite Hp.
      cbn [length Nat.ltb Nat.leb index_list nth_error bind]. rewrite Hd, Hf, En.
      unfold wallet_Sign. rewrite Hf, Ha. cbn [bind]. rewrite Hs.
      pose proof (SyncRequest_frames backend (send_raw_request rq raw)) as Fr. unfold send_raw_request in *.
      destruct (SyncRequest _) as [[res err] frames'] eqn:Esr. cbn [snd] in Fr. subst frames'.
      exists res, err. split; reflexivity.
    - intros echo v n raw En Hb Hv Hn Hs. unfold Model.processEthSendTransaction. rewrite Hp.
      cbn [length Nat.ltb Nat.leb index_list nth_error bind]. rewrite Hd, Hf, En, Ha.
      rewrite (CallRPC_result backend (bs "eth_getTransactionCount") [address_json a; JStr (bs "pending")] echo v Hb).
      assert (Step : match wallet_Sign sign_with chain (set_nonce tx (Some n)) with
                     | Ok raw0 => let '(res, err, frames') := SyncRequest (mkReq (rq_jsonrpc rq) (rq_id rq) (bs "eth_sendRawTransaction") [JStr (hex0x raw0)]) in
                                  Ok (Some res, err, [count_frame a] ++ frames')
                     | Err _ => Ok (Some (RPCErrorResponse (rq_id rq) RPCCodeInternalError), true, [count_frame a])
                     | Panic => Panic
                     end
                     = (let '(res, err, _) := SyncRequest (send_raw_request rq raw) in
                        Ok (Some res, err, [count_frame a; raw_frame raw]))).
      { unfold wallet_Sign. cbn [tx_from set_nonce]. rewrite Hf, Ha. cbn [bind]. rewrite Hs.
        pose proof (SyncRequest_frames backend (send_raw_request rq raw)) as Fr. unfold send_raw_request in *.
        destruct (SyncRequest _) as [[res err] frames']. cbn [snd] in Fr. subst frames'. reflexivity. }
      destruct (SyncRequest (send_raw_request rq raw)) as [[res err] fr] eqn:Esr.
      exists res, err. split; [|reflexivity].
      destruct v; try congruence; rewrite Hn; exact Step.
  Qed.

  (* C09_accounts *)
  Theorem accounts_spec rq id :
    rq_id rq = Some id ->
    rq_method rq = bs "eth_accounts" \/ rq_method rq = bs "personal_accounts" ->
    processRPC (Some rq)
    = Ok (Some (mkResp (bs "2.0") (Some id) (Some (JArr (map address_json accounts))) None [] None), false, []).
  Proof.
    intros Hi Hm. unfold Model.processRPC. rewrite Hi.
    destruct Hm as [-> | ->].
    - rewrite bytes_eqb_refl. cbn [orb]. unfold processEthAccounts. rewrite Hi. reflexivity.
    - rewrite bytes_eqb_refl, orb_true_r. unfold processEthAccounts. rewrite Hi. reflexivity.
  Qed.

  (* C09_passthrough: exactly one frame, same method, same parameter list (absent = empty) *)
  Theorem passthrough_spec rq id :
    rq_id rq = Some id -> special_method (rq_method rq) = false ->
    exists resp err,
      processRPC (Some rq) = Ok (Some resp, err, [mkFrame (rq_method rq) (rq_params rq)]) /\
      rs_id resp = Some id /\ (resp, err) = fst (SyncRequest rq).
  Proof.
    intros Hi Hs. unfold special_method in Hs.
    apply orb_false_elim in Hs. destruct Hs as [Hs H3]. apply orb_false_elim in Hs. destruct Hs as [H1 H2].
    unfold Model.processRPC. rewrite Hi, H1, H2, H3. cbn [orb].
    pose proof (SyncRequest_frames backend rq) as F. pose proof (SyncRequest_id backend rq) as I.
    destruct (SyncRequest rq) as [[res err] frames]. cbn [fst snd] in *. subst frames.
    exists res, err. repeat split. rewrite I. exact Hi.
  Qed.

  (* C09_ids at the level of processRPC: every request that carries an id is answered with a
     response carrying that id — for every method, backend and wallet *)
  Theorem response_carries_id rq id o :
    rq_id rq = Some id -> processRPC (Some rq) = Ok o ->
    exists resp, o_resp o = Some resp /\ rs_id resp = Some id.
  Proof.
    intros Hi Ho.
    destruct (special_method (rq_method rq)) eqn:Es.
    2:{ destruct (passthrough_spec rq id Hi Es) as (resp & err & E & I & _). rewrite E in Ho. injection Ho as <-.
        exists resp. auto. }
    unfold special_method in Es.
    destruct (bytes_eqb (rq_method rq) (bs "eth_accounts")) eqn:E1.
    { apply bytes_eqb_eq in E1. rewrite (accounts_spec rq id Hi (or_introl E1)) in Ho. injection Ho as <-.
      eexists. split; reflexivity. }
    destruct (bytes_eqb (rq_method rq) (bs "personal_accounts")) eqn:E2.
    { apply bytes_eqb_eq in E2. rewrite (accounts_spec rq id Hi (or_intror E2)) in Ho. injection Ho as <-.
      eexists. split; reflexivity. }
    cbn [orb] in Es. apply bytes_eqb_eq in Es.
    rewrite (processRPC_sendTx rq id Hi Es) in Ho.
    (* eth_sendTransaction: every exit builds the response from rq_id or goes through SyncRequest *)
    destruct (rq_params rq) as [|p0 rest] eqn:Hp.
    { destruct (sendTx_malformed rq (or_introl Hp)) as [code E]. rewrite E in Ho. injection Ho as <-.
      eexists. split; [reflexivity|]. exact Hi. }
    destruct (decode_transaction parse_int p0) as [tx|e|] eqn:Hd.
    2:{ destruct (sendTx_malformed rq) as [code E].
        { right. exists p0, rest. split; [exact Hp|]. left. eexists; exact Hd. }
        rewrite E in Ho. injection Ho as <-. eexists. split; [reflexivity|]. exact Hi. }
    2:{ unfold Model.processEthSendTransaction in Ho. rewrite Hp in Ho.
        cbn [length Nat.ltb Nat.leb index_list nth_error bind] in Ho. rewrite Hd in Ho. discriminate. }
    destruct (tx_from tx) as [f|] eqn:Hf.
    2:{ destruct (sendTx_malformed rq) as [code E].
        { right. exists p0, rest. split; [exact Hp|]. right. exists tx. split; [exact Hd|]. left. exact Hf. }
        rewrite E in Ho. injection Ho as <-. eexists. split; [reflexivity|]. exact Hi. }
    destruct (dec_address f) as [a|e|] eqn:Ha.
    2:{ destruct (sendTx_malformed rq) as [code E].
        { right. exists p0, rest. split; [exact Hp|]. right. exists tx. split; [exact Hd|]. right. exists f, e. auto. }
        rewrite E in Ho. injection Ho as <-. eexists. split; [reflexivity|]. exact Hi. }
    2:{ exfalso. exact (dec_address_not_panic f Ha). }
    destruct (sendTx_cases rq p0 rest tx f a Hp Hd Hf Ha) as [[_ Hpanic]|(resp & err & frames & E & C)].
    { rewrite Hpanic in Ho. discriminate. }
    rewrite E in Ho. injection Ho as <-. exists resp. split; [reflexivity|]. cbv zeta in C.
    destruct C as [(nonce & raw & _ & _ & _ & Hre)|(_ & _ & [code ->])]; [|exact Hi].
    assert (R : resp = fst (fst (SyncRequest (send_raw_request rq raw)))) by (rewrite <- Hre; reflexivity).
    rewrite R, SyncRequest_id. exact Hi.
  Qed.
End Processor.
