(* C09, answers to the referee report (design/reviews/C09.md), part 2: eth_sendTransaction decided
   by the inputs (ISSUE 2), the relay of the submission's answer (ISSUE 3), the shape of every
   reply (ISSUE 1 at processRPC / HTTP level), wire-level statements for ANY request tree (ISSUE 5),
   chain id discovery completely characterised and linked (ISSUE 6). *)
From Coq Require Import String.
From Coq Require Import List NArith ZArith Bool Arith Lia Permutation.
From Coq Require Import Init.Byte.
From FFS Require Import Base.Res Base.Bytes Rlp.Spec Tx.Spec Rpc.Json Rpc.Model Rpc.Spec
  Rpc.ProofsBatch Rpc.Proofs Rpc.ProofsHandler Rpc.RefReply.
Import ListNotations.
Local Open Scope string_scope.
Local Open Scope list_scope.

Definition pre_of (tx : transaction) (a : bytes) : list frame :=
  match tx_nonce tx with Some _ => [] | None => [count_frame a] end.

Section Send.
  Variable parse_int : bytes -> option Z.
  Variable accounts : list bytes.
  Variable sign_with : bytes -> transaction -> Z -> res bytes.
  Variable backend : frame -> backend_reply.
  Variable chain : Z.

  Notation SyncRequest := (SyncRequest backend).
  Notation CallRPC := (CallRPC backend).
  Notation processEthSendTransaction := (processEthSendTransaction parse_int sign_with backend chain).
  Notation processRPC := (processRPC parse_int accounts sign_with backend chain).

  (* Which nonce gets signed, as a function of the request and of the backend's reply to the count
     query — no reference to the proxy model:
       None           no nonce can be had (the proxy must answer with an error and submit nothing)
       Some None      the backend answered null: the nonce stays unset (signed as 0)   [declared]
       Some (Some n)  supplied in the request, or the pending count the backend reported *)
  Definition nonce_decision (tx : transaction) (a : bytes) : option (option N) :=
    match tx_nonce tx with
    | Some n => Some (Some n)
    | None =>
        match reply_value (backend (count_frame a)) with
        | None => None
        | Some JNull => Some None
        | Some v => match dec_hexint parse_int v with Ok n => Some (Some n) | _ => None end
        end
    end.

  (* the vocabulary of theorems 1/2 ([nonce_source], stated through the model's CallRPC) means this *)
  Theorem nonce_source_iff tx a nonce :
    nonce_source parse_int backend tx a nonce (pre_of tx a) <-> nonce_decision tx a = Some nonce.
  Proof.
    unfold nonce_decision, pre_of. split.
    - intros Hs. inversion Hs as [n En E1 E2|En Hc E1 E2|v n En Hc Hv Hn E1 E2]; subst.
      + rewrite En. reflexivity.
      + rewrite En. apply CallRPC_inl_iff in Hc. change (mkFrame _ _) with (count_frame a) in Hc.
        rewrite Hc. reflexivity.
      + rewrite En. apply CallRPC_inl_iff in Hc. change (mkFrame _ _) with (count_frame a) in Hc.
        rewrite Hc. destruct v; try congruence; rewrite Hn; reflexivity.
    - destruct (tx_nonce tx) as [n|] eqn:En.
      + intros E. injection E as <-. constructor. exact En.
      + destruct (reply_value (backend (count_frame a))) as [v|] eqn:Ev; [|discriminate].
        assert (Hc : fst (CallRPC (bs "eth_getTransactionCount") [address_json a; JStr (bs "pending")]) = inl v)
          by (apply CallRPC_inl_iff; exact Ev).
        destruct v; try (intros E; injection E as <-; apply NsNull; assumption);
          (destruct (dec_hexint parse_int _) as [n| |] eqn:Eh; [|discriminate|discriminate];
           intros E; injection E as <-; eapply NsReported; [exact En|exact Hc|discriminate|exact Eh]).
  Qed.

  (* ISSUE 2: eth_sendTransaction with a decodable parameter and a parsable from, DECIDED by the
     inputs — no hypothesis on the wallet, no disjunction left open:
       no nonce to be had                 -> error object under the caller's id, only the count query
       nonce had, wallet signs raw        -> the count query (iff no nonce supplied) then exactly raw,
                                             and the reply is the backend's answer to the submission
       nonce had, wallet refuses / fails  -> -32603 under the caller's id, only the count query
       (the wallet panics                 -> so does the model) *)
  Theorem send_tx_decided rq id p0 rest tx f a :
    rq_id rq = Some id -> rq_method rq = bs "eth_sendTransaction" -> rq_params rq = p0 :: rest ->
    decode_transaction parse_int p0 = Ok tx -> tx_from tx = Some f -> dec_address f = Ok a ->
    match nonce_decision tx a with
    | None => processRPC (Some rq) = Ok (Some (RPCErrorResponse (Some id) RPCCodeInternalError), true, pre_of tx a)
    | Some nonce =>
        match sign_with a (set_nonce tx nonce) chain with
        | Ok raw => exists resp err,
                      processRPC (Some rq) = Ok (Some resp, err, pre_of tx a ++ [raw_frame raw]) /\
                      (resp, err) = fst (SyncRequest (send_raw_request rq raw))
        | Err _ => processRPC (Some rq) = Ok (Some (RPCErrorResponse (Some id) RPCCodeInternalError), true, pre_of tx a)
        | Panic => processRPC (Some rq) = Panic
        end
    end.
  Proof.
    intros Hi Hm Hp Hd Hf Ha. rewrite (processRPC_sendTx parse_int accounts sign_with backend chain rq id Hi Hm).
    (* the signing step, once the transaction to sign and the frames so far are known *)
    assert (Sign : forall nonce fr,
               match wallet_Sign sign_with chain (set_nonce tx nonce) with
               | Ok raw => let '(res, err, frames') := SyncRequest (mkReq (rq_jsonrpc rq) (rq_id rq) (bs "eth_sendRawTransaction") [JStr (hex0x raw)]) in
                           Ok (Some res, err, fr ++ frames')
               | Err _ => Ok (Some (RPCErrorResponse (rq_id rq) RPCCodeInternalError), true, fr)
               | Panic => Panic
               end =
               match sign_with a (set_nonce tx nonce) chain with
               | Ok raw => let '(res, err, _) := SyncRequest (send_raw_request rq raw) in
                           Ok (Some res, err, fr ++ [raw_frame raw])
               | Err _ => Ok (Some (RPCErrorResponse (Some id) RPCCodeInternalError), true, fr)
               | Panic => Panic
               end).
    { intros nonce fr. unfold wallet_Sign. cbn [tx_from set_nonce]. rewrite Hf, Ha. cbn [bind].
      destruct (sign_with a _ chain) as [raw|e|]; [|rewrite Hi; reflexivity|reflexivity].
      pose proof (SyncRequest_frames backend (send_raw_request rq raw)) as Fr. unfold send_raw_request in *.
      destruct (SyncRequest _) as [[res err] frames']. cbn [snd] in Fr. subst frames'. reflexivity. }
    assert (Fin : forall nonce fr,
               match sign_with a (set_nonce tx nonce) chain with
               | Ok raw => let '(res, err, _) := SyncRequest (send_raw_request rq raw) in
                           Ok (Some res, err, fr ++ [raw_frame raw])
               | Err _ => Ok (Some (RPCErrorResponse (Some id) RPCCodeInternalError), true, fr)
               | Panic => Panic
               end = processEthSendTransaction rq ->
               match sign_with a (set_nonce tx nonce) chain with
               | Ok raw => exists resp err,
                             processEthSendTransaction rq = Ok (Some resp, err, fr ++ [raw_frame raw]) /\
                             (resp, err) = fst (SyncRequest (send_raw_request rq raw))
               | Err _ => processEthSendTransaction rq = Ok (Some (RPCErrorResponse (Some id) RPCCodeInternalError), true, fr)
               | Panic => processEthSendTransaction rq = Panic
               end).
    { intros nonce fr E. destruct (sign_with a _ chain) as [raw|e|]; [|symmetry; exact E|symmetry; exact E].
      destruct (SyncRequest (send_raw_request rq raw)) as [[res err] fr'] eqn:Es.
      exists res, err. split; [symmetry; exact E|reflexivity]. }
    unfold nonce_decision, pre_of.
    destruct (tx_nonce tx) as [n|] eqn:En.
    - apply Fin. rewrite <- Sign.
      unfold Model.processEthSendTransaction. rewrite Hp.
      cbn [length Nat.ltb Nat.leb index_list nth_error bind]. rewrite Hd, Hf, En.
      rewrite <- En, set_nonce_same. reflexivity.
    - assert (Unf : processEthSendTransaction rq =
                    match CallRPC (bs "eth_getTransactionCount") [address_json a; JStr (bs "pending")] with
                    | (inr _, frames) => Ok (Some (RPCErrorResponse (rq_id rq) RPCCodeInternalError), true, frames)
                    | (inl JNull, frames) =>
                        match wallet_Sign sign_with chain tx with
                        | Ok raw => let '(res, err, frames') := SyncRequest (mkReq (rq_jsonrpc rq) (rq_id rq) (bs "eth_sendRawTransaction") [JStr (hex0x raw)]) in
                                    Ok (Some res, err, frames ++ frames')
                        | Err _ => Ok (Some (RPCErrorResponse (rq_id rq) RPCCodeInternalError), true, frames)
                        | Panic => Panic
                        end
                    | (inl v, frames) =>
                        match dec_hexint parse_int v with
                        | Ok n =>
                            match wallet_Sign sign_with chain (set_nonce tx (Some n)) with
                            | Ok raw => let '(res, err, frames') := SyncRequest (mkReq (rq_jsonrpc rq) (rq_id rq) (bs "eth_sendRawTransaction") [JStr (hex0x raw)]) in
                                        Ok (Some res, err, frames ++ frames')
                            | Err _ => Ok (Some (RPCErrorResponse (rq_id rq) RPCCodeInternalError), true, frames)
                            | Panic => Panic
                            end
                        | _ => Ok (Some (RPCErrorResponse (rq_id rq) RPCCodeInternalError), true, frames)
                        end
                    end).
      { unfold Model.processEthSendTransaction. rewrite Hp.
        cbn [length Nat.ltb Nat.leb index_list nth_error bind]. rewrite Hd, Hf, En, Ha.
        destruct (CallRPC _ _) as [[v|u] frames]; [|reflexivity].
        destruct v; try reflexivity; destruct (dec_hexint parse_int _); reflexivity. }
      rewrite (CallRPC_value backend) in Unf. change (mkFrame _ _) with (count_frame a) in Unf.
      destruct (reply_value (backend (count_frame a))) as [v|].
      2:{ rewrite Unf, Hi. reflexivity. }
      assert (E0 : set_nonce tx None = tx) by (rewrite <- En; apply set_nonce_same).
      destruct v; try (apply Fin; rewrite <- Sign, E0; symmetry; exact Unf);
        (destruct (dec_hexint parse_int _) as [n|e|];
         [apply Fin; rewrite <- Sign; symmetry; exact Unf
         |rewrite Unf, Hi; reflexivity
         |rewrite Unf, Hi; reflexivity]).
  Qed.

  (* ISSUE 3: the backend's answer to the submission is relayed under the caller's id — result, and
     JSON-RPC error with non-zero code (with or without data), for eth_sendTransaction as for
     every other method *)
  Theorem send_tx_relays rq id p0 rest tx f a nonce raw :
    rq_id rq = Some id -> rq_method rq = bs "eth_sendTransaction" -> rq_params rq = p0 :: rest ->
    decode_transaction parse_int p0 = Ok tx -> tx_from tx = Some f -> dec_address f = Ok a ->
    nonce_decision tx a = Some nonce -> sign_with a (set_nonce tx nonce) chain = Ok raw ->
    (forall echo v,
       backend (raw_frame raw) = reply_result echo v ->
       processRPC (Some rq) = Ok (Some (mkResp (bs "2.0") (Some id) (Some v) None [] None), false,
                                  pre_of tx a ++ [raw_frame raw])) /\
    (forall status echo code_text code msg,
       backend (raw_frame raw) = error_reply status echo code_text msg ->
       parse_int64 code_text = Some code -> code <> 0%Z ->
       (status =? 204)%N = false -> is_success status || is_error status = true ->
       processRPC (Some rq) = Ok (Some (mkResp (bs "2.0") (Some id) None (Some (mkErr code msg true None)) [] None), true,
                                  pre_of tx a ++ [raw_frame raw])) /\
    (forall status echo code_text code msg data,
       backend (raw_frame raw) = error_reply_data status echo code_text msg data ->
       parse_int64 code_text = Some code -> code <> 0%Z ->
       (status =? 204)%N = false -> is_success status || is_error status = true ->
       processRPC (Some rq) = Ok (Some (mkResp (bs "2.0") (Some id) None (Some (mkErr code msg true (Some data))) [] None), true,
                                  pre_of tx a ++ [raw_frame raw])) /\
    (* ... and an uncooperative answer to the submission: -32603 under the caller's id *)
    (SyncRequest (send_raw_request rq raw) = internal_error (send_raw_request rq raw) ->
       processRPC (Some rq) = Ok (Some (RPCErrorResponse (Some id) RPCCodeInternalError), true,
                                  pre_of tx a ++ [raw_frame raw])).
  Proof.
    intros Hi Hm Hp Hd Hf Ha Hn Hs.
    pose proof (send_tx_decided rq id p0 rest tx f a Hi Hm Hp Hd Hf Ha) as D. rewrite Hn, Hs in D.
    destruct D as (resp & err & E & R).
    assert (Fr : mkFrame (rq_method (send_raw_request rq raw)) (rq_params (send_raw_request rq raw)) = raw_frame raw) by reflexivity.
    assert (Id : rq_id (send_raw_request rq raw) = Some id) by exact Hi.
    split; [|split; [|split]].
    - intros echo v Hb. rewrite <- Fr in Hb.
      rewrite (SyncRequest_result backend _ echo v Hb) in R. cbn [fst] in R. injection R as -> ->.
      rewrite E. unfold send_raw_request. cbn [rq_id]. rewrite ?Hi. reflexivity.
    - intros status echo code_text code msg Hb Hc Hnz H204 Hcls. rewrite <- Fr in Hb.
      rewrite (SyncRequest_error backend _ status echo code_text code msg Hb Hc Hnz H204 Hcls) in R.
      cbn [fst] in R. injection R as -> ->. rewrite E. unfold send_raw_request. cbn [rq_id]. rewrite ?Hi. reflexivity.
    - intros status echo code_text code msg data Hb Hc Hnz H204 Hcls. rewrite <- Fr in Hb.
      rewrite (SyncRequest_error_data backend _ status echo code_text code msg data Hb Hc Hnz H204 Hcls) in R.
      cbn [fst] in R. injection R as -> ->. rewrite E. unfold send_raw_request. cbn [rq_id]. rewrite ?Hi. reflexivity.
    - intros Hu. rewrite Hu in R. cbn [fst internal_error] in R. injection R as -> ->. rewrite E. unfold send_raw_request. cbn [rq_id]. rewrite ?Hi. reflexivity.
  Qed.

  (* ---------- ISSUE 1 at the level of processRPC: the shape of EVERY reply ---------- *)

  (* a reply to the request with id [id]: that id, and a result (err = false) or an error object
     with a non-zero code (err = true) *)
  Definition reply_well_formed (id : json) (resp : rpc_response) (err : bool) : Prop :=
    rs_id resp = Some id /\
    (err = false -> exists v, rs_result resp = Some v) /\
    (err = true -> exists e, rs_error resp = Some e /\ e_code e <> 0%Z).

  Lemma proxy_error_wf id code : code <> 0%Z -> reply_well_formed id (RPCErrorResponse (Some id) code) true.
  Proof.
    intros Hc. split; [reflexivity|]. split; [discriminate|]. intros _. eexists. split; [reflexivity|exact Hc].
  Qed.

  Lemma sync_wf rq id resp err :
    rq_id rq = Some id -> (resp, err) = fst (SyncRequest rq) -> reply_well_formed id resp err.
  Proof.
    intros Hi R. destruct (SyncRequest rq) as [[resp' err'] frames] eqn:E. cbn [fst] in R. injection R as -> ->.
    destruct (sync_reply_shape backend rq resp' err' frames E) as (I & _ & S & F).
    split; [rewrite I; exact Hi|]. split; [intros He; exact (proj1 (S He))|exact F].
  Qed.

  Lemma sendTx_malformed_code rq :
    (rq_params rq = []
     \/ exists p0 rest, rq_params rq = p0 :: rest /\
          ((exists e, decode_transaction parse_int p0 = Err e)
           \/ exists tx, decode_transaction parse_int p0 = Ok tx /\
                (tx_from tx = None \/ exists f e, tx_from tx = Some f /\ dec_address f = Err e))) ->
    exists code, code <> 0%Z /\ processEthSendTransaction rq = Ok (Some (RPCErrorResponse (rq_id rq) code), true, []).
  Proof.
    intros [Hp|(p0 & rest & Hp & Hc)]; unfold Model.processEthSendTransaction; rewrite Hp.
    - eexists; split; [|reflexivity]. discriminate.
    - cbn [length Nat.ltb Nat.leb index_list nth_error bind].
      destruct Hc as [[e He]|(tx & Hd & Hc)].
      + rewrite He. eexists; split; [|reflexivity]. discriminate.
      + rewrite Hd. destruct Hc as [Hf|(f & e & Hf & Ha)]; rewrite Hf; [eexists; split; [|reflexivity]; discriminate|].
        destruct (tx_nonce tx) as [n|].
        * unfold wallet_Sign. rewrite Hf, Ha. cbn [bind]. eexists; split; [|reflexivity]. discriminate.
        * rewrite Ha. eexists; split; [|reflexivity]. discriminate.
  Qed.

  (* every method, every backend, every wallet: a request carrying an id is answered with a
     well-formed reply — never "neither result nor error", never an error with code 0 on err *)
  Theorem reply_shape rq id o :
    rq_id rq = Some id -> processRPC (Some rq) = Ok o ->
    exists resp, o_resp o = Some resp /\ reply_well_formed id resp (o_err o).
  Proof.
    intros Hi Ho.
    destruct (special_method (rq_method rq)) eqn:Es.
    2:{ destruct (passthrough_spec parse_int accounts sign_with backend chain rq id Hi Es) as (resp & err & E & _ & R).
        rewrite E in Ho. injection Ho as <-. exists resp. split; [reflexivity|]. exact (sync_wf rq id resp err Hi R). }
    unfold special_method in Es.
    destruct (bytes_eqb (rq_method rq) (bs "eth_accounts")) eqn:E1.
    { apply bytes_eqb_eq in E1. rewrite (accounts_spec parse_int accounts sign_with backend chain rq id Hi (or_introl E1)) in Ho.
      injection Ho as <-. eexists. split; [reflexivity|]. split; [reflexivity|]. split; [eexists; reflexivity|discriminate]. }
    destruct (bytes_eqb (rq_method rq) (bs "personal_accounts")) eqn:E2.
    { apply bytes_eqb_eq in E2. rewrite (accounts_spec parse_int accounts sign_with backend chain rq id Hi (or_intror E2)) in Ho.
      injection Ho as <-. eexists. split; [reflexivity|]. split; [reflexivity|]. split; [eexists; reflexivity|discriminate]. }
    cbn [orb] in Es. apply bytes_eqb_eq in Es.
    rewrite (processRPC_sendTx parse_int accounts sign_with backend chain rq id Hi Es) in Ho.
    assert (Mal : (exists code, code <> 0%Z /\ processEthSendTransaction rq = Ok (Some (RPCErrorResponse (rq_id rq) code), true, [])) ->
                  exists resp, o_resp o = Some resp /\ reply_well_formed id resp (o_err o)).
    { intros (code & Hc & E). rewrite E in Ho. injection Ho as <-. eexists. split; [reflexivity|].
      rewrite Hi. apply proxy_error_wf. exact Hc. }
    destruct (rq_params rq) as [|p0 rest] eqn:Hp.
    { apply Mal, sendTx_malformed_code. left. exact Hp. }
    destruct (decode_transaction parse_int p0) as [tx|e|] eqn:Hd.
    2:{ apply Mal, sendTx_malformed_code. right. exists p0, rest. split; [exact Hp|]. left. eexists; exact Hd. }
    2:{ unfold Model.processEthSendTransaction in Ho. rewrite Hp in Ho.
        cbn [length Nat.ltb Nat.leb index_list nth_error bind] in Ho. rewrite Hd in Ho. discriminate. }
    destruct (tx_from tx) as [f|] eqn:Hf.
    2:{ apply Mal, sendTx_malformed_code. right. exists p0, rest. split; [exact Hp|]. right. exists tx. split; [exact Hd|]. left. exact Hf. }
    destruct (dec_address f) as [a|e|] eqn:Ha.
    2:{ apply Mal, sendTx_malformed_code. right. exists p0, rest. split; [exact Hp|]. right. exists tx. split; [exact Hd|]. right. exists f, e. auto. }
    2:{ exfalso. exact (dec_address_not_panic f Ha). }
    pose proof (send_tx_decided rq id p0 rest tx f a Hi Es Hp Hd Hf Ha) as D.
    rewrite (processRPC_sendTx parse_int accounts sign_with backend chain rq id Hi Es) in D.
    destruct (nonce_decision tx a) as [nonce|].
    2:{ rewrite D in Ho. injection Ho as <-. eexists. split; [reflexivity|]. apply proxy_error_wf. discriminate. }
    destruct (sign_with a (set_nonce tx nonce) chain) as [raw|e|].
    - destruct D as (resp & err & E & R). rewrite E in Ho. injection Ho as <-. exists resp. split; [reflexivity|].
      exact (sync_wf (send_raw_request rq raw) id resp err Hi R).
    - rewrite D in Ho. injection Ho as <-. eexists. split; [reflexivity|]. apply proxy_error_wf. discriminate.
    - rewrite D in Ho. discriminate.
  Qed.
End Send.
