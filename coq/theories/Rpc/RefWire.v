(* C09, answers to the referee report (design/reviews/C09.md), part 3:
   ISSUE 1/5 at the HTTP level — for ANY request tree the lexer yields (absent params, any member
   order, duplicate / case-folded members: whatever decode_request makes of it), the reply tree
   carries the id and a result or an error object with a non-zero code; pass-through and
   eth_sendTransaction restated from the body on the wire through [decode_request];
   ISSUE 6 — Start completely characterised ([chain_decision]) and linked to the chain id the
   request theorems are about;  ISSUE 8 — the handler returns Ok (not merely "does not panic"). *)
From Coq Require Import String.
From Coq Require Import List NArith ZArith Bool Arith Lia Permutation.
From Coq Require Import Init.Byte.
From FFS Require Import Base.Res Base.Bytes Rlp.Spec Tx.Spec Rpc.Json Rpc.Model Rpc.Spec
  Rpc.ProofsBatch Rpc.Proofs Rpc.ProofsHandler Rpc.WfProofsC09 Rpc.RefReply Rpc.RefSend.
Import ListNotations.
Local Open Scope string_scope.
Local Open Scope list_scope.

(* what a client can see in a reply tree: the id, and a result member (err = false) or an error
   member that is an error object with a non-zero code (err = true) *)
Definition tree_answers (id : json) (err : bool) (tree : json) : Prop :=
  tree_member (bs "id") tree = Some id /\
  (err = false -> exists v, tree_member (bs "result") tree = Some v) /\
  (err = true -> exists e, e_code e <> 0%Z /\ tree_member (bs "error") tree = Some (error_tree e)).

Lemma well_formed_tree id resp err :
  reply_well_formed id resp err -> tree_answers id err (response_tree resp).
Proof.
  intros (Hid & Hr & He). split; [|split].
  - rewrite response_tree_id, Hid. reflexivity.
  - intros E. destruct (Hr E) as [v Hv]. exists v. destruct resp as [j i r e m p]. cbn [rs_result] in Hv. subst r. reflexivity.
  - intros E. destruct (He E) as (e & Hs & Hc). exists e. split; [exact Hc|].
    destruct resp as [j i r e' m p]. cbn [rs_error] in Hs. subst e'. destruct r; reflexivity.
Qed.

Section Wire.
  Variable parse_int : bytes -> option Z.
  Variable lex : bytes -> option json.
  Variable accounts : list bytes.
  Variable sign_with : bytes -> transaction -> Z -> res bytes.
  Variable backend : frame -> backend_reply.
  Variable chain : Z.

  Notation processRPC := (processRPC parse_int accounts sign_with backend chain).
  Notation rpcHandler := (rpcHandler parse_int lex accounts sign_with backend chain).
  Notation run_members := (run_members parse_int accounts sign_with backend chain).
  Notation SyncRequest := (SyncRequest backend).

  (* ISSUE 1, single request, any method, any backend, any tree *)
  Theorem reply_wire body order t rq id o :
    (b2n (sniffFirstByte body) =? 91)%N = false ->
    lex body = Some t -> decode_request t = Ok rq -> rq_id rq = Some id ->
    processRPC (Some rq) = Ok o ->
    rpcHandler body order = Ok (if o_err o then 500%N else 200%N, response_opt_tree (o_resp o), [o_frames o]) /\
    tree_answers id (o_err o) (response_opt_tree (o_resp o)).
  Proof.
    intros Hs Hl Hd Hi Ho.
    destruct (reply_shape parse_int accounts sign_with backend chain rq id o Hi Ho) as (resp & Hr & Hw).
    destruct o as [[oresp err] frames]. cbn [o_resp o_err o_frames fst snd] in *. subst oresp.
    split.
    - exact (handler_single parse_int lex accounts sign_with backend chain body order t rq (Some resp) err frames Hs Hl Hd Ho).
    - apply well_formed_tree. exact Hw.
  Qed.

  (* ISSUE 1, batch: every member that carries an id is answered, at its own position, by an object
     with that id and a result or an error object with a non-zero code — every completion order *)
  Theorem reply_batch_wire body t members outs order :
    (b2n (sniffFirstByte body) =? 91)%N = true ->
    lex body = Some t -> decode_batch t = Ok members -> members <> [] ->
    run_members members = Ok outs ->
    Permutation order (seq 0 (length members)) ->
    exists status trees traces,
      rpcHandler body order = Ok (status, JArr trees, traces) /\
      Forall2 (fun m tree => forall rq id, m = Some rq -> rq_id rq = Some id -> exists err, tree_answers id err tree)
              members trees.
  Proof.
    intros Hs Hl Hd Hne Hr P.
    destruct (batch_alignment parse_int lex accounts sign_with backend chain body t members outs order Hl Hd Hne Hr P) as [E F].
    unfold Model.rpcHandler. rewrite Hs, E. do 3 eexists. split; [reflexivity|].
    clear E Hr P Hne Hd. induction F as [|m o ms os Hm F IH]; cbn [map]; constructor; auto.
    intros rq id -> Hi.
    destruct (reply_shape parse_int accounts sign_with backend chain rq id o Hi Hm) as (resp & Hr & Hw).
    exists (o_err o). rewrite Hr. cbn [response_opt_tree]. apply well_formed_tree. exact Hw.
  Qed.

  (* ISSUE 5: pass-through from the body on the wire, for whatever request the tree decodes to *)
  Theorem passthrough_wire body order t rq id :
    (b2n (sniffFirstByte body) =? 91)%N = false ->
    lex body = Some t -> decode_request t = Ok rq -> rq_id rq = Some id ->
    special_method (rq_method rq) = false ->
    exists (resp : rpc_response) (err : bool),
      rpcHandler body order = Ok (if err then 500%N else 200%N, response_tree resp,
                                  [[mkFrame (rq_method rq) (rq_params rq)]]) /\
      (resp, err) = fst (SyncRequest rq) /\
      tree_answers id err (response_tree resp).
  Proof.
    intros Hs Hl Hd Hi Hm.
    destruct (passthrough_spec parse_int accounts sign_with backend chain rq id Hi Hm) as (resp & err & E & _ & R).
    exists resp, err. split; [|split; [exact R|]].
    - exact (handler_single parse_int lex accounts sign_with backend chain body order t rq (Some resp) err _ Hs Hl Hd E).
    - apply well_formed_tree. exact (sync_wf backend rq id resp err Hi R).
  Qed.

  (* ISSUE 5 + 2: eth_sendTransaction from the body on the wire, decided by the inputs *)
  Theorem send_tx_wire body order t rq id p0 rest tx f a :
    (b2n (sniffFirstByte body) =? 91)%N = false ->
    lex body = Some t -> decode_request t = Ok rq -> rq_id rq = Some id ->
    rq_method rq = bs "eth_sendTransaction" -> rq_params rq = p0 :: rest ->
    decode_transaction parse_int p0 = Ok tx -> tx_from tx = Some f -> dec_address f = Ok a ->
    let refused := Ok (500%N, response_tree (RPCErrorResponse (Some id) RPCCodeInternalError), [pre_of tx a]) in
    match nonce_decision parse_int backend tx a with
    | None => rpcHandler body order = refused
    | Some nonce =>
        match sign_with a (set_nonce tx nonce) chain with
        | Ok raw => exists (resp : rpc_response) (err : bool),
                      rpcHandler body order = Ok (if err then 500%N else 200%N, response_tree resp,
                                                  [pre_of tx a ++ [raw_frame raw]]) /\
                      (resp, err) = fst (SyncRequest (send_raw_request rq raw)) /\
                      tree_answers id err (response_tree resp)
        | Err _ => rpcHandler body order = refused
        | Panic => rpcHandler body order = Panic
        end
    end.
  Proof.
    intros Hs Hl Hd Hi Hm Hp Hdt Hf Ha. cbv zeta.
    pose proof (send_tx_decided parse_int accounts sign_with backend chain rq id p0 rest tx f a Hi Hm Hp Hdt Hf Ha) as D.
    destruct (nonce_decision parse_int backend tx a) as [nonce|].
    2:{ exact (handler_single parse_int lex accounts sign_with backend chain body order t rq _ true _ Hs Hl Hd D). }
    destruct (sign_with a (set_nonce tx nonce) chain) as [raw|e|].
    - destruct D as (resp & err & E & R). exists resp, err. split; [|split; [exact R|]].
      + exact (handler_single parse_int lex accounts sign_with backend chain body order t rq (Some resp) err _ Hs Hl Hd E).
      + apply well_formed_tree. exact (sync_wf backend (send_raw_request rq raw) id resp err Hi R).
    - exact (handler_single parse_int lex accounts sign_with backend chain body order t rq _ true _ Hs Hl Hd D).
    - unfold Model.rpcHandler. rewrite Hs, Hl, Hd, D. reflexivity.
  Qed.

  (* ISSUE 8: with a wallet that returns, the handler returns Ok — for every body, backend and
     completion order that is a permutation of the members *)
  Theorem rpcHandler_ok body order :
    (forall a t c, sign_with a t c <> Panic) ->
    (forall t ms, lex body = Some t -> decode_batch t = Ok ms -> Permutation order (seq 0 (length ms))) ->
    exists r, rpcHandler body order = Ok r.
  Proof.
    intros Hnp Hord. unfold Model.rpcHandler.
    destruct (b2n (sniffFirstByte body) =? 91)%N.
    - unfold Model.handleRPCBatch. destruct (lex body) as [t|] eqn:El; [|eauto].
      pose proof (decode_batch_np t) as Hd. destruct (decode_batch t) as [ms|e|] eqn:Ed; [|eauto|congruence].
      destruct ms as [|m0 ms']; [eauto|].
      destruct (run_members_ok parse_int accounts sign_with backend chain Hnp (m0 :: ms')) as [outs [Er Lo]].
      assert (Hp : Permutation order (seq 0 (length (m0 :: ms')))) by (apply (Hord t); [reflexivity|exact Ed]).
      pose proof (batch_alignment parse_int lex accounts sign_with backend chain body t (m0 :: ms') outs order El Ed
                    ltac:(discriminate) Er Hp) as [E _].
      unfold Model.handleRPCBatch in E. rewrite El, Ed in E. rewrite E. eauto.
    - destruct (lex body) as [t|]; [|eauto].
      pose proof (decode_request_np t) as Hd. destruct (decode_request t) as [rq|e|]; [|eauto|congruence].
      destruct (processRPC_ok parse_int accounts sign_with backend chain Hnp (Some rq)) as [[[resp err] fr] Eo].
      rewrite Eo. cbn [bind]. eauto.
  Qed.
End Wire.

(* ---------- ISSUE 6: the chain id ---------- *)
Section Chain.
  Variable parse_int : bytes -> option Z.
  Variable backend : frame -> backend_reply.
  Notation Start := (Start parse_int backend).

  (* the chain id the proxy runs with, as a function of the configuration and of the backend's reply
     to net_version (None: the process does not come up).  Explicit: a null result gives 0; a value
     of 2^63 or more is refused (fix 0c95e98 of /repo — it used to be truncated to its low 64 bits). *)
  Definition chain_decision (configured : Z) : option Z :=
    if (configured <? 0)%Z then
      match reply_value (backend net_version_frame) with
      | None => None
      | Some JNull => Some 0%Z
      | Some v => match dec_hexint parse_int v with
                  | Ok n => if (Z.of_N n <? 9223372036854775808)%Z then Some (Z.of_N n) else None
                  | _ => None
                  end
      end
    else Some configured.

  Theorem start_decided c :
    Start c = (match chain_decision c with Some z => Ok z | None => Err EStart end,
               if (c <? 0)%Z then [net_version_frame] else []).
  Proof.
    unfold Model.Start, chain_decision. destruct (c <? 0)%Z; [|reflexivity].
    rewrite (CallRPC_value backend). change (mkFrame (bs "net_version") []) with net_version_frame.
    destruct (reply_value (backend net_version_frame)) as [v|]; [|reflexivity].
    destruct v; try reflexivity; (destruct (dec_hexint parse_int _) as [n| |]; try reflexivity;
      destruct (Z.ltb_spec (Z.of_N n) 9223372036854775808); [rewrite wrap64_small by lia|]; reflexivity).
  Qed.

  (* a discovered chain id is never negative: the hypothesis 0 <= chain of section 9 holds for it *)
  Theorem discovered_nonneg c z : (c < 0)%Z -> chain_decision c = Some z -> (0 <= z < 9223372036854775808)%Z.
  Proof.
    intros Hc. unfold chain_decision. destruct (Z.ltb_spec c 0); [|lia].
    destruct (reply_value _) as [v|]; [|discriminate].
    destruct v; try (intros E; injection E as <-; lia);
      (destruct (dec_hexint parse_int _) as [n| |]; try discriminate;
       destruct (Z.ltb_spec (Z.of_N n) 9223372036854775808); [|discriminate]; intros E; injection E as <-; lia).
  Qed.

  (* the named cases the review asks for *)
  Theorem start_cases :
    (* null result: the process comes up with chain id 0 *)
    (forall c echo, (c < 0)%Z -> backend net_version_frame = reply_result echo JNull ->
                    Start c = (Ok 0%Z, [net_version_frame])) /\
    (* a result that is not an integer text: the process does not come up *)
    (forall c echo v, (c < 0)%Z -> backend net_version_frame = reply_result echo v -> v <> JNull ->
                      (forall n, dec_hexint parse_int v <> Ok n) ->
                      Start c = (Err EStart, [net_version_frame])) /\
    (* no usable answer at all (transport failure, HTTP error, RPC error, invalid JSON ...) *)
    (forall c, (c < 0)%Z -> reply_value (backend net_version_frame) = None ->
               Start c = (Err EStart, [net_version_frame])) /\
    (* an id that fits in int64 is used as it is — no truncation *)
    (forall c echo v n, (c < 0)%Z -> backend net_version_frame = reply_result echo v -> v <> JNull ->
                        dec_hexint parse_int v = Ok n -> (Z.of_N n < 9223372036854775808)%Z ->
                        Start c = (Ok (Z.of_N n), [net_version_frame])) /\
    (* an id of 2^63 or more: the process does not come up (it is not truncated) *)
    (forall c echo v n, (c < 0)%Z -> backend net_version_frame = reply_result echo v -> v <> JNull ->
                        dec_hexint parse_int v = Ok n -> (9223372036854775808 <= Z.of_N n)%Z ->
                        Start c = (Err EStart, [net_version_frame])) /\
    (* whatever the backend answers, a chain id Start comes up with is not negative *)
    (forall c z fr, Start c = (Ok z, fr) -> (0 <= c)%Z \/ (0 <= z < 9223372036854775808)%Z).
  Proof.
    repeat split.
    - intros c echo Hc Hb. rewrite start_decided. unfold chain_decision.
      destruct (Z.ltb_spec c 0); [|lia]. rewrite Hb, reply_value_result. reflexivity.
    - intros c echo v Hc Hb Hv Hn. rewrite start_decided. unfold chain_decision.
      destruct (Z.ltb_spec c 0); [|lia]. rewrite Hb, reply_value_result.
      destruct v; try congruence; (destruct (dec_hexint parse_int _) as [n| |] eqn:E; [exfalso; exact (Hn n eq_refl)|reflexivity|reflexivity]).
    - intros c Hc Hb. rewrite start_decided. unfold chain_decision.
      destruct (Z.ltb_spec c 0); [|lia]. rewrite Hb. reflexivity.
    - intros c echo v n Hc Hb Hv Hn Hz. rewrite start_decided. unfold chain_decision.
      destruct (Z.ltb_spec c 0); [|lia]. rewrite Hb, reply_value_result.
      destruct v; try congruence; rewrite Hn; (destruct (Z.ltb_spec (Z.of_N n) 9223372036854775808); [reflexivity|lia]).
    - intros c echo v n Hc Hb Hv Hn Hz. rewrite start_decided. unfold chain_decision.
      destruct (Z.ltb_spec c 0); [|lia]. rewrite Hb, reply_value_result.
      destruct v; try congruence; rewrite Hn; (destruct (Z.ltb_spec (Z.of_N n) 9223372036854775808); [lia|reflexivity]).
    - intros c z fr E. rewrite start_decided in E.
      destruct (chain_decision c) as [z'|] eqn:Ec; [|discriminate]. injection E as <- _.
      destruct (Z.ltb_spec c 0) as [Hc|Hc]; [right|left; exact Hc].
      exact (discovered_nonneg c z' Hc Ec).
  Qed.

  (* the link: the chain id Start returns is the one the requests are then served with — theorem 1
     (C09_send_tx) for the proxy started with [configured] *)
  Theorem start_then_send_tx configured chain frames0 :
    Start configured = (Ok chain, frames0) ->
    chain_decision configured = Some chain /\
    ((0 <= configured)%Z -> chain = configured /\ frames0 = []) /\
    forall accounts sign_with H ecrecover,
      wallet_sound H ecrecover accounts sign_with chain ->
      forall rq id p0 rest tx f a,
      (forall a t c, sign_with a t c <> Panic) ->
      rq_id rq = Some id -> rq_method rq = bs "eth_sendTransaction" -> rq_params rq = p0 :: rest ->
      decode_transaction parse_int p0 = Ok tx -> tx_from tx = Some f -> dec_address f = Ok a ->
      exists resp err frames,
        processRPC parse_int accounts sign_with backend chain (Some rq) = Ok (Some resp, err, frames) /\
        rs_id resp = Some id /\
        ((exists nonce raw,
            frames = pre_of tx a ++ [raw_frame raw] /\
            nonce_decision parse_int backend tx a = Some nonce /\
            In a accounts /\
            raw_recovers_to H ecrecover raw (Z.to_N chain) a (requested_format tx)
                            (requested_fields (set_nonce tx nonce)) /\
            (resp, err) = fst (SyncRequest backend (send_raw_request rq raw)))
         \/ (frames = pre_of tx a /\ err = true /\ is_proxy_error resp (Some id))).
  Proof.
    intros E. rewrite start_decided in E.
    destruct (chain_decision configured) as [z|] eqn:Ec; [|discriminate].
    injection E as <- <-. split; [reflexivity|]. split.
    - intros Hc. unfold chain_decision in Ec. destruct (Z.ltb_spec configured 0); [lia|].
      injection Ec as <-. split; reflexivity.
    - intros accounts sign_with H ecrecover W rq id p0 rest tx f a Hnp Hi Hm Hp Hd Hf Ha.
      destruct (send_tx parse_int accounts sign_with backend z H ecrecover W rq id p0 rest tx f a Hnp Hi Hm Hp Hd Hf Ha)
        as (resp & err & frames & E & I & C).
      exists resp, err, frames. split; [exact E|]. split; [exact I|]. cbv zeta in C.
      destruct C as [(nonce & raw & Hfr & Hns & Hin & Hrec & R)|C]; [left|right; exact C].
      exists nonce, raw. split; [exact Hfr|]. split; [|auto].
      apply nonce_source_iff. exact Hns.
  Qed.
End Chain.
