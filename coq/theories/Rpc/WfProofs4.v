(* C16, round 3: every response object carries the id of the request it answers -- a single request's
   reply echoes its id, and in a batch slot i carries the id of member i (JSON null for a null member or a
   member without id), whatever the completion order of the member goroutines.  A slot written with
   the wrong index, a reply built from another member's request, or an error response built with a
   foreign id breaks these lemmas.

   The only hypothesis on the backend client is what rpcbackend.SyncRequest documents ("Restore the
   original ID"): a response it hands back carries the id of the request it was given ([sync_echo]).
   Nothing is assumed about CallRPC, the wallet or the decoders. *)
From Coq Require Import String.
From Coq Require Import List NArith ZArith Bool Lia Permutation.
From Coq Require Import Init.Byte.
From FFS Require Import Base.Res Base.Bytes Rpc.Body Rpc.WfModel Rpc.WfSpec Rpc.WfProofs Rpc.WfProofs2 Rpc.WfProofs3.
Import ListNotations.

(* the id a response to member [m] must carry: a nil member (JSON null) has none -> "id":null *)
Definition id_of (m : option request) : option jv :=
  match m with Some q => q_id q | None => None end.

(* [o] is nil, or a response carrying id [id] *)
Definition carries (id : option jv) (o : option response) : Prop :=
  forall r, o = Some r -> r_id r = id.

Definition sync_echo {W} (sync_request : W -> request -> (option response * bool) * W) : Prop :=
  forall w q, carries (q_id q) (fst (fst (sync_request w q))).

(* the reply to an unprocessable body carries the literal id 1 ("we couldn't parse the request ID") *)
Definition parse_error_id : option jv := Some (JNum (ascii_bytes "1")).

Definition id_echo_reply (body : bytes) (v : verdict) (rep : reply) : Prop :=
  (forall q, decode_single v = Ok q -> sniff_first_byte body <> open_bracket ->
             exists o, body_of rep = PSingle o /\ carries (q_id q) o) /\
  (forall reqs, decode_batch v = Ok reqs -> reqs <> [] -> sniff_first_byte body = open_bracket ->
             exists l, body_of rep = PBatch l /\ length l = length reqs /\
               forall i m, nth_error reqs i = Some m -> exists o, nth_error l i = Some o /\ carries (id_of m) o) /\
  (forall o, body_of rep = PSingle o ->
             carries parse_error_id o \/ exists q, decode_single v = Ok q /\ carries (q_id q) o).

Section Echo.
  Variable W F : Type.
  Variable sync_request : W -> request -> (option response * bool) * W.
  Variable call_nonce : W -> F -> option rpc_error * W.
  Variable get_accounts : W -> option (list bytes) * W.
  Variable sign : W -> txn_view F -> option bytes * W.
  Variable decode_txn : option jv -> option (txn_view F).
  Variable parse_from : F -> bool.
  Variable sched : W -> nat -> list nat.

  Notation processEthAccounts := (processEthAccounts W get_accounts).
  Notation processEthSendTransaction := (processEthSendTransaction W F sync_request call_nonce sign decode_txn parse_from).
  Notation processRPC := (processRPC W F sync_request call_nonce get_accounts sign decode_txn parse_from).
  Notation run_members := (run_members W F sync_request call_nonce get_accounts sign decode_txn parse_from).
  Notation handleRPCBatch := (handleRPCBatch W F sync_request call_nonce get_accounts sign decode_txn parse_from sched).
  Notation rpcHandler := (rpcHandler W F sync_request call_nonce get_accounts sign decode_txn parse_from sched).
  Notation serve := (serve W F sync_request call_nonce get_accounts sign decode_txn parse_from sched).

  Hypothesis echo : sync_echo sync_request.

  Lemma fail_with_carries w id code o err w1 :
    fail_with W w id code = Ok ((o, err), w1) -> carries id o.
  Proof. unfold fail_with. intros H. injection H as <- _ _. intros r Hr. injection Hr as <-. reflexivity. Qed.

  Lemma accounts_carries w q o err w1 : processEthAccounts w q = Ok ((o, err), w1) -> carries (q_id q) o.
  Proof.
    unfold WfModel.processEthAccounts. destruct (get_accounts w) as [[l|] w0]; intros H.
    - injection H as <- _ _. intros r Hr. injection Hr as <-. reflexivity.
    - eapply fail_with_carries; exact H.
  Qed.

  Lemma sync_carries w q id o err w1 : q_id q = id -> sync_request w q = ((o, err), w1) -> carries id o.
  Proof. intros <- H. pose proof (echo w q) as E. rewrite H in E. exact E. Qed.

  Lemma sendtx_carries w q o err w1 : processEthSendTransaction w q = Ok ((o, err), w1) -> carries (q_id q) o.
  Proof.
    unfold WfModel.processEthSendTransaction.
    destruct (q_params q) as [|p0 ps]; simpl.
    - apply fail_with_carries.
    - destruct (decode_txn p0) as [txn|]; [|apply fail_with_carries].
      destruct (tv_from txn) as [from|]; [|apply fail_with_carries].
      destruct (tv_has_nonce txn); simpl.
      + destruct (sign w txn) as [[raw|] w2]; intros H; [|eapply fail_with_carries; exact H].
        injection H as H. eapply sync_carries; [|exact H]. reflexivity.
      + destruct (parse_from from); simpl; [|apply fail_with_carries].
        destruct (call_nonce w from) as [[e|] w0]; [apply fail_with_carries|].
        destruct (sign w0 txn) as [[raw|] w2]; intros H; [|eapply fail_with_carries; exact H].
        injection H as H. eapply sync_carries; [|exact H]. reflexivity.
  Qed.

  Lemma processRPC_carries w m o err w1 : processRPC w m = Ok ((o, err), w1) -> carries (id_of m) o.
  Proof.
    unfold WfModel.processRPC, id_of. destruct m as [q|]; simpl; [|apply fail_with_carries].
    destruct (q_id q) as [id|] eqn:Eid.
    2:{ intros H. apply fail_with_carries in H. exact H. }
    destruct (bytes_eqb (q_method q) m_eth_accounts || bytes_eqb (q_method q) m_personal_accounts).
    - intros H. apply accounts_carries in H. rewrite Eid in H. exact H.
    - destruct (bytes_eqb (q_method q) m_eth_sendTransaction).
      + intros H. apply sendtx_carries in H. rewrite Eid in H. exact H.
      + intros H. injection H as H. eapply sync_carries; [|exact H]. exact Eid.
  Qed.

  (* whatever the completion order, slot i ends up carrying the id of member i *)
  Lemma run_members_ids order : forall w reqs slots failed slots' failed' w',
    run_members w reqs order slots failed = Ok (slots', failed', w') ->
    length slots = length reqs ->
    length slots' = length reqs /\
    forall i, (In i order -> exists m o, nth_error reqs i = Some m /\ nth_error slots' i = Some o /\ carries (id_of m) o) /\
              (~ In i order -> nth_error slots' i = nth_error slots i).
  Proof.
    induction order as [|i0 rest IH]; intros w reqs slots failed slots' failed' w' H L; simpl in H.
    - injection H as <- _ _. split; [exact L|]. intros i. split; [intros []|reflexivity].
    - unfold index_list in H. destruct (nth_error reqs i0) as [r|] eqn:Er; simpl in H; [|discriminate].
      destruct (processRPC w r) as [[[resp err] w1]| |] eqn:Ep; simpl in H; try discriminate.
      destruct (set_slot slots i0 resp) as [s1| |] eqn:Es; simpl in H; try discriminate.
      assert (L1 : length s1 = length reqs).
      { assert (Hlt : (i0 < length slots)%nat).
        { rewrite L. apply nth_error_Some. congruence. }
        destruct (set_slot_ok slots i0 resp Hlt) as [s1' [Es' Ls']]. rewrite Es in Es'. injection Es' as <-. lia. }
      destruct (IH _ _ _ _ _ _ _ H L1) as [L' HI]. split; [exact L'|].
      destruct (set_slot_nth _ _ _ _ Es) as [Hat Hother].
      intros i. split.
      + intros [->|Hin].
        * destruct (in_dec Nat.eq_dec i rest) as [Hr|Hr].
          -- apply (proj1 (HI i)). exact Hr.
          -- exists r, resp. split; [exact Er|]. split.
             ++ rewrite (proj2 (HI i) Hr). exact Hat.
             ++ apply processRPC_carries in Ep. exact Ep.
        * apply (proj1 (HI i)). exact Hin.
      + intros Hn. assert (Hr : ~ In i rest) by (intros X; apply Hn; right; exact X).
        rewrite (proj2 (HI i) Hr). apply Hother. intros ->. apply Hn. left. reflexivity.
  Qed.

  Hypothesis sched_perm : forall w n, Permutation (sched w n) (seq 0 n).

  Lemma handleRPCBatch_ids w v rep w' : handleRPCBatch w v = Ok (rep, w') ->
    (rep = parse_error_reply /\ match decode_batch v with Ok [] | Err _ => True | _ => False end) \/
    (exists reqs l, decode_batch v = Ok reqs /\ reqs <> [] /\ body_of rep = PBatch l /\ length l = length reqs /\
       forall i m, nth_error reqs i = Some m -> exists o, nth_error l i = Some o /\ carries (id_of m) o).
  Proof.
    unfold WfModel.handleRPCBatch. destruct (decode_batch v) as [reqs|e|] eqn:E; try discriminate.
    2:{ intros H. injection H as <- _. left. auto. }
    destruct reqs as [|r0 reqs']. { intros H. injection H as <- _. left. auto. }
    set (reqs := r0 :: reqs'). set (n := length reqs).
    destruct (run_members w reqs (sched w n) (repeat None n) false) as [[[slots f] w1]| |] eqn:Er; simpl; try discriminate.
    intros H. injection H as <- _. right. exists reqs, slots.
    destruct (run_members_ids _ _ _ _ _ _ _ _ Er (repeat_length _ _)) as [L HI].
    split; [reflexivity|]. split; [discriminate|]. split; [reflexivity|]. split; [exact L|].
    intros i m Hm.
    assert (Hin : In i (sched w n)).
    { apply (Permutation_in _ (Permutation_sym (sched_perm w n))). apply in_seq.
      assert (i < length reqs)%nat by (apply nth_error_Some; congruence). unfold n. lia. }
    destruct (proj1 (HI i) Hin) as [m' [o [Hm' [Ho Ha]]]].
    rewrite Hm in Hm'. injection Hm' as <-. eauto.
  Qed.

  Lemma parse_error_carries : carries parse_error_id (Some (RPCErrorResponse (Some (JNum (ascii_bytes "1"))) RPCCodeInvalidRequest)).
  Proof. intros r Hr. injection Hr as <-. reflexivity. Qed.

  Theorem rpcHandler_id_echo w body v rep w' :
    rpcHandler w body v = Ok (rep, w') -> id_echo_reply body v rep.
  Proof.
    intros H. unfold WfModel.rpcHandler in H.
    destruct (byte_eqb (sniff_first_byte body) open_bracket) eqn:ES.
    - (* batch path *)
      assert (Esn : sniff_first_byte body = open_bracket).
      { destruct (byte_eqb_spec (sniff_first_byte body) open_bracket); [assumption|discriminate]. }
      destruct (handleRPCBatch_ids _ _ _ _ H) as [[-> Hd]|[reqs [l [Ed [NE [Eb [L HA]]]]]]].
      + split; [intros q _ Hn; contradiction|]. split.
        * intros reqs Ed NE _. rewrite Ed in Hd. destruct reqs; [congruence|contradiction].
        * intros o Ho. simpl in Ho. injection Ho as <-. left. apply parse_error_carries.
      + split; [intros q _ Hn; contradiction|]. split.
        * intros reqs' Ed' _ _. rewrite Ed in Ed'. injection Ed' as <-. exists l. auto.
        * intros o Ho. rewrite Eb in Ho. discriminate.
    - (* single path *)
      assert (Esn : sniff_first_byte body <> open_bracket).
      { intros E. rewrite E in ES. destruct (byte_eqb_spec open_bracket open_bracket); [discriminate|congruence]. }
      destruct (decode_single v) as [q|e|] eqn:Ed; try discriminate.
      + destruct (processRPC w (Some q)) as [[[resp err] w1]| |] eqn:Ep; simpl in H; try discriminate.
        injection H as <- _. simpl. apply processRPC_carries in Ep. simpl in Ep.
        split; [intros q' Eq _; rewrite Ed in Eq; injection Eq as <-; exists resp; split; [reflexivity|exact Ep]|]. split; [intros reqs _ _ E; contradiction|].
        intros o Ho. injection Ho as <-. right. exists q. split; [exact Ed|exact Ep].
      + injection H as <- _. split; [intros q' Eq; rewrite Ed in Eq; discriminate|]. split; [intros reqs _ _ E; contradiction|].
        intros o Ho. simpl in Ho. injection Ho as <-. left. apply parse_error_carries.
  Qed.

  Theorem rpcHandler_answers_id_echo w body v :
    exists rep w', rpcHandler w body v = Ok (rep, w') /\ id_echo_reply body v rep.
  Proof.
    destruct (rpcHandler_returns W F sync_request call_nonce get_accounts sign decode_txn parse_from sched sched_perm w body v)
      as [rep [w' H]].
    exists rep, w'. split; [exact H|]. eapply rpcHandler_id_echo; exact H.
  Qed.
End Echo.

Section EchoHistory.
  Variable W F : Type.
  Variable sync_request : W -> request -> (option response * bool) * W.
  Variable call_nonce : W -> F -> option rpc_error * W.
  Variable get_accounts : W -> option (list bytes) * W.
  Variable sign : W -> txn_view F -> option bytes * W.
  Variable decode_txn : option jv -> option (txn_view F).
  Variable parse_from : F -> bool.
  Variable sched : W -> nat -> list nat.
  Notation rpcHandler := (rpcHandler W F sync_request call_nonce get_accounts sign decode_txn parse_from sched).
  Notation serve := (serve W F sync_request call_nonce get_accounts sign decode_txn parse_from sched).
  Hypothesis echo : sync_echo sync_request.
  Hypothesis sched_perm : forall w n, Permutation (sched w n) (seq 0 n).

  (* histories: every reply of every finite sequence of bodies served by one process echoes the ids of
     the request it answers -- nothing a request does can make a later reply carry a foreign id *)
  Theorem serve_history_ids h : forall w,
    exists reps w', serve w h = Ok (reps, w') /\
      Forall2 (fun bv rep => id_echo_reply (fst bv) (snd bv) rep) h reps.
  Proof.
    induction h as [|[b v] t IH]; intros w; simpl.
    - eexists _, _. split; [reflexivity|constructor].
    - destruct (rpcHandler_returns W F sync_request call_nonce get_accounts sign decode_txn parse_from sched sched_perm w b v)
        as [rep [w1 E]].
      rewrite E. simpl. destruct (IH w1) as [reps [w2 [E2 F2]]]. rewrite E2. simpl.
      eexists _, _. split; [reflexivity|]. constructor; [|exact F2]. simpl.
      eapply rpcHandler_id_echo; [exact echo|exact sched_perm|exact E].
  Qed.
End EchoHistory.
