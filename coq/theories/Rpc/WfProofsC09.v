(* C16 proofs, part 4 (builder b-c16): totality restated over b-c09's concrete model Rpc/Model.v, in which
   Backend.SyncRequest / CallRPC (pkg/rpcbackend after f4f787a, 9edb119), the wallet and the transaction
   decoding are modelled rather than abstract.  There the statement also covers the nil-response paths of
   SyncRequest (a backend answering the JSON literal null, HTTP errors with and without bodies,
   connection failures): whatever the backend answers to whatever frame, the handler does not panic. *)
From Coq Require Import String.
From Coq Require Import List NArith ZArith Bool Arith Lia Permutation.
From Coq Require Import Init.Byte.
From FFS Require Import Base.Res Base.Bytes Rpc.Json Rpc.Model Rpc.ProofsBatch.
Import ListNotations.

Ltac no_panic_step :=
  match goal with
  | |- context [match ?x with _ => _ end] => destruct x eqn:?; try discriminate
  | |- context [if ?c then _ else _] => destruct c eqn:?; try discriminate
  end.

Section Decoders.
  Variable parse_int : bytes -> option Z.

  Lemma dec_hexint_np v : dec_hexint parse_int v <> Panic.
  Proof. unfold dec_hexint. repeat no_panic_step; discriminate. Qed.
  Lemma dec_hexint_ptr_np v : dec_hexint_ptr parse_int v <> Panic.
  Proof.
    unfold dec_hexint_ptr. destruct v; try discriminate;
      (apply bind_not_panic; [apply dec_hexint_np|intros; discriminate]).
  Qed.
  Lemma address_of_string_np s : address_of_string s <> Panic.
  Proof. unfold address_of_string. repeat no_panic_step; discriminate. Qed.
  Lemma dec_address_np v : dec_address v <> Panic.
  Proof. unfold dec_address. destruct v; try discriminate; apply address_of_string_np. Qed.
  Lemma dec_address_ptr_np v : dec_address_ptr v <> Panic.
  Proof.
    unfold dec_address_ptr. destruct v; try discriminate;
      (apply bind_not_panic; [apply dec_address_np|intros; discriminate]).
  Qed.
  Lemma dec_hexbytes_np v : dec_hexbytes v <> Panic.
  Proof. unfold dec_hexbytes. repeat no_panic_step; discriminate. Qed.

  Lemma tx_member_np kv t : tx_member parse_int kv t <> Panic.
  Proof.
    unfold tx_member. destruct kv as [k v].
    repeat match goal with
           | |- (if ?c then _ else _) <> _ => destruct c
           end; try discriminate;
      (apply bind_not_panic; [first [apply dec_hexint_ptr_np|apply dec_address_ptr_np|apply dec_hexbytes_np]|intros; discriminate]).
  Qed.

  Lemma tx_members_np m : forall t, tx_members parse_int m t <> Panic.
  Proof.
    induction m as [|kv rest IH]; intros t; simpl; [discriminate|].
    pose proof (tx_member_np kv t) as Hn. destruct (tx_member parse_int kv t); simpl; try congruence; try apply IH.
  Qed.

  Lemma decode_transaction_np p : decode_transaction parse_int p <> Panic.
  Proof. destruct p; simpl; try discriminate. apply tx_members_np. Qed.
End Decoders.

Lemma decode_request_np t : decode_request t <> Panic.
Proof.
  unfold decode_request. destruct t; try discriminate.
  destruct (fold_left _ _ _) as [r bad]. destruct bad; discriminate.
Qed.

Lemma decode_members_np l : decode_members l <> Panic.
Proof.
  induction l as [|x t IH]; simpl; [discriminate|].
  destruct x; try (apply bind_not_panic; [exact IH|intros; discriminate]);
    (apply bind_not_panic; [apply decode_request_np|intros; apply bind_not_panic; [exact IH|intros; discriminate]]).
Qed.

Lemma decode_batch_np t : decode_batch t <> Panic.
Proof. destruct t; simpl; try discriminate. apply decode_members_np. Qed.

Section Concrete.
  Variable parse_int : bytes -> option Z.
  Variable lex : bytes -> option json.
  Variable accounts : list bytes.
  Variable sign_with : bytes -> transaction -> Z -> res bytes.
  Variable backend : frame -> backend_reply.
  Variable chain : Z.
  (* the signer (pkg/fswallet + pkg/ethsigner, properties C08 / C01) returns; it is not C16's subject *)
  Hypothesis sign_returns : forall a t c, sign_with a t c <> Panic.

  Notation processEthSendTransaction := (processEthSendTransaction parse_int sign_with backend chain).
  Notation processRPC := (processRPC parse_int accounts sign_with backend chain).
  Notation run_members := (run_members parse_int accounts sign_with backend chain).
  Notation handleRPCBatch := (handleRPCBatch parse_int lex accounts sign_with backend chain).
  Notation rpcHandler := (Model.rpcHandler parse_int lex accounts sign_with backend chain).

  Lemma wallet_Sign_np t : wallet_Sign sign_with chain t <> Panic.
  Proof.
    unfold wallet_Sign. destruct (tx_from t) as [f|]; [|discriminate].
    pose proof (dec_address_np f) as Hn. destruct (dec_address f); simpl; try congruence; try apply sign_returns.
  Qed.

  Lemma sign_and_send_ok rq tx fr : exists o : outcome,
    match wallet_Sign sign_with chain tx with
    | Ok raw => let '(res, err, frames') := SyncRequest backend (mkReq (rq_jsonrpc rq) (rq_id rq) (bs "eth_sendRawTransaction") [JStr (hex0x raw)]) in
                Ok (Some res, err, fr ++ frames')
    | Err _ => Ok (Some (RPCErrorResponse (rq_id rq) RPCCodeInternalError), true, fr)
    | Panic => Panic
    end = Ok o.
  Proof.
    pose proof (wallet_Sign_np tx) as Hs. destruct (wallet_Sign sign_with chain tx) as [raw|e|]; [|eauto|congruence].
    destruct (SyncRequest backend _) as [[res err] fr']. eauto.
  Qed.

  Lemma processEthSendTransaction_ok rq : exists o, processEthSendTransaction rq = Ok o.
  Proof.
    unfold Model.processEthSendTransaction.
    destruct (length (rq_params rq) <? 1)%nat eqn:E; [eauto|].
    apply Nat.ltb_ge in E. unfold index_list.
    destruct (nth_error (rq_params rq) 0) as [p0|] eqn:E0; [|apply nth_error_None in E0; lia]. simpl.
    pose proof (decode_transaction_np parse_int p0) as Hd.
    destruct (decode_transaction parse_int p0) as [txn| |]; [|eauto|congruence].
    destruct (tx_from txn) as [from_raw|]; [|eauto].
    destruct (tx_nonce txn); [apply sign_and_send_ok|].
    pose proof (dec_address_np from_raw) as Ha. destruct (dec_address from_raw) as [from| |]; [|eauto|congruence].
    match goal with |- context [CallRPC backend ?m ?p] => destruct (CallRPC backend m p) as [[v|u] frames] end; [|eauto].
    destruct v; try apply sign_and_send_ok;
      match goal with
      | |- context [dec_hexint parse_int ?v] =>
          pose proof (dec_hexint_np parse_int v) as Hh; destruct (dec_hexint parse_int v); [apply sign_and_send_ok|eauto|congruence]
      end.
  Qed.

  Lemma processRPC_ok m : exists o, processRPC m = Ok o.
  Proof.
    unfold Model.processRPC. destruct m as [rq|]; [|eauto].
    destruct (rq_id rq); [|eauto].
    destruct (_ || _); [eauto|].
    destruct (bytes_eqb _ _); [apply processEthSendTransaction_ok|].
    destruct (SyncRequest backend rq) as [[res err] fr]. eauto.
  Qed.

  Lemma run_members_ok l : exists outs, run_members l = Ok outs /\ length outs = length l.
  Proof.
    induction l as [|m t [outs [E L]]]; simpl; [eauto|].
    destruct (processRPC_ok m) as [o Eo]. rewrite Eo. simpl. rewrite E. simpl.
    eexists; split; [reflexivity|simpl; lia].
  Qed.

  (* every body, every backend, every completion order of the members of the batch it decodes to *)
  Theorem rpcHandler_total_concrete body order :
    (forall t ms, lex body = Some t -> decode_batch t = Ok ms -> Permutation order (seq 0 (length ms))) ->
    rpcHandler body order <> Panic.
  Proof.
    intros Hord. unfold Model.rpcHandler.
    destruct (b2n (sniffFirstByte body) =? 91)%N.
    - unfold Model.handleRPCBatch. destruct (lex body) as [t|] eqn:El; [|discriminate].
      pose proof (decode_batch_np t) as Hd. destruct (decode_batch t) as [ms|e|] eqn:Ed; try discriminate; [|congruence].
      destruct ms as [|m0 ms']; [discriminate|].
      destruct (run_members_ok (m0 :: ms')) as [outs [Er Lo]]. rewrite Er. simpl.
      assert (Hp : Permutation order (seq 0 (length outs))).
      { rewrite Lo. apply (Hord t); [reflexivity|exact Ed]. }
      replace (None :: map (fun _ : option rpc_request => None) ms')
        with (map (fun _ : outcome => @None rpc_response) outs).
      2:{ change (None :: map (fun _ : option rpc_request => None) ms') with (map (fun _ : option rpc_request => @None rpc_response) (m0 :: ms')).
          clear -Lo. revert Lo. generalize (m0 :: ms'). intros l. revert outs.
          induction l as [|x l IH]; intros [|o outs] L; simpl in *; try lia; [reflexivity|]. f_equal. apply IH. lia. }
      rewrite (complete_any_order outs order Hp). discriminate.
    - destruct (lex body) as [t|]; [|discriminate].
      pose proof (decode_request_np t) as Hd. destruct (decode_request t) as [rq|e|]; try discriminate; [|congruence].
      destruct (processRPC_ok (Some rq)) as [[[resp err] fr] Eo]. rewrite Eo. discriminate.
  Qed.

  (* ---- never null, concretely: "malformed from" etc. have their real meaning here ---- *)
  (* requests that cannot be processed: a null member; no (or null) id; eth_sendTransaction without a first
     parameter, with one that does not decode into a transaction, without `from`, or -- when the nonce has
     to be looked up -- with a `from` that is not 20 hex-encoded bytes *)
  Definition must_fail_c (m : option rpc_request) : bool :=
    match m with
    | None => true
    | Some rq =>
        match rq_id rq with
        | None => true
        | Some _ =>
            if bytes_eqb (rq_method rq) (bs "eth_sendTransaction") then
              match rq_params rq with
              | [] => true
              | p0 :: _ =>
                  match decode_transaction parse_int p0 with
                  | Ok tx =>
                      match tx_from tx with
                      | None => true
                      | Some f => match tx_nonce tx with
                                  | Some _ => false
                                  | None => negb (is_ok (dec_address f))
                                  end
                      end
                  | _ => true
                  end
              end
            else false
        end
    end.

  (* the reply (or the slot of a batch reply) is the serialisation of an error response built by the proxy:
     {"jsonrpc":"2.0","id":..,"error":{"code":..,"message":..}} -- an object, never null *)
  Definition error_reply_tree (t : json) : Prop :=
    exists id code, t = response_tree (RPCErrorResponse id code).

  Lemma processRPC_must_fail_c m o :
    processRPC m = Ok o -> must_fail_c m = true -> exists id code, o_resp o = Some (RPCErrorResponse id code).
  Proof.
    unfold Model.processRPC, must_fail_c. destruct m as [rq|].
    2:{ intros H _. injection H as <-. unfold o_resp; simpl; eauto. }
    destruct (rq_id rq) as [id|].
    2:{ intros H _. injection H as <-. unfold o_resp; simpl; eauto. }
    destruct (bytes_eqb (rq_method rq) (bs "eth_accounts") || bytes_eqb (rq_method rq) (bs "personal_accounts")) eqn:EA.
    { intros _ Hm. exfalso.
      destruct (bytes_eqb (rq_method rq) (bs "eth_sendTransaction")) eqn:ES; [|discriminate].
      destruct (bytes_eqb_spec (rq_method rq) (bs "eth_sendTransaction")) as [Em|]; [|discriminate].
      rewrite Em in EA. vm_compute in EA. discriminate. }
    destruct (bytes_eqb (rq_method rq) (bs "eth_sendTransaction")); [|discriminate].
    unfold Model.processEthSendTransaction.
    destruct (rq_params rq) as [|p0 ps]; simpl.
    { intros H _. injection H as <-. unfold o_resp; simpl; eauto. }
    destruct (decode_transaction parse_int p0) as [tx|e|].
    2:{ intros H _. injection H as <-. unfold o_resp; simpl; eauto. }
    2:{ discriminate. }
    destruct (tx_from tx) as [f|].
    2:{ intros H _. injection H as <-. unfold o_resp; simpl; eauto. }
    destruct (tx_nonce tx); [discriminate|].
    destruct (dec_address f) as [a|e|]; simpl; [discriminate| |discriminate].
    intros H _. injection H as <-. unfold o_resp; simpl; eauto.
  Qed.

  Theorem never_null_concrete :
    (* a body the lexer rejects *)
    (forall body order, lex body = None -> rpcHandler body order = Ok replyRPCParseError) /\
    (* a tree that is neither a request nor a non-empty batch of requests *)
    (forall body order t e, lex body = Some t -> decode_request t = Err e ->
        (decode_batch t = Ok [] \/ exists e', decode_batch t = Err e') ->
        rpcHandler body order = Ok replyRPCParseError) /\
    (* a single request that cannot be processed *)
    (forall body order t rq, (b2n (sniffFirstByte body) =? 91)%N = false ->
        lex body = Some t -> decode_request t = Ok rq -> must_fail_c (Some rq) = true ->
        exists status tree traces, rpcHandler body order = Ok (status, tree, traces) /\ error_reply_tree tree) /\
    (* a batch: one slot per member, and the slot of a member that cannot be processed holds an error object *)
    (forall body order t members, (b2n (sniffFirstByte body) =? 91)%N = true ->
        lex body = Some t -> decode_batch t = Ok members -> members <> [] ->
        Permutation order (seq 0 (length members)) ->
        exists status slots traces, rpcHandler body order = Ok (status, JArr slots, traces) /\
          length slots = length members /\
          forall i m, nth_error members i = Some m -> must_fail_c m = true ->
                      exists s, nth_error slots i = Some s /\ error_reply_tree s).
  Proof.
    split; [|split; [|split]].
    - intros body order Hl. unfold Model.rpcHandler, Model.handleRPCBatch. rewrite Hl.
      destruct (_ =? _)%N; reflexivity.
    - intros body order t e Hl Hr Hb. unfold Model.rpcHandler, Model.handleRPCBatch. rewrite Hl, Hr.
      destruct (_ =? _)%N; [|reflexivity].
      destruct Hb as [-> | [e' ->]]; reflexivity.
    - intros body order t rq Hs Hl Hd Hm. unfold Model.rpcHandler. rewrite Hs, Hl, Hd.
      destruct (processRPC_ok (Some rq)) as [o Eo]. rewrite Eo.
      destruct (processRPC_must_fail_c _ _ Eo Hm) as [id [code Er]].
      destruct o as [[resp err] fr]. unfold o_resp in Er. simpl in Er. subst resp. simpl.
      eexists _, _, _. split; [reflexivity|]. unfold error_reply_tree; eauto.
    - intros body order t members Hs Hl Hd Hne P. unfold Model.rpcHandler. rewrite Hs.
      destruct (run_members_ok members) as [outs [Er Lo]].
      destruct (batch_alignment parse_int lex accounts sign_with backend chain body t members outs order Hl Hd Hne Er P) as [E F].
      rewrite E. eexists _, _, _. split; [reflexivity|]. split; [rewrite map_length; exact Lo|].
      intros i m Hi Hm.
      assert (Ho : exists o, nth_error outs i = Some o /\ processRPC m = Ok o).
      { clear -F Hi. revert i Hi. induction F as [|m0 o0 ms os H0 _ IH]; intros [|i] Hi; simpl in Hi; try discriminate.
        - injection Hi as Hi. subst. exists o0. split; [reflexivity|assumption].
        - apply IH. exact Hi. }
      destruct Ho as [o [Hoi Ep]].
      destruct (processRPC_must_fail_c _ _ Ep Hm) as [id [code Er']].
      exists (response_opt_tree (o_resp o)). split.
      + rewrite nth_error_map, Hoi. reflexivity.
      + rewrite Er'. unfold error_reply_tree; simpl; eauto.
  Qed.
End Concrete.
