(* C09, answers to the referee report (design/reviews/C09.md), part 1: what the proxy makes of the
   backend's answer — for EVERY answer, cooperative or not.

   * [reply_value]: which answers count as "the backend reported the value v" (written on the backend's
     reply itself: status, content type, body) and [CallRPC_value]: CallRPC yields exactly that.
   * [sync_reply_shape]: whatever the backend does, the response carries the caller's id and either a
     result (no error) or an error object with a non-zero code (err = true).
   * [sync_uncooperative]: transport failure, HTTP >= 400 without a JSON-RPC error, invalid JSON, the
     JSON literal null: a fresh -32603 error object under the caller's id, err = true, one frame.
   * [sync_relay_general]: a JSON answer is relayed member for member (result, error incl. data,
     method, params) with only the id replaced; [SyncRequest_error_data]: the error relay with a
     data member. *)
From Coq Require Import String.
From Coq Require Import List NArith ZArith Bool Arith Lia.
From Coq Require Import Init.Byte.
From FFS Require Import Base.Res Base.Bytes Rpc.Json Rpc.Model Rpc.ProofsBatch Rpc.Proofs.
Import ListNotations.
Local Open Scope string_scope.
Local Open Scope list_scope.

(* What value, if any, the backend's answer reports to a caller of CallRPC: a function of the reply
   alone.  HTTP 2xx with a JSON object that decodes, carries no error object with a non-zero code:
   its result member (null when absent).  The degenerate successes the code also accepts are
   explicit: 204, a non-JSON content type below 400, a status that is neither 2xx nor >= 400 — all
   read as null. *)
Definition reply_value (rep : backend_reply) : option json :=
  match rep with
  | BConnFail => None
  | BHttp s body =>
      if (s =? 204)%N then Some JNull
      else if is_error s then None
      else match body with
           | BNotJson => Some JNull
           | BBadJson => if is_success s then None else Some JNull
           | BJson t =>
               if is_success s then
                 match t with
                 | JNull => None
                 | _ => let '(r, bad) := decode_response t zero_response in
                        if bad then None
                        else if error_code_nonzero r then None
                        else Some (match rs_result r with Some v => v | None => JNull end)
                 end
               else Some JNull
           end
  end.

Lemma ecn_set_id r id : error_code_nonzero (set_id r id) = error_code_nonzero r.
Proof. reflexivity. Qed.

Lemma ecn_true r : error_code_nonzero r = true -> exists e, rs_error r = Some e /\ e_code e <> 0%Z.
Proof.
  unfold error_code_nonzero. destruct (rs_error r) as [e|]; [|discriminate].
  intros H. exists e. split; [reflexivity|]. destruct (Z.eqb_spec (e_code e) 0); [discriminate|assumption].
Qed.

Definition frame_of (rq : rpc_request) : frame := mkFrame (rq_method rq) (rq_params rq).

(* the fresh error object of the proxy for an answer it cannot use *)
Definition internal_error (rq : rpc_request) : rpc_response * bool * list frame :=
  (RPCErrorResponse (rq_id rq) RPCCodeInternalError, true, [frame_of rq]).

(* result member filled with null when absent *)
Definition fill_result (r : rpc_response) : rpc_response :=
  match rs_result r with None => set_result r (Some JNull) | Some _ => r end.

Section Reply.
  Variable backend : frame -> backend_reply.
  Notation SyncRequest := (SyncRequest backend).
  Notation CallRPC := (CallRPC backend).

  (* SyncRequest as a function of the typed decoding of the answer: the three outcomes *)
  Lemma sync_cases rq :
    SyncRequest rq = internal_error rq \/
    (exists r, error_code_nonzero r = true /\ SyncRequest rq = (set_id r (rq_id rq), true, [frame_of rq])) \/
    (exists r, error_code_nonzero r = false /\ SyncRequest rq = (fill_result (set_id r (rq_id rq)), false, [frame_of rq])).
  Proof.
    unfold Model.SyncRequest, internal_error, frame_of.
    destruct (resty_exchange (backend _)) as [[status [ores err]]|]; [|left; reflexivity].
    destruct ores as [r|]; [|left; reflexivity].
    destruct err; [left; reflexivity|].
    destruct (error_code_nonzero (set_id r (rq_id rq))) eqn:En.
    - rewrite orb_true_r. right. left. exists r. split; [exact En|reflexivity].
    - rewrite orb_false_r. destruct (is_error status); [left; reflexivity|].
      right. right. exists r. split; [exact En|reflexivity].
  Qed.

  (* ISSUE 1 (general part): whatever the backend answers — the caller's id, exactly one frame, and
     either a result without an error of non-zero code (err = false) or an error object with a
     non-zero code (err = true).  There is no third shape. *)
  Theorem sync_reply_shape rq resp err frames :
    SyncRequest rq = (resp, err, frames) ->
    rs_id resp = rq_id rq /\ frames = [frame_of rq] /\
    (err = false -> (exists v, rs_result resp = Some v) /\ error_code_nonzero resp = false) /\
    (err = true -> exists e, rs_error resp = Some e /\ e_code e <> 0%Z).
  Proof.
    intros E.
    destruct (sync_cases rq) as [C|[(r & En & C)|(r & En & C)]]; rewrite C in E; injection E as <- <- <-.
    - split; [reflexivity|]. split; [reflexivity|]. split; [discriminate|].
      intros _. eexists. split; [reflexivity|]. discriminate.
    - split; [reflexivity|]. split; [reflexivity|]. split; [discriminate|].
      intros _. apply (ecn_true (set_id r (rq_id rq))). exact En.
    - split; [unfold fill_result; destruct (rs_result (set_id r (rq_id rq))); reflexivity|].
      split; [reflexivity|]. split; [|discriminate]. intros _. split.
      + unfold fill_result. destruct (rs_result (set_id r (rq_id rq))) as [v|] eqn:Er.
        * exists v. exact Er.
        * exists JNull. reflexivity.
      + unfold fill_result. destruct (rs_result (set_id r (rq_id rq))); exact En.
  Qed.

  (* ISSUE 1 (named cases): the uncooperative backends of the property text.  Each yields the fresh
     -32603 error object under the caller's id, err = true (HTTP 500 for a single request), and the
     one frame that was sent. *)
  Theorem sync_uncooperative rq :
    let rep := backend (frame_of rq) in
    (* connection refused / reset / timeout *)
    (rep = BConnFail -> SyncRequest rq = internal_error rq) /\
    (* a body that is not valid JSON (the empty body included), on 2xx or on HTTP >= 400 *)
    (forall s, rep = BHttp s BBadJson -> (s =? 204)%N = false -> is_success s || is_error s = true ->
               SyncRequest rq = internal_error rq) /\
    (* HTTP >= 400 with a non-JSON content type (text/plain, text/html ...) *)
    (forall s, rep = BHttp s BNotJson -> is_error s = true -> SyncRequest rq = internal_error rq) /\
    (* 2xx with the JSON literal null *)
    (forall s, rep = BHttp s (BJson JNull) -> (s =? 204)%N = false -> is_success s = true ->
               SyncRequest rq = internal_error rq) /\
    (* 2xx with JSON of the wrong type (a member that does not fit its field) *)
    (forall s t, rep = BHttp s (BJson t) -> (s =? 204)%N = false -> is_success s = true -> t <> JNull ->
                 snd (decode_response t zero_response) = true -> SyncRequest rq = internal_error rq) /\
    (* HTTP >= 400 with a JSON body that carries no JSON-RPC error object, or one with code 0 *)
    (forall s t, rep = BHttp s (BJson t) -> is_error s = true ->
                 error_code_nonzero (fst (decode_response t zero_response)) = false ->
                 SyncRequest rq = internal_error rq).
  Proof.
    cbv zeta. unfold frame_of, internal_error, Model.SyncRequest.
    assert (E204 : forall s, is_error s = true -> (s =? 204)%N = false).
    { intros s Hs. unfold is_error in Hs. apply N.ltb_lt in Hs. apply N.eqb_neq. lia. }
    assert (ESE : forall s, is_error s = true -> is_success s = false).
    { intros s Hs. unfold is_error in Hs. unfold is_success. apply N.ltb_lt in Hs.
      apply andb_false_iff. right. apply N.ltb_ge. lia. }
    repeat split.
    - intros ->. reflexivity.
    - intros s -> H204 Hc. unfold resty_exchange. rewrite H204.
      destruct (is_success s); [reflexivity|]. cbn [orb] in Hc. rewrite Hc. reflexivity.
    - intros s -> He. unfold resty_exchange. rewrite (E204 s He), He. reflexivity.
    - intros s -> H204 Hs. unfold resty_exchange. rewrite H204, Hs. reflexivity.
    - intros s t -> H204 Hs Ht Hbad. unfold resty_exchange. rewrite H204, Hs.
      destruct (decode_response t zero_response) as [r bad]. cbn [snd] in Hbad. subst bad.
      destruct t; try congruence; reflexivity.
    - intros s t -> He Hn. unfold resty_exchange. rewrite (E204 s He), (ESE s He), He.
      destruct (decode_response t zero_response) as [r bad]. cbn [fst] in Hn.
      cbv beta iota. rewrite ecn_set_id, Hn. reflexivity.
  Qed.

  (* the degenerate successes (declared, design/C09.md): HTTP 204, and a non-JSON content type on a
     status below 400, are answered with result null under the caller's id — err = false *)
  Theorem sync_degenerate_success rq :
    let rep := backend (frame_of rq) in
    (forall s b, rep = BHttp s b -> (s =? 204)%N = true ->
                 SyncRequest rq = (mkResp [] (rq_id rq) (Some JNull) None [] None, false, [frame_of rq])) /\
    (forall s, rep = BHttp s BNotJson -> is_error s = false ->
               SyncRequest rq = (mkResp [] (rq_id rq) (Some JNull) None [] None, false, [frame_of rq])).
  Proof.
    cbv zeta. unfold frame_of, Model.SyncRequest. split.
    - intros s b -> H204. unfold resty_exchange. rewrite H204.
      assert (He : is_error s = false).
      { apply N.eqb_eq in H204. subst s. reflexivity. }
      rewrite He. reflexivity.
    - intros s -> He. unfold resty_exchange. destruct (s =? 204)%N; rewrite He; reflexivity.
  Qed.

  (* ISSUE 3 (general relay): a JSON answer that decodes is relayed member for member — result,
     error (code, message, data), method, params — with only the id replaced by the caller's (and
     an absent result filled with null on success).  On 2xx, and on HTTP >= 400 when it carries an
     error object with non-zero code. *)
  Theorem sync_relay_general rq s t r :
    backend (frame_of rq) = BHttp s (BJson t) -> (s =? 204)%N = false -> t <> JNull ->
    decode_response t zero_response = (r, false) ->
    (is_success s = true -> error_code_nonzero r = false ->
     SyncRequest rq = (fill_result (set_id r (rq_id rq)), false, [frame_of rq])) /\
    (is_success s || is_error s = true -> error_code_nonzero r = true ->
     SyncRequest rq = (set_id r (rq_id rq), true, [frame_of rq])).
  Proof.
    intros Hb H204 Ht Hd. unfold frame_of in *. unfold Model.SyncRequest. rewrite Hb.
    unfold resty_exchange. rewrite H204. split.
    - intros Hs Hn. rewrite Hs.
      assert (He : is_error s = false).
      { unfold is_success in Hs. unfold is_error. apply andb_prop in Hs as [_ H2]. apply N.ltb_lt in H2.
        apply N.ltb_ge. lia. }
      destruct t; try congruence; rewrite Hd; cbv beta iota; rewrite ecn_set_id, Hn, He; reflexivity.
    - intros Hc Hn. destruct (is_success s) eqn:Hs.
      + destruct t; try congruence; rewrite Hd; cbv beta iota; rewrite ecn_set_id, Hn, orb_true_r; reflexivity.
      + cbn [orb] in Hc. rewrite Hc.
        destruct t; try congruence; rewrite Hd; cbv beta iota; rewrite ecn_set_id, Hn, orb_true_r; reflexivity.
  Qed.

  (* ISSUE 3: the canonical error reply with a data member *)
  Definition error_reply_data (status : N) (echo : json) (code_text msg : bytes) (data : json) : backend_reply :=
    BHttp status (BJson (JObj [(bs "jsonrpc", JStr (bs "2.0")); (bs "id", echo);
                               (bs "error", JObj [(bs "code", JNum code_text); (bs "message", JStr msg);
                                                  (bs "data", data)])])).

  Lemma SyncRequest_error_data rq status echo code_text code msg data :
    backend (frame_of rq) = error_reply_data status echo code_text msg data ->
    parse_int64 code_text = Some code -> code <> 0%Z ->
    (status =? 204)%N = false -> is_success status || is_error status = true ->
    SyncRequest rq =
      (mkResp (bs "2.0") (rq_id rq) None (Some (mkErr code msg true (Some data))) [] None, true, [frame_of rq]).
  Proof.
    intros Hb Hc Hnz H204 Hcls.
    assert (D : decode_response
                  (JObj [(bs "jsonrpc", JStr (bs "2.0")); (bs "id", echo);
                         (bs "error", JObj [(bs "code", JNum code_text); (bs "message", JStr msg); (bs "data", data)])])
                  zero_response
                = (mkResp (bs "2.0") (dec_anyptr echo) None (Some (mkErr code msg true (Some data))) [] None, false)).
    { unfold decode_response. cbn [fold_left].
      assert (E1 : response_member (bs "jsonrpc", JStr (bs "2.0")) (zero_response, false)
                   = (mkResp (bs "2.0") None None None [] None, false)) by reflexivity.
      rewrite E1.
      assert (E2 : response_member (bs "id", echo) (mkResp (bs "2.0") None None None [] None, false)
                   = (mkResp (bs "2.0") (dec_anyptr echo) None None [] None, false)) by reflexivity.
      rewrite E2.
      assert (E3 : forall ev, response_member (bs "error", ev) (mkResp (bs "2.0") (dec_anyptr echo) None None [] None, false)
                   = (let '(e, b) := dec_errorptr ev None in
                      (mkResp (bs "2.0") (dec_anyptr echo) None e [] None, false || b))) by reflexivity.
      rewrite E3. unfold dec_errorptr. cbn [fold_left].
      assert (E4 : error_member (bs "code", JNum code_text) (zero_error, false) = (mkErr code [] true None, false)).
      { change (error_member (bs "code", JNum code_text) (zero_error, false))
          with (match parse_int64 code_text with
                | Some z => (mkErr z (e_message zero_error) true (e_data zero_error), false)
                | None => (zero_error, true) end).
        rewrite Hc. reflexivity. }
      rewrite E4.
      assert (E5 : error_member (bs "message", JStr msg) (mkErr code [] true None, false)
                   = (mkErr code msg true None, false)) by reflexivity.
      rewrite E5.
      assert (E6 : error_member (bs "data", data) (mkErr code msg true None, false)
                   = (mkErr code msg true (Some data), false)) by reflexivity.
      rewrite E6. reflexivity. }
    assert (NZ : error_code_nonzero (mkResp (bs "2.0") (dec_anyptr echo) None (Some (mkErr code msg true (Some data))) [] None) = true).
    { unfold error_code_nonzero. cbn. destruct (Z.eqb_spec code 0); [contradiction|reflexivity]. }
    unfold error_reply_data in Hb.
    destruct (sync_relay_general rq status _ _ Hb H204 ltac:(discriminate) D) as [_ R].
    rewrite (R Hcls NZ). reflexivity.
  Qed.

  (* ISSUE 2: what CallRPC yields is decided by the backend's reply alone *)
  Theorem CallRPC_value m ps :
    CallRPC m ps = (match reply_value (backend (mkFrame m ps)) with Some v => inl v | None => inr tt end,
                    [mkFrame m ps]).
  Proof.
    unfold Model.CallRPC, Model.SyncRequest. cbn [rq_method rq_params rq_id].
    destruct (backend (mkFrame m ps)) as [s body|]; [|reflexivity].
    unfold resty_exchange, reply_value.
    destruct (s =? 204)%N eqn:H204.
    { assert (He : is_error s = false) by (apply N.eqb_eq in H204; subst s; reflexivity).
      rewrite He. reflexivity. }
    destruct (is_error s) eqn:He.
    { assert (Hs : is_success s = false).
      { unfold is_error in He. unfold is_success. apply N.ltb_lt in He.
        apply andb_false_iff. right. apply N.ltb_ge. lia. }
      destruct body as [t| |]; rewrite ?Hs; try reflexivity.
      destruct (decode_response t zero_response) as [r bad]. cbv beta iota. cbn [orb].
      destruct (error_code_nonzero (set_id r None)); reflexivity. }
    destruct body as [t| |].
    - destruct (is_success s) eqn:Hs; [|reflexivity].
      destruct t; try reflexivity;
        match goal with |- context [decode_response ?t zero_response] =>
          destruct (decode_response t zero_response) as [r bad] end;
        cbv beta iota; (destruct bad; [reflexivity|]);
        rewrite ecn_set_id; cbn [orb]; (destruct (error_code_nonzero r); [reflexivity|]);
        destruct r as [j i [v|] e mm pp]; reflexivity.
    - destruct (is_success s); reflexivity.
    - reflexivity.
  Qed.

  Corollary CallRPC_inl_iff m ps v :
    fst (CallRPC m ps) = inl v <-> reply_value (backend (mkFrame m ps)) = Some v.
  Proof.
    rewrite CallRPC_value. cbn [fst]. destruct (reply_value _) as [w|]; split; intros E; try discriminate; congruence.
  Qed.

  (* the well-behaved reply of the property text is such a report *)
  Lemma reply_value_result echo v : reply_value (reply_result echo v) = Some v.
  Proof.
    unfold reply_result, reply_value. change (200 =? 204)%N with false. change (is_error 200) with false.
    change (is_success 200) with true. cbv iota.
    unfold decode_response. cbn [fold_left].
    assert (E1 : response_member (bs "jsonrpc", JStr (bs "2.0")) (zero_response, false)
                 = (mkResp (bs "2.0") None None None [] None, false)) by reflexivity.
    rewrite E1.
    assert (E2 : response_member (bs "id", echo) (mkResp (bs "2.0") None None None [] None, false)
                 = (mkResp (bs "2.0") (dec_anyptr echo) None None [] None, false)) by reflexivity.
    rewrite E2.
    assert (E3 : response_member (bs "result", v) (mkResp (bs "2.0") (dec_anyptr echo) None None [] None, false)
                 = (mkResp (bs "2.0") (dec_anyptr echo) (dec_anyptr v) None [] None, false)) by reflexivity.
    rewrite E3. cbv beta iota. destruct v; reflexivity.
  Qed.
End Reply.
