(* C09, wave 6, part 2 (REFEREE 4): handleRPCBatch as an interleaving machine with an EXPLICIT shared slot
   array.  Rpc.Model.complete evaluates the members one after the other and writes slot k when member k
   "completes"; alignment holds there by construction.  Here the goroutines of rpchandler.go are programs of
   three instructions

       ICompute   r, err := s.processRPC(ctx, rpcReq)          (into the goroutine's registers)
       IStore     rpcResponses[responseNumber] = r             (a write into the SHARED array, by index)
       ISend      results <- err                               (rendezvous with one receive of the handler)

   a schedule is ANY list of goroutine numbers (each occurrence lets that goroutine execute its next
   instruction), and the handler calls replyRPC with the array AS IT IS at the moment of its last receive
   (a snapshot: later writes do not reach the client).  The machine is parametric in the program, so that
   the theorem is a statement about THIS program and not about the machine: [prog_send_first] (seed #19: the
   send moved before the store) and [prog_append] (seed #2: append in completion order) run on the same
   machine and break alignment (Examples in Properties/C09.v).
   What is still by construction: ICompute takes member i's outcome from [outs] (the members' processRPC
   evaluated against a backend that is a function of the frame) — frames of different members interleaving
   at a STATEFUL backend remain outside.  No proofs in the first part (model); proofs follow. *)
From Coq Require Import String.
From Coq Require Import List NArith ZArith Bool Arith Lia Permutation.
From Coq Require Import Init.Byte.
From FFS Require Import Base.Res Base.Bytes Rpc.Json Rpc.Model Rpc.ProofsBatch.
Import ListNotations.

(* ================= model ================= *)

Inductive instr := ICompute | IStore | IAppend | ISend.

Definition real_prog : list instr := [ICompute; IStore; ISend].
Definition prog_send_first : list instr := [ICompute; ISend; IStore].
Definition prog_append : list instr := [ICompute; IAppend; ISend].

(* a member goroutine: program counter and registers (the result of processRPC once computed) *)
Record gor := mkG { g_pc : nat; g_loc : option outcome }.

Record mstate := mkM {
  m_slots : list (option rpc_response);                (* rpcResponses — shared *)
  m_gs : list gor;
  m_nstored : nat;                                      (* only read by IAppend *)
  m_recvd : list nat;                                   (* the handler's receives, latest first: who sent *)
  m_status : N;
  m_reply : option (N * list (option rpc_response))     (* what the handler handed to replyRPC *)
}.

Definition ESched : nat := 9%nat.    (* the schedule is not a behaviour of the program (goroutine absent, returned, or blocked for ever) *)

Definition loc_resp (g : gor) : option rpc_response := match g_loc g with Some o => o_resp o | None => None end.
Definition loc_err (g : gor) : bool := match g_loc g with Some o => o_err o | None => false end.

Definition minit (n : nat) : mstate :=
  mkM (repeat None n) (repeat (mkG 0 None) n) 0 [] 200%N None.

Definition gstep (prog : list instr) (outs : list outcome) (st : mstate) (i : nat) : res mstate :=
  match nth_error (m_gs st) i with
  | None => Err ESched
  | Some g =>
      match nth_error prog (g_pc g) with
      | None => Err ESched
      | Some ICompute =>
          do o <- index_list outs i;
          do gs' <- set_nth (m_gs st) i (mkG (S (g_pc g)) (Some o));
          Ok (mkM (m_slots st) gs' (m_nstored st) (m_recvd st) (m_status st) (m_reply st))
      | Some IStore =>
          do slots' <- set_nth (m_slots st) i (loc_resp g);
          do gs' <- set_nth (m_gs st) i (mkG (S (g_pc g)) (g_loc g));
          Ok (mkM slots' gs' (S (m_nstored st)) (m_recvd st) (m_status st) (m_reply st))
      | Some IAppend =>
          do slots' <- set_nth (m_slots st) (m_nstored st) (loc_resp g);
          do gs' <- set_nth (m_gs st) i (mkG (S (g_pc g)) (g_loc g));
          Ok (mkM slots' gs' (S (m_nstored st)) (m_recvd st) (m_status st) (m_reply st))
      | Some ISend =>
          if (length (m_recvd st) <? length (m_gs st))%nat then
            do gs' <- set_nth (m_gs st) i (mkG (S (g_pc g)) (g_loc g));
            let status' := if loc_err g then 500%N else m_status st in
            let recvd' := i :: m_recvd st in
            Ok (mkM (m_slots st) gs' (m_nstored st) recvd' status'
                    (if (length recvd' =? length (m_gs st))%nat then Some (status', m_slots st) else m_reply st))
          else Err ESched         (* the handler has left its receive loop: this send blocks for ever *)
      end
  end.

Fixpoint mrun (prog : list instr) (outs : list outcome) (sch : list nat) (st : mstate) : res mstate :=
  match sch with
  | [] => Ok st
  | i :: rest => do st' <- gstep prog outs st i; mrun prog outs rest st'
  end.

(* the schedule the correspondence run uses for a forced completion order: every member computes (in
   reverse creation order), then the members store and send in the completion order *)
Definition sched_of_order (order : list nat) : list nat :=
  rev (seq 0 (length order)) ++ flat_map (fun i => [i; i]) order.

Section Handler.
  Variable parse_int : bytes -> option Z.
  Variable lex : bytes -> option json.
  Variable accounts : list bytes.
  Variable sign_with : bytes -> transaction -> Z -> res bytes.
  Variable backend : frame -> backend_reply.
  Variable chain : Z.

  Definition handleRPCBatch_m (prog : list instr) (body : bytes) (sch : list nat) : res http_reply :=
    match lex body with
    | None => Ok replyRPCParseError
    | Some t =>
        match decode_batch t with
        | Panic => Panic
        | Err _ => Ok replyRPCParseError
        | Ok [] => Ok replyRPCParseError
        | Ok members =>
            do outs <- run_members parse_int accounts sign_with backend chain members;
            do st <- mrun prog outs sch (minit (length members));
            match m_reply st with
            | Some (status, slots) => Ok (status, JArr (map response_opt_tree slots), map (fun o => snd o) outs)
            | None => Err ESched        (* the handler is still waiting: the schedule is incomplete *)
            end
        end
    end.

  Definition rpcHandler_m (prog : list instr) (body : bytes) (sch : list nat) : res http_reply :=
    if (b2n (sniffFirstByte body) =? 91)%N then handleRPCBatch_m prog body sch
    else rpcHandler parse_int lex accounts sign_with backend chain body [].
End Handler.

(* ================= proofs ================= *)

Section Inv.
  Variable outs : list outcome.
  Let n := length outs.

  Definition expected_status : N := if existsb o_err outs then 500%N else 200%N.

  Record Inv (st : mstate) : Prop := {
    inv_slots : length (m_slots st) = n;
    inv_gs : length (m_gs st) = n;
    inv_g : forall i g, nth_error (m_gs st) i = Some g ->
              (g_pc g <= 3)%nat /\
              ((1 <= g_pc g)%nat -> g_loc g = Some (nth i outs dflt)) /\
              ((2 <= g_pc g)%nat -> nth_error (m_slots st) i = Some (o_resp (nth i outs dflt)));
    inv_nodup : NoDup (m_recvd st);
    inv_recvd : forall i, In i (m_recvd st) -> exists g, nth_error (m_gs st) i = Some g /\ g_pc g = 3%nat;
    inv_status : m_status st = if existsb (fun k => o_err (nth k outs dflt)) (m_recvd st) then 500%N else 200%N;
    inv_reply : forall s sl, m_reply st = Some (s, sl) -> s = expected_status /\ sl = map o_resp outs
  }.

  Lemma inv_init : Inv (minit n).
  Proof.
    constructor; cbn.
    - apply repeat_length.
    - apply repeat_length.
    - intros i g Hg. apply nth_error_In in Hg. apply repeat_spec in Hg. subst g. cbn. repeat split; lia.
    - constructor.
    - intros i [].
    - reflexivity.
    - discriminate.
  Qed.

  Lemma recvd_lt st : Inv st -> forall i, In i (m_recvd st) -> (i < n)%nat.
  Proof.
    intros I i Hi. destruct (inv_recvd st I i Hi) as (g & Hg & _).
    rewrite <- (inv_gs st I). apply nth_error_Some. congruence.
  Qed.

  (* all received: every goroutine is past its store, so the array is the aligned one *)
  Lemma all_received st :
    Inv st -> length (m_recvd st) = n ->
    m_slots st = map o_resp outs /\ m_status st = expected_status.
  Proof.
    intros I L.
    assert (P : Permutation (m_recvd st) (seq 0 n)).
    { apply NoDup_Permutation_bis.
      - exact (inv_nodup st I).
      - rewrite seq_length. lia.
      - intros i Hi. apply in_seq. pose proof (recvd_lt st I i Hi). lia. }
    split.
    - apply nth_error_eq_ext. intros i.
      destruct (Nat.lt_ge_cases i n) as [Hi|Hi].
      + assert (Hin : In i (m_recvd st)).
        { apply (Permutation_in _ (Permutation_sym P)). apply in_seq. lia. }
        destruct (inv_recvd st I i Hin) as (g & Hg & Hpc).
        destruct (inv_g st I i g Hg) as (_ & _ & Hs). rewrite (Hs ltac:(lia)).
        rewrite nth_error_map. fold n in Hi. rewrite (nth_error_nth' outs dflt Hi). reflexivity.
      + assert (nth_error (m_slots st) i = None) as -> by (apply nth_error_None; rewrite (inv_slots st I); exact Hi).
        rewrite nth_error_map.
        assert (nth_error outs i = None) as -> by (apply nth_error_None; exact Hi). reflexivity.
    - rewrite (inv_status st I). unfold expected_status.
      rewrite (existsb_perm _ _ _ P). unfold n. rewrite (existsb_seq_nth o_err outs dflt). reflexivity.
  Qed.

  (* one instruction of the REAL program: either the schedule names a goroutine that cannot move, or the
     machine moves and the invariant holds again; never a panic *)
  Lemma gstep_inv st i :
    Inv st ->
    gstep real_prog outs st i = Err ESched \/ exists st', gstep real_prog outs st i = Ok st' /\ Inv st'.
  Proof.
    intros I. unfold gstep.
    destruct (nth_error (m_gs st) i) as [g|] eqn:Eg; [|left; reflexivity].
    assert (Hi : (i < n)%nat) by (rewrite <- (inv_gs st I); apply nth_error_Some; congruence).
    destruct (inv_g st I i g Eg) as (Hpc & Hloc & Hsl).
    destruct g as [pc loc]. cbn [g_pc g_loc] in *.
    destruct pc as [|[|[|pc]]]; cbn [real_prog nth_error].
    - (* ICompute *)
      right. rewrite (index_list_ok outs i dflt Hi). cbn [bind].
      destruct (set_nth_ok (m_gs st) i (mkG 1 (Some (nth i outs dflt))) ltac:(rewrite (inv_gs st I); exact Hi))
        as (gs' & E & L & N). rewrite E. cbn [bind]. eexists. split; [reflexivity|].
      constructor; cbn.
      + exact (inv_slots st I).
      + rewrite L. exact (inv_gs st I).
      + intros j g Hg. rewrite N in Hg. destruct (Nat.eqb_spec j i) as [->|Hne].
        * injection Hg as <-. cbn. repeat split; try lia; try (intros; reflexivity).
        * exact (inv_g st I j g Hg).
      + exact (inv_nodup st I).
      + intros j Hj. destruct (inv_recvd st I j Hj) as (g & Hg & Hp). exists g. split; [|exact Hp].
        rewrite N. destruct (Nat.eqb_spec j i) as [->|Hne]; [|exact Hg]. rewrite Eg in Hg. injection Hg as <-. discriminate.
      + exact (inv_status st I).
      + exact (inv_reply st I).
    - (* IStore *)
      right. unfold loc_resp. cbn [g_loc]. rewrite (Hloc ltac:(lia)).
      destruct (set_nth_ok (m_slots st) i (o_resp (nth i outs dflt)) ltac:(rewrite (inv_slots st I); exact Hi))
        as (sl' & Es & Ls & Ns). rewrite Es. cbn [bind].
      destruct (set_nth_ok (m_gs st) i (mkG 2 (Some (nth i outs dflt))) ltac:(rewrite (inv_gs st I); exact Hi))
        as (gs' & E & L & N). rewrite E. cbn [bind]. eexists. split; [reflexivity|].
      constructor; cbn.
      + rewrite Ls. exact (inv_slots st I).
      + rewrite L. exact (inv_gs st I).
      + intros j g Hg. rewrite N in Hg. rewrite Ns. destruct (Nat.eqb_spec j i) as [->|Hne].
        * injection Hg as <-. cbn. repeat split; try lia; try (intros; reflexivity).
        * exact (inv_g st I j g Hg).
      + exact (inv_nodup st I).
      + intros j Hj. destruct (inv_recvd st I j Hj) as (g & Hg & Hp). exists g. split; [|exact Hp].
        rewrite N. destruct (Nat.eqb_spec j i) as [->|Hne]; [|exact Hg]. rewrite Eg in Hg. injection Hg as <-. discriminate.
      + exact (inv_status st I).
      + exact (inv_reply st I).
    - (* ISend *)
      destruct (Nat.ltb_spec (length (m_recvd st)) (length (m_gs st))) as [Hlt|Hge]; [right|left; reflexivity].
      unfold loc_err. cbn [g_loc]. rewrite (Hloc ltac:(lia)).
      destruct (set_nth_ok (m_gs st) i (mkG 3 (Some (nth i outs dflt))) ltac:(rewrite (inv_gs st I); exact Hi))
        as (gs' & E & L & N). rewrite E. cbn [bind]. eexists. split; [reflexivity|].
      assert (Hnot : ~ In i (m_recvd st)).
      { intros Hin. destruct (inv_recvd st I i Hin) as (g & Hg & Hp). rewrite Eg in Hg. injection Hg as <-. discriminate. }
      assert (I' : Inv (mkM (m_slots st) gs' (m_nstored st) (i :: m_recvd st)
                            (if o_err (nth i outs dflt) then 500%N else m_status st) (m_reply st))).
      { constructor; cbn.
        + exact (inv_slots st I).
        + rewrite L. exact (inv_gs st I).
        + intros j g Hg. rewrite N in Hg. destruct (Nat.eqb_spec j i) as [->|Hne].
          * injection Hg as <-. cbn. repeat split; try lia; try (intros; reflexivity). intros _. apply Hsl. lia.
          * exact (inv_g st I j g Hg).
        + constructor; [exact Hnot|exact (inv_nodup st I)].
        + intros j [<-|Hj].
          * exists (mkG 3 (Some (nth i outs dflt))). split; [|reflexivity]. rewrite N, Nat.eqb_refl. reflexivity.
          * destruct (inv_recvd st I j Hj) as (g & Hg & Hp). exists g. split; [|exact Hp].
            rewrite N. destruct (Nat.eqb_spec j i) as [->|Hne]; [|exact Hg]. contradiction.
        + rewrite (inv_status st I). destruct (o_err (nth i outs dflt)); reflexivity.
        + exact (inv_reply st I). }
      destruct (Nat.eqb_spec (length (i :: m_recvd st)) (length (m_gs st))) as [Hall|Hnotall].
      + rewrite (inv_gs st I) in Hall.
        destruct (all_received _ I' Hall) as (Hs & Hst). cbn in Hs, Hst.
        destruct I'. constructor; cbn in *; auto.
        intros s sl Hr. injection Hr as <- <-. split; [exact Hst|exact Hs].
      + exact I'.
    - (* returned *)
      left. destruct pc; reflexivity.
  Qed.

  Lemma mrun_inv sch : forall st,
    Inv st ->
    mrun real_prog outs sch st = Err ESched \/ exists st', mrun real_prog outs sch st = Ok st' /\ Inv st'.
  Proof.
    induction sch as [|i rest IH]; intros st I; cbn [mrun].
    - right. exists st. split; [reflexivity|exact I].
    - destruct (gstep_inv st i I) as [E|(st' & E & I')]; rewrite E; cbn [bind].
      + left. reflexivity.
      + exact (IH st' I').
  Qed.

  (* EVERY schedule: no panic; and if the handler replied, it replied with the aligned array and the
     status "500 iff some member failed" *)
  Theorem machine_aligned sch :
    mrun real_prog outs sch (minit n) <> Panic /\
    forall st, mrun real_prog outs sch (minit n) = Ok st ->
      forall s sl, m_reply st = Some (s, sl) -> s = expected_status /\ sl = map o_resp outs.
  Proof.
    destruct (mrun_inv sch (minit n) inv_init) as [E|(st' & E & I')]; rewrite E.
    - split; [discriminate|]. discriminate.
    - split; [discriminate|]. intros st Hst. injection Hst as <-. exact (inv_reply st' I').
  Qed.
End Inv.

Section Link.
  Variable parse_int : bytes -> option Z.
  Variable lex : bytes -> option json.
  Variable accounts : list bytes.
  Variable sign_with : bytes -> transaction -> Z -> res bytes.
  Variable backend : frame -> backend_reply.
  Variable chain : Z.
  Notation processRPC := (processRPC parse_int accounts sign_with backend chain).
  Notation run_members := (run_members parse_int accounts sign_with backend chain).
  Notation handleRPCBatch := (handleRPCBatch parse_int lex accounts sign_with backend chain).
  Notation handleRPCBatch_m := (handleRPCBatch_m parse_int lex accounts sign_with backend chain).
  Notation rpcHandler := (rpcHandler parse_int lex accounts sign_with backend chain).
  Notation rpcHandler_m := (rpcHandler_m parse_int lex accounts sign_with backend chain).

  (* batch alignment over the machine: for EVERY schedule in which the handler gets to reply, slot i of the
     reply is the response processRPC computed for request i, status 500 iff some member failed *)
  Theorem batch_alignment_m body t members sch r :
    lex body = Some t -> decode_batch t = Ok members -> members <> [] ->
    handleRPCBatch_m real_prog body sch = Ok r ->
    exists outs,
      Forall2 (fun m o => processRPC m = Ok o) members outs /\
      r = (if existsb o_err outs then 500%N else 200%N,
           JArr (map (fun o => response_opt_tree (o_resp o)) outs),
           map (fun o => snd o) outs).
  Proof.
    intros Hl Hd Hne. unfold Model.handleRPCBatch, BatchMachine.handleRPCBatch_m. rewrite Hl, Hd.
    destruct members as [|m0 ms]; [congruence|].
    destruct (run_members (m0 :: ms)) as [outs| |] eqn:Hr; cbn [bind]; try discriminate.
    pose proof (run_members_spec _ _ _ _ _ _ _ Hr) as F. pose proof (Forall2_len _ _ _ F) as Len.
    rewrite Len.
    destruct (machine_aligned outs sch) as (_ & Hal).
    destruct (mrun real_prog outs sch (minit (length outs))) as [st| |] eqn:Em; cbn [bind]; try discriminate.
    destruct (m_reply st) as [[s sl]|] eqn:Er; [|discriminate].
    destruct (Hal st eq_refl s sl Er) as (-> & ->).
    intros E. injection E as <-. exists outs. split; [exact F|].
    unfold expected_status. rewrite map_map. reflexivity.
  Qed.

  (* the machine never panics in the handler either, whatever the schedule (a panic of the batch handler can
     only come from a member's processRPC or the decoder) *)
  Theorem handler_m_agrees body sch r :
    rpcHandler_m real_prog body sch = Ok r ->
    forall order,
      (forall t ms, lex body = Some t -> decode_batch t = Ok ms -> Permutation order (seq 0 (length ms))) ->
      rpcHandler body order = Ok r.
  Proof.
    unfold BatchMachine.rpcHandler_m, Model.rpcHandler.
    destruct (b2n (sniffFirstByte body) =? 91)%N.
    2:{ intros E order _. destruct (lex body) as [t|]; [|exact E].
        destruct (decode_request t); exact E. }
    intros E order Hord.
    destruct (lex body) as [t|] eqn:Hl.
    2:{ unfold BatchMachine.handleRPCBatch_m in E. unfold Model.handleRPCBatch. rewrite Hl in *. exact E. }
    destruct (decode_batch t) as [members| |] eqn:Hd.
    2,3: unfold BatchMachine.handleRPCBatch_m in E; unfold Model.handleRPCBatch; rewrite Hl, Hd in *; exact E.
    destruct members as [|m0 ms].
    { unfold BatchMachine.handleRPCBatch_m in E. unfold Model.handleRPCBatch. rewrite Hl, Hd in *. exact E. }
    destruct (batch_alignment_m body t (m0 :: ms) sch r Hl Hd ltac:(discriminate) E) as (outs & F & ->).
    assert (Hr : run_members (m0 :: ms) = Ok outs).
    { clear -F. revert F. generalize (m0 :: ms). intros l. revert outs.
      induction l as [|m l IH]; intros outs F; inversion F; subst; cbn [Model.run_members]; [reflexivity|].
      rewrite H1. cbn [bind]. rewrite (IH _ H3). reflexivity. }
    exact (proj1 (batch_alignment parse_int lex accounts sign_with backend chain body t (m0 :: ms) outs order
                                  Hl Hd ltac:(discriminate) Hr (Hord t (m0 :: ms) eq_refl Hd))).
  Qed.
End Link.
