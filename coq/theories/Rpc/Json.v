(* JSON trees (numbers kept as text, object members in document order, duplicates kept) and the slice
   of Go's encoding/json *typed decoding* that the proxy relies on:
     rpcbackend.RPCRequest / []*RPCRequest, rpcbackend.RPCResponse / RPCError,
     ethsigner.Transaction (with the UnmarshalJSON hooks of ethtypes.HexInteger, Address0xHex,
     HexBytes0xPrefix and json.RawMessage), fftypes.JSONAny.
   The lexer (bytes -> tree) is not modelled: it enters the model as an oracle.  No proofs here. *)
From Coq Require Import String.
From Coq Require Import List NArith ZArith Bool Arith.
From Coq Require Import Init.Byte.
From FFS Require Import Base.Res Base.Bytes.
Import ListNotations.
Local Open Scope string_scope.
Local Open Scope list_scope.

Inductive json :=
| JNull
| JBool (b : bool)
| JNum (text : bytes)                 (* the literal as written, e.g. "1e3", "-0", "12345678901234567890123" *)
| JStr (s : bytes)                    (* the decoded string as UTF-8 *)
| JArr (l : list json)
| JObj (m : list (bytes * json)).     (* members in document order; duplicate keys are kept *)

(* structural equality (member order significant: the proxy relays raw text, so order is preserved) *)
Fixpoint json_eqb (a b : json) : bool :=
  match a, b with
  | JNull, JNull => true
  | JBool x, JBool y => Bool.eqb x y
  | JNum x, JNum y => bytes_eqb x y
  | JStr x, JStr y => bytes_eqb x y
  | JArr x, JArr y =>
      (fix go (x y : list json) : bool :=
         match x, y with
         | [], [] => true
         | a :: x', b :: y' => json_eqb a b && go x' y'
         | _, _ => false
         end) x y
  | JObj x, JObj y =>
      (fix go (x y : list (bytes * json)) : bool :=
         match x, y with
         | [], [] => true
         | (k, a) :: x', (k', b) :: y' => bytes_eqb k k' && json_eqb a b && go x' y'
         | _, _ => false
         end) x y
  | _, _ => false
  end.

Definition is_null (j : json) : bool := match j with JNull => true | _ => false end.

(* ---------- ASCII / hex helpers ---------- *)

Definition bs (s : String.string) : bytes := ascii_bytes s.

Definition hex_digit (n : N) : byte := n2b (if (n <? 10)%N then 48 + n else 87 + n)%N.
(* hex.EncodeToString: lower case *)
Fixpoint hex_lower (l : bytes) : bytes :=
  match l with
  | [] => []
  | b :: t => hex_digit (b2n b / 16) :: hex_digit (b2n b mod 16) :: hex_lower t
  end.

Definition hex_val (b : byte) : option N :=
  let n := b2n b in
  if (48 <=? n)%N && (n <=? 57)%N then Some (n - 48)%N
  else if (97 <=? n)%N && (n <=? 102)%N then Some (n - 87)%N
  else if (65 <=? n)%N && (n <=? 70)%N then Some (n - 55)%N
  else None.

(* hex.DecodeString: even length, both cases accepted *)
Fixpoint hex_decode (l : bytes) : option bytes :=
  match l with
  | [] => Some []
  | [_] => None
  | a :: b :: t =>
      match hex_val a, hex_val b, hex_decode t with
      | Some x, Some y, Some r => Some (n2b (x * 16 + y) :: r)
      | _, _, _ => None
      end
  end.

(* strings.TrimPrefix(s, "0x") — lower-case x only *)
Definition trim_0x (s : bytes) : bytes :=
  match s with
  | a :: b :: t => if (b2n a =? 48)%N && (b2n b =? 120)%N then t else s
  | _ => s
  end.

Definition hex0x (l : bytes) : bytes := x30 :: x78 :: hex_lower l.     (* "0x" ++ hex *)

(* encoding/json field-name folding (foldName): ASCII letters to upper case; U+017F (long s, C5 BF)
   folds with S and U+212A (Kelvin sign, E2 84 AA) with K *)
Definition fold_ascii (a : byte) : byte :=
  let n := b2n a in if (97 <=? n)%N && (n <=? 122)%N then n2b (n - 32) else a.

Fixpoint fold_name (l : bytes) : bytes :=
  match l with
  | [] => []
  | a :: t =>
      match t with
      | b :: t1 =>
          if (b2n a =? 197)%N && (b2n b =? 191)%N then x53 :: fold_name t1
          else match t1 with
               | c :: t2 =>
                   if (b2n a =? 226)%N && (b2n b =? 132)%N && (b2n c =? 170)%N then x4b :: fold_name t2
                   else fold_ascii a :: fold_name t
               | [] => fold_ascii a :: fold_name t
               end
      | [] => [fold_ascii a]
      end
  end.

Definition name_matches (field key : bytes) : bool := bytes_eqb (fold_name field) (fold_name key).

(* ---------- numbers ---------- *)

Definition is_digit (b : byte) : bool := (48 <=? b2n b)%N && (b2n b <=? 57)%N.
Fixpoint dec_digits (l : bytes) (acc : N) : option N :=
  match l with
  | [] => Some acc
  | b :: t => if is_digit b then dec_digits t (acc * 10 + (b2n b - 48))%N else None
  end.

(* strconv.ParseInt(text, 10, 64) as used by encoding/json for an int64 field: optional sign, at
   least one digit, digits only, value within int64 *)
Definition parse_int64 (text : bytes) : option Z :=
  let '(neg, ds) := match text with
                    | b :: t => if (b2n b =? 45)%N then (true, t) else if (b2n b =? 43)%N then (false, t) else (false, text)
                    | [] => (false, [])
                    end in
  match ds with
  | [] => None
  | _ => match dec_digits ds 0 with
         | None => None
         | Some n => let z := if neg then (- Z.of_N n)%Z else Z.of_N n in
                     if ((-9223372036854775808 <=? z) && (z <=? 9223372036854775807))%Z then Some z else None
         end
  end.

(* big.Int.Int64(): the low 64 bits read as a signed value *)
Definition wrap64 (z : Z) : Z :=
  let m := (z mod 18446744073709551616)%Z in
  if (m <? 9223372036854775808)%Z then m else (m - 18446744073709551616)%Z.

(* ---------- rpcbackend.RPCRequest ---------- *)

Record rpc_request := mkReq {
  rq_jsonrpc : bytes;
  rq_id : option json;          (* *fftypes.JSONAny: None = nil (member absent or null) *)
  rq_method : bytes;
  rq_params : list json          (* []*fftypes.JSONAny: nil and empty slice behave alike; a nil element is JNull *)
}.
Definition zero_request := mkReq [] None [] [].

(* decoding a value into a Go string field: (new value, type mismatch?) *)
Definition dec_string (v : json) (old : bytes) : bytes * bool :=
  match v with JStr s => (s, false) | JNull => (old, false) | _ => (old, true) end.
(* *fftypes.JSONAny: null sets the pointer to nil, anything else is kept as (compacted) raw JSON *)
Definition dec_anyptr (v : json) : option json := match v with JNull => None | _ => Some v end.

(* one object member into the struct; [bad] is the sticky UnmarshalTypeError (decoding continues and
   Unmarshal returns the first such error at the end) *)
Definition request_member (kv : bytes * json) (st : rpc_request * bool) : rpc_request * bool :=
  let '(k, v) := kv in
  let '(r, bad) := st in
  if name_matches (bs "jsonrpc") k then
    let '(s, b) := dec_string v (rq_jsonrpc r) in (mkReq s (rq_id r) (rq_method r) (rq_params r), bad || b)
  else if name_matches (bs "id") k then (mkReq (rq_jsonrpc r) (dec_anyptr v) (rq_method r) (rq_params r), bad)
  else if name_matches (bs "method") k then
    let '(s, b) := dec_string v (rq_method r) in (mkReq (rq_jsonrpc r) (rq_id r) s (rq_params r), bad || b)
  else if name_matches (bs "params") k then
    match v with
    | JNull => (mkReq (rq_jsonrpc r) (rq_id r) (rq_method r) [], bad)
    | JArr l => (mkReq (rq_jsonrpc r) (rq_id r) (rq_method r) l, bad)
    | _ => (r, true)
    end
  else st.

Definition EJson := 1%nat.      (* json.Unmarshal returned an error *)

(* json.Unmarshal(tree, &RPCRequest{}) *)
Definition decode_request (t : json) : res rpc_request :=
  match t with
  | JNull => Ok zero_request
  | JObj m => let '(r, bad) := fold_left (fun st kv => request_member kv st) m (zero_request, false) in
              if bad then Err EJson else Ok r
  | _ => Err EJson
  end.

(* json.Unmarshal(tree, &[]*RPCRequest): a null element is a nil pointer *)
Fixpoint decode_members (l : list json) : res (list (option rpc_request)) :=
  match l with
  | [] => Ok []
  | JNull :: t => do r <- decode_members t; Ok (None :: r)
  | x :: t => do q <- decode_request x; do r <- decode_members t; Ok (Some q :: r)
  end.
Definition decode_batch (t : json) : res (list (option rpc_request)) :=
  match t with
  | JNull => Ok []
  | JArr l => decode_members l
  | _ => Err EJson
  end.

(* ---------- rpcbackend.RPCResponse / RPCError ---------- *)

Record rpc_error := mkErr {
  e_code : Z;
  e_message : bytes;
  e_relayed : bool;              (* false: the text was produced by the proxy (never compared) *)
  e_data : option json           (* fftypes.JSONAny "" = None (omitted) *)
}.
Record rpc_response := mkResp {
  rs_jsonrpc : bytes;
  rs_id : option json;
  rs_result : option json;
  rs_error : option rpc_error;
  rs_method : bytes;             (* "only for subscription notifications" — relayed all the same *)
  rs_params : option json
}.
Definition zero_response := mkResp [] None None None [] None.
Definition zero_error := mkErr 0 [] true None.

Definition error_member (kv : bytes * json) (st : rpc_error * bool) : rpc_error * bool :=
  let '(k, v) := kv in
  let '(e, bad) := st in
  if name_matches (bs "code") k then
    match v with
    | JNull => st
    | JNum text => match parse_int64 text with
                   | Some z => (mkErr z (e_message e) true (e_data e), bad)
                   | None => (e, true)
                   end
    | _ => (e, true)
    end
  else if name_matches (bs "message") k then
    let '(s, b) := dec_string v (e_message e) in (mkErr (e_code e) s true (e_data e), bad || b)
  else if name_matches (bs "data") k then (mkErr (e_code e) (e_message e) true (Some v), bad)
  else st.

(* a value into the *RPCError field [old] *)
Definition dec_errorptr (v : json) (old : option rpc_error) : option rpc_error * bool :=
  match v with
  | JNull => (None, false)
  | JObj m => let '(e, bad) := fold_left (fun st kv => error_member kv st) m
                                 (match old with Some e => e | None => zero_error end, false) in
              (Some e, bad)
  | _ => (Some (match old with Some e => e | None => zero_error end), true)   (* pointer allocated, then type error *)
  end.

Definition response_member (kv : bytes * json) (st : rpc_response * bool) : rpc_response * bool :=
  let '(k, v) := kv in
  let '(r, bad) := st in
  if name_matches (bs "jsonrpc") k then
    let '(s, b) := dec_string v (rs_jsonrpc r) in
    (mkResp s (rs_id r) (rs_result r) (rs_error r) (rs_method r) (rs_params r), bad || b)
  else if name_matches (bs "id") k then
    (mkResp (rs_jsonrpc r) (dec_anyptr v) (rs_result r) (rs_error r) (rs_method r) (rs_params r), bad)
  else if name_matches (bs "result") k then
    (mkResp (rs_jsonrpc r) (rs_id r) (dec_anyptr v) (rs_error r) (rs_method r) (rs_params r), bad)
  else if name_matches (bs "error") k then
    let '(e, b) := dec_errorptr v (rs_error r) in
    (mkResp (rs_jsonrpc r) (rs_id r) (rs_result r) e (rs_method r) (rs_params r), bad || b)
  else if name_matches (bs "method") k then
    let '(s, b) := dec_string v (rs_method r) in
    (mkResp (rs_jsonrpc r) (rs_id r) (rs_result r) (rs_error r) s (rs_params r), bad || b)
  else if name_matches (bs "params") k then
    (mkResp (rs_jsonrpc r) (rs_id r) (rs_result r) (rs_error r) (rs_method r) (dec_anyptr v), bad)
  else st.

(* json.Unmarshal(tree, *RPCResponse) onto an existing struct: (struct afterwards, error?) *)
Definition decode_response (t : json) (init : rpc_response) : rpc_response * bool :=
  match t with
  | JNull => (init, false)
  | JObj m => fold_left (fun st kv => response_member kv st) m (init, false)
  | _ => (init, true)
  end.

(* decimal printing (strconv.FormatInt) *)
Fixpoint uint_bytes (u : Decimal.uint) : bytes :=
  match u with
  | Decimal.Nil => []
  | Decimal.D0 u => x30 :: uint_bytes u | Decimal.D1 u => x31 :: uint_bytes u
  | Decimal.D2 u => x32 :: uint_bytes u | Decimal.D3 u => x33 :: uint_bytes u
  | Decimal.D4 u => x34 :: uint_bytes u | Decimal.D5 u => x35 :: uint_bytes u
  | Decimal.D6 u => x36 :: uint_bytes u | Decimal.D7 u => x37 :: uint_bytes u
  | Decimal.D8 u => x38 :: uint_bytes u | Decimal.D9 u => x39 :: uint_bytes u
  end.
Definition dec_of_N (n : N) : bytes := uint_bytes (N.to_uint n).
Definition dec_of_Z (z : Z) : bytes :=
  match z with
  | Z0 => [x30]
  | Zpos p => dec_of_N (Npos p)
  | Zneg p => x2d :: dec_of_N (Npos p)
  end.

(* json.Marshal of a *RPCResponse as a tree (field order of the struct; omitempty members dropped) *)
Definition opt_member (k : String.string) (v : option json) : list (bytes * json) :=
  match v with Some j => [(bs k, j)] | None => [] end.
Definition error_tree (e : rpc_error) : json :=
  JObj ([(bs "code", JNum (dec_of_Z (e_code e))); (bs "message", JStr (e_message e))] ++ opt_member "data" (e_data e)).
Definition response_tree (r : rpc_response) : json :=
  JObj ([(bs "jsonrpc", JStr (rs_jsonrpc r));
         (bs "id", match rs_id r with Some j => j | None => JNull end)]
        ++ opt_member "result" (rs_result r)
        ++ opt_member "error" (option_map error_tree (rs_error r))
        ++ (match rs_method r with [] => [] | m => [(bs "method", JStr m)] end)
        ++ opt_member "params" (rs_params r)).
(* a nil *RPCResponse marshals as null *)
Definition response_opt_tree (r : option rpc_response) : json :=
  match r with Some r => response_tree r | None => JNull end.

(* ---------- ethsigner.Transaction ---------- *)

Record transaction := mkTx {
  tx_from : option json;          (* json.RawMessage: None = nil (member absent); "from":null gives Some JNull *)
  tx_nonce : option N;            (* *HexInteger *)
  tx_gasPrice : option N;
  tx_maxPriorityFeePerGas : option N;
  tx_maxFeePerGas : option N;
  tx_gas : option N;              (* json:"gas" *)
  tx_to : option bytes;           (* *Address0xHex, 20 bytes *)
  tx_value : option N;
  tx_data : bytes
}.
Definition zero_tx := mkTx None None None None None None None None [].

Section TypedDecoding.
  (* ethtypes.BigIntegerFromString — property C19's subject; an oracle here *)
  Variable parse_int : bytes -> option Z.

  (* HexInteger.UnmarshalJSON on a non-null value: string or number text through BigIntegerFromString,
     negative rejected; any other JSON kind rejected *)
  Definition dec_hexint (v : json) : res N :=
    match v with
    | JStr s | JNum s => match parse_int s with
                         | Some z => if (z <? 0)%Z then Err EJson else Ok (Z.to_N z)
                         | None => Err EJson
                         end
    | _ => Err EJson
    end.
  (* into a *HexInteger field: null sets nil *)
  Definition dec_hexint_ptr (v : json) : res (option N) :=
    match v with JNull => Ok None | _ => do n <- dec_hexint v; Ok (Some n) end.

  (* Address0xHex.UnmarshalJSON: json.Unmarshal(b, &s) (null leaves s = ""), then SetString *)
  Definition address_of_string (s : bytes) : res bytes :=
    match hex_decode (trim_0x s) with
    | Some b => if (length b =? 20)%nat then Ok b else Err EJson
    | None => Err EJson
    end.
  Definition dec_address (v : json) : res bytes :=
    match v with
    | JStr s => address_of_string s
    | JNull => address_of_string []
    | _ => Err EJson
    end.
  Definition dec_address_ptr (v : json) : res (option bytes) :=
    match v with JNull => Ok None | _ => do a <- dec_address v; Ok (Some a) end.

  (* HexBytes0xPrefix.UnmarshalJSON (a non-pointer field: the hook is called for null too) *)
  Definition dec_hexbytes (v : json) : res bytes :=
    match v with
    | JStr s => match hex_decode (trim_0x s) with Some b => Ok b | None => Err EJson end
    | JNull => Ok []
    | _ => Err EJson
    end.

  (* an error from an UnmarshalJSON hook aborts the whole Unmarshal *)
  Definition tx_member (kv : bytes * json) (t : transaction) : res transaction :=
    let '(k, v) := kv in
    if name_matches (bs "from") k then
      Ok (mkTx (Some v) (tx_nonce t) (tx_gasPrice t) (tx_maxPriorityFeePerGas t) (tx_maxFeePerGas t) (tx_gas t) (tx_to t) (tx_value t) (tx_data t))
    else if name_matches (bs "nonce") k then
      do n <- dec_hexint_ptr v;
      Ok (mkTx (tx_from t) n (tx_gasPrice t) (tx_maxPriorityFeePerGas t) (tx_maxFeePerGas t) (tx_gas t) (tx_to t) (tx_value t) (tx_data t))
    else if name_matches (bs "gasPrice") k then
      do n <- dec_hexint_ptr v;
      Ok (mkTx (tx_from t) (tx_nonce t) n (tx_maxPriorityFeePerGas t) (tx_maxFeePerGas t) (tx_gas t) (tx_to t) (tx_value t) (tx_data t))
    else if name_matches (bs "maxPriorityFeePerGas") k then
      do n <- dec_hexint_ptr v;
      Ok (mkTx (tx_from t) (tx_nonce t) (tx_gasPrice t) n (tx_maxFeePerGas t) (tx_gas t) (tx_to t) (tx_value t) (tx_data t))
    else if name_matches (bs "maxFeePerGas") k then
      do n <- dec_hexint_ptr v;
      Ok (mkTx (tx_from t) (tx_nonce t) (tx_gasPrice t) (tx_maxPriorityFeePerGas t) n (tx_gas t) (tx_to t) (tx_value t) (tx_data t))
    else if name_matches (bs "gas") k then
      do n <- dec_hexint_ptr v;
      Ok (mkTx (tx_from t) (tx_nonce t) (tx_gasPrice t) (tx_maxPriorityFeePerGas t) (tx_maxFeePerGas t) n (tx_to t) (tx_value t) (tx_data t))
    else if name_matches (bs "to") k then
      do a <- dec_address_ptr v;
      Ok (mkTx (tx_from t) (tx_nonce t) (tx_gasPrice t) (tx_maxPriorityFeePerGas t) (tx_maxFeePerGas t) (tx_gas t) a (tx_value t) (tx_data t))
    else if name_matches (bs "value") k then
      do n <- dec_hexint_ptr v;
      Ok (mkTx (tx_from t) (tx_nonce t) (tx_gasPrice t) (tx_maxPriorityFeePerGas t) (tx_maxFeePerGas t) (tx_gas t) (tx_to t) n (tx_data t))
    else if name_matches (bs "data") k then
      do d <- dec_hexbytes v;
      Ok (mkTx (tx_from t) (tx_nonce t) (tx_gasPrice t) (tx_maxPriorityFeePerGas t) (tx_maxFeePerGas t) (tx_gas t) (tx_to t) (tx_value t) d)
    else Ok t.

  Fixpoint tx_members (m : list (bytes * json)) (t : transaction) : res transaction :=
    match m with
    | [] => Ok t
    | kv :: rest => do t' <- tx_member kv t; tx_members rest t'
    end.

  (* json.Unmarshal(rpcReq.Params[0].Bytes(), &txn): a nil parameter (JSON null) has no bytes and
     fails with "unexpected end of JSON input"; a non-object is a type error *)
  Definition decode_transaction (p : json) : res transaction :=
    match p with
    | JObj m => tx_members m zero_tx
    | _ => Err EJson
    end.
End TypedDecoding.
