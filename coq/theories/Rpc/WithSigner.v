(* C09 ∘ C08 ∘ C01: the signer of the proxy's file-system wallet is property C01's model of
   Transaction.Sign with property C05's KeyPair signer.

   Rpc/WithWallet.v instantiates the proxy model's abstract wallet with the file-system wallet of C08 and
   leaves ONE law about firefly-signer code as a hypothesis: [signer_sound] — what key k signs is the EIP
   wire format of the requested fields and recovers to the address of k.  That is the conclusion of
   property C01 (Tx/Model.v, Tx/SignProofs*.v) with the signer of property C05 (Secp/Model.v), over the
   abstract ECDSA group of Crypto/Ecdsa.v.  This file

     1. builds the TYPE BRIDGE from the transaction record of the proxy model (Rpc/Json.v: the decoded
        ethsigner.Transaction — optional hex integers as [option N], `to`, `data`) to the record of
        Tx/Model.v ([to_tx]) and shows that the field tuple / format C01 speaks about ([norm], [format_of
        Auto]) are the ones C09 speaks about ([requested_fields], [requested_format]);
     2. DEFINES the wallet's external signer: keys are private scalars, [addr_of] is the address of d*G,
        [sign_tx d (t, chain)] is [Tx.Model.Sign (to_tx t) (KeyPair d) chain] — the automatic mode of
        Transaction.Sign, EIP-1559 when a fee field is positive, otherwise EIP-155 ([with_signer]);
     3. PROVES the signer's law from C01's end-to-end theorem under C01's guards ([c01_signer_sound]):
        1 <= d < n, 0 <= chain <= 2^53, every integer field below 2^256, data of at most 2^31-1024 bytes,
        [Ecdsa.laws] of the group, a 32-byte hash, and V in {27, 28} for the one digest signed;
     4. restates the corollaries of Rpc/WithWallet.v WITHOUT [signer_sound] (section EndToEnd).

   [ecrecover] of Rpc/Spec.v is instantiated by C05's model of SignatureData.RecoverDirect applied to
   (27 + yParity, r, s) ([secp_ecrecover]).  No proof of C01, C05, C08 or C09 is redone here. *)
From Coq Require Import String.
From Coq Require Import List NArith ZArith Bool Arith Lia Permutation.
From Coq Require Import Init.Byte.
From FFS Require Import Base.Res Base.Bytes Rlp.Spec Crypto.Ecdsa.
From FFS Require Tx.Model Tx.Spec Tx.Norm Tx.SignProofs Tx.SignProofs2 Tx.SignProofs3 Tx.SignProofs4.
From FFS Require Import Rpc.Json Rpc.Model Rpc.Spec Rpc.ProofsBatch Rpc.Proofs Rpc.ProofsHandler Rpc.WfProofsC09
  Rpc.WithWallet.
From FFS Require Secp.Model Secp.Proofs.
Import ListNotations.
Local Open Scope list_scope.

Module T := FFS.Tx.Model.
Module TS := FFS.Tx.Spec.
Module TN := FFS.Tx.Norm.
Module TP := FFS.Tx.SignProofs.
Module TP3 := FFS.Tx.SignProofs3.
Module TP4 := FFS.Tx.SignProofs4.
Module SM := FFS.Secp.Model.
Module SP := FFS.Secp.Proofs.

(* ================= 1. the type bridge ================= *)

(* *ethtypes.HexInteger: nil stays nil, a decoded (non-negative) integer is that integer *)
Definition zopt (h : option N) : option Z := option_map Z.of_N h.

(* the ethsigner.Transaction the proxy decoded, as the struct Transaction.Sign reads.  `from` is not read
   by Sign.  Data: the proxy model keeps the byte string (nil and empty are one RLP string, Tx.Model.WrapData). *)
Definition to_tx (t : transaction) : T.tx :=
  T.mkTx (zopt (tx_nonce t)) (zopt (tx_gasPrice t)) (zopt (tx_maxPriorityFeePerGas t)) (zopt (tx_maxFeePerGas t))
         (zopt (tx_gas t)) (tx_to t) (zopt (tx_value t)) (Some (tx_data t)).

Lemma mag_zopt h : TN.mag (zopt h) = nz h.
Proof. destruct h as [n|]; [|reflexivity]. unfold TN.mag, zopt, T.BigInt, option_map, nz. apply Zabs2N.id. Qed.

Lemma BigInt_zopt h : T.BigInt (zopt h) = Z.of_N (nz h).
Proof. destruct h; reflexivity. Qed.

(* the field tuple C01's theorems speak about is the one C09's specification speaks about *)
Lemma norm_to_tx t : TN.norm (to_tx t) = requested_fields t.
Proof. unfold TN.norm, requested_fields, to_tx. cbn [T.tx_nonce T.tx_gasPrice T.tx_maxPrio T.tx_maxFee T.tx_gasLimit T.tx_to T.tx_value T.tx_data].
  rewrite !mag_zopt. reflexivity. Qed.

Lemma wants1559_to_tx t :
  T.wants1559 (to_tx t) = (0 <? nz (tx_maxPriorityFeePerGas t))%N || (0 <? nz (tx_maxFeePerGas t))%N.
Proof.
  unfold T.wants1559, to_tx. cbn [T.tx_maxPrio T.tx_maxFee]. rewrite !BigInt_zopt.
  f_equal; (destruct (nz _); reflexivity).
Qed.

(* ... and so is the format: the automatic mode of Transaction.Sign picks what C09 calls the requested format *)
Lemma format_to_tx t : TN.format_of T.Auto (to_tx t) = requested_format t.
Proof. unfold TN.format_of, requested_format. rewrite wants1559_to_tx. reflexivity. Qed.

(* ---------- the guard on the fields, stated on the request ---------- *)

Definition two256N : N := (2 ^ 256)%N.
Definition data_maxN : N := 2147482624%N.          (* 2^31 - 1024 *)

(* every integer field below 2^256 (the quantifier of property C01), data of at most 2^31-1024 bytes.  The
   20-byte destination is not a guard: the decoder guarantees it ([decode_transaction_to_ok]). *)
Definition fields_in_range (t : transaction) : Prop :=
  (nz (tx_nonce t) < two256N)%N /\ (nz (tx_gasPrice t) < two256N)%N /\
  (nz (tx_maxPriorityFeePerGas t) < two256N)%N /\ (nz (tx_maxFeePerGas t) < two256N)%N /\
  (nz (tx_gas t) < two256N)%N /\ (nz (tx_value t) < two256N)%N /\
  (N.of_nat (length (tx_data t)) <= data_maxN)%N.

Definition to_len_ok (t : transaction) : Prop :=
  match tx_to t with Some a => length a = 20%nat | None => True end.

Lemma two256_same : TP4.two256 = Z.of_N two256N.
Proof. reflexivity. Qed.

Lemma below256_zopt h : (nz h < two256N)%N -> TP4.below256 (zopt h).
Proof.
  intros Hlt. unfold TP4.below256. rewrite BigInt_zopt, two256_same. rewrite Z.abs_eq by apply N2Z.is_nonneg.
  apply N2Z.inj_lt. exact Hlt.
Qed.

Lemma in_range_to_tx t : to_len_ok t -> fields_in_range t -> TP4.in_range (to_tx t).
Proof.
  intros Hto (H1 & H2 & H3 & H4 & H5 & H6 & Hd). unfold TP4.in_range, to_tx.
  cbn [T.tx_nonce T.tx_gasPrice T.tx_maxPrio T.tx_maxFee T.tx_gasLimit T.tx_value T.tx_data].
  split.
  - unfold TN.to_ok, to_len_ok in *. cbn [T.tx_to]. destruct (tx_to t) as [a|]; [|reflexivity].
    rewrite Hto. reflexivity.
  - repeat (split; [apply below256_zopt; assumption|]).
    unfold TP4.data_max, data_maxN in *. cbn [Rlp.Model.BytesNotNil]. lia.
Qed.

(* the destination the decoder produces has 20 bytes (the Go type [20]byte) *)
Section Decoder.
  Variable parse_int : bytes -> option Z.

  Lemma address_of_string_len s a : address_of_string s = Ok a -> length a = 20%nat.
  Proof.
    unfold address_of_string. destruct (hex_decode (trim_0x s)) as [b|]; [|discriminate].
    destruct (length b =? 20)%nat eqn:E; [|discriminate]. intros Ho. injection Ho as <-.
    apply Nat.eqb_eq. exact E.
  Qed.

  Lemma dec_address_len v a : dec_address v = Ok a -> length a = 20%nat.
  Proof. destruct v; cbn [dec_address]; try discriminate; apply address_of_string_len. Qed.

  Lemma tx_member_to_ok kv t t' : to_len_ok t -> tx_member parse_int kv t = Ok t' -> to_len_ok t'.
  Proof.
    intros Hok. destruct kv as [k v]. unfold tx_member.
    repeat (match goal with |- context [if ?b then _ else _] => destruct b end);
      try (intros Ho; apply bind_ok in Ho as (x & _ & Ho); injection Ho as <-; exact Hok);
      try (intros Ho; injection Ho as <-; exact Hok).
    intros Ho. apply bind_ok in Ho as (x & Hx & Ho). injection Ho as <-. unfold to_len_ok. cbn [tx_to].
    unfold dec_address_ptr in Hx. destruct v; try (apply bind_ok in Hx as (a & Ha & Hx); injection Hx as <-;
      apply dec_address_len in Ha; exact Ha).
    injection Hx as <-. exact I.
  Qed.

  Lemma tx_members_to_ok m : forall t t', to_len_ok t -> tx_members parse_int m t = Ok t' -> to_len_ok t'.
  Proof.
    induction m as [|kv m IH]; intros t t' Hok; cbn [tx_members].
    - intros Ho. injection Ho as <-. exact Hok.
    - intros Ho. apply bind_ok in Ho as (t1 & H1 & Ho). eapply IH; [|exact Ho]. eapply tx_member_to_ok; eauto.
  Qed.

  Lemma decode_transaction_to_ok p t : decode_transaction parse_int p = Ok t -> to_len_ok t.
  Proof.
    destruct p; cbn [decode_transaction]; try discriminate. apply tx_members_to_ok. exact I.
  Qed.
End Decoder.

Lemma to_len_ok_set_nonce t n : to_len_ok t -> to_len_ok (set_nonce t n).
Proof. exact (fun H => H). Qed.

(* ================= 2. the signer: Transaction.Sign with the KeyPair of C05 ================= *)

Section Signer.
  Variable o : group_ops.                         (* the curve group *)
  Variable H : bytes -> bytes.                    (* Keccak-256 *)
  Variable nonce : Z -> bytes -> nat -> Z.        (* btcec's RFC 6979 nonce stream *)
  Variable fuel : nat.                            (* bound on the retry loop of the signing model *)

  (* fswallet.Sign after getSignerForAddr: txn.Sign(keypair, chainID) — the automatic mode *)
  Definition c01_sign (d : N) (tc : transaction * Z) : res bytes :=
    T.Sign (to_tx (fst tc)) (Some (T.KeyPairSign H (TP3.secp_sign_direct o nonce fuel) d)) (snd tc).

  (* KeyPair.Address *)
  Definition c01_addr (d : N) : bytes := TP3.secp_address o H d.

  (* public-key recovery as the specification of C09 wants it (digest, yParity, r, s): C05's model of
     SignatureData.RecoverDirect on V = 27 + yParity (the chain id is not consulted for such a V) *)
  Definition secp_ecrecover (digest : bytes) (y r s : N) : option bytes :=
    match TP3.secp_RecoverDirect o H ((27 + Z.of_N y)%Z, Z.of_N r, Z.of_N s) digest 0%Z with
    | Ok a => Some a
    | _ => None
    end.

  (* the 2^-128 event left out by C01/C05: x(kG) >= n makes btcec answer V = 29/30.  Stated for the ONE
     digest the request makes the signer sign. *)
  Definition v_legacy_for (d : N) (t : transaction) (chain : Z) : Prop :=
    forall sg,
      SM.SignDirect o nonce fuel (Z.of_N d)
                    (H (TS.spec_preimage (requested_format t) (requested_fields t) (Z.to_N chain))) = Ok sg ->
      TP.v_legacy (SM.sV sg).

  (* the guards of C01's end-to-end theorem, on key, chain id and request *)
  Definition c01_guards (d : N) (t : transaction) (chain : Z) : Prop :=
    (1 <= Z.of_N d < n o)%Z /\ (0 <= chain <= 2 ^ 53)%Z /\ to_len_ok t /\ fields_in_range t /\ v_legacy_for d t chain.

  Hypothesis L : laws o.
  Hypothesis n_fits : (n o < SM.two256)%Z.
  Hypothesis H_len : forall x, length (H x) = 32%nat.

  (* [signer_sound] of Rpc/WithWallet.v for this signer, under C01's guards *)
  Theorem c01_signer_sound d t chain raw :
    c01_guards d t chain ->
    c01_sign d (t, chain) = Ok raw ->
    raw_recovers_to H secp_ecrecover raw (Z.to_N chain) (c01_addr d) (requested_format t) (requested_fields t).
  Proof.
    intros (Hd & Hc & Hto & Hf & Hv) Hs. unfold c01_sign in Hs. cbn [fst snd] in Hs.
    pose proof (in_range_to_tx t Hto Hf) as HR.
    destruct (TP4.sign_recover_secp_in_range o L n_fits H H_len nonce fuel T.Auto (to_tx t) d chain raw Hd Hc HR Hs)
      as (v & r & s & Esd & Hr & Hsr & _ & _ & Hfin).
    rewrite format_to_tx, norm_to_tx in Esd, Hfin.
    pose proof (Hv _ Esd) as Hleg. cbn [SM.sV] in Hleg.
    destruct (Hfin Hleg) as [Eraw _].
    exists (TP.y_of v), (Z.to_N r), (Z.to_N s).
    split; [destruct Hleg as [-> | ->]; vm_compute; reflexivity|].
    split; [exact Eraw|].
    unfold secp_ecrecover.
    assert (Ev : (27 + Z.of_N (TP.y_of v))%Z = v) by (destruct Hleg as [-> | ->]; reflexivity).
    rewrite Ev, !Z2N.id by lia.
    assert (Esd' : TP3.secp_sign_direct o nonce fuel d
                     (H (TS.spec_preimage (requested_format t) (requested_fields t) (Z.to_N chain))) = Ok (v, r, s)).
    { unfold TP3.secp_sign_direct. rewrite Esd. reflexivity. }
    assert (H0 : (0 <= 0 <= 2 ^ 53)%Z) by lia.
    destruct (TP3.secp_RD_inverts o L n_fits H H_len nonce fuel d 0%Z _ v r s Hd H0 Esd' Hleg) as [-> _].
    reflexivity.
  Qed.

  (* the bytes, spelt out: the wire format of the requested fields with the signature C05's SignDirect
     answers over the hash of the specification's preimage, which verifies against d*G *)
  Theorem c01_sign_is_spec d t chain raw :
    c01_guards d t chain -> c01_sign d (t, chain) = Ok raw ->
    let fm := requested_format t in
    let f := requested_fields t in
    let pre := TS.spec_preimage fm f (Z.to_N chain) in
    exists v r s,
      SM.SignDirect o nonce fuel (Z.of_N d) (H pre) = Ok {| SM.sV := v; SM.sR := r; SM.sS := s |} /\
      (1 <= r < n o)%Z /\ (1 <= s < n o)%Z /\ (2 * s <= n o)%Z /\
      ecdsa_verify o (pub o (Z.of_N d)) (SM.hash_to_z (H pre)) r s = true /\
      raw = TS.spec_signed fm f (Z.to_N chain) (TP.y_of v) (Z.to_N r) (Z.to_N s).
  Proof.
    intros (Hd & Hc & Hto & Hf & Hv) Hs. unfold c01_sign in Hs. cbn [fst snd] in Hs.
    pose proof (in_range_to_tx t Hto Hf) as HR.
    destruct (TP4.sign_recover_secp_in_range o L n_fits H H_len nonce fuel T.Auto (to_tx t) d chain raw Hd Hc HR Hs)
      as (v & r & s & Esd & Hr & Hsr & Hlow & Hver & Hfin).
    rewrite format_to_tx, norm_to_tx in Esd, Hver, Hfin.
    pose proof (Hv _ Esd) as Hleg. cbn [SM.sV] in Hleg. destruct (Hfin Hleg) as [Eraw _].
    cbv zeta. exists v, r, s. repeat (split; [assumption|]). exact Eraw.
  Qed.
End Signer.

(* Transaction.Sign with a KeyPair does not panic (SignDirect is total, the [0:6] slice of the EIP-155
   payload is in bounds) *)
Lemma c01_sign_nopanic o H nonce fuel d tc : c01_sign o H nonce fuel d tc <> Panic.
Proof.
  unfold c01_sign, T.Sign.
  assert (Hsd : forall m, T.KeyPairSign H (TP3.secp_sign_direct o nonce fuel) d m <> Panic).
  { intros m. unfold T.KeyPairSign, TP3.secp_sign_direct.
    pose proof (SP.SignDirect_total o nonce fuel (Z.of_N d) (H m)) as Ht.
    destruct (SM.SignDirect o nonce fuel (Z.of_N d) (H m)); [discriminate|discriminate|exfalso; apply Ht; reflexivity]. }
  destruct (T.wants1559 (to_tx (fst tc))).
  - unfold T.SignEIP1559. apply bind_not_panic; [apply Hsd|]. intros sg _. discriminate.
  - unfold T.SignLegacyEIP155. apply bind_not_panic; [apply Hsd|]. intros sg _.
    unfold T.FinalizeLegacyEIP155WithSignature. cbn [T.SignaturePayloadLegacyEIP155 T.sp_list].
    rewrite TP.lslice_legacy6. discriminate.
Qed.

(* ================= 3. the wallet's external world with this signer ================= *)

Section WithSigner.
  Context {doc tsig : Type}.
  Variable o : group_ops.
  Variable H : bytes -> bytes.
  Variable nonce : Z -> bytes -> nat -> Z.
  Variable fuel : nat.
  Notation wtx := (transaction * Z)%type.
  (* everything else that is not firefly-signer's wallet code (regexp, templates, path.Join, the keystore
     reader, the typed-data signer); its own addr_of / sign_tx are not used *)
  Variable E0 : W.ext N wtx bytes doc tsig.

  (* keys are private scalars; the address and the transaction signer are C05's / C01's models *)
  Definition with_signer : W.ext N wtx bytes doc tsig :=
    {| W.re_compile := W.re_compile N wtx bytes doc tsig E0;
       W.re_find := W.re_find N wtx bytes doc tsig E0;
       W.tmpl_parse_ok := W.tmpl_parse_ok N wtx bytes doc tsig E0;
       W.meta_parse := W.meta_parse N wtx bytes doc tsig E0;
       W.tmpl_exec := W.tmpl_exec N wtx bytes doc tsig E0;
       W.json_string := W.json_string N wtx bytes doc tsig E0;
       W.trim_space := W.trim_space N wtx bytes doc tsig E0;
       W.path_join := W.path_join N wtx bytes doc tsig E0;
       W.read_wallet := W.read_wallet N wtx bytes doc tsig E0;
       W.addr_of := c01_addr o H;
       W.sign_tx := c01_sign o H nonce fuel;
       W.sign_td := W.sign_td N wtx bytes doc tsig E0 |}.

  Lemma with_signer_nopanic :
    WP3.ext_nopanic N wtx bytes doc tsig E0 -> WP3.ext_nopanic N wtx bytes doc tsig with_signer.
  Proof.
    intros (Hr & _ & Htd). split; [exact Hr|]. split; [|exact Htd].
    intros k t. apply c01_sign_nopanic.
  Qed.

  (* ---------- every key the wallet holds came out of the keystore reader ---------- *)
  Section KeysFromReader.
    Variable E : W.ext N wtx bytes doc tsig.
    Variable c : W.config.
    Variable P : N -> Prop.
    Notation wstate := (W.state N).

    Definition reader_yields : Prop := forall content pw k, W.read_wallet N wtx bytes doc tsig E content pw = Ok k -> P k.
    Definition cache_all (s : wstate) : Prop := forall ks w, W.assoc_get ks (W.st_cache N s) = Some w -> P w.

    Hypothesis HR : reader_yields.

    Lemma loadWalletFile_yields fs a fn k :
      W.loadWalletFile N wtx bytes doc tsig E c fs a fn = Ok k -> P k.
    Proof.
      unfold W.loadWalletFile. intros Hl.
      apply bind_ok in Hl as (b & _ & Hl). apply bind_ok in Hl as ([kf pf] & _ & Hl).
      apply bind_ok in Hl as (b' & _ & Hl). apply bind_ok in Hl as (pw & _ & Hl).
      destruct (W.read_wallet N wtx bytes doc tsig E b' pw) as [k'| |] eqn:Er; try discriminate.
      injection Hl as <-. eapply HR; eauto.
    Qed.

    Lemma GetWalletFile_yields (s s' : wstate) a r :
      cache_all s -> W.GetWalletFile N wtx bytes doc tsig E c s a = (s', r) ->
      cache_all s' /\ (forall k, r = Ok k -> P k).
    Proof.
      intros Hc. unfold W.GetWalletFile.
      destruct (W.assoc_get (W.addr_string a) (W.st_cache N s)) as [w|] eqn:Hg.
      { intros Hq; inversion Hq; subst. split; [exact Hc|]. intros k Hk. injection Hk as <-. eapply Hc; eauto. }
      destruct (W.assoc_get a (W.st_map N s)) as [fn|].
      2:{ intros Hq; inversion Hq; subst. split; [exact Hc|]. intros k Hk; discriminate. }
      destruct (W.loadWalletFile N wtx bytes doc tsig E c (W.st_fs N s) a _) as [k'| |] eqn:Hl.
      - apply loadWalletFile_yields in Hl.
        destruct (bytes_eqb (W.addr_of N wtx bytes doc tsig E k') a); simpl; intros Hq; inversion Hq; subst.
        + split; [|intros k Hk; injection Hk as <-; exact Hl].
          intros ks w Hw. cbn [W.st_cache] in Hw. rewrite WP.assoc_get_set in Hw.
          destruct (bytes_eqb ks (W.addr_string a)); [injection Hw as <-; exact Hl|eapply Hc; eauto].
        + split; [exact Hc|]. intros k Hk; discriminate.
      - intros Hq; inversion Hq; subst. split; [exact Hc|]. intros k Hk; discriminate.
      - intros Hq; inversion Hq; subst. split; [exact Hc|]. intros k Hk; discriminate.
    Qed.

    Lemma step_cache_all (s : wstate) (op : W.op wtx doc) :
      cache_all s -> cache_all (fst (W.step N wtx bytes doc tsig E c s op)).
    Proof.
      intros Hc. destruct op; simpl; try exact Hc.
      - destruct (W.Refresh N wtx bytes doc tsig E c s) as [s' r] eqn:Hr.
        apply WP.Refresh_cache in Hr as [Hcache _]. simpl. intros ks w Hw. rewrite Hcache in Hw. eapply Hc; eauto.
      - unfold W.Sign, W.getSignerForJSONAccount, W.getSignerForAddr.
        destruct (W.parse_from _ _ _ _ _ E from_raw) as [a|]; [|exact Hc].
        destruct (W.GetWalletFile N wtx bytes doc tsig E c s a) as [s' r] eqn:Hw. simpl.
        exact (proj1 (GetWalletFile_yields s s' a r Hc Hw)).
      - unfold W.SignTypedDataV4, W.getSignerForAddr.
        destruct (W.GetWalletFile N wtx bytes doc tsig E c s from) as [s' r] eqn:Hw. simpl.
        exact (proj1 (GetWalletFile_yields s s' from r Hc Hw)).
      - destruct (W.GetWalletFile N wtx bytes doc tsig E c s addr) as [s' r] eqn:Hw. simpl.
        exact (proj1 (GetWalletFile_yields s s' addr r Hc Hw)).
      - destruct (W.notifyNewFiles N wtx bytes doc tsig E c s [(name, isdir)]) as [s'| |] eqn:Hn; simpl; try exact Hc.
        apply WP.notifyNewFiles_cache in Hn as [Hcache _]. intros ks w Hw. rewrite Hcache in Hw. eapply Hc; eauto.
      - intros ks w Hw. cbn [W.st_cache] in Hw. rewrite WP.assoc_get_del in Hw.
        destruct (bytes_eqb ks k); [discriminate|eapply Hc; eauto].
    Qed.

    Lemma after_cache_all h : forall s : wstate, cache_all s -> cache_all (W.after N wtx bytes doc tsig E c s h).
    Proof.
      induction h as [|op h IH]; intros s Hc; [exact Hc|].
      rewrite WP.after_cons. apply IH, step_cache_all, Hc.
    Qed.

    (* the key file owning `from` holds a key the reader produced *)
    Lemma key_of_from_yields fs h a k : key_of_from E c (fs_state E c fs h) a k -> P k.
    Proof.
      intros (_ & _ & [Hc|(fn & _ & _ & Hl)]).
      - assert (Hall : cache_all (fs_state E c fs h)) by (apply after_cache_all; intros ks w Hw; discriminate).
        eapply Hall; eauto.
      - eapply loadWalletFile_yields; eauto.
    Qed.
  End KeysFromReader.
End WithSigner.
