(* C16 <-> C09 refinement, part 1 (builder b-c16): the abstraction between b-c09's concrete proxy model
   (Rpc/Json.v + Rpc/Model.v) and the panic-explicit well-formedness model of C16 (Rpc/Body.v +
   Rpc/WfModel.v), for the data both share, and the agreement of the two typed decoders.

     Json.json          --j2v-->   Body.jv           (the same trees; v2j is the inverse)
     lex body           --verdict_of-->  Body.verdict
     Json.rpc_request   --abs_req--> Body.request     (a JSON null parameter is a nil *JSONAny; conc_req is
                                                       the inverse on the image)
     Json.rpc_response  --abs_resp--> WfModel.response (drops what WfModel does not look at: the members
                                                       method / params of a notification, error.data; the
                                                       text of a message produced by the proxy itself is
                                                       the marker of the other model)

   Lemmas: [decode_single_sim], [decode_batch_sim]: Body's typed decoding of [verdict_of (lex body)] is
   the abstraction of Json's typed decoding of [lex body] (same Ok / Err class, same error code).
   Nothing here depends on a backend, a wallet or an order. *)
From Coq Require Import String.
From Coq Require Import List NArith ZArith Bool Arith Lia.
From Coq Require Import Init.Byte.
From FFS Require Import Base.Res Base.Bytes.
From FFS Require Rpc.Body Rpc.WfModel Rpc.Json Rpc.Model.
Import ListNotations.

(* ---------- trees ---------- *)

Fixpoint j2v (t : Json.json) : Body.jv :=
  match t with
  | Json.JNull => Body.JNull
  | Json.JBool b => Body.JBool b
  | Json.JNum x => Body.JNum x
  | Json.JStr s => Body.JStr s
  | Json.JArr l => Body.JArr (map j2v l)
  | Json.JObj m => Body.JObj (map (fun kv => (fst kv, j2v (snd kv))) m)
  end.

Fixpoint v2j (t : Body.jv) : Json.json :=
  match t with
  | Body.JNull => Json.JNull
  | Body.JBool b => Json.JBool b
  | Body.JNum x => Json.JNum x
  | Body.JStr s => Json.JStr s
  | Body.JArr l => Json.JArr (map v2j l)
  | Body.JObj m => Json.JObj (map (fun kv => (fst kv, v2j (snd kv))) m)
  end.

Section JsonInd.
  Variable P : Json.json -> Prop.
  Hypothesis Hnull : P Json.JNull.
  Hypothesis Hbool : forall b, P (Json.JBool b).
  Hypothesis Hnum : forall x, P (Json.JNum x).
  Hypothesis Hstr : forall s, P (Json.JStr s).
  Hypothesis Harr : forall l, Forall P l -> P (Json.JArr l).
  Hypothesis Hobj : forall m, Forall (fun kv => P (snd kv)) m -> P (Json.JObj m).

  Fixpoint json_ind' (t : Json.json) : P t :=
    match t with
    | Json.JNull => Hnull
    | Json.JBool b => Hbool b
    | Json.JNum x => Hnum x
    | Json.JStr s => Hstr s
    | Json.JArr l =>
        Harr l ((fix go (l : list Json.json) : Forall P l :=
                   match l with
                   | [] => Forall_nil _
                   | x :: r => Forall_cons x (json_ind' x) (go r)
                   end) l)
    | Json.JObj m =>
        Hobj m ((fix go (m : list (bytes * Json.json)) : Forall (fun kv => P (snd kv)) m :=
                   match m with
                   | [] => Forall_nil _
                   | kv :: r => Forall_cons kv (json_ind' (snd kv)) (go r)
                   end) m)
    end.
End JsonInd.

Lemma map_fix_Forall {A} (f : A -> A) l : Forall (fun x => f x = x) l -> map f l = l.
Proof. induction 1 as [|x l Hx _ IH]; simpl; [reflexivity|]. rewrite Hx, IH. reflexivity. Qed.

Lemma v2j_j2v t : v2j (j2v t) = t.
Proof.
  induction t using json_ind'; simpl; try reflexivity.
  - f_equal. rewrite map_map. apply map_fix_Forall. exact H.
  - f_equal. rewrite map_map. apply map_fix_Forall.
    eapply Forall_impl; [|exact H]. intros [k v] Hv. simpl in *. rewrite Hv. reflexivity.
Qed.

Section JvInd.
  Variable P : Body.jv -> Prop.
  Hypothesis Hnull : P Body.JNull.
  Hypothesis Hbool : forall b, P (Body.JBool b).
  Hypothesis Hnum : forall x, P (Body.JNum x).
  Hypothesis Hstr : forall s, P (Body.JStr s).
  Hypothesis Harr : forall l, Forall P l -> P (Body.JArr l).
  Hypothesis Hobj : forall m, Forall (fun kv => P (snd kv)) m -> P (Body.JObj m).

  Fixpoint jv_ind' (t : Body.jv) : P t :=
    match t with
    | Body.JNull => Hnull
    | Body.JBool b => Hbool b
    | Body.JNum x => Hnum x
    | Body.JStr s => Hstr s
    | Body.JArr l =>
        Harr l ((fix go (l : list Body.jv) : Forall P l :=
                   match l with
                   | [] => Forall_nil _
                   | x :: r => Forall_cons x (jv_ind' x) (go r)
                   end) l)
    | Body.JObj m =>
        Hobj m ((fix go (m : list (bytes * Body.jv)) : Forall (fun kv => P (snd kv)) m :=
                   match m with
                   | [] => Forall_nil _
                   | kv :: r => Forall_cons kv (jv_ind' (snd kv)) (go r)
                   end) m)
    end.
End JvInd.

Lemma j2v_v2j t : j2v (v2j t) = t.
Proof.
  induction t using jv_ind'; simpl; try reflexivity.
  - f_equal. rewrite map_map. apply map_fix_Forall. exact H.
  - f_equal. rewrite map_map. apply map_fix_Forall.
    eapply Forall_impl; [|exact H]. intros [k v] Hv. simpl in *. rewrite Hv. reflexivity.
Qed.

Definition j2v_opt (o : option Json.json) : option Body.jv := option_map j2v o.
Definition v2j_opt (o : option Body.jv) : option Json.json := option_map v2j o.

Lemma v2j_j2v_opt o : v2j_opt (j2v_opt o) = o.
Proof. destruct o; simpl; [rewrite v2j_j2v|]; reflexivity. Qed.
Lemma j2v_v2j_opt o : j2v_opt (v2j_opt o) = o.
Proof. destruct o; simpl; [rewrite j2v_v2j|]; reflexivity. Qed.

(* what encoding/json's lexer makes of the body, as WfModel's oracle verdict *)
Definition verdict_of (o : option Json.json) : Body.verdict :=
  match o with None => Body.SyntaxError | Some t => Body.Tree (j2v t) end.

(* ---------- requests ---------- *)

(* []*fftypes.JSONAny: Json keeps a nil element as JNull, Body as None *)
Definition abs_param (p : Json.json) : option Body.jv := Body.param_of (j2v p).
Definition conc_param (p : option Body.jv) : Json.json :=
  match p with None => Json.JNull | Some v => v2j v end.

Lemma conc_abs_param p : conc_param (abs_param p) = p.
Proof.
  unfold abs_param. destruct p; try reflexivity.
  - change (Body.param_of (j2v (Json.JArr l))) with (Some (j2v (Json.JArr l))).
    unfold conc_param. apply v2j_j2v.
  - change (Body.param_of (j2v (Json.JObj m))) with (Some (j2v (Json.JObj m))).
    unfold conc_param. apply v2j_j2v.
Qed.

Definition abs_req (r : Json.rpc_request) : Body.request :=
  Body.mkReq (Json.rq_jsonrpc r) (j2v_opt (Json.rq_id r)) (Json.rq_method r) (map abs_param (Json.rq_params r)).
Definition conc_req (q : Body.request) : Json.rpc_request :=
  Json.mkReq (Body.q_jsonrpc q) (v2j_opt (Body.q_id q)) (Body.q_method q) (map conc_param (Body.q_params q)).
Definition abs_oreq (m : option Json.rpc_request) : option Body.request := option_map abs_req m.

Lemma map_conc_abs l : map conc_param (map abs_param l) = l.
Proof. induction l as [|p l IH]; simpl; [reflexivity|]. rewrite conc_abs_param, IH. reflexivity. Qed.

Lemma conc_abs_req r : conc_req (abs_req r) = r.
Proof.
  destruct r as [j i m p]. unfold conc_req, abs_req. simpl.
  rewrite v2j_j2v_opt, map_conc_abs. reflexivity.
Qed.

(* ---------- responses ---------- *)

(* a message text produced by the proxy itself is never compared: each model has its own marker *)
Definition abs_err (e : Json.rpc_error) : WfModel.rpc_error :=
  WfModel.mkErr (Json.e_code e) (if Json.e_relayed e then Json.e_message e else WfModel.some_text).
Definition abs_resp (r : Json.rpc_response) : WfModel.response :=
  WfModel.mkResp (Json.rs_jsonrpc r) (j2v_opt (Json.rs_id r)) (j2v_opt (Json.rs_result r))
                 (option_map abs_err (Json.rs_error r)).
Definition abs_oresp (o : option Json.rpc_response) : option WfModel.response := option_map abs_resp o.

Lemma abs_error_response id code :
  abs_resp (Model.RPCErrorResponse id code) = WfModel.RPCErrorResponse (j2v_opt id) code.
Proof. reflexivity. Qed.

(* ---------- field-name folding ---------- *)

(* the two folding functions are the same fixpoint, written twice *)
Lemma fold_eq k : Json.fold_name k = Body.fold_key k.
Proof. reflexivity. Qed.

Lemma bytes_eqb_sym a b : bytes_eqb a b = bytes_eqb b a.
Proof.
  destruct (bytes_eqb_spec a b) as [E|N]; destruct (bytes_eqb_spec b a) as [E'|N']; try reflexivity; congruence.
Qed.

Lemma nm_jsonrpc k : Json.name_matches (Json.bs "jsonrpc") k = bytes_eqb (Body.fold_key k) Body.name_jsonrpc.
Proof. unfold Json.name_matches. rewrite bytes_eqb_sym, fold_eq. reflexivity. Qed.
Lemma nm_id k : Json.name_matches (Json.bs "id") k = bytes_eqb (Body.fold_key k) Body.name_id.
Proof. unfold Json.name_matches. rewrite bytes_eqb_sym, fold_eq. reflexivity. Qed.
Lemma nm_method k : Json.name_matches (Json.bs "method") k = bytes_eqb (Body.fold_key k) Body.name_method.
Proof. unfold Json.name_matches. rewrite bytes_eqb_sym, fold_eq. reflexivity. Qed.
Lemma nm_params k : Json.name_matches (Json.bs "params") k = bytes_eqb (Body.fold_key k) Body.name_params.
Proof. unfold Json.name_matches. rewrite bytes_eqb_sym, fold_eq. reflexivity. Qed.

(* ---------- typed decoding of a request ---------- *)

Definition jkv (kv : bytes * Json.json) : bytes * Body.jv := (fst kv, j2v (snd kv)).

Lemma request_member_sim k v r bad :
  (let '(r', b') := Json.request_member (k, v) (r, bad) in (abs_req r', b'))
  = match Body.field_of_key k with
    | None => (abs_req r, bad)
    | Some f => let '(q', b) := Body.set_field (abs_req r) f (j2v v) in (q', bad || b)
    end.
Proof.
  unfold Json.request_member, Body.field_of_key.
  rewrite nm_jsonrpc, nm_id, nm_method, nm_params.
  destruct (bytes_eqb (Body.fold_key k) Body.name_jsonrpc).
  { destruct v; simpl; unfold abs_req; simpl; rewrite ?orb_false_r, ?orb_true_r, ?map_map; reflexivity. }
  destruct (bytes_eqb (Body.fold_key k) Body.name_id).
  { destruct v; simpl; unfold abs_req; simpl; rewrite ?orb_false_r, ?orb_true_r, ?map_map; reflexivity. }
  destruct (bytes_eqb (Body.fold_key k) Body.name_method).
  { destruct v; simpl; unfold abs_req; simpl; rewrite ?orb_false_r, ?orb_true_r, ?map_map; reflexivity. }
  destruct (bytes_eqb (Body.fold_key k) Body.name_params).
  { destruct v; simpl; unfold abs_req; simpl; rewrite ?orb_false_r, ?orb_true_r, ?map_map; reflexivity. }
  reflexivity.
Qed.

Lemma decode_members_sim m : forall r bad,
  Body.decode_members (map jkv m) (abs_req r) bad
  = (let '(r', b') := fold_left (fun st kv => Json.request_member kv st) m (r, bad) in (abs_req r', b')).
Proof.
  induction m as [|[k v] m IH]; intros r bad; [reflexivity|].
  cbn [map fold_left Body.decode_members jkv fst snd].
  pose proof (request_member_sim k v r bad) as S.
  destruct (Json.request_member (k, v) (r, bad)) as [r1 b1].
  destruct (Body.field_of_key k) as [f|].
  - destruct (Body.set_field (abs_req r) f (j2v v)) as [q' b].
    apply pair_equal_spec in S. destruct S as [S1 S2]. rewrite <- S1, <- S2. apply IH.
  - apply pair_equal_spec in S. destruct S as [S1 S2]. rewrite <- S1, <- S2. apply IH.
Qed.

(* one value into a zero RPCRequest: the same struct and the same verdict *)
Lemma decode_request_value_sim t :
  match Json.decode_request t with
  | Ok rq => Body.decode_request_value (j2v t) = (abs_req rq, false)
  | Err e => e = Body.EParse /\ snd (Body.decode_request_value (j2v t)) = true
  | Panic => False
  end.
Proof.
  destruct t; simpl; try (split; reflexivity); try reflexivity.
  pose proof (decode_members_sim m Json.zero_request false) as S.
  change (map (fun kv => (fst kv, j2v (snd kv))) m) with (map jkv m).
  change (abs_req Json.zero_request) with Body.zero_request in S.
  destruct (fold_left _ m (Json.zero_request, false)) as [r' b'].
  rewrite S. destruct b'; [split; reflexivity|reflexivity].
Qed.

Definition rmap {A B} (f : A -> B) (r : res A) : res B :=
  match r with Ok a => Ok (f a) | Err e => Err e | Panic => Panic end.

(* json.Unmarshal(body, &rpcRequest) *)
Theorem decode_single_sim o :
  Body.decode_single (verdict_of o)
  = match o with None => Err Body.EParse | Some t => rmap abs_req (Json.decode_request t) end.
Proof.
  destruct o as [t|]; [|reflexivity]. simpl.
  pose proof (decode_request_value_sim t) as S.
  destruct (Json.decode_request t) as [rq|e|]; simpl.
  - rewrite S. reflexivity.
  - destruct S as [-> S]. destruct (Body.decode_request_value (j2v t)) as [q b]. simpl in S. subst b. reflexivity.
  - contradiction.
Qed.

(* one element of the array into a *RPCRequest *)
Definition member_res (x : Json.json) : res (option Json.rpc_request) :=
  match x with Json.JNull => Ok None | _ => do q <- Json.decode_request x; Ok (Some q) end.

Lemma decode_members_unfold x l :
  Json.decode_members (x :: l) = (do m <- member_res x; do r <- Json.decode_members l; Ok (m :: r)).
Proof.
  destruct x; try reflexivity;
    cbn [Json.decode_members member_res]; destruct (Json.decode_request _); reflexivity.
Qed.

Lemma decode_member_sim x :
  match member_res x with
  | Ok m => Body.decode_member (j2v x) = (abs_oreq m, false)
  | Err e => e = Body.EParse /\ snd (Body.decode_member (j2v x)) = true
  | Panic => False
  end.
Proof.
  assert (G : forall y, y <> Json.JNull ->
    match member_res y with
    | Ok m => Body.decode_member (j2v y) = (abs_oreq m, false)
    | Err e => e = Body.EParse /\ snd (Body.decode_member (j2v y)) = true
    | Panic => False
    end).
  { intros y Hy. pose proof (decode_request_value_sim y) as S.
    assert (E1 : member_res y = (do q <- Json.decode_request y; Ok (Some q)))
      by (destruct y; first [congruence|reflexivity]).
    assert (E2 : Body.decode_member (j2v y) = (let '(q, bad) := Body.decode_request_value (j2v y) in (Some q, bad)))
      by (destruct y; first [congruence|reflexivity]).
    rewrite E1, E2. destruct (Json.decode_request y) as [q|e|]; simpl.
    - rewrite S. reflexivity.
    - destruct S as [-> S]. destruct (Body.decode_request_value (j2v y)) as [q b]. simpl in *. subst b. split; reflexivity.
    - contradiction. }
  destruct x; try (apply G; discriminate). reflexivity.
Qed.

Lemma decode_member_list_sim l :
  match Json.decode_members l with
  | Ok ms => Body.decode_member_list (map j2v l) = (map abs_oreq ms, false)
  | Err e => e = Body.EParse /\ snd (Body.decode_member_list (map j2v l)) = true
  | Panic => False
  end.
Proof.
  induction l as [|x l IH]; [reflexivity|].
  rewrite decode_members_unfold. cbn [map Body.decode_member_list].
  pose proof (decode_member_sim x) as S.
  destruct (member_res x) as [m|e|]; cbn [bind].
  - rewrite S. destruct (Json.decode_members l) as [ms|e|]; cbn [bind].
    + rewrite IH. reflexivity.
    + destruct IH as [-> IH]. destruct (Body.decode_member_list (map j2v l)) as [ms b]. simpl in *. subst b. split; reflexivity.
    + contradiction.
  - destruct S as [-> S]. destruct (Body.decode_member (j2v x)) as [m b]. simpl in S. subst b.
    destruct (Body.decode_member_list (map j2v l)) as [ms b]. split; reflexivity.
  - contradiction.
Qed.

(* json.Unmarshal(body, &rpcArray) *)
Theorem decode_batch_sim o :
  Body.decode_batch (verdict_of o)
  = match o with None => Err Body.EParse | Some t => rmap (map abs_oreq) (Json.decode_batch t) end.
Proof.
  destruct o as [t|]; [|reflexivity].
  destruct t; try reflexivity.
  cbn [verdict_of j2v Body.decode_batch Json.decode_batch].
  pose proof (decode_member_list_sim l) as S.
  destruct (Json.decode_members l) as [ms|e|]; simpl.
  - rewrite S. reflexivity.
  - destruct S as [-> S]. destruct (Body.decode_member_list (map j2v l)) as [ms b]. simpl in S. subst b. reflexivity.
  - contradiction.
Qed.
