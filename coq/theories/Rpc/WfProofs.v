(* C16 proofs, part 1 (builder b-c16): the handler model never panics -- on the request goroutine or on
   any member goroutine of a batch, for every body, lexer verdict, world, wallet and backend, under every
   completion order of the members. *)
From Coq Require Import String.
From Coq Require Import List NArith ZArith Bool Lia Permutation.
From Coq Require Import Init.Byte.
From FFS Require Import Base.Res Base.Bytes Rpc.Body Rpc.WfModel Rpc.WfSpec.
Import ListNotations.

Lemma set_slot_ok {A} (l : list A) i v : (i < length l)%nat -> exists l', set_slot l i v = Ok l' /\ length l' = length l.
Proof.
  revert i. induction l as [|x l IH]; intros i H; simpl in H; [lia|].
  destruct i as [|i]; simpl.
  - eexists; split; [reflexivity|reflexivity].
  - destruct (IH i) as [l' [E L]]; [lia|]. rewrite E. simpl. eexists; split; [reflexivity|simpl; lia].
Qed.

Lemma set_slot_nth {A} (l l' : list A) i v : set_slot l i v = Ok l' ->
  nth_error l' i = Some v /\ forall j, j <> i -> nth_error l' j = nth_error l j.
Proof.
  revert i l'. induction l as [|x l IH]; intros i l' H; [destruct i; discriminate|].
  destruct i as [|i]; simpl in H.
  - injection H as <-. split; [reflexivity|]. intros [|j] Hj; [congruence|reflexivity].
  - destruct (set_slot l i v) as [t| |] eqn:E; simpl in H; try discriminate. injection H as <-.
    destruct (IH _ _ E) as [H1 H2]. split; [exact H1|].
    intros [|j] Hj; [reflexivity|]. simpl. apply H2. congruence.
Qed.

Lemma index_list_ok {A} (l : list A) i : (i < length l)%nat -> exists a, index_list l i = Ok a /\ nth_error l i = Some a.
Proof.
  intros H. unfold index_list. destruct (nth_error l i) eqn:E.
  - eauto.
  - apply nth_error_None in E. lia.
Qed.

Section Total.
  Variable W F : Type.
  Variable sync_request : W -> request -> (option response * bool) * W.
  Variable call_nonce : W -> F -> option rpc_error * W.
  Variable get_accounts : W -> option (list bytes) * W.
  Variable sign : W -> txn_view F -> option bytes * W.
  Variable decode_txn : option jv -> option (txn_view F).
  Variable parse_from : F -> bool.
  Variable sched : W -> nat -> list nat.

  Notation processEthAccounts := (processEthAccounts W get_accounts).
  Notation processEthSendTransaction := (processEthSendTransaction W F sync_request call_nonce sign decode_txn parse_from).
  Notation processRPC := (processRPC W F sync_request call_nonce get_accounts sign decode_txn parse_from).
  Notation run_members := (run_members W F sync_request call_nonce get_accounts sign decode_txn parse_from).
  Notation handleRPCBatch := (handleRPCBatch W F sync_request call_nonce get_accounts sign decode_txn parse_from sched).
  Notation rpcHandler := (rpcHandler W F sync_request call_nonce get_accounts sign decode_txn parse_from sched).
  Notation serve := (serve W F sync_request call_nonce get_accounts sign decode_txn parse_from sched).

  Lemma processEthAccounts_returns w q : exists o, processEthAccounts w q = Ok o.
  Proof.
    unfold WfModel.processEthAccounts, fail_with. destruct (get_accounts w) as [[l|] w1]; eauto.
  Qed.

  Lemma processEthSendTransaction_returns w q : exists o, processEthSendTransaction w q = Ok o.
  Proof.
    unfold WfModel.processEthSendTransaction, fail_with.
    destruct (length (q_params q) <? 1)%nat eqn:E; [eauto|].
    apply Nat.ltb_ge in E.
    destruct (index_list_ok (q_params q) 0) as [p0 [E0 _]]; [lia|]. rewrite E0. simpl.
    destruct (decode_txn p0) as [txn|]; [|eauto].
    destruct (tv_from txn) as [from|]; [|eauto].
    destruct (tv_has_nonce txn).
    - destruct (sign w txn) as [[raw|] w2]; eauto.
    - destruct (parse_from from); simpl; [|eauto].
      destruct (call_nonce w from) as [[e|] w1]; [eauto|].
      destruct (sign w1 txn) as [[raw|] w2]; eauto.
  Qed.

  (* the nil member and the missing id are answered, not dereferenced *)
  Lemma processRPC_returns w m : exists o, processRPC w m = Ok o.
  Proof.
    unfold WfModel.processRPC, fail_with. destruct m as [q|]; [|eauto]. simpl.
    destruct (q_id q); [|eauto].
    destruct (bytes_eqb (q_method q) m_eth_accounts || bytes_eqb (q_method q) m_personal_accounts).
    - apply processEthAccounts_returns.
    - destruct (bytes_eqb (q_method q) m_eth_sendTransaction); [apply processEthSendTransaction_returns|eauto].
  Qed.

  Lemma run_members_returns order : forall w reqs slots failed,
    length slots = length reqs -> Forall (fun i => i < length reqs)%nat order ->
    exists slots' failed' w', run_members w reqs order slots failed = Ok (slots', failed', w') /\ length slots' = length reqs.
  Proof.
    induction order as [|i rest IH]; intros w reqs slots failed L HF; simpl.
    - eauto 6.
    - inversion HF as [|? ? Hi HR]; subst.
      destruct (index_list_ok reqs i Hi) as [r [E _]]. rewrite E. simpl.
      destruct (processRPC_returns w r) as [[[resp err] w1] Eo]. rewrite Eo. simpl.
      destruct (set_slot_ok slots i resp) as [s1 [Es Ls]]; [lia|]. rewrite Es. simpl.
      apply IH; [lia|exact HR].
  Qed.

  Hypothesis sched_perm : forall w n, Permutation (sched w n) (seq 0 n).

  Lemma sched_in_range w n : Forall (fun i => i < n)%nat (sched w n).
  Proof.
    apply Forall_forall. intros i Hi.
    apply (Permutation_in _ (sched_perm w n)) in Hi. apply in_seq in Hi. lia.
  Qed.

  Lemma handleRPCBatch_returns w v : exists rep w', handleRPCBatch w v = Ok (rep, w').
  Proof.
    unfold WfModel.handleRPCBatch.
    destruct (decode_batch v) as [reqs|e|] eqn:E.
    - destruct reqs as [|r0 reqs']; [eauto|].
      set (reqs := r0 :: reqs').
      destruct (run_members_returns (sched w (length reqs)) w reqs (repeat None (length reqs)) false)
        as [s [f [w1 [Er _]]]].
      + apply repeat_length.
      + apply sched_in_range.
      + rewrite Er. simpl. eauto.
    - eauto.
    - (* the typed decoding itself never panics *)
      exfalso. unfold decode_batch in E. destruct v as [|t]; [discriminate|].
      destruct t; try discriminate. destruct (decode_member_list l) as [ms b]. destruct b; discriminate.
  Qed.

  Theorem rpcHandler_returns w body v : exists rep w', rpcHandler w body v = Ok (rep, w').
  Proof.
    unfold WfModel.rpcHandler.
    destruct (byte_eqb (sniff_first_byte body) open_bracket); [apply handleRPCBatch_returns|].
    destruct (decode_single v) as [q|e|] eqn:E.
    - destruct (processRPC_returns w (Some q)) as [[[resp err] w1] Eo]. rewrite Eo. simpl. eauto.
    - eauto.
    - exfalso. unfold decode_single in E. destruct v as [|t]; [discriminate|].
      destruct (decode_request_value t) as [q b]. destruct b; discriminate.
  Qed.

  Theorem rpcHandler_total w body v : rpcHandler w body v <> Panic.
  Proof. destruct (rpcHandler_returns w body v) as [rep [w' E]]. rewrite E. discriminate. Qed.

  (* any finite history is served to its end *)
  Theorem serve_returns h : forall w, exists reps w', serve w h = Ok (reps, w') /\ length reps = length h.
  Proof.
    induction h as [|[b v] t IH]; intros w; simpl.
    - eauto.
    - destruct (rpcHandler_returns w b v) as [rep [w1 E]]. rewrite E. simpl.
      destruct (IH w1) as [reps [w2 [E2 L]]]. rewrite E2. simpl. eexists _, _. split; [reflexivity|simpl; lia].
  Qed.
End Total.
