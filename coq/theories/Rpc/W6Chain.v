(* C09, wave 6, part 1: the hypothesis [0 <= chain] of section 9 (the C09_end_to_end family) replaced by a hypothesis on
   the inputs only — "the process came up": [Start parse_int backend0 configured = (Ok chain, frames0)] for the
   configuration and whatever backend answered while the process started.  A configured id that is used is
   >= 0 (a negative configuration means "discover"), a discovered one lies in [0, 2^63) since fix 0c95e98
   (RefWire.start_cases, last clause). *)
From Coq Require Import String.
From Coq Require Import List NArith ZArith Bool Arith Lia Permutation.
From Coq Require Import Init.Byte.
From FFS Require Import Base.Res Base.Bytes Rlp.Spec Tx.Spec Crypto.Ecdsa Rpc.Json Rpc.Model Rpc.Spec
  Rpc.ProofsBatch Rpc.Proofs Rpc.ProofsHandler Rpc.WfProofsC09 Rpc.WithWallet Rpc.WithSigner Rpc.WithSignerE2E
  Rpc.RefWire Rpc.RefTotal.
From FFS Require Import Base.Keccak.
From FFS Require Secp.Model.
Import ListNotations.

Lemma started_nonneg parse_int backend0 configured chain frames0 :
  Start parse_int backend0 configured = (Ok chain, frames0) ->
  (0 <= chain < 9223372036854775808)%Z \/ ((0 <= configured)%Z /\ chain = configured).
Proof.
  intros E.
  destruct (start_cases parse_int backend0) as (_ & _ & _ & _ & _ & Hn).
  destruct (Hn configured chain frames0 E) as [Hc|Hz]; [right|left; exact Hz].
  destruct (start_then_send_tx parse_int backend0 configured chain frames0 E) as (_ & Hcfg & _).
  destruct (Hcfg Hc) as [-> _]. split; [exact Hc|reflexivity].
Qed.

Lemma started_chain_nonneg parse_int backend0 configured chain frames0 :
  Start parse_int backend0 configured = (Ok chain, frames0) -> (0 <= chain)%Z.
Proof. intros E. destruct (started_nonneg _ _ _ _ _ E) as [?|[? ->]]; lia. Qed.

Theorem end_to_end_started (doc tsig : Type) (o : group_ops) (H : bytes -> bytes) (nonce : Z -> bytes -> nat -> Z) (fuel : nat)
        (E0 : W.ext N (transaction * Z) bytes doc tsig) (c : W.config) parse_int lex backend0 configured backend chain frames0 :
  laws o -> (n o < Secp.Model.two256)%Z -> (forall x, length (H x) = 32%nat) ->
  Start parse_int backend0 configured = (Ok chain, frames0) ->
  reader_yields (with_signer o H nonce fuel E0) (key_in_range o) ->
  forall fs (hist : list request),
    let E := with_signer o H nonce fuel E0 in
    Forall (fun x : W.state N * bytes * res http_reply =>
              let '(s, body, reply) := x in
              (exists h, s = fs_state E c fs h) /\
              forall status tree traces frames fr,
                reply = Ok (status, tree, traces) -> In frames traces -> In fr frames -> is_raw_frame fr = true ->
                exists rq, In (Some rq) (members_of lex body) /\
                  ((rq_method rq = bs "eth_sendRawTransaction" /\ fr = mkFrame (rq_method rq) (rq_params rq)) \/
                   (rq_method rq = bs "eth_sendTransaction" /\
                    submission_specified o H nonce fuel E0 c parse_int backend chain s rq fr)))
           (serve E c parse_int lex backend chain (W.init_state N fs) hist).
Proof.
  intros L nf Hl Hs Hr.
  exact (@end_to_end doc tsig o H nonce fuel E0 c parse_int lex backend chain L nf Hl
                     (started_chain_nonneg _ _ _ _ _ Hs) Hr).
Qed.

Theorem end_to_end_keccak_started (doc tsig : Type) (o : group_ops) (nonce : Z -> bytes -> nat -> Z) (fuel : nat)
        (E0 : W.ext N (transaction * Z) bytes doc tsig) (c : W.config) parse_int lex backend0 configured backend chain frames0 :
  laws o -> (n o < Secp.Model.two256)%Z ->
  Start parse_int backend0 configured = (Ok chain, frames0) ->
  reader_yields (with_signer o keccak256 nonce fuel E0) (key_in_range o) ->
  forall fs (hist : list request),
    let E := with_signer o keccak256 nonce fuel E0 in
    Forall (fun x : W.state N * bytes * res http_reply =>
              let '(s, body, reply) := x in
              (exists h, s = fs_state E c fs h) /\
              forall status tree traces frames fr,
                reply = Ok (status, tree, traces) -> In frames traces -> In fr frames -> is_raw_frame fr = true ->
                exists rq, In (Some rq) (members_of lex body) /\
                  ((rq_method rq = bs "eth_sendRawTransaction" /\ fr = mkFrame (rq_method rq) (rq_params rq)) \/
                   (rq_method rq = bs "eth_sendTransaction" /\
                    submission_specified o keccak256 nonce fuel E0 c parse_int backend chain s rq fr)))
           (serve E c parse_int lex backend chain (W.init_state N fs) hist).
Proof.
  intros L nf Hs Hr.
  exact (@end_to_end_keccak doc tsig o nonce fuel E0 c parse_int lex backend chain L nf
                     (started_chain_nonneg _ _ _ _ _ Hs) Hr).
Qed.
