(* C09 at the level of the HTTP handler and of process start: ids in the reply tree (single and
   batch), relaying of the backend's result / error, chain id configured or discovered. *)
From Coq Require Import String.
From Coq Require Import List NArith ZArith Bool Arith Lia Permutation.
From Coq Require Import Init.Byte.
From FFS Require Import Base.Res Base.Bytes Rlp.Spec Tx.Spec Rpc.Json Rpc.Model Rpc.Spec Rpc.ProofsBatch Rpc.Proofs.
Import ListNotations.
Local Open Scope string_scope.
Local Open Scope list_scope.

(* first member of an object with the given key *)
Definition tree_member (k : bytes) (t : json) : option json :=
  match t with
  | JObj m => match find (fun kv => bytes_eqb (fst kv) k) m with Some kv => Some (snd kv) | None => None end
  | _ => None
  end.

Lemma response_tree_id r : tree_member (bs "id") (response_tree r) = Some (match rs_id r with Some j => j | None => JNull end).
Proof. reflexivity. Qed.

Lemma wrap64_small z : (0 <= z < 9223372036854775808)%Z -> wrap64 z = z.
Proof.
  intros Hz. unfold wrap64. rewrite Z.mod_small by lia.
  destruct (Z.ltb_spec z 9223372036854775808); lia.
Qed.

Section Handler.
  Variable parse_int : bytes -> option Z.
  Variable lex : bytes -> option json.
  Variable accounts : list bytes.
  Variable sign_with : bytes -> transaction -> Z -> res bytes.
  Variable backend : frame -> backend_reply.
  Variable chain : Z.

  Notation processRPC := (processRPC parse_int accounts sign_with backend chain).
  Notation rpcHandler := (rpcHandler parse_int lex accounts sign_with backend chain).
  Notation handleRPCBatch := (handleRPCBatch parse_int lex accounts sign_with backend chain).
  Notation run_members := (run_members parse_int accounts sign_with backend chain).
  Notation SyncRequest := (SyncRequest backend).

  (* a single request: the reply is the marshalled response of processRPC, 200 or 500 *)
  Theorem handler_single body order t rq resp err frames :
    (b2n (sniffFirstByte body) =? 91)%N = false ->
    lex body = Some t -> decode_request t = Ok rq ->
    processRPC (Some rq) = Ok (resp, err, frames) ->
    rpcHandler body order = Ok (if err then 500%N else 200%N, response_opt_tree resp, [frames]).
  Proof.
    intros Hs Hl Hd Hp. unfold Model.rpcHandler. rewrite Hs, Hl, Hd, Hp. reflexivity.
  Qed.

  (* C09_ids, single request *)
  Theorem ids_single body order t rq id o :
    (b2n (sniffFirstByte body) =? 91)%N = false ->
    lex body = Some t -> decode_request t = Ok rq -> rq_id rq = Some id ->
    processRPC (Some rq) = Ok o ->
    exists status tree traces,
      rpcHandler body order = Ok (status, tree, traces) /\ tree_member (bs "id") tree = Some id.
  Proof.
    intros Hs Hl Hd Hi Hp.
    destruct (response_carries_id parse_int accounts sign_with backend chain rq id o Hi Hp) as (resp & Hr & Hid).
    destruct o as [[oresp err] frames]. cbn [o_resp fst] in Hr. subst oresp.
    rewrite (handler_single body order t rq (Some resp) err frames Hs Hl Hd Hp).
    do 3 eexists. split; [reflexivity|]. cbn [response_opt_tree]. rewrite response_tree_id, Hid. reflexivity.
  Qed.

  (* C09_ids + C09_batch_alignment: for every completion order, element i of the reply carries the
     id of request i (for every member that has one) *)
  Theorem ids_batch body t members outs order :
    (b2n (sniffFirstByte body) =? 91)%N = true ->
    lex body = Some t -> decode_batch t = Ok members -> members <> [] ->
    run_members members = Ok outs ->
    Permutation order (seq 0 (length members)) ->
    exists status trees traces,
      rpcHandler body order = Ok (status, JArr trees, traces) /\
      Forall2 (fun m tree => forall rq id, m = Some rq -> rq_id rq = Some id -> tree_member (bs "id") tree = Some id)
              members trees.
  Proof.
    intros Hs Hl Hd Hne Hr P.
    destruct (batch_alignment parse_int lex accounts sign_with backend chain body t members outs order Hl Hd Hne Hr P) as [E F].
    unfold Model.rpcHandler. rewrite Hs, E. do 3 eexists. split; [reflexivity|].
    clear E Hr P Hne Hd. induction F as [|m o ms os Hm F IH]; cbn [map]; constructor; auto.
    intros rq id -> Hi.
    destruct (response_carries_id parse_int accounts sign_with backend chain rq id o Hi Hm) as (resp & Hr & Hid).
    rewrite Hr. cbn [response_opt_tree]. rewrite response_tree_id, Hid. reflexivity.
  Qed.

  (* the backend's result is relayed unchanged under the caller's id, whatever id the backend echoed *)
  Theorem passthrough_relays_result rq id echo v :
    rq_id rq = Some id -> special_method (rq_method rq) = false ->
    backend (mkFrame (rq_method rq) (rq_params rq)) = reply_result echo v ->
    processRPC (Some rq)
    = Ok (Some (mkResp (bs "2.0") (Some id) (Some v) None [] None), false, [mkFrame (rq_method rq) (rq_params rq)]).
  Proof.
    intros Hi Hs Hb.
    destruct (passthrough_spec parse_int accounts sign_with backend chain rq id Hi Hs) as (resp & err & E & _ & R).
    rewrite (SyncRequest_result backend rq echo v Hb) in R. cbn [fst] in R. injection R as -> ->.
    rewrite E, Hi. reflexivity.
  Qed.

  (* ... and so is a JSON-RPC error (non-zero code), on HTTP 2xx as on HTTP >= 400 *)
  Theorem passthrough_relays_error rq id status echo code_text code msg :
    rq_id rq = Some id -> special_method (rq_method rq) = false ->
    backend (mkFrame (rq_method rq) (rq_params rq)) = error_reply status echo code_text msg ->
    parse_int64 code_text = Some code -> code <> 0%Z ->
    (status =? 204)%N = false -> is_success status || is_error status = true ->
    processRPC (Some rq)
    = Ok (Some (mkResp (bs "2.0") (Some id) None (Some (mkErr code msg true None)) [] None), true,
          [mkFrame (rq_method rq) (rq_params rq)]).
  Proof.
    intros Hi Hs Hb Hc Hnz H204 Hcls.
    destruct (passthrough_spec parse_int accounts sign_with backend chain rq id Hi Hs) as (resp & err & E & _ & R).
    rewrite (SyncRequest_error backend rq status echo code_text code msg Hb Hc Hnz H204 Hcls) in R.
    cbn [fst] in R. injection R as -> ->. rewrite E, Hi. reflexivity.
  Qed.
End Handler.

Section ChainId.
  Variable parse_int : bytes -> option Z.
  Variable backend : frame -> backend_reply.
  Notation Start := (Start parse_int backend).

  Definition net_version_frame : frame := mkFrame (bs "net_version") [].

  (* a configured chain id is used as is, and the backend is not asked *)
  Theorem start_configured c : (0 <= c)%Z -> Start c = (Ok c, []).
  Proof.
    intros Hc. unfold Model.Start. destruct (Z.ltb_spec c 0); [lia|reflexivity].
  Qed.

  (* otherwise exactly one net_version query is made ... *)
  Theorem start_discover_frames c : (c < 0)%Z -> snd (Start c) = [net_version_frame].
  Proof.
    intros Hc. unfold Model.Start. destruct (Z.ltb_spec c 0); [|lia].
    pose proof (CallRPC_frames backend (bs "net_version") []) as F.
    destruct (CallRPC backend _ _) as [[v|u] fr]; cbn [snd] in F; subst fr; [|reflexivity].
    destruct v; try reflexivity; destruct (dec_hexint parse_int _); try reflexivity;
      destruct (_ <? _)%Z; reflexivity.
  Qed.

  (* ... and its result is the chain id, provided it fits in int64 (guard added with fix 0c95e98 of /repo:
     a larger value is refused, see C09_chain_id_decided; before the fix it was truncated by Int64()) *)
  Theorem start_discovered c echo v n :
    (c < 0)%Z -> backend net_version_frame = reply_result echo v -> v <> JNull ->
    dec_hexint parse_int v = Ok n -> (Z.of_N n < 9223372036854775808)%Z ->
    Start c = (Ok (wrap64 (Z.of_N n)), [net_version_frame]).
  Proof.
    intros Hc Hb Hv Hn Hfit. unfold Model.Start. destruct (Z.ltb_spec c 0); [|lia].
    rewrite (CallRPC_result backend (bs "net_version") [] echo v Hb).
    destruct v; try congruence; rewrite Hn; (destruct (Z.ltb_spec (Z.of_N n) 9223372036854775808); [reflexivity|lia]).
  Qed.

  (* when discovery fails the process does not come up *)
  Theorem start_discovery_fails c :
    (c < 0)%Z -> fst (CallRPC backend (bs "net_version") []) = inr tt -> fst (Start c) = Err EStart.
  Proof.
    intros Hc Hf. unfold Model.Start. destruct (Z.ltb_spec c 0); [|lia].
    destruct (CallRPC backend _ _) as [[v|[]] fr]; cbn [fst] in Hf; [discriminate|reflexivity].
  Qed.
End ChainId.

(* the canonical request object *)
Definition request_tree (ver : bytes) (id : json) (m : bytes) (ps : list json) : json :=
  JObj [(bs "jsonrpc", JStr ver); (bs "id", id); (bs "method", JStr m); (bs "params", JArr ps)].

Lemma decode_request_tree ver id m ps :
  decode_request (request_tree ver id m ps) = Ok (mkReq ver (dec_anyptr id) m ps).
Proof. reflexivity. Qed.

Section E2E.
  Variable parse_int : bytes -> option Z.
  Variable lex : bytes -> option json.
  Variable accounts : list bytes.
  Variable sign_with : bytes -> transaction -> Z -> res bytes.
  Variable backend : frame -> backend_reply.
  Variable chain : Z.

  (* C09_passthrough from the bytes on the wire to the frame at the backend *)
  Theorem passthrough_end_to_end body order ver id m ps :
    (b2n (sniffFirstByte body) =? 91)%N = false ->
    lex body = Some (request_tree ver id m ps) -> id <> JNull -> special_method m = false ->
    exists status tree,
      rpcHandler parse_int lex accounts sign_with backend chain body order = Ok (status, tree, [[mkFrame m ps]]) /\
      tree_member (bs "id") tree = Some id.
  Proof.
    intros Hs Hl Hid Hm.
    assert (Hi : dec_anyptr id = Some id) by (destruct id; try reflexivity; congruence).
    set (rq := mkReq ver (dec_anyptr id) m ps).
    destruct (passthrough_spec parse_int accounts sign_with backend chain rq id Hi Hm) as (resp & err & E & I & _).
    rewrite (handler_single parse_int lex accounts sign_with backend chain body order _ rq (Some resp) err _ Hs Hl (decode_request_tree ver id m ps) E).
    do 2 eexists. split; [reflexivity|]. cbn [response_opt_tree]. rewrite response_tree_id, I. reflexivity.
  Qed.
End E2E.

Section E2ESend.
  Variable parse_int : bytes -> option Z.
  Variable lex : bytes -> option json.
  Variable accounts : list bytes.
  Variable sign_with : bytes -> transaction -> Z -> res bytes.
  Variable backend : frame -> backend_reply.
  Variable chain : Z.
  Variable H : bytes -> bytes.
  Variable ecrecover : bytes -> N -> N -> N -> option bytes.

  (* C09_send_tx from the bytes on the wire to the frames at the backend and the reply tree *)
  Theorem send_tx_end_to_end body order ver id p0 rest tx f a :
    wallet_sound H ecrecover accounts sign_with chain ->
    (forall a t c, sign_with a t c <> Panic) ->
    (b2n (sniffFirstByte body) =? 91)%N = false ->
    lex body = Some (request_tree ver id (bs "eth_sendTransaction") (p0 :: rest)) -> id <> JNull ->
    decode_transaction parse_int p0 = Ok tx -> tx_from tx = Some f -> dec_address f = Ok a ->
    exists status tree frames,
      rpcHandler parse_int lex accounts sign_with backend chain body order = Ok (status, tree, [frames]) /\
      tree_member (bs "id") tree = Some id /\
      let pre := match tx_nonce tx with Some _ => [] | None => [count_frame a] end in
      ((exists nonce raw,
          frames = pre ++ [raw_frame raw] /\
          nonce_source parse_int backend tx a nonce pre /\
          In a accounts /\
          raw_recovers_to H ecrecover raw (Z.to_N chain) a (requested_format tx)
                          (requested_fields (set_nonce tx nonce)))
       \/ (frames = pre /\ status = 500%N /\ tree_member (bs "result") tree = None)).
  Proof.
    intros W Hnp Hs Hl Hid Hd Hf Ha.
    assert (Hi : dec_anyptr id = Some id) by (destruct id; try reflexivity; congruence).
    set (rq := mkReq ver (dec_anyptr id) (bs "eth_sendTransaction") (p0 :: rest)).
    destruct (send_tx parse_int accounts sign_with backend chain H ecrecover W rq id p0 rest tx f a Hnp Hi eq_refl eq_refl Hd Hf Ha)
      as (resp & err & frames & E & I & C).
    rewrite (handler_single parse_int lex accounts sign_with backend chain body order _ rq (Some resp) err frames Hs Hl
               (decode_request_tree ver id _ _) E).
    do 3 eexists. split; [reflexivity|]. split.
    - cbn [response_opt_tree]. rewrite response_tree_id, I. reflexivity.
    - cbv zeta in *. destruct C as [(nonce & raw & Hfr & Hns & Hin & Hrec & _)|(Hfr & He & [code ->])].
      + left. exists nonce, raw. auto.
      + right. subst err. split; [exact Hfr|]. split; reflexivity.
  Qed.
End E2ESend.
