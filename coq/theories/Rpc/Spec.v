(* What property C09 demands of the proxy, written without reference to the model's structure.

   * A raw transaction "recovers, under the chain id, to [from] with the requested fields": it is
     exactly the EIP-155 / EIP-1559 wire format (Tx/Spec.v, written from the EIP texts over the
     Yellow-Paper RLP) of those fields with some signature (yParity, r, s), and public-key recovery
     on the Keccak-256 of the corresponding signing pre-image gives [from].
   * The requested fields of an eth_sendTransaction parameter object: absent numbers are zero, the
     format is EIP-1559 exactly when one of the two EIP-1559 fee fields is positive, otherwise
     EIP-155 (never the pre-EIP-155 format). *)
From Coq Require Import List NArith ZArith Bool.
From Coq Require Import Init.Byte.
From FFS Require Import Base.Res Base.Bytes Rlp.Spec Tx.Spec Rpc.Json.
Import ListNotations.

Definition nz (o : option N) : N := match o with Some n => n | None => 0%N end.

Definition requested_format (t : transaction) : format :=
  if (0 <? nz (tx_maxPriorityFeePerGas t))%N || (0 <? nz (tx_maxFeePerGas t))%N then Eip1559 else Eip155.

Definition requested_fields (t : transaction) : fields :=
  mkFields (nz (tx_nonce t)) (nz (tx_gasPrice t)) (nz (tx_maxPriorityFeePerGas t)) (nz (tx_maxFeePerGas t))
           (nz (tx_gas t)) (tx_to t) (nz (tx_value t)) (tx_data t).

Section Recovers.
  Variable H : bytes -> bytes.                                   (* Keccak-256 *)
  Variable ecrecover : bytes -> N -> N -> N -> option bytes.     (* digest, yParity, r, s -> signer address *)

  Definition raw_recovers_to (raw : bytes) (chain : N) (from : bytes) (fm : format) (f : fields) : Prop :=
    exists y r s : N,
      (y < 2)%N /\ raw = spec_signed fm f chain y r s /\
      ecrecover (H (spec_preimage fm f chain)) y r s = Some from.

  (* the conclusion of C08 (the wallet signs only with the key that owns the requested address)
     composed with C01 (a signed transaction is valid wire format and recovers to the signer), as
     a property of an abstract wallet *)
  Definition wallet_sound (accounts : list bytes) (sign_with : bytes -> transaction -> Z -> res bytes) (chain : Z) : Prop :=
    forall a t raw, sign_with a t chain = Ok raw ->
      In a accounts /\ raw_recovers_to raw (Z.to_N chain) a (requested_format t) (requested_fields t).
End Recovers.
