(* C16 proofs, part 3 (builder b-c16): every reply of the handler model is well-formed JSON-RPC, a
   parseable batch is answered slot for slot, unprocessable requests get error objects, and all of it
   holds again after any finite history. *)
From Coq Require Import String.
From Coq Require Import List NArith ZArith Bool Lia Permutation.
From Coq Require Import Init.Byte.
From FFS Require Import Base.Res Base.Bytes Rpc.Body Rpc.WfModel Rpc.WfSpec Rpc.WfProofs Rpc.WfProofs2.
Import ListNotations.

Lemma error_response_is_error id code : item_error (Some (RPCErrorResponse id code)).
Proof. eexists. split; [reflexivity|]. unfold is_error_resp, RPCErrorResponse. simpl. eauto. Qed.

Lemma item_error_ok o : item_error o -> item_ok o.
Proof.
  intros [r [E [H1 [H2 H3]]]]. exists r. split; [exact E|]. split; [exact H1|]. right. auto.
Qed.

Lemma Forall_nth_error {A} (P : A -> Prop) (l : list A) :
  (forall i a, nth_error l i = Some a -> P a) -> Forall P l.
Proof.
  induction l as [|x l IH]; intros H; constructor.
  - apply (H 0%nat). reflexivity.
  - apply IH. intros i a Hi. apply (H (S i)). exact Hi.
Qed.

Section Shape.
  Variable W F : Type.
  Variable sync_request : W -> request -> (option response * bool) * W.
  Variable call_nonce : W -> F -> option rpc_error * W.
  Variable get_accounts : W -> option (list bytes) * W.
  Variable sign : W -> txn_view F -> option bytes * W.
  Variable decode_txn : option jv -> option (txn_view F).
  Variable parse_from : F -> bool.
  Variable sched : W -> nat -> list nat.

  Notation processEthAccounts := (processEthAccounts W get_accounts).
  Notation processEthSendTransaction := (processEthSendTransaction W F sync_request call_nonce sign decode_txn parse_from).
  Notation processRPC := (processRPC W F sync_request call_nonce get_accounts sign decode_txn parse_from).
  Notation run_members := (run_members W F sync_request call_nonce get_accounts sign decode_txn parse_from).
  Notation handleRPCBatch := (handleRPCBatch W F sync_request call_nonce get_accounts sign decode_txn parse_from sched).
  Notation rpcHandler := (rpcHandler W F sync_request call_nonce get_accounts sign decode_txn parse_from sched).
  Notation serve := (serve W F sync_request call_nonce get_accounts sign decode_txn parse_from sched).
  Notation must_fail := (must_fail F decode_txn parse_from).

  (* where a response can come from: built by the handler as an error, relayed from SyncRequest, or the
     account list *)
  Definition origin (o : option response) : Prop :=
    item_error o \/
    (exists w0 q0, fst (fst (sync_request w0 q0)) = o) \/
    (exists id l, o = Some (mkResp v2_0 id (Some (JArr l)) None)).

  Lemma fail_with_error w id code o err w1 :
    fail_with W w id code = Ok ((o, err), w1) -> item_error o.
  Proof. unfold fail_with. intros H. injection H as <- _ _. apply error_response_is_error. Qed.

  Lemma accounts_origin w q o err w1 : processEthAccounts w q = Ok ((o, err), w1) -> origin o.
  Proof.
    unfold WfModel.processEthAccounts. destruct (get_accounts w) as [[l|] w0]; intros H.
    - injection H as <- _ _. right. right. eauto.
    - left. eapply fail_with_error; exact H.
  Qed.

  Definition tx_must_fail (q : request) : bool :=
    match q_params q with
    | [] => true
    | p0 :: _ =>
        match decode_txn p0 with
        | None => true
        | Some txn => match tv_from txn with
                      | None => true
                      | Some from => negb (tv_has_nonce txn) && negb (parse_from from)
                      end
        end
    end.

  Lemma sendtx_origin w q o err w1 : processEthSendTransaction w q = Ok ((o, err), w1) ->
    origin o /\ (tx_must_fail q = true -> item_error o).
  Proof.
    unfold WfModel.processEthSendTransaction, tx_must_fail.
    destruct (q_params q) as [|p0 ps]; simpl.
    - intros H. apply fail_with_error in H. split; [left; exact H|auto].
    - destruct (decode_txn p0) as [txn|].
      2:{ intros H. apply fail_with_error in H. split; [left; exact H|auto]. }
      destruct (tv_from txn) as [from|].
      2:{ intros H. apply fail_with_error in H. split; [left; exact H|auto]. }
      destruct (tv_has_nonce txn); simpl.
      + destruct (sign w txn) as [[raw|] w2]; intros H.
        * injection H as H. split; [|discriminate]. right. left. eexists _, _. rewrite H. reflexivity.
        * apply fail_with_error in H. split; [left; exact H|auto].
      + destruct (parse_from from); simpl.
        2:{ intros H. apply fail_with_error in H. split; [left; exact H|auto]. }
        destruct (call_nonce w from) as [[e|] w0].
        { intros H. apply fail_with_error in H. split; [left; exact H|auto]. }
        destruct (sign w0 txn) as [[raw|] w2]; intros H.
        * injection H as H. split; [|discriminate]. right. left. eexists _, _. rewrite H. reflexivity.
        * apply fail_with_error in H. split; [left; exact H|auto].
  Qed.

  Lemma processRPC_origin w m o err w1 : processRPC w m = Ok ((o, err), w1) ->
    origin o /\ (must_fail m = true -> item_error o).
  Proof.
    unfold WfModel.processRPC, WfSpec.must_fail. destruct m as [q|]; simpl.
    2:{ intros H. apply fail_with_error in H. split; [left; exact H|auto]. }
    destruct (q_id q) as [id|].
    2:{ intros H. apply fail_with_error in H. split; [left; exact H|auto]. }
    destruct (bytes_eqb (q_method q) m_eth_accounts || bytes_eqb (q_method q) m_personal_accounts) eqn:EA.
    - intros H. apply accounts_origin in H. split; [exact H|].
      destruct (bytes_eqb (q_method q) m_eth_sendTransaction) eqn:ES; [|discriminate].
      (* a method cannot be both an accounts method and eth_sendTransaction *)
      exfalso. destruct (bytes_eqb_spec (q_method q) m_eth_sendTransaction) as [Em|]; [|discriminate].
      rewrite Em in EA. vm_compute in EA. discriminate.
    - destruct (bytes_eqb (q_method q) m_eth_sendTransaction) eqn:ES.
      + intros H. apply sendtx_origin in H. exact H.
      + intros H. injection H as H. split; [|discriminate]. right. left. eexists _, _. rewrite H. reflexivity.
  Qed.

  (* ---- the member goroutines: whatever the completion order, slot i ends up holding the answer to
     member i ---- *)
  Definition answers (m : option request) (o : option response) : Prop :=
    origin o /\ (must_fail m = true -> item_error o).

  Lemma run_members_slots order : forall w reqs slots failed slots' failed' w',
    run_members w reqs order slots failed = Ok (slots', failed', w') ->
    length slots = length reqs ->
    length slots' = length reqs /\
    forall i, (In i order -> exists m o, nth_error reqs i = Some m /\ nth_error slots' i = Some o /\ answers m o) /\
              (~ In i order -> nth_error slots' i = nth_error slots i).
  Proof.
    induction order as [|i0 rest IH]; intros w reqs slots failed slots' failed' w' H L; simpl in H.
    - injection H as <- _ _. split; [exact L|]. intros i. split; [intros []|reflexivity].
    - unfold index_list in H. destruct (nth_error reqs i0) as [r|] eqn:Er; simpl in H; [|discriminate].
      destruct (processRPC w r) as [[[resp err] w1]| |] eqn:Ep; simpl in H; try discriminate.
      destruct (set_slot slots i0 resp) as [s1| |] eqn:Es; simpl in H; try discriminate.
      assert (L1 : length s1 = length reqs).
      { assert (Hlt : (i0 < length slots)%nat).
        { rewrite L. apply nth_error_Some. congruence. }
        destruct (set_slot_ok slots i0 resp Hlt) as [s1' [Es' Ls']]. rewrite Es in Es'. injection Es' as <-. lia. }
      destruct (IH _ _ _ _ _ _ _ H L1) as [L' HI]. split; [exact L'|].
      destruct (set_slot_nth _ _ _ _ Es) as [Hat Hother].
      intros i. split.
      + intros [->|Hin].
        * destruct (in_dec Nat.eq_dec i rest) as [Hr|Hr].
          -- apply (proj1 (HI i)). exact Hr.
          -- exists r, resp. split; [exact Er|]. split.
             ++ rewrite (proj2 (HI i) Hr). exact Hat.
             ++ apply processRPC_origin in Ep. exact Ep.
        * apply (proj1 (HI i)). exact Hin.
      + intros Hn. assert (Hr : ~ In i rest) by (intros X; apply Hn; right; exact X).
        rewrite (proj2 (HI i) Hr). apply Hother. intros ->. apply Hn. left. reflexivity.
  Qed.

  Hypothesis sched_perm : forall w n, Permutation (sched w n) (seq 0 n).

  (* the shape of what handleRPCBatch returns *)
  Lemma handleRPCBatch_shape w v rep w' : handleRPCBatch w v = Ok (rep, w') ->
    (rep = parse_error_reply /\ match decode_batch v with Ok [] | Err _ => True | _ => False end) \/
    (exists reqs l, decode_batch v = Ok reqs /\ reqs <> [] /\ body_of rep = PBatch l /\ length l = length reqs /\
       forall i m, nth_error reqs i = Some m -> exists o, nth_error l i = Some o /\ answers m o).
  Proof.
    unfold WfModel.handleRPCBatch. destruct (decode_batch v) as [reqs|e|] eqn:E; try discriminate.
    2:{ intros H. injection H as <- _. left. auto. }
    destruct reqs as [|r0 reqs']. { intros H. injection H as <- _. left. auto. }
    set (reqs := r0 :: reqs'). set (n := length reqs).
    destruct (run_members w reqs (sched w n) (repeat None n) false) as [[[slots f] w1]| |] eqn:Er; simpl; try discriminate.
    intros H. injection H as <- _. right. exists reqs, slots.
    destruct (run_members_slots _ _ _ _ _ _ _ _ Er (repeat_length _ _)) as [L HI].
    split; [reflexivity|]. split; [discriminate|]. split; [reflexivity|]. split; [exact L|].
    intros i m Hm.
    assert (Hin : In i (sched w n)).
    { apply (Permutation_in _ (Permutation_sym (sched_perm w n))). apply in_seq.
      assert (i < length reqs)%nat by (apply nth_error_Some; congruence). unfold n. lia. }
    destruct (proj1 (HI i) Hin) as [m' [o [Hm' [Ho Ha]]]].
    rewrite Hm in Hm'. injection Hm' as <-. eauto.
  Qed.

  Lemma parse_error_reply_error : exists o, body_of parse_error_reply = PSingle o /\ item_error o.
  Proof. eexists. split; [reflexivity|]. apply error_response_is_error. Qed.

  (* ---- never null: no hypothesis on the backend ---- *)
  Theorem rpcHandler_never_null w body v rep w' :
    rpcHandler w body v = Ok (rep, w') -> never_null_reply F decode_txn parse_from body v rep.
  Proof.
    intros H. unfold WfModel.rpcHandler in H.
    destruct (byte_eqb (sniff_first_byte body) open_bracket) eqn:ES.
    - (* batch path *)
      destruct (handleRPCBatch_shape _ _ _ _ H) as [[-> Hd]|[reqs [l [Ed [NE [Eb [L HA]]]]]]].
      + split; [intros _; apply parse_error_reply_error|]. split; [intros; apply parse_error_reply_error|].
        intros reqs Ed NE _. rewrite Ed in Hd. destruct reqs; [congruence|contradiction].
      + split.
        { intros U. apply decode_batch_unprocessable in U. rewrite Ed in U. destruct reqs; [congruence|contradiction]. }
        split.
        { intros q Eq _. apply decode_single_not_batch in Eq. rewrite Ed in Eq. destruct reqs; [congruence|contradiction]. }
        intros reqs' Ed' _ _. rewrite Ed in Ed'. injection Ed' as <-.
        exists l. split; [exact Eb|]. split; [exact L|].
        intros i m Hm Hf. destruct (HA i m Hm) as [o [Ho [_ Hfo]]]. eauto.
    - (* single path *)
      destruct (decode_single v) as [q|e|] eqn:Ed; try discriminate.
      + destruct (processRPC w (Some q)) as [[[resp err] w1]| |] eqn:Ep; simpl in H; try discriminate.
        injection H as <- _. simpl.
        apply processRPC_origin in Ep. destruct Ep as [_ Hf].
        split.
        { intros U. destruct (decode_single_unprocessable v U) as [E0|[e E0]]; rewrite Ed in E0; [|discriminate].
          injection E0 as ->. exists resp. split; [reflexivity|]. apply Hf. reflexivity. }
        split.
        { intros q' Eq Hq. rewrite Ed in Eq. injection Eq as <-. exists resp. split; [reflexivity|]. apply Hf. exact Hq. }
        intros reqs Eb NE Hc. exfalso.
        destruct (decode_batch_ok _ _ Eb NE) as [ms [Ev _]].
        rewrite (sniff_finds_bracket _ _ _ Hc Ev) in ES. discriminate.
      + injection H as <- _.
        split; [intros _; apply parse_error_reply_error|].
        split; [intros q Eq; rewrite Ed in Eq; discriminate|].
        intros reqs Eb NE Hc. exfalso.
        destruct (decode_batch_ok _ _ Eb NE) as [ms [Ev _]].
        rewrite (sniff_finds_bracket _ _ _ Hc Ev) in ES. discriminate.
  Qed.

  (* ---- well-formedness: needs SyncRequest to keep its promise ---- *)
  Hypothesis sync_ok : sync_wf sync_request.

  Lemma origin_ok o : origin o -> item_ok o.
  Proof.
    intros [H|[[w0 [q0 H]]|[id [l ->]]]].
    - apply item_error_ok. exact H.
    - rewrite <- H. apply sync_ok.
    - eexists. split; [reflexivity|]. split; [reflexivity|]. left. simpl. eauto.
  Qed.

  Theorem rpcHandler_wellformed w body v rep w' :
    rpcHandler w body v = Ok (rep, w') -> wellformed_reply body v rep.
  Proof.
    intros H. pose proof (rpcHandler_never_null _ _ _ _ _ H) as [_ [_ NN]].
    unfold WfModel.rpcHandler in H.
    destruct (byte_eqb (sniff_first_byte body) open_bracket) eqn:ES.
    - destruct (handleRPCBatch_shape _ _ _ _ H) as [[-> Hd]|[reqs [l [Ed [NE [Eb [L HA]]]]]]].
      + split; [simpl; apply item_error_ok, error_response_is_error|]. split.
        * intros n Hp _. destruct (parseable_batch_decode _ _ Hp) as [reqs [Ed [_ NE]]].
          rewrite Ed in Hd. destruct reqs; [congruence|contradiction].
        * intros l El. discriminate.
      + split.
        { rewrite Eb. simpl. split.
          - intros ->. destruct reqs; [congruence|discriminate].
          - apply Forall_nth_error. intros i o Ho.
            assert (Hi : (i < length reqs)%nat) by (rewrite <- L; apply nth_error_Some; congruence).
            destruct (nth_error reqs i) as [m|] eqn:Em; [|apply nth_error_None in Em; lia].
            destruct (HA i m Em) as [o' [Ho' [Hor _]]]. rewrite Ho in Ho'. injection Ho' as <-.
            apply origin_ok. exact Hor. }
        split.
        { intros n Hp _. destruct (parseable_batch_decode _ _ Hp) as [reqs' [Ed' [Ln _]]].
          rewrite Ed in Ed'. injection Ed' as <-. exists l. split; [exact Eb|lia]. }
        intros l' El. rewrite Eb in El. injection El as <-.
        destruct (decode_batch_ok _ _ Ed NE) as [ms [Ev [Lm _]]]. exists ms. split; [exact Ev|lia].
    - destruct (decode_single v) as [q|e|] eqn:Ed; try discriminate.
      + destruct (processRPC w (Some q)) as [[[resp err] w1]| |] eqn:Ep; simpl in H; try discriminate.
        injection H as <- _. simpl.
        apply processRPC_origin in Ep. destruct Ep as [Hor _].
        split; [apply origin_ok; exact Hor|]. split; [|discriminate].
        intros n Hp Hc. exfalso. unfold parseable_batch in Hp. destruct v as [|t]; [discriminate|].
        destruct t as [| | | |l|]; try discriminate Hp.
        rewrite (sniff_finds_bracket _ _ l Hc eq_refl) in ES. discriminate.
      + injection H as <- _.
        split; [simpl; apply item_error_ok, error_response_is_error|]. split; [|discriminate].
        intros n Hp Hc. exfalso. unfold parseable_batch in Hp. destruct v as [|t]; [discriminate|].
        destruct t as [| | | |l|]; try discriminate.
        rewrite (sniff_finds_bracket _ _ l Hc eq_refl) in ES. discriminate.
  Qed.

  (* ---- histories: the guarantees do not depend on what was served before ---- *)
  Theorem serve_history h : forall w,
    Forall (fun bv => lexer_coherent (fst bv) (snd bv)) h ->
    exists reps w', serve w h = Ok (reps, w') /\
      Forall2 (fun bv rep => wellformed_reply (fst bv) (snd bv) rep /\
                             never_null_reply F decode_txn parse_from (fst bv) (snd bv) rep) h reps.
  Proof.
    induction h as [|[b v] t IH]; intros w HF; simpl.
    - eexists _, _. split; [reflexivity|constructor].
    - inversion HF as [|? ? _ HT]; subst.
      destruct (rpcHandler_returns W F sync_request call_nonce get_accounts sign decode_txn parse_from sched sched_perm w b v)
        as [rep [w1 E]].
      rewrite E. simpl. destruct (IH w1 HT) as [reps [w2 [E2 F2]]]. rewrite E2. simpl.
      eexists _, _. split; [reflexivity|]. constructor; [|exact F2]. simpl. split.
      + eapply rpcHandler_wellformed; exact E.
      + eapply rpcHandler_never_null; exact E.
  Qed.

  (* the statements of Properties/C16.v: the handler returns, and what it returns meets the clause *)
  Theorem rpcHandler_answers_never_null w body v :
    exists rep w', rpcHandler w body v = Ok (rep, w') /\ never_null_reply F decode_txn parse_from body v rep.
  Proof.
    destruct (rpcHandler_returns W F sync_request call_nonce get_accounts sign decode_txn parse_from sched sched_perm w body v)
      as [rep [w1 E]].
    exists rep, w1. split; [exact E|]. eapply rpcHandler_never_null; exact E.
  Qed.

  Theorem rpcHandler_answers_wellformed w body v :
    exists rep w', rpcHandler w body v = Ok (rep, w') /\ wellformed_reply body v rep.
  Proof.
    destruct (rpcHandler_returns W F sync_request call_nonce get_accounts sign decode_txn parse_from sched sched_perm w body v)
      as [rep [w1 E]].
    exists rep, w1. split; [exact E|]. eapply rpcHandler_wellformed; exact E.
  Qed.
End Shape.
