(* C16 specification (builder b-c16): what the property text demands of a reply, written on the
   request tree and the reply structure, independently of how the handler computes it.

   JSON-RPC 2.0 response object: "jsonrpc":"2.0", an id member, and exactly one of result / error where
   an error carries code and message (both always present in [rpc_error]).  A body that is a non-empty
   JSON array whose members each are null or an object with well-kinded request fields ("parseable
   batch") is answered by an array of response objects of the same length; every other body by a
   single response object; requests that cannot be processed by an error object -- never by an empty
   body, null, or a null array member. *)
From Coq Require Import String.
From Coq Require Import List NArith ZArith Bool Lia.
From Coq Require Import Init.Byte.
From FFS Require Import Base.Res Base.Bytes Rpc.Body Rpc.WfModel.
Import ListNotations.

Definition is_some {A} (o : option A) : bool := match o with Some _ => true | None => false end.

(* ---- response shape ---- *)
Definition resp_ok (r : response) : Prop :=
  r_jsonrpc r = v2_0 /\
  ((exists v, r_result r = Some v) /\ r_error r = None \/ r_result r = None /\ exists e, r_error r = Some e).

Definition is_error_resp (r : response) : Prop :=
  r_jsonrpc r = v2_0 /\ r_result r = None /\ exists e, r_error r = Some e.

(* a slot of the reply: a response object (not JSON null) of the right shape *)
Definition item_ok (o : option response) : Prop := exists r, o = Some r /\ resp_ok r.
Definition item_error (o : option response) : Prop := exists r, o = Some r /\ is_error_resp r.

Definition payload_ok (p : payload) : Prop :=
  match p with
  | PSingle o => item_ok o
  | PBatch l => l <> [] /\ Forall item_ok l
  end.

Definition resp_okb (r : response) : bool :=
  bytes_eqb (r_jsonrpc r) v2_0 && xorb (is_some (r_result r)) (is_some (r_error r)).

(* ---- which bodies are batches ---- *)
(* kinds a request field accepts (encoding/json into string / *JSONAny / []*JSONAny) *)
Definition value_fits (f : field) (v : jv) : bool :=
  match f, v with
  | FId, _ => true
  | (FJsonrpc | FMethod), (JStr _ | JNull) => true
  | FParams, (JArr _ | JNull) => true
  | _, _ => false
  end.

Definition object_fits (kv : list (bytes * jv)) : bool :=
  forallb (fun m => match field_of_key (fst m) with None => true | Some f => value_fits f (snd m) end) kv.

Definition member_fits (m : jv) : bool :=
  match m with JNull => true | JObj kv => object_fits kv | _ => false end.

(* Some n: the body is a parseable batch of n >= 1 members *)
Definition parseable_batch (v : verdict) : option nat :=
  match v with
  | Tree (JArr (m :: ms)) => if forallb member_fits (m :: ms) then Some (S (length ms)) else None
  | _ => None
  end.

(* the only fact about the lexer that the shape clause needs: a body whose tree is an array starts,
   after JSON whitespace, with '['  (stated as a hypothesis on the oracle, never assumed globally) *)
Fixpoint skip_json_ws (b : bytes) : bytes :=
  match b with
  | c :: t => if is_space_json c then skip_json_ws t else b
  | [] => []
  end.
Definition lexer_coherent (body : bytes) (v : verdict) : Prop :=
  forall l, v = Tree (JArr l) -> exists rest, skip_json_ws body = open_bracket :: rest.

(* ---- which requests cannot be processed ---- *)
Section MustFail.
  Variable F : Type.
  Variable decode_txn : option jv -> option (txn_view F).
  Variable parse_from : F -> bool.

  (* null member; missing (or null) id; eth_sendTransaction without a first parameter, with one that is
     not a transaction object, without `from`, or with a malformed `from` when the nonce must be looked up *)
  Definition must_fail (m : option request) : bool :=
    match m with
    | None => true
    | Some q =>
        match q_id q with
        | None => true
        | Some _ =>
            if bytes_eqb (q_method q) m_eth_sendTransaction then
              match q_params q with
              | [] => true
              | p0 :: _ =>
                  match decode_txn p0 with
                  | None => true
                  | Some txn =>
                      match tv_from txn with
                      | None => true
                      | Some from => negb (tv_has_nonce txn) && negb (parse_from from)
                      end
                  end
              end
            else false
        end
    end.
End MustFail.

(* ---- the two reply clauses of the property, as predicates on (body, verdict, reply) ---- *)

(* bodies that are not a request at all: syntax errors, scalars, arrays that are not parseable batches
   (empty, or with a member that is neither null nor a well-kinded object), objects with an ill-kinded
   request field *)
Definition unprocessable_body (v : verdict) : Prop :=
  match v with
  | SyntaxError => True
  | Tree (JArr l) => parseable_batch v = None
  | Tree (JObj kv) => object_fits kv = false
  | Tree JNull => True
  | Tree _ => True
  end.

(* "the reply is valid JSON: a single JSON-RPC 2.0 object carrying either a result or an error with code
   and message, or for a parseable batch an array of such objects of the same length" *)
Definition wellformed_reply (body : bytes) (v : verdict) (rep : reply) : Prop :=
  payload_ok (body_of rep) /\
  (forall n, parseable_batch v = Some n -> lexer_coherent body v ->
             exists l, body_of rep = PBatch l /\ length l = n) /\
  (forall l, body_of rep = PBatch l -> exists ms, v = Tree (JArr ms) /\ length ms = length l).

Section NeverNull.
  Variable F : Type.
  Variable decode_txn : option jv -> option (txn_view F).
  Variable parse_from : F -> bool.

  (* "a request that cannot be processed (unparseable, null or non-object batch members, missing id, bad
     parameters, malformed from) is answered with an error object, never with an empty, null or truncated
     body" -- and in a batch the member's own slot holds the error object *)
  Definition never_null_reply (body : bytes) (v : verdict) (rep : reply) : Prop :=
    (unprocessable_body v -> exists o, body_of rep = PSingle o /\ item_error o) /\
    (forall q, decode_single v = Ok q -> must_fail F decode_txn parse_from (Some q) = true ->
               exists o, body_of rep = PSingle o /\ item_error o) /\
    (forall reqs, decode_batch v = Ok reqs -> reqs <> [] -> lexer_coherent body v ->
               exists l, body_of rep = PBatch l /\ length l = length reqs /\
                 forall i m, nth_error reqs i = Some m -> must_fail F decode_txn parse_from m = true ->
                             exists o, nth_error l i = Some o /\ item_error o).
End NeverNull.

(* what Backend.SyncRequest promises its caller (pkg/rpcbackend, "In all return paths *including error
   paths* the RPCResponse is populated") when the backend speaks JSON-RPC 2.0: a non-nil response object of
   the right shape.  A hypothesis of the well-formedness theorem, not of totality / never-null. *)
Definition sync_wf {W} (sync_request : W -> request -> (option response * bool) * W) : Prop :=
  forall w q, item_ok (fst (fst (sync_request w q))).
