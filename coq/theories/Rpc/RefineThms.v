(* C16 <-> C09 refinement, part 3 (builder b-c16): C16's shape theorems carried over to b-c09's concrete
   model through the simulation of Rpc/RefineSim.v.

   The concrete handler replies with a JSON tree; the clauses of WfSpec.wellformed_reply and
   WfProofs4.id_echo_reply are restated on that tree ([response_tree_ok], [reply_tree_ok],
   [wellformed_tree], [id_echo_tree], via [tree_member] = first member with a given key).

   Where the two models differ.  WfModel's C16_wellformed has the hypothesis [sync_wf] (SyncRequest hands
   back a response object of the right shape).  In Model.v SyncRequest is a definition, and [sync_wf] is
   NOT a theorem about it for every backend: a backend that answers
        {"jsonrpc":"2.0","id":..,"error":{"code":0,..}}       (error object with code 0), or
        {"jsonrpc":"1.0",..},  {"result":..,"error":{code<>0}},  HTTP 200/204 without a JSON-RPC body
   is relayed as it is decoded (code 0 does not count as an error for SyncRequest, so the reply carries
   "result":null next to the error object).  The guard is therefore explicit: [sync_wf_c backend]
   (every response SyncRequest returns has jsonrpc "2.0" and exactly one of result / error), with
   [reply_wf_sync_wf]: it holds for backends whose replies are JSON-RPC 2.0 responses / transport or HTTP
   errors ([reply_wf]), and [sync_wf_c_code0_refuted]: it fails for the code-0 backend.
   [sync_echo] (the response carries the id of the request), the hypothesis of C16_id_echo, IS a theorem
   about Model.SyncRequest for every backend ([sync_echo_inst]): id echo needs no guard. *)
From Coq Require Import String.
From Coq Require Import List NArith ZArith Bool Arith Lia Permutation.
From Coq Require Import Init.Byte.
From FFS Require Import Base.Res Base.Bytes.
From FFS Require Rpc.Body Rpc.WfModel Rpc.WfSpec Rpc.WfProofs Rpc.WfProofs2 Rpc.WfProofs3 Rpc.WfProofs4.
From FFS Require Rpc.Json Rpc.Model Rpc.ProofsBatch Rpc.WfProofsC09.
From FFS Require Import Rpc.Refine Rpc.RefineSim.
Import ListNotations.

(* ---------- the reply tree ---------- *)

(* first member of an object with the given key *)
Definition tree_member (k : string) (t : Json.json) : option Json.json :=
  match t with
  | Json.JObj m => match find (fun kv => bytes_eqb (fst kv) (Json.bs k)) m with Some kv => Some (snd kv) | None => None end
  | _ => None
  end.

(* a JSON-RPC 2.0 response object: "jsonrpc":"2.0", an id member, and exactly one of result / error, an error
   being an object with a numeric code and a string message *)
Definition response_tree_ok (t : Json.json) : Prop :=
  (exists m, t = Json.JObj m) /\
  tree_member "jsonrpc" t = Some (Json.JStr (Json.bs "2.0")) /\
  (exists i, tree_member "id" t = Some i) /\
  ((exists v, tree_member "result" t = Some v) /\ tree_member "error" t = None \/
   tree_member "result" t = None /\
   exists e, tree_member "error" t = Some e /\
             (exists c, tree_member "code" e = Some (Json.JNum c)) /\
             (exists s, tree_member "message" e = Some (Json.JStr s))).

Definition reply_tree_ok (t : Json.json) : Prop :=
  response_tree_ok t \/ exists slots, t = Json.JArr slots /\ slots <> [] /\ Forall response_tree_ok slots.

(* WfSpec.wellformed_reply on the serialised reply *)
Definition wellformed_tree (body : bytes) (v : Body.verdict) (tree : Json.json) : Prop :=
  reply_tree_ok tree /\
  (forall n, WfSpec.parseable_batch v = Some n -> WfSpec.lexer_coherent body v ->
             exists slots, tree = Json.JArr slots /\ length slots = n) /\
  (forall slots, tree = Json.JArr slots -> exists ms, v = Body.Tree (Body.JArr ms) /\ length ms = length slots).

(* "id": the pointer's value, null for a nil pointer *)
Definition id_json (id : option Json.json) : Json.json := match id with Some j => j | None => Json.JNull end.
Definition id_of_c (m : option Json.rpc_request) : option Json.json :=
  match m with Some rq => Json.rq_id rq | None => None end.
(* the reply / slot is an object (never JSON null) whose id member is [id] *)
Definition tree_carries (id : option Json.json) (t : Json.json) : Prop :=
  tree_member "id" t = Some (id_json id).

(* WfProofs4.id_echo_reply on the serialised reply *)
Definition id_echo_tree (lex : bytes -> option Json.json) (body : bytes) (tree : Json.json) : Prop :=
  (forall t rq, lex body = Some t -> Json.decode_request t = Ok rq ->
                Body.sniff_first_byte body <> Body.open_bracket -> tree_carries (Json.rq_id rq) tree) /\
  (forall t ms, lex body = Some t -> Json.decode_batch t = Ok ms -> ms <> [] ->
                Body.sniff_first_byte body = Body.open_bracket ->
                exists slots, tree = Json.JArr slots /\ length slots = length ms /\
                  forall i m, nth_error ms i = Some m ->
                              exists s, nth_error slots i = Some s /\ tree_carries (id_of_c m) s) /\
  ((forall slots, tree <> Json.JArr slots) ->
   tree_carries (Some (Json.JNum (Json.bs "1"))) tree \/
   exists t rq, lex body = Some t /\ Json.decode_request t = Ok rq /\ tree_carries (Json.rq_id rq) tree).

Lemma j2v_opt_inj a b : j2v_opt a = j2v_opt b -> a = b.
Proof. intros H. rewrite <- (v2j_j2v_opt a), <- (v2j_j2v_opt b), H. reflexivity. Qed.

Lemma response_tree_obj r : exists m, Json.response_tree r = Json.JObj m.
Proof. eexists. reflexivity. Qed.

Lemma response_tree_id r : tree_member "id" (Json.response_tree r) = Some (id_json (Json.rs_id r)).
Proof. reflexivity. Qed.

Lemma resp_ok_tree r : WfSpec.resp_ok (abs_resp r) -> response_tree_ok (Json.response_tree r).
Proof.
  destruct r as [j i res err mth par]. unfold WfSpec.resp_ok, abs_resp. cbn [WfModel.r_jsonrpc WfModel.r_result WfModel.r_error
    Json.rs_jsonrpc Json.rs_id Json.rs_result Json.rs_error].
  intros [Hj Hx]. change WfModel.v2_0 with (Json.bs "2.0") in Hj. subst j.
  split; [apply response_tree_obj|]. split; [reflexivity|]. split; [eexists; reflexivity|].
  destruct Hx as [[[v Hv] He]|[Hr [e He]]].
  - destruct res as [x|]; [|discriminate]. destruct err; [discriminate|].
    left. split; [exists x; reflexivity|]. destruct mth, par; reflexivity.
  - destruct res; [discriminate|]. destruct err as [ec|]; [|discriminate].
    right. split; [destruct mth, par; reflexivity|].
    exists (Json.error_tree ec). split; [destruct mth, par; reflexivity|].
    split; eexists; reflexivity.
Qed.

Lemma item_ok_tree o : WfSpec.item_ok (abs_oresp o) -> response_tree_ok (Json.response_opt_tree o).
Proof.
  intros [r [E H]]. destruct o as [rc|]; [|discriminate]. injection E as <-. apply resp_ok_tree. exact H.
Qed.

Lemma payload_ok_tree cp : WfSpec.payload_ok (cp_abs cp) -> reply_tree_ok (cp_tree cp).
Proof.
  destruct cp as [o|l]; simpl.
  - intros H. left. apply item_ok_tree. exact H.
  - intros [NE H]. right. exists (map Json.response_opt_tree l). split; [reflexivity|]. split.
    + destruct l; [contradiction NE; reflexivity|discriminate].
    + apply Forall_map. rewrite Forall_map in H. eapply Forall_impl; [|exact H]. intros o. apply item_ok_tree.
Qed.

Lemma single_tree_not_arr o slots : Json.response_opt_tree o <> Json.JArr slots.
Proof. destruct o; discriminate. Qed.

Lemma carries_tree id oc : abs_oresp oc <> None ->
  WfProofs4.carries (j2v_opt id) (abs_oresp oc) -> tree_carries id (Json.response_opt_tree oc).
Proof.
  intros NN H. destruct oc as [rc|]; [|contradiction NN; reflexivity].
  specialize (H (abs_resp rc) eq_refl). cbn [abs_resp WfModel.r_id] in H. apply j2v_opt_inj in H.
  unfold tree_carries. cbn [Json.response_opt_tree]. rewrite response_tree_id, H. reflexivity.
Qed.

(* ---------- completion orders ---------- *)

Definition permb (order : list nat) (n : nat) : bool :=
  (length order =? n)%nat && forallb (fun i => existsb (Nat.eqb i) order) (seq 0 n).

Lemma permb_sound order n : permb order n = true -> Permutation order (seq 0 n).
Proof.
  unfold permb. intros H. apply andb_prop in H. destruct H as [HL HA]. apply Nat.eqb_eq in HL.
  apply Permutation_sym. apply NoDup_Permutation_bis.
  - apply seq_NoDup.
  - rewrite seq_length. lia.
  - intros i Hi. rewrite forallb_forall in HA. specialize (HA i Hi). apply existsb_exists in HA.
    destruct HA as [k [Hk Ek]]. apply Nat.eqb_eq in Ek. subst k. exact Hk.
Qed.

Lemma permb_complete order n : Permutation order (seq 0 n) -> permb order n = true.
Proof.
  intros P. unfold permb. apply andb_true_intro. split.
  - apply Nat.eqb_eq. rewrite (Permutation_length P). apply seq_length.
  - apply forallb_forall. intros i Hi. apply existsb_exists. exists i. split; [|apply Nat.eqb_refl].
    apply (Permutation_in _ (Permutation_sym P)). exact Hi.
Qed.

(* the abstract scheduler: the given order for batches it is a completion order of, the index order otherwise *)
Definition i_sched (order : list nat) (w : W) (n : nat) : list nat := if permb order n then order else seq 0 n.

Lemma i_sched_perm order w n : Permutation (i_sched order w n) (seq 0 n).
Proof. unfold i_sched. destruct (permb order n) eqn:E; [apply permb_sound; exact E|apply Permutation_refl]. Qed.

(* RefineSim.rpcHandler_sim with [sim_reply] spelled out (the statement of Properties/C16.v) *)
Theorem rpcHandler_sim_flat
        (parse_int : bytes -> option Z) (lex : bytes -> option Json.json) (accounts : list bytes)
        (sign_with : bytes -> Json.transaction -> Z -> res bytes)
        (backend : Model.frame -> Model.backend_reply) (chain : Z)
        (body : bytes) (order : list nat) (sched : W -> nat -> list nat) :
  (forall w t ms, lex body = Some t -> Json.decode_batch t = Ok ms -> sched w (length ms) = order) ->
  forall status tree traces,
    Model.rpcHandler parse_int lex accounts sign_with backend chain body order = Ok (status, tree, traces) ->
    exists cp, tree = cp_tree cp /\
      forall w, exists w',
        WfModel.rpcHandler W F (i_sync backend) (i_call_nonce parse_int backend) (i_get_accounts accounts)
                           (i_sign sign_with chain) (i_decode_txn parse_int) i_parse_from sched w body (verdict_of (lex body))
        = Ok (WfModel.mkReply status (cp_abs cp), w').
Proof.
  intros Hs status tree traces H.
  exact (rpcHandler_sim parse_int lex accounts sign_with backend chain body order sched Hs (status, tree, traces) H).
Qed.

Section Concrete.
  Variable parse_int : bytes -> option Z.
  Variable lex : bytes -> option Json.json.
  Variable accounts : list bytes.
  Variable sign_with : bytes -> Json.transaction -> Z -> res bytes.
  Variable backend : Model.frame -> Model.backend_reply.
  Variable chain : Z.

  Notation c_rpcHandler := (Model.rpcHandler parse_int lex accounts sign_with backend chain).
  Notation a_rpcHandler order :=
    (WfModel.rpcHandler W F (i_sync backend) (i_call_nonce parse_int backend) (i_get_accounts accounts)
                        (i_sign sign_with chain) (i_decode_txn parse_int) i_parse_from (i_sched order)).

  (* ---- the hypotheses of the WfModel theorems, for the instantiation ---- *)

  (* every response SyncRequest hands back has jsonrpc "2.0" and exactly one of result / error *)
  Definition resp_ok_c (r : Json.rpc_response) : Prop :=
    Json.rs_jsonrpc r = Json.bs "2.0" /\
    ((exists v, Json.rs_result r = Some v) /\ Json.rs_error r = None \/
     Json.rs_result r = None /\ exists e, Json.rs_error r = Some e).
  Definition sync_wf_c : Prop := forall rq, resp_ok_c (fst (fst (Model.SyncRequest backend rq))).

  Lemma resp_ok_c_abs r : resp_ok_c r -> WfSpec.resp_ok (abs_resp r).
  Proof.
    intros [Hj Hx]. split; [exact Hj|]. unfold abs_resp. cbn [WfModel.r_result WfModel.r_error].
    destruct Hx as [[[v Hv] He]|[Hr [e He]]]; rewrite ?Hv, ?He, ?Hr; [left|right]; simpl; eauto.
  Qed.

  Lemma sync_wf_inst : sync_wf_c -> WfSpec.sync_wf (i_sync backend).
  Proof.
    intros H w q. unfold i_sync. specialize (H (conc_req q)).
    destruct (Model.SyncRequest backend (conc_req q)) as [[res err] fr]. simpl in *.
    eexists. split; [reflexivity|]. apply resp_ok_c_abs. exact H.
  Qed.

  (* SyncRequest restores the id of the request it was given: for every backend *)
  Lemma SyncRequest_id rq : Json.rs_id (fst (fst (Model.SyncRequest backend rq))) = Json.rq_id rq.
  Proof.
    unfold Model.SyncRequest. destruct (Model.resty_exchange _) as [[status [ores err]]|]; [|reflexivity].
    destruct ores as [r|].
    - destruct err; [reflexivity|].
      destruct (Model.is_error status || Model.error_code_nonzero _).
      + destruct (Model.error_code_nonzero _); reflexivity.
      + cbn [fst]. destruct (Json.rs_result _); reflexivity.
    - reflexivity.
  Qed.

  Lemma sync_echo_inst : WfProofs4.sync_echo (i_sync backend).
  Proof.
    intros w q r. unfold i_sync. pose proof (SyncRequest_id (conc_req q)) as H.
    destruct (Model.SyncRequest backend (conc_req q)) as [[res err] fr]. simpl in *.
    intros E. injection E as <-. cbn [abs_resp WfModel.r_id]. rewrite H.
    unfold conc_req. cbn [Json.rq_id]. apply j2v_v2j_opt.
  Qed.

  (* ---- the concrete handler returns ---- *)
  Hypothesis sign_returns : forall a t c, sign_with a t c <> Panic.

  Definition order_ok (body : bytes) (order : list nat) : Prop :=
    forall t ms, lex body = Some t -> Json.decode_batch t = Ok ms -> Permutation order (seq 0 (length ms)).

  Lemma rpcHandler_ok_concrete body order : order_ok body order -> exists hr, c_rpcHandler body order = Ok hr.
  Proof.
    intros Hord. unfold Model.rpcHandler.
    destruct (b2n (Model.sniffFirstByte body) =? 91)%N.
    - unfold Model.handleRPCBatch. destruct (lex body) as [t|] eqn:El; [|eauto].
      pose proof (WfProofsC09.decode_batch_np t) as Hd.
      destruct (Json.decode_batch t) as [ms|e|] eqn:Ed; [|eauto|congruence].
      destruct ms as [|m0 ms']; [eauto|].
      destruct (WfProofsC09.run_members_ok parse_int accounts sign_with backend chain sign_returns (m0 :: ms')) as [outs [Er Lo]].
      rewrite Er. cbn [bind].
      assert (Hp : Permutation order (seq 0 (length outs))).
      { rewrite Lo. apply (Hord t); [exact El|exact Ed]. }
      replace (map (fun _ : option Json.rpc_request => None) (m0 :: ms'))
        with (map (fun _ : Model.outcome => @None Json.rpc_response) outs).
      2:{ clear -Lo. revert Lo. generalize (m0 :: ms'). intros l. revert outs.
          induction l as [|x l IH]; intros [|o outs] L; simpl in *; try lia; [reflexivity|]. f_equal. apply IH. lia. }
      rewrite (ProofsBatch.complete_any_order outs order Hp). cbn [bind]. eauto.
    - destruct (lex body) as [t|]; [|eauto].
      pose proof (WfProofsC09.decode_request_np t) as Hd.
      destruct (Json.decode_request t) as [rq|e|]; [|eauto|congruence].
      destruct (WfProofsC09.processRPC_ok parse_int accounts sign_with backend chain sign_returns (Some rq)) as [[[resp err] fr] Eo].
      rewrite Eo. cbn [bind]. eauto.
  Qed.

  Lemma i_sched_agrees body order : order_ok body order ->
    forall (w : W) t ms, lex body = Some t -> Json.decode_batch t = Ok ms -> i_sched order w (length ms) = order.
  Proof. intros Hord w t ms El Ed. unfold i_sched. rewrite (permb_complete _ _ (Hord t ms El Ed)). reflexivity. Qed.

  (* the refinement, packaged: the concrete handler returns, and its reply is the serialisation of a payload
     whose abstraction is the reply of WfModel's handler under the instantiation, from any world *)
  Theorem rpcHandler_refines body order : order_ok body order ->
    exists status cp traces,
      c_rpcHandler body order = Ok (status, cp_tree cp, traces) /\
      forall w : W, exists w', a_rpcHandler order w body (verdict_of (lex body)) = Ok (WfModel.mkReply status (cp_abs cp), w').
  Proof.
    intros Hord. destruct (rpcHandler_ok_concrete body order Hord) as [[[status tree] traces] E].
    destruct (rpcHandler_sim parse_int lex accounts sign_with backend chain body order (i_sched order)
                (i_sched_agrees body order Hord) _ E) as [cp [Et Ha]].
    cbn [fst snd] in Et, Ha. subst tree. exists status, cp, traces. split; [exact E|exact Ha].
  Qed.

  (* ---- C16_wellformed over the concrete model ---- *)
  Theorem wellformed_concrete body order : order_ok body order -> sync_wf_c ->
    exists status tree traces,
      c_rpcHandler body order = Ok (status, tree, traces) /\ wellformed_tree body (verdict_of (lex body)) tree.
  Proof.
    intros Hord Hwf. destruct (rpcHandler_refines body order Hord) as [status [cp [traces [E Ha]]]].
    exists status, (cp_tree cp), traces. split; [exact E|].
    destruct (Ha None) as [w' Ea].
    pose proof (WfProofs3.rpcHandler_wellformed W F (i_sync backend) (i_call_nonce parse_int backend) (i_get_accounts accounts)
                  (i_sign sign_with chain) (i_decode_txn parse_int) i_parse_from (i_sched order) (i_sched_perm order)
                  (sync_wf_inst Hwf) _ _ _ _ _ Ea) as [P1 [P2 P3]].
    cbn [WfModel.body_of] in P1, P2, P3.
    split; [apply payload_ok_tree; exact P1|]. split.
    - intros n Hp Hc. destruct (P2 n Hp Hc) as [l [El Ll]].
      destruct cp as [o|l']; [discriminate|]. injection El as <-.
      exists (map Json.response_opt_tree l'). split; [reflexivity|]. rewrite map_length in *. exact Ll.
    - intros slots Es. destruct cp as [o|l']; [exfalso; eapply single_tree_not_arr; exact Es|].
      injection Es as <-. destruct (P3 _ eq_refl) as [ms [Ev Lm]]. exists ms. split; [exact Ev|].
      rewrite map_length in *. exact Lm.
  Qed.

  (* ---- no slot is nil: SyncRequest returns a response struct on every path, for every backend ---- *)
  Definition payload_non_nil (p : WfModel.payload) : Prop :=
    match p with
    | WfModel.PSingle o => o <> None
    | WfModel.PBatch l => Forall (fun o => o <> None) l
    end.

  Lemma origin_non_nil o : WfProofs3.origin W (i_sync backend) o -> o <> None.
  Proof.
    intros [[r [E _]]|[[w0 [q0 E]]|[id [l E]]]]; try congruence.
    unfold i_sync in E. destruct (Model.SyncRequest backend (conc_req q0)) as [[res err] fr]. simpl in E. congruence.
  Qed.

  Lemma rpcHandler_non_nil order w body v rep w' :
    a_rpcHandler order w body v = Ok (rep, w') -> payload_non_nil (WfModel.body_of rep).
  Proof.
    intros H. unfold WfModel.rpcHandler in H.
    destruct (byte_eqb (Body.sniff_first_byte body) Body.open_bracket).
    - destruct (WfProofs3.handleRPCBatch_shape _ _ _ _ _ _ _ _ _ (i_sched_perm order) _ _ _ _ H)
        as [[-> _]|[reqs [l [Ed [NE [Eb [L HA]]]]]]]; [discriminate|].
      rewrite Eb. apply WfProofs3.Forall_nth_error. intros i o Ho.
      assert (Hi : (i < length reqs)%nat) by (rewrite <- L; apply nth_error_Some; congruence).
      destruct (nth_error reqs i) as [m|] eqn:Em; [|apply nth_error_None in Em; lia].
      destruct (HA i m Em) as [o' [Ho' [Hor _]]]. rewrite Ho in Ho'. injection Ho' as <-.
      apply origin_non_nil. exact Hor.
    - destruct (Body.decode_single v) as [q|e|]; try discriminate.
      + destruct (WfModel.processRPC _ _ _ _ _ _ _ _ w (Some q)) as [[[resp err] w1]| |] eqn:Ep; simpl in H; try discriminate.
        injection H as <- _. simpl. apply WfProofs3.processRPC_origin in Ep. destruct Ep as [Hor _].
        apply origin_non_nil. exact Hor.
      + injection H as <- _. discriminate.
  Qed.

  (* ---- C16_id_echo over the concrete model: no hypothesis on the backend ---- *)
  Theorem id_echo_concrete body order : order_ok body order ->
    exists status tree traces,
      c_rpcHandler body order = Ok (status, tree, traces) /\ id_echo_tree lex body tree.
  Proof.
    intros Hord. destruct (rpcHandler_refines body order Hord) as [status [cp [traces [E Ha]]]].
    exists status, (cp_tree cp), traces. split; [exact E|].
    destruct (Ha None) as [w' Ea].
    pose proof (WfProofs4.rpcHandler_id_echo W F (i_sync backend) (i_call_nonce parse_int backend) (i_get_accounts accounts)
                  (i_sign sign_with chain) (i_decode_txn parse_int) i_parse_from (i_sched order) sync_echo_inst (i_sched_perm order)
                  _ _ _ _ _ Ea) as [P1 [P2 P3]].
    pose proof (rpcHandler_non_nil _ _ _ _ _ _ Ea) as NN.
    cbn [WfModel.body_of] in P1, P2, P3, NN.
    split; [|split].
    - intros t rq El Ed Hs.
      assert (Eds : Body.decode_single (verdict_of (lex body)) = Ok (abs_req rq)).
      { rewrite decode_single_sim, El, Ed. reflexivity. }
      destruct (P1 _ Eds Hs) as [o [Eo Hc]].
      destruct cp as [oc|l]; [|discriminate]. injection Eo as <-. apply carries_tree; [exact NN|exact Hc].
    - intros t ms El Ed NE Hs.
      assert (Edb : Body.decode_batch (verdict_of (lex body)) = Ok (map abs_oreq ms)).
      { rewrite decode_batch_sim, El, Ed. reflexivity. }
      assert (NE' : map abs_oreq ms <> []) by (destruct ms; [congruence|discriminate]).
      destruct (P2 _ Edb NE' Hs) as [l [El' [Ll Hall]]].
      destruct cp as [oc|l']; [discriminate|]. injection El' as <-.
      exists (map Json.response_opt_tree l'). split; [reflexivity|]. rewrite !map_length in *. split; [exact Ll|].
      intros i m Hm.
      assert (Hm' : nth_error (map abs_oreq ms) i = Some (abs_oreq m)) by (rewrite nth_error_map, Hm; reflexivity).
      destruct (Hall i _ Hm') as [o [Ho Hc]]. rewrite nth_error_map in Ho.
      destruct (nth_error l' i) as [oc|] eqn:Eoc; [|discriminate]. injection Ho as <-.
      exists (Json.response_opt_tree oc). split; [rewrite nth_error_map, Eoc; reflexivity|].
      assert (NNo : abs_oresp oc <> None).
      { cbn [cp_abs payload_non_nil] in NN. rewrite Forall_forall in NN. apply NN.
        apply in_map. eapply nth_error_In. exact Eoc. }
      apply carries_tree; [exact NNo|]. destruct m as [rq|]; exact Hc.
    - intros Hna. destruct cp as [oc|l']; [|exfalso; eapply Hna; reflexivity].
      destruct (P3 _ eq_refl) as [Hc|[q [Eq Hc]]].
      + left. apply (carries_tree (Some (Json.JNum (Json.bs "1")))); [exact NN|exact Hc].
      + right. rewrite decode_single_sim in Eq. destruct (lex body) as [t|]; [|discriminate].
        destruct (Json.decode_request t) as [rq|e|] eqn:Ed; try discriminate. injection Eq as <-.
        exists t, rq. split; [reflexivity|]. split; [exact Ed|]. apply carries_tree; [exact NN|exact Hc].
  Qed.

  (* ---- the two must-fail predicates are the same predicate through the abstraction ---- *)
  Lemma must_fail_sim m :
    WfSpec.must_fail F (i_decode_txn parse_int) i_parse_from (abs_oreq m) = WfProofsC09.must_fail_c parse_int m.
  Proof.
    destruct m as [rq|]; [|reflexivity]. unfold WfSpec.must_fail, WfProofsC09.must_fail_c. cbn [abs_oreq option_map].
    change (Body.q_id (abs_req rq)) with (j2v_opt (Json.rq_id rq)).
    change (Body.q_method (abs_req rq)) with (Json.rq_method rq).
    change (Body.q_params (abs_req rq)) with (map abs_param (Json.rq_params rq)).
    destruct (Json.rq_id rq); [|reflexivity]. cbn [j2v_opt option_map].
    change (Json.bs "eth_sendTransaction") with WfModel.m_eth_sendTransaction.
    destruct (bytes_eqb (Json.rq_method rq) WfModel.m_eth_sendTransaction); [|reflexivity].
    destruct (Json.rq_params rq) as [|p0 ps]; [reflexivity|]. cbn [map].
    rewrite decode_txn_sim. destruct (Json.decode_transaction parse_int p0) as [tx|e|]; try reflexivity.
    unfold view_of. cbn [WfModel.tv_from WfModel.tv_has_nonce].
    destruct (Json.tx_from tx) as [f|]; [|reflexivity].
    destruct (Json.tx_nonce tx); reflexivity.
  Qed.

  (* ---- histories ----
     Model.v's handler has no state (it is a function of the body and the completion order; the wallet,
     the backend and the chain id are fixed parameters), so a history is served request by request. *)
  Fixpoint serve_c (h : list (bytes * list nat)) : res (list Model.http_reply) :=
    match h with
    | [] => Ok []
    | (b, o) :: t => do r <- c_rpcHandler b o; do rest <- serve_c t; Ok (r :: rest)
    end.

  Definition reply_tree_of (hr : Model.http_reply) : Json.json := snd (fst hr).

  Theorem history_concrete h : Forall (fun bo => order_ok (fst bo) (snd bo)) h -> sync_wf_c ->
    exists reps, serve_c h = Ok reps /\
      Forall2 (fun bo hr => wellformed_tree (fst bo) (verdict_of (lex (fst bo))) (reply_tree_of hr) /\
                            id_echo_tree lex (fst bo) (reply_tree_of hr)) h reps.
  Proof.
    intros HF Hwf. induction h as [|[b o] t IH]; simpl.
    - exists []. split; [reflexivity|constructor].
    - inversion HF as [|? ? Hbo HT]; subst. simpl in Hbo.
      destruct (wellformed_concrete b o Hbo Hwf) as [st [tree [tr [E Hw]]]].
      destruct (id_echo_concrete b o Hbo) as [st' [tree' [tr' [E' Hi]]]].
      rewrite E in E'. injection E' as <- <- <-.
      rewrite E. cbn [bind]. destruct (IH HT) as [reps [Er F2]]. rewrite Er. cbn [bind].
      eexists. split; [reflexivity|]. constructor; [|exact F2]. split; [exact Hw|exact Hi].
  Qed.

  (* the same history served by WfModel.serve under the instantiation: for any abstract scheduler that hands
     out, for every entry, the completion order the concrete handler was given (WfModel's scheduler is a
     function of the world and the batch size only, and the instantiated world is the nonce cell: one
     scheduler serves the histories in which batches of equal size complete in the same order; for an
     arbitrary history use the per-request refinement [rpcHandler_refines]) *)
  Theorem serve_refines (sched : W -> nat -> list nat) h :
    (forall b o, In (b, o) h -> forall w t ms, lex b = Some t -> Json.decode_batch t = Ok ms -> sched w (length ms) = o) ->
    forall reps, serve_c h = Ok reps ->
    exists cps, Forall2 (fun hr cp => reply_tree_of hr = cp_tree cp) reps cps /\
      forall w : W, exists w',
        WfModel.serve W F (i_sync backend) (i_call_nonce parse_int backend) (i_get_accounts accounts)
                      (i_sign sign_with chain) (i_decode_txn parse_int) i_parse_from sched w
                      (map (fun bo => (fst bo, verdict_of (lex (fst bo)))) h)
        = Ok (map (fun x => WfModel.mkReply (fst (fst (fst x))) (cp_abs (snd x))) (combine reps cps), w').
  Proof.
    induction h as [|[b o] t IH]; intros Hs reps H.
    - injection H as <-. exists []. split; [constructor|]. intros w. exists w. reflexivity.
    - simpl in H. destruct (c_rpcHandler b o) as [hr|e|] eqn:E; try discriminate. cbn [bind] in H.
      destruct (serve_c t) as [rest|e|] eqn:Et; try discriminate. cbn [bind] in H. injection H as <-.
      destruct (rpcHandler_sim parse_int lex accounts sign_with backend chain b o sched
                  (Hs b o (or_introl eq_refl)) hr E) as [cp [Etree Ha]].
      destruct (IH (fun b' o' Hin => Hs b' o' (or_intror Hin)) rest eq_refl) as [cps [F2 Hb]].
      exists (cp :: cps). split; [constructor; [exact Etree|exact F2]|].
      intros w. destruct (Ha w) as [w1 E1]. destruct (Hb w1) as [w2 E2]. exists w2.
      cbn [map fst snd WfModel.serve]. rewrite E1. cbn [bind]. rewrite E2. reflexivity.
  Qed.
End Concrete.
