(* C09 ∘ C08 ∘ C01, end to end: the corollaries of Rpc/WithWallet.v restated WITHOUT the hypothesis
   [signer_sound], for the proxy model over the file-system wallet of C08 whose external signer is C01's
   model of Transaction.Sign with C05's KeyPair ([with_signer], Rpc/WithSigner.v).

   What remains, all explicit:
     about mathematics / libraries   [laws o] (the ECDSA group laws of Crypto/Ecdsa.v; secp256k1 is one),
                                     n < 2^256, the hash has 32 bytes, the keystore reader yields private
                                     scalars in [1, n-1] ([reader_yields ... key_in_range])
     about the configuration         0 <= chain (a chain id discovered through net_version is wrapped to
                                     int64 and may be negative; C01 speaks about non-negative ids)
     per submitted transaction       the signed bytes are shorter than 2^64 bytes ([short raw]: every Go slice
                                     is; it follows from C01's guards "integer fields below 2^256, data of at
                                     most 2^31-1024 bytes, chain <= 2^53": WithSignerShort.c01_guards_short),
                                     and V in {27, 28} for the one digest signed ([v_legacy_for]; fails with
                                     probability about 2^-128 on secp256k1: x(kG) >= n)
   The per-transaction guards stand INSIDE the conclusion, in front of "recovers to from": the rest of the
   conclusion (which request, which fields, which nonce, which key file, the bytes are Transaction.Sign's
   output for that key) holds without them. *)
From Coq Require Import String.
From Coq Require Import List NArith ZArith Bool Arith Lia Permutation.
From Coq Require Import Init.Byte.
From FFS Require Import Base.Res Base.Bytes Rlp.Spec Crypto.Ecdsa.
From FFS Require Tx.Spec Tx.SignProofs.
From FFS Require Import Rpc.Json Rpc.Model Rpc.Spec Rpc.ProofsBatch Rpc.Proofs Rpc.ProofsHandler Rpc.WfProofsC09
  Rpc.WithWallet Rpc.WithSigner.
From FFS Require Rpc.WithSignerShort.
From FFS Require Secp.Model.
Import ListNotations.
Local Open Scope list_scope.

Section EndToEnd.
  Context {doc tsig : Type}.
  Variable o : group_ops.
  Variable H : bytes -> bytes.
  Variable nonce : Z -> bytes -> nat -> Z.
  Variable fuel : nat.
  Notation wtx := (transaction * Z)%type.
  Variable E0 : W.ext N wtx bytes doc tsig.
  Variable c : W.config.
  Variable parse_int : bytes -> option Z.
  Variable lex : bytes -> option json.
  Variable backend : frame -> backend_reply.
  Variable chain : Z.

  Notation E := (with_signer o H nonce fuel E0).
  Notation wstate := (W.state N).

  Definition key_in_range (d : N) : Prop := (1 <= Z.of_N d < n o)%Z.

  (* the frame [fr] is the submission request [rq] asked for, as the specification prescribes: the first
     parameter decodes to tx, `from` parses to a, the nonce is the supplied or the backend-reported one,
     d is the key of the key file owning a (its address is a, a is listed: key_of_from), the bytes are
     Transaction.Sign's output for d, and — when they are shorter than 2^64 bytes and V is 27/28 — they are the
     specification encoding (Tx/Spec.v) of the requested fields with that nonce, in the requested format,
     for the configured chain id, carrying a signature that recovers to a. *)
  Definition submission_specified (s : wstate) (rq : rpc_request) (fr : frame) : Prop :=
    exists p0 rest tx f a nonce_used raw d,
      rq_params rq = p0 :: rest /\ decode_transaction parse_int p0 = Ok tx /\
      tx_from tx = Some f /\ dec_address f = Ok a /\
      nonce_source parse_int backend tx a nonce_used (pre_frames tx a) /\
      key_of_from E c s a d /\ c01_addr o H d = a /\ In a (fs_accounts s) /\
      fr = raw_frame raw /\
      c01_sign o H nonce fuel d (set_nonce tx nonce_used, chain) = Ok raw /\
      (Tx.SignProofs.short raw -> v_legacy_for o H nonce fuel d (set_nonce tx nonce_used) chain ->
       raw_recovers_to H (secp_ecrecover o H) raw (Z.to_N chain) a
                       (requested_format tx) (requested_fields (set_nonce tx nonce_used))).

  Hypothesis L : laws o.
  Hypothesis n_fits : (n o < Secp.Model.two256)%Z.
  Hypothesis H_len : forall x, length (H x) = 32%nat.
  Hypothesis chain_ok : (0 <= chain)%Z.
  Hypothesis keys_ok : reader_yields E key_in_range.

  (* [signed_by_owner] of Rpc/WithWallet.v (which needs no hypothesis) + C01 *)
  Lemma owner_signed_is_specified fs h rq fr :
    signed_by_owner E c parse_int backend chain (fs_state E c fs h) rq fr ->
    submission_specified (fs_state E c fs h) rq fr.
  Proof.
    intros (p0 & rest & tx & f & a & nn & raw & d & Hp & Hd & Hf & Ha & Hns & Hk & Hsig & Hfr).
    exists p0, rest, tx, f, a, nn, raw, d.
    pose proof Hk as (Hka & Hin & _). cbn [W.addr_of with_signer] in Hka.
    cbn [W.sign_tx with_signer] in Hsig.
    repeat (split; [assumption|]).
    intros Hshort Hv.
    rewrite <- Hka. rewrite <- (requested_format_set_nonce tx nn).
    apply (WithSignerShort.c01_signer_sound_short o H nonce fuel L n_fits H_len d _ chain raw); [|exact Hsig|exact Hshort].
    split; [exact (key_of_from_yields E c key_in_range keys_ok fs h a d Hk)|].
    split; [exact chain_ok|exact Hv].
  Qed.

  (* 1. Only-if, per request, in every wallet state. *)
  Theorem e2e_raw_only_if fs h rq out fr :
    let s := fs_state E c fs h in
    rq_method rq = bs "eth_sendTransaction" ->
    fs_processRPC E c parse_int backend chain s (Some rq) = Ok out -> In fr (o_frames out) -> is_raw_frame fr = true ->
    submission_specified s rq fr.
  Proof.
    intros s Hm Ho Hin Hraw. apply owner_signed_is_specified.
    exact (fs_raw_only_if_owner E c parse_int backend chain fs h rq out fr Hm Ho Hin Hraw).
  Qed.

  (* 2. Theorem 1 of C09 (what a decodable eth_sendTransaction does) with wallet AND signer concrete. *)
  Theorem e2e_send_tx fs h rq id p0 rest tx f a :
    let s := fs_state E c fs h in
    WP3.ext_nopanic N wtx bytes doc tsig E0 -> WP3.fs_nopanic fs -> ops_ok h ->
    rq_id rq = Some id -> rq_method rq = bs "eth_sendTransaction" -> rq_params rq = p0 :: rest ->
    decode_transaction parse_int p0 = Ok tx -> tx_from tx = Some f -> dec_address f = Ok a ->
    exists resp err frames,
      fs_processRPC E c parse_int backend chain s (Some rq) = Ok (Some resp, err, frames) /\
      rs_id resp = Some id /\
      ((exists raw,
          frames = pre_frames tx a ++ [raw_frame raw] /\
          submission_specified s rq (raw_frame raw) /\
          (resp, err) = fst (SyncRequest backend (send_raw_request rq raw)))
       \/ (frames = pre_frames tx a /\ err = true /\ is_proxy_error resp (Some id))).
  Proof.
    intros s Hext Hfs Hops Hi Hm Hp Hd Hf Ha.
    pose proof (fs_sign_nopanic E c fs h (with_signer_nopanic o H nonce fuel E0 Hext) Hfs Hops) as Hnp.
    destruct (sendTx_spec parse_int (fs_sign_with E c s) backend chain rq p0 rest tx f a Hnp Hp Hd Hf Ha)
      as (resp & err & frames & Eq & C).
    exists resp, err, frames. unfold fs_processRPC.
    rewrite (processRPC_sendTx parse_int (fs_accounts s) (fs_sign_with E c s) backend chain rq id Hi Hm).
    split; [exact Eq|]. cbv zeta in C. fold (pre_frames tx a) in C.
    destruct C as [(nn & raw & Hns & Hs & Hfr & Hre)|(Hfr & He & Hpe)].
    - split.
      + assert (R : resp = fst (fst (SyncRequest backend (send_raw_request rq raw)))) by (rewrite <- Hre; reflexivity).
        rewrite R, SyncRequest_id. exact Hi.
      + left. exists raw. split; [exact Hfr|]. split; [|exact Hre].
        apply owner_signed_is_specified.
        destruct (fs_sign_key E c fs h a _ chain raw Hs) as (k & Hk & Hsig).
        exists p0, rest, tx, f, a, nn, raw, k. repeat (split; [assumption|]). reflexivity.
    - split.
      + destruct Hpe as [code ->]. exact Hi.
      + right. rewrite <- Hi. auto.
  Qed.

  (* ================= request histories ================= *)

  (* why a raw-transaction frame may be at the backend: the caller sent eth_sendRawTransaction itself (the
     frame is that request, unchanged), or it stems from an eth_sendTransaction member and is its
     submission as specified *)
  Definition raw_frame_specified (s : wstate) (body : bytes) (fr : frame) : Prop :=
    exists rq, In (Some rq) (members_of lex body) /\
      ((rq_method rq = bs "eth_sendRawTransaction" /\ fr = mkFrame (rq_method rq) (rq_params rq)) \/
       (rq_method rq = bs "eth_sendTransaction" /\ submission_specified s rq fr)).

  Definition reply_specified (fs : W.fsys) (x : wstate * bytes * res http_reply) : Prop :=
    let '(s, body, reply) := x in
    (exists h, s = fs_state E c fs h) /\
    forall status tree traces frames fr,
      reply = Ok (status, tree, traces) -> In frames traces -> In fr frames -> is_raw_frame fr = true ->
      raw_frame_specified s body fr.

  Lemma serve_specified fs hist : forall h0,
    Forall (reply_specified fs) (serve E c parse_int lex backend chain (fs_state E c fs h0) hist).
  Proof.
    induction hist as [|[[ops body] order] rest IH]; intros h0; [constructor|].
    cbn [serve]. rewrite (fs_state_app E c fs h0 ops).
    constructor; [|apply IH].
    split; [exists (h0 ++ ops); reflexivity|].
    intros status tree traces frames fr Hr Hin Hfr Hraw.
    destruct (fs_handler_frames_justified E c parse_int lex backend chain fs (h0 ++ ops) body order
                status tree traces frames fr Hr Hin Hfr Hraw) as (rq & Hmem & Hj).
    exists rq. split; [exact Hmem|].
    destruct Hj as [Hown|[Hm Hso]]; [left; exact Hown|right].
    split; [exact Hm|]. apply owner_signed_is_specified. exact Hso.
  Qed.

  (* For EVERY history of requests (any wallet operations in between, any bodies, any completion orders)
     against the proxy model over a fresh file-system wallet with the C01 signer, whatever the backend
     answers: every eth_sendRawTransaction frame sent to the backend is the caller's own
     eth_sendRawTransaction relayed unchanged, or stems from an eth_sendTransaction member of that body and
     is its submission as specified. *)
  Theorem end_to_end fs hist :
    Forall (reply_specified fs) (serve E c parse_int lex backend chain (W.init_state N fs) hist).
  Proof. exact (serve_specified fs hist []). Qed.

  (* ... and no request of the history panics (C09_fswallet_history with the signer's no-panic law
     discharged: Transaction.Sign with a KeyPair is total) *)
  Theorem end_to_end_total fs hist :
    WP3.ext_nopanic N wtx bytes doc tsig E0 -> WP3.fs_nopanic fs -> history_ok lex hist ->
    Forall (fun x : wstate * bytes * res http_reply => snd x <> Panic)
           (serve E c parse_int lex backend chain (W.init_state N fs) hist).
  Proof.
    intros Hext Hfs Hh.
    pose proof (fs_history_safe E c parse_int lex backend chain fs hist
                  (with_signer_nopanic o H nonce fuel E0 Hext) Hfs Hh) as Hsafe.
    eapply Forall_impl; [|exact Hsafe]. intros [[s body] reply] (_ & Hnp & _). exact Hnp.
  Qed.
End EndToEnd.
