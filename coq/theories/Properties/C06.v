(* C06 — RLP codec: canonical encoding, exact round trip, and total, in-bounds decoding.
   Statements only; proofs live in Rlp/Proofs.v. *)
From Coq Require Import List NArith Lia Bool Arith.
From Coq Require Import Init.Byte.
From FFS Require Import Base.Res Base.Bytes Rlp.Model Rlp.Spec Rlp.Proofs Rlp.Header.
Import ListNotations.

(* 1. Encoding any tree produces the canonical RLP of the Yellow Paper (only guard: every length
      fits 64 bits, which Go's int guarantees). *)
Theorem C06_encode_is_yellow_paper :
  forall t : item, len_ok t -> encode t = RLP (to_tree t).
Proof. exact encode_is_RLP. Qed.
Print Assumptions C06_encode_is_yellow_paper.

(* 2. Decoding that output returns the identical tree and the position just past it, also when
      other bytes follow.  [size_ok] is exactly the region the decoder accepts (payloads <= 2^31-1). *)
Theorem C06_decode_encode :
  forall (t : item) (rest : bytes), size_ok t = true ->
    Decode (encode t ++ rest) = Ok (Some t, length (encode t)).
Proof. exact decode_encode. Qed.
Print Assumptions C06_decode_encode.

(* 3. Decoding arbitrary bytes never panics (nor runs out of model fuel); a returned position lies
      within the input, the returned tree is within the accepted region and its canonical encoding
      is no longer than what was consumed. *)
Theorem C06_decode_total_in_bounds :
  forall bs : bytes,
    Decode bs <> Panic /\ Decode bs <> Err EOutOfFuel /\
    (forall t p, Decode bs = Ok (Some t, p) ->
       (p <= length bs)%nat /\ size_ok t = true /\ (length (encode t) <= p)%nat).
Proof. exact Decode_total_in_bounds. Qed.
Print Assumptions C06_decode_total_in_bounds.

(* 4. Re-encoding and re-decoding a decoded element is stable. *)
Theorem C06_redecode_stable :
  forall bs t p, Decode bs = Ok (Some t, p) ->
    Decode (encode t) = Ok (Some t, length (encode t)).
Proof. exact redecode_stable. Qed.
Print Assumptions C06_redecode_stable.

(* 5. Canonical encodings are prefix-free, so every canonical encoding is accepted (theorem 2) and
      decoded to the one tree any strict decoder can yield. *)
Theorem C06_canonical_unique :
  forall t t' rest rest', size_ok t = true -> size_ok t' = true ->
    encode t ++ rest = encode t' ++ rest' -> t = t' /\ rest = rest'.
Proof. exact canonical_prefix_free. Qed.
Print Assumptions C06_canonical_unique.

(* 6. Integer / address helpers. *)
Theorem C06_int_helpers :
  (forall n : N, DataInt (ToData (WrapInt n)) = Some n) /\
  (forall a : bytes, length a = 20%nat -> DataAddress (ToData (WrapAddress (Some a))) = Some a) /\
  (forall l, ToData (Lst l) = None).
Proof.
  split; [exact WrapInt_roundtrip|]. split; [exact WrapAddress_roundtrip|]. intros l; reflexivity.
Qed.
Print Assumptions C06_int_helpers.

(* non-vacuity: a nested tree with a 56-byte string meets the hypotheses *)
Example C06_nonvacuous :
  let t := Lst [Str (repeat x61 56); Lst [Str []; Str [x7f]; Str [x80]]] in
  size_ok t = true /\ len_ok t /\ Decode (encode t ++ [x01]) = Ok (Some t, 65%nat).
Proof. cbv zeta. split; [vm_compute; reflexivity|]. split; [apply size_ok_len_ok; vm_compute; reflexivity|]. vm_compute. reflexivity. Qed.

(* 7. The length-only header evaluator used by the correspondence run for payloads of 2^24 bytes and
      more (Rlp/Header.v) is the model and the Yellow Paper: for every payload that is not a single-byte
      string the model output is [enc_header_N (length) ++ payload] and the specified encoding is
      [spec_header_N (length) ++ payload]. *)
Theorem C06_header_evaluator :
  (forall inb il, (length inb <> 1%nat \/ il = true) ->
      encode_bytes inb il = enc_header_N (N.of_nat (length inb)) il ++ inb) /\
  (forall x, length x <> 1%nat -> R_b x = spec_header_N (len x) false ++ x) /\
  (forall s, R_l s = spec_header_N (len s) true ++ s).
Proof. exact header_evaluator_sound. Qed.
Print Assumptions C06_header_evaluator.

Example C06_header_nonvacuous :
  enc_header_N 16777216 false = [xbb; x01; x00; x00; x00] /\ spec_header_N 16777216 true = [xfb; x01; x00; x00; x00] /\
  enc_header_N 16777215 true = [xfa; xff; xff; xff] /\ enc_header_N 56 false = [xb8; x38] /\ enc_header_N 55 true = [xf7].
Proof. vm_compute. repeat split; reflexivity. Qed.

(* Tie of the hand-written constants of Rlp/Model.v to the source.  Gen/Consts.v is regenerated on
   every run by the translator harness/cmd/gen_consts from the `const` declarations of
   pkg/rlp/decode.go as they are NOW (go/ast + a constant-expression evaluator, e.g.
   maxInt32 = int64(int32(maxUint32 >> 1))).  The model keeps its own literals; this theorem is what
   breaks when a prefix byte, the 55-byte threshold or the length bound changes in the source (the
   correspondence run then supplies the concrete inputs on which model and code differ). *)
From Coq Require Import ZArith.
From FFS Require Gen.Consts.
Theorem C06_source_constants :
  Gen.Consts.rlp_shortString = Z.of_N Rlp.Model.shortString /\
  Gen.Consts.rlp_longString = Z.of_N Rlp.Model.longString /\
  Gen.Consts.rlp_shortList = Z.of_N Rlp.Model.shortList /\
  Gen.Consts.rlp_longList = Z.of_N Rlp.Model.longList /\
  Gen.Consts.rlp_shortToLong = Z.of_N Rlp.Model.shortToLong /\
  Gen.Consts.rlp_maxInt32 = Z.of_N Rlp.Model.maxInt32.
Proof. vm_compute. repeat split; reflexivity. Qed.
Print Assumptions C06_source_constants.
