(* C06 — RLP codec: canonical encoding, exact round trip, and total, in-bounds decoding.
   Statements only; proofs live in Rlp/Proofs.v. *)
From Coq Require Import List NArith Lia Bool Arith.
From Coq Require Import Init.Byte.
From FFS Require Import Base.Res Base.Bytes Rlp.Model Rlp.Spec Rlp.Proofs.
Import ListNotations.

(* 1. Encoding any tree produces the canonical RLP of the Yellow Paper (only guard: every length
      fits 64 bits, which Go's int guarantees). *)
Theorem C06_encode_is_yellow_paper :
  forall t : item, len_ok t -> encode t = RLP (to_tree t).
Proof. exact encode_is_RLP. Qed.
Print Assumptions C06_encode_is_yellow_paper.

(* 2. Decoding that output returns the identical tree and the position just past it, also when
      other bytes follow.  [size_ok] is exactly the region the decoder accepts (payloads <= 2^31-1). *)
Theorem C06_decode_encode :
  forall (t : item) (rest : bytes), size_ok t = true ->
    Decode (encode t ++ rest) = Ok (Some t, length (encode t)).
Proof. exact decode_encode. Qed.
Print Assumptions C06_decode_encode.

(* 3. Decoding arbitrary bytes never panics (nor runs out of model fuel); a returned position lies
      within the input, the returned tree is within the accepted region and its canonical encoding
      is no longer than what was consumed. *)
Theorem C06_decode_total_in_bounds :
  forall bs : bytes,
    Decode bs <> Panic /\ Decode bs <> Err EOutOfFuel /\
    (forall t p, Decode bs = Ok (Some t, p) ->
       (p <= length bs)%nat /\ size_ok t = true /\ (length (encode t) <= p)%nat).
Proof. exact Decode_total_in_bounds. Qed.
Print Assumptions C06_decode_total_in_bounds.

(* 4. Re-encoding and re-decoding a decoded element is stable. *)
Theorem C06_redecode_stable :
  forall bs t p, Decode bs = Ok (Some t, p) ->
    Decode (encode t) = Ok (Some t, length (encode t)).
Proof. exact redecode_stable. Qed.
Print Assumptions C06_redecode_stable.

(* 5. Canonical encodings are prefix-free, so every canonical encoding is accepted (theorem 2) and
      decoded to the one tree any strict decoder can yield. *)
Theorem C06_canonical_unique :
  forall t t' rest rest', size_ok t = true -> size_ok t' = true ->
    encode t ++ rest = encode t' ++ rest' -> t = t' /\ rest = rest'.
Proof. exact canonical_prefix_free. Qed.
Print Assumptions C06_canonical_unique.

(* 6. Integer / address helpers. *)
Theorem C06_int_helpers :
  (forall n : N, DataInt (ToData (WrapInt n)) = Some n) /\
  (forall a : bytes, length a = 20%nat -> DataAddress (ToData (WrapAddress (Some a))) = Some a) /\
  (forall l, ToData (Lst l) = None).
Proof.
  split; [exact WrapInt_roundtrip|]. split; [exact WrapAddress_roundtrip|]. intros l; reflexivity.
Qed.
Print Assumptions C06_int_helpers.

(* non-vacuity: a nested tree with a 56-byte string meets the hypotheses *)
Example C06_nonvacuous :
  let t := Lst [Str (repeat x61 56); Lst [Str []; Str [x7f]; Str [x80]]] in
  size_ok t = true /\ len_ok t /\ Decode (encode t ++ [x01]) = Ok (Some t, 65%nat).
Proof. cbv zeta. split; [vm_compute; reflexivity|]. split; [apply size_ok_len_ok; vm_compute; reflexivity|]. vm_compute. reflexivity. Qed.
