(* C06 — RLP codec: canonical encoding, exact round trip, and total, in-bounds decoding.
   Statements only; proofs live in Rlp/Proofs.v. *)
From Coq Require Import List NArith Lia Bool Arith.
From Coq Require Import Init.Byte.
From FFS Require Import Base.Res Base.Bytes Rlp.Model Rlp.Spec Rlp.Proofs Rlp.Header.
Import ListNotations.

(* 1. Encoding any tree produces the canonical RLP of the Yellow Paper (only guard: every length
      fits 64 bits, which Go's int guarantees). *)
Theorem C06_encode_is_yellow_paper :
  forall t : item, len_ok t -> encode t = RLP (to_tree t).
Proof. exact encode_is_RLP. Qed.
Print Assumptions C06_encode_is_yellow_paper.

(* 2. Decoding that output returns the identical tree and the position just past it, also when
      other bytes follow.  [size_ok] is exactly the region the decoder accepts (payloads <= 2^31-1). *)
Theorem C06_decode_encode :
  forall (t : item) (rest : bytes), size_ok t = true ->
    Decode (encode t ++ rest) = Ok (Some t, length (encode t)).
Proof. exact decode_encode. Qed.
Print Assumptions C06_decode_encode.

(* 3. Decoding arbitrary bytes never panics (nor runs out of model fuel); a returned position lies
      within the input, the returned tree is within the accepted region and its canonical encoding
      is no longer than what was consumed. *)
Theorem C06_decode_total_in_bounds :
  forall bs : bytes,
    Decode bs <> Panic /\ Decode bs <> Err EOutOfFuel /\
    (forall t p, Decode bs = Ok (Some t, p) ->
       (p <= length bs)%nat /\ size_ok t = true /\ (length (encode t) <= p)%nat).
Proof. exact Decode_total_in_bounds. Qed.
Print Assumptions C06_decode_total_in_bounds.

(* 4. Re-encoding and re-decoding a decoded element is stable. *)
Theorem C06_redecode_stable :
  forall bs t p, Decode bs = Ok (Some t, p) ->
    Decode (encode t) = Ok (Some t, length (encode t)).
Proof. exact redecode_stable. Qed.
Print Assumptions C06_redecode_stable.

(* 5. Canonical encodings are prefix-free, so every canonical encoding is accepted (theorem 2) and
      decoded to the one tree any strict decoder can yield. *)
Theorem C06_canonical_unique :
  forall t t' rest rest', size_ok t = true -> size_ok t' = true ->
    encode t ++ rest = encode t' ++ rest' -> t = t' /\ rest = rest'.
Proof. exact canonical_prefix_free. Qed.
Print Assumptions C06_canonical_unique.

(* 6. Integer / address helpers. *)
Theorem C06_int_helpers :
  (forall n : N, DataInt (ToData (WrapInt n)) = Some n) /\
  (forall a : bytes, length a = 20%nat -> DataAddress (ToData (WrapAddress (Some a))) = Some a) /\
  (forall l, ToData (Lst l) = None).
Proof.
  split; [exact WrapInt_roundtrip|]. split; [exact WrapAddress_roundtrip|]. intros l; reflexivity.
Qed.
Print Assumptions C06_int_helpers.

(* non-vacuity: a nested tree with a 56-byte string meets the hypotheses *)
Example C06_nonvacuous :
  let t := Lst [Str (repeat x61 56); Lst [Str []; Str [x7f]; Str [x80]]] in
  size_ok t = true /\ len_ok t /\ Decode (encode t ++ [x01]) = Ok (Some t, 65%nat).
Proof. cbv zeta. split; [vm_compute; reflexivity|]. split; [apply size_ok_len_ok; vm_compute; reflexivity|]. vm_compute. reflexivity. Qed.

(* 7. The length-only header evaluator used by the correspondence run for payloads of 2^24 bytes and
      more (Rlp/Header.v) is the model and the Yellow Paper: for every payload that is not a single-byte
      string the model output is [enc_header_N (length) ++ payload] and the specified encoding is
      [spec_header_N (length) ++ payload]. *)
Theorem C06_header_evaluator :
  (forall inb il, (length inb <> 1%nat \/ il = true) ->
      encode_bytes inb il = enc_header_N (N.of_nat (length inb)) il ++ inb) /\
  (forall x, length x <> 1%nat -> R_b x = spec_header_N (len x) false ++ x) /\
  (forall s, R_l s = spec_header_N (len s) true ++ s).
Proof. exact header_evaluator_sound. Qed.
Print Assumptions C06_header_evaluator.

Example C06_header_nonvacuous :
  enc_header_N 16777216 false = [xbb; x01; x00; x00; x00] /\ spec_header_N 16777216 true = [xfb; x01; x00; x00; x00] /\
  enc_header_N 16777215 true = [xfa; xff; xff; xff] /\ enc_header_N 56 false = [xb8; x38] /\ enc_header_N 55 true = [xf7].
Proof. vm_compute. repeat split; reflexivity. Qed.

(* Tie of the hand-written constants of Rlp/Model.v to the source.  Gen/Consts.v is regenerated on
   every run by the translator harness/cmd/gen_consts from the `const` declarations of
   pkg/rlp/decode.go as they are NOW (go/ast + a constant-expression evaluator, e.g.
   maxInt32 = int64(int32(maxUint32 >> 1))).  The model keeps its own literals; this theorem is what
   breaks when a prefix byte, the 55-byte threshold or the length bound changes in the source (the
   correspondence run then supplies the concrete inputs on which model and code differ). *)
From Coq Require Import ZArith.
From FFS Require Gen.Consts.
Theorem C06_source_constants :
  Gen.Consts.rlp_shortString = Z.of_N Rlp.Model.shortString /\
  Gen.Consts.rlp_longString = Z.of_N Rlp.Model.longString /\
  Gen.Consts.rlp_shortList = Z.of_N Rlp.Model.shortList /\
  Gen.Consts.rlp_longList = Z.of_N Rlp.Model.longList /\
  Gen.Consts.rlp_shortToLong = Z.of_N Rlp.Model.shortToLong /\
  Gen.Consts.rlp_maxInt32 = Z.of_N Rlp.Model.maxInt32.
Proof. vm_compute. repeat split; reflexivity. Qed.
Print Assumptions C06_source_constants.

(* ===== Answers to the referee report (design/reviews/C06.md); proofs in Rlp/Strict.v ===== *)
From FFS Require Import Rlp.Strict.

(* 8. (I2) Acceptance of every canonical encoding, stated on the Yellow-Paper function itself and with a
      guard written on the specification side only ([tree_size_ok]: every byte array and every s(x) is at
      most 2^31-1 bytes): whatever follows, Decode returns the tree ([of_tree] is the inverse of
      [to_tree]) and the position just past the encoding. *)
Theorem C06_decode_canonical_spec :
  forall (tr : tree) (rest : bytes), tree_size_ok tr = true ->
    Decode (RLP tr ++ rest) = Ok (Some (of_tree tr), length (RLP tr)) /\ to_tree (of_tree tr) = tr.
Proof. exact Decode_canonical_spec. Qed.
Print Assumptions C06_decode_canonical_spec.

(* 9. (I2) The Yellow-Paper encoding is prefix-free on that region. *)
Theorem C06_RLP_prefix_free :
  forall tr tr' rest rest', tree_size_ok tr = true -> tree_size_ok tr' = true ->
    RLP tr ++ rest = RLP tr' ++ rest' -> tr = tr' /\ rest = rest'.
Proof. exact RLP_prefix_free. Qed.
Print Assumptions C06_RLP_prefix_free.

(* 10. (I2) "decoded to the tree a strict decoder yields".  [strict bs tr p] (Rlp/Strict.v) is a strict
       decoder as a relation over the specification alone: bs = RLP tr ++ rest and p = |RLP tr|.
       On every input a strict decoder accepts, the lenient Decode returns exactly the strict answer;
       the strict answer is unique; and strict accepts every canonical encoding with any suffix. *)
Theorem C06_strict_decoder_agrees :
  (forall bs tr p, tree_size_ok tr = true -> strict bs tr p ->
     Decode bs = Ok (Some (of_tree tr), p) /\ to_tree (of_tree tr) = tr) /\
  (forall bs tr tr' p p', tree_size_ok tr = true -> tree_size_ok tr' = true ->
     strict bs tr p -> strict bs tr' p' -> tr = tr' /\ p = p') /\
  (forall tr rest, strict (RLP tr ++ rest) tr (length (RLP tr))).
Proof. exact strict_decoder_agrees. Qed.
Print Assumptions C06_strict_decoder_agrees.

(* 11. (I3) The nil element is returned for the empty input only, and every outcome of Decode is one of:
       an error (not the model's fuel artefact) on a non-empty input; the nil element at position 0 on
       the empty input; an element of the accepted region with 1 <= position <= |input|. *)
Theorem C06_nil_element_only_for_empty_input :
  forall bs p, Decode bs = Ok (None, p) -> bs = [] /\ p = 0%nat.
Proof. exact Decode_nil_only_empty. Qed.
Print Assumptions C06_nil_element_only_for_empty_input.

Theorem C06_decode_outcomes :
  forall bs : bytes,
    (exists e, Decode bs = Err e /\ e <> EOutOfFuel /\ bs <> []) \/
    (Decode bs = Ok (None, 0%nat) /\ bs = []) \/
    (exists t p, Decode bs = Ok (Some t, p) /\ (1 <= p <= length bs)%nat /\ size_ok t = true /\
                 (length (encode t) <= p)%nat).
Proof. exact Decode_outcomes. Qed.
Print Assumptions C06_decode_outcomes.

(* 12. (I1) Theorems 1 and 2 with one guard on the specification's output alone: every tree whose
       Yellow-Paper encoding is at most 2^31-1 bytes long (the property quantifies to 2^24-byte strings)
       is encoded to it and decoded back from it, whatever follows. *)
Theorem C06_round_trip_by_encoding_length :
  forall (t : item) (rest : bytes),
    (N.of_nat (length (RLP (to_tree t))) <= 2147483647)%N ->
    encode t = RLP (to_tree t) /\
    Decode (RLP (to_tree t) ++ rest) = Ok (Some t, length (RLP (to_tree t))).
Proof. exact decode_encode_by_length. Qed.
Print Assumptions C06_round_trip_by_encoding_length.

(* 13. (V3, I2) The guards of theorems 1, 2, 5 (written with the model's [encode]) and the
       specification-side guard are the same predicate; [size_ok] implies [len_ok]; a bound on the
       encoding's length implies [size_ok]; [to_tree] is injective. *)
Theorem C06_guards_agree :
  (forall t, tree_size_ok (to_tree t) = size_ok t) /\
  (forall tr, size_ok (of_tree tr) = tree_size_ok tr) /\
  (forall t, size_ok t = true -> len_ok t) /\
  (forall t, (N.of_nat (length (encode t)) <= 2147483647)%N -> size_ok t = true) /\
  (forall t t', to_tree t = to_tree t' -> t = t').
Proof. exact guards_agree. Qed.
Print Assumptions C06_guards_agree.

(* (I4) non-vacuity of theorems 3/4/11 where they say more than theorem 2: a NON-canonical input is
   accepted (its element re-encodes to fewer bytes than were consumed), a non-canonical list likewise,
   and error inputs of each error class exist (so [<> Panic] is not "the model never fails"). *)
Example C06_noncanonical_accepted :
  Decode [xb8; x01; x05] = Ok (Some (Str [x05]), 3%nat) /\ encode (Str [x05]) = [x05] /\
  Decode (encode (Str [x05])) = Ok (Some (Str [x05]), 1%nat) /\
  Decode [xb8; x00] = Ok (Some (Str []), 2%nat) /\
  Decode [xc2; x81; x05; x07] = Ok (Some (Lst [Str [x05]]), 3%nat) /\
  Decode [xf8; x01; x80; xff] = Ok (Some (Lst [Str []]), 3%nat).
Proof. vm_compute. repeat split; reflexivity. Qed.

Example C06_error_inputs :
  Decode [xbf; x80; x00; x00; x00; x00; x00; x00; x00] = Err ETooMany /\
  Decode [xbf; xff; xff; xff; xff; xff; xff; xff; xff] = Err ETooMany /\
  Decode [xc1] = Err ELenShort /\ Decode [xb9; x01] = Err ELenLong /\
  Decode [xb8; x02; x05] = Err ELenData /\ Decode [xc2; x81] = Err ELenShort /\
  Decode [] = Ok (None, 0%nat).
Proof. vm_compute. repeat split; reflexivity. Qed.

(* the model CAN panic where a guard is missing: the slice the decoder takes, without its guard *)
Example C06_slice_can_panic : slice [x05] 0 2 = Panic /\ slice [x05] 1 0 = Panic.
Proof. vm_compute. split; reflexivity. Qed.

(* (I2) non-vacuity of theorems 8-10, 12: a nested specification tree with a 56-byte string is in the
   region, strict accepts its encoding followed by a byte, and Decode gives the strict answer *)
Example C06_strict_nonvacuous :
  let tr := L [B (repeat x61 56); L [B []; B [x7f]; B [x80]]] in
  tree_size_ok tr = true /\ strict (RLP tr ++ [x01]) tr 65%nat /\
  Decode (RLP tr ++ [x01]) = Ok (Some (of_tree tr), 65%nat) /\
  (N.of_nat (length (RLP (to_tree (of_tree tr)))) <= 2147483647)%N.
Proof.
  cbv zeta. split; [vm_compute; reflexivity|]. split; [exists [x01]; split; [reflexivity|vm_compute; reflexivity]|].
  split; [vm_compute; reflexivity|]. vm_compute. discriminate.
Qed.

(* 14. (I2, converse) WHICH accepted inputs are canonical: if Decode consumed exactly as many bytes as the
       canonical encoding of the element it returns, the consumed bytes ARE that encoding; in terms of the
       specification: an accepted input is accepted by the strict decoder (same tree, same position)
       exactly when p = |RLP tree|, and every other accepted input consumed strictly more bytes.
       Proofs in Rlp/Exact.v (a second loop invariant over decode_items). *)
From FFS Require Import Rlp.Exact.
Theorem C06_exact_consumption_is_canonical :
  forall bs t p, Decode bs = Ok (Some t, p) -> p = length (encode t) ->
    exists rest, bs = encode t ++ rest.
Proof. exact Decode_exact_is_canonical. Qed.
Print Assumptions C06_exact_consumption_is_canonical.

Theorem C06_lenient_vs_strict :
  forall bs t p, Decode bs = Ok (Some t, p) ->
    (p = length (RLP (to_tree t)) <-> strict bs (to_tree t) p) /\
    ((length (RLP (to_tree t)) < p)%nat <-> ~ strict bs (to_tree t) p).
Proof. exact Decode_canonical_iff. Qed.
Print Assumptions C06_lenient_vs_strict.

(* non-vacuity of 14: both sides occur - a canonical input with trailing bytes (p = |RLP|), and the
   non-canonical b8 01 05 (p = 3 > 1 = |RLP|) *)
Example C06_lenient_vs_strict_nonvacuous :
  Decode [x82; x05; x06; xff] = Ok (Some (Str [x05; x06]), 3%nat) /\
  length (RLP (to_tree (Str [x05; x06]))) = 3%nat /\
  Decode [xb8; x01; x05] = Ok (Some (Str [x05]), 3%nat) /\ length (RLP (to_tree (Str [x05]))) = 1%nat.
Proof. vm_compute. repeat split; reflexivity. Qed.

(* 15. (I6; outside the property text) WrapInt on a SIGNED argument: Go's WrapInt (argument: pointer to big.Int) stores
       big.Int.Bytes(), the magnitude, so the sign is dropped - Int() gives |z| back; it gives z back exactly
       for z >= 0 (theorem 6 is the N-instance).  The harness runs negative arguments against this model
       (case kind helper/WrapInt-negative). *)
Theorem C06_wrapint_sign_is_dropped :
  (forall z : Z, DataInt (ToData (WrapIntZ z)) = Some (Z.abs_N z)) /\
  (forall z : Z, (0 <= z)%Z -> DataInt (ToData (WrapIntZ z)) = Some (Z.to_N z)) /\
  (forall z : Z, WrapIntZ (- z) = WrapIntZ z) /\
  (forall n : N, WrapIntZ (Z.of_N n) = WrapInt n).
Proof. exact WrapIntZ_sign_dropped. Qed.
Print Assumptions C06_wrapint_sign_is_dropped.

Example C06_wrapint_negative : WrapIntZ (-256) = Str [x01; x00] /\ DataInt (ToData (WrapIntZ (-256))) = Some 256%N.
Proof. vm_compute. split; reflexivity. Qed.

(* ===== Wave 6: the accepted language as a grammar (proofs in Rlp/Grammar.v) ===== *)
From FFS Require Import Rlp.Grammar.

(* 16. The language of the lenient decoder.  [elem w x] / [elems w l] (Rlp/Grammar.v) is an inductive grammar over
       the wire bytes, written without the decode loop: single byte < 0x80; 0x80+n (n <= 55) followed by n bytes;
       0xb7+k (1 <= k <= 8) followed by k length bytes of ANY form (leading zeros allowed, long form allowed
       below 56) whose big-endian value is the number of payload bytes and is at most 2^31-1; the same two
       list forms, whose payload must be, in full, a sequence of elements.  [accepts bs t p]: some prefix w of
       bs with |w| = p is a wire form of t.  For EVERY byte string, without any guard:
       Decode returns (t, p) exactly when the grammar accepts; Decode returns an error exactly when the input
       is non-empty and the grammar accepts no prefix; and the grammar is unambiguous and prefix-free. *)
Theorem C06_accepted_language :
  (forall bs t p, Decode bs = Ok (Some t, p) <-> accepts bs t p) /\
  (forall bs, (exists e, Decode bs = Err e) <-> (bs <> [] /\ forall t p, ~ accepts bs t p)) /\
  (forall w t r w' t' r', elem w t -> elem w' t' -> w ++ r = w' ++ r' -> w = w' /\ t = t' /\ r = r').
Proof. exact grammar_theorems. Qed.
Print Assumptions C06_accepted_language.

(* 17. The canonical encoding inside that language: it is one of the wire forms of its tree (on the region the
       decoder accepts; model encoder and Yellow-Paper function), every wire form of t is at least as long, and a
       wire form of the canonical length IS the canonical encoding; every wire form denotes a tree of the region. *)
Theorem C06_grammar_vs_canonical :
  (forall t, size_ok t = true -> elem (encode t) t) /\
  (forall tr, tree_size_ok tr = true -> elem (RLP tr) (of_tree tr)) /\
  (forall w t, elem w t ->
     size_ok t = true /\ (length (encode t) <= length w)%nat /\ (length (encode t) = length w -> w = encode t)).
Proof. exact grammar_vs_canonical. Qed.
Print Assumptions C06_grammar_vs_canonical.

(* non-vacuity of 16/17: non-canonical wire forms derived by the grammar's constructors alone (long form below
   56 bytes; leading-zero length bytes; 81 05 inside a list; long-form list), a canonical one, an input with a
   trailing byte, and an input no prefix of which is a wire form *)
Ltac side := first [ cbn [length]; lia | vm_compute; reflexivity | vm_compute; discriminate ].
Example C06_grammar_nonvacuous :
  elem [xb8; x01; x05] (Str [x05]) /\ elem [xb9; x00; x01; x05] (Str [x05]) /\ elem [x05] (Str [x05]) /\
  elem [xc2; x81; x05] (Lst [Str [x05]]) /\ elem [xf8; x01; x80] (Lst [Str []]) /\
  accepts [xb8; x01; x05; xff] (Str [x05]) 3%nat /\
  (forall t p, ~ accepts [xb8; x02; x05] t p) /\ (forall t p, ~ accepts [xc3; x82; x05] t p).
Proof.
  split; [apply (E_str_long xb8 [x01] [x05]); side|].
  split; [apply (E_str_long xb9 [x00; x01] [x05]); side|].
  split; [apply E_byte; side|].
  split; [apply (E_lst_short xc2 [x81; x05] [Str [x05]]); try side;
          apply (Es_cons [x81; x05] (Str [x05]) [] []); [apply (E_str_short x81 [x05]); side | apply Es_nil]|].
  split; [apply (E_lst_long xf8 [x01] [x80] [Str []]); try side;
          apply (Es_cons [x80] (Str []) [] []); [apply (E_str_short x80 []); side | apply Es_nil]|].
  split; [exists [xb8; x01; x05], [xff]; split; [reflexivity|]; split; [apply (E_str_long xb8 [x01] [x05]); side | reflexivity]|].
  split; intros t p H; apply (proj2 (proj1 C06_accepted_language _ _ _)) in H; vm_compute in H; discriminate.
Qed.

(* 18. The canonical RLP as a sub-grammar of the accepted language.  [celem] (Rlp/Canon.v) is [elem] with three more
       side conditions and nothing else: (a) 81 xx requires xx >= 0x80, (b) the long form requires more than 55
       payload bytes, (c) the length bytes do not start with a zero byte.  Its sentences are exactly the canonical
       encodings of the trees of the accepted region; hence an accepted input that is not canonical uses one of
       the three relaxations somewhere. *)
From FFS Require Import Rlp.Canon.
Theorem C06_canonical_subgrammar :
  (forall w t, celem w t <-> (size_ok t = true /\ w = encode t)) /\
  (forall w t, celem w t -> elem w t).
Proof. exact canonical_subgrammar. Qed.
Print Assumptions C06_canonical_subgrammar.

(* non-vacuity of 18: a canonical nested list is derivable; the three non-canonical forms of theorem 16's Example
   are wire forms (there) but not sentences of the sub-grammar *)
Example C06_canonical_subgrammar_nonvacuous :
  celem [xc3; x81; x80; x05] (Lst [Str [x80]; Str [x05]]) /\
  ~ celem [xb8; x01; x05] (Str [x05]) /\ ~ celem [xb9; x00; x01; x05] (Str [x05]) /\
  ~ celem [xc2; x81; x05] (Lst [Str [x05]]).
Proof.
  split; [apply (proj2 (proj1 C06_canonical_subgrammar _ _)); split; vm_compute; reflexivity|].
  repeat split; intros H; apply (proj1 (proj1 C06_canonical_subgrammar _ _)) in H; destruct H as [_ H]; vm_compute in H; discriminate.
Qed.
